(** C13 -- lemmas, part m: the FULL invariant [WFheap] (upward half + sibling chains) for the composite operations
    splitText, normalize, cloneNode, renameNode, setAttribute, removeAttribute and setNodeValue on an Attr.  They are
    compositions of the primitives proved in part j (alloc, removeChild, insertBefore, link-free updates, release);
    the lemmas here thread the invariant through the loops of the model (induction over the fuel / the child list). *)
From Coq Require Import NArith List Bool Arith Lia.
From XV Require Import Base.XDefs Gen.GenKidOK C13.Ops13 C13.Spec13 C13.Model13 C13.Abs13 C13.Proofs13b C13.Proofs13c
  C13.Proofs13d C13.Proofs13f C13.Proofs13g C13.Proofs13h C13.Proofs13i C13.Proofs13j.
Import ListNotations.

Ltac wsame := intros [= <- _]; assumption.
Ltac same := intros [= <- _]; apply GW_of; apply WF_self; assumption.
Ltac splitw := match goal with |- (if ?b then _ else _) = _ -> _ => destruct b eqn:Ev; [|same] end.

Lemma parent_lt : forall n h c p, WF n h -> parent h c = Some p -> p < n.
Proof.
  intros n h c p [[Wu _] L] Hp. destruct (parent_owned _ _ _ Hp) as [_ [_ Hl]].
  destruct Wu as [V _ _ _]. rewrite <- L. apply (V c p Hl). rewrite vparent_uv. exact Hp.
Qed.

(** removeChild needs no bound on [this]: it only succeeds when [this] is the parent of a node of the heap *)
Lemma WF_p_remove' : forall n h this old h' r, WF n h -> p_remove h this old = (h', r) -> WF n h'.
Proof.
  intros n h this old h' r P E.
  destruct (Nat.lt_ge_cases this n) as [Ht|Ht]; [eapply WF_p_remove; eassumption|].
  revert E. unfold p_remove. destruct (n_ro _); [wsame|].
  destruct (oid_eqb (parent h old) (Some this)) eqn:Ep; cbn [negb]; [|wsame].
  apply oid_eqb_eq in Ep. pose proof (parent_lt _ _ _ _ P Ep). lia.
Qed.

Lemma WF_v_remove' : forall n h this old h' r, WF n h -> v_remove h this old = (h', r) -> WF n h'.
Proof.
  intros n h this old h' r P. unfold v_remove.
  destruct (n_ty (nd h this)); try wsame; try (apply WF_p_remove'; assumption).
  destruct (p_remove h this old) as [h1 r1] eqn:E. pose proof (WF_p_remove' _ _ _ _ _ _ P E) as P1.
  destruct (is_err r1); [wsame|].
  destruct (n_ty (nd h1 old)); intros [= <- _]; try assumption. apply WF_upd_pres; auto with upres.
Qed.

(** ------------------------------------------------------------ splitText *)
Lemma WFS_split : forall h n off h' r, WFheap h -> n < length h -> n_ty (nd h n) <> TDoc ->
  split_text cfg_fixed h n off = (h', r) -> GW h h'.
Proof.
  intros h n off h' r W Hn T. unfold split_text, alloc, v_insert.
  destruct (n_ro _); [same|]. destruct (N.ltb _ _); [same|].
  destruct (pub_odoc h n) as [doc|]; [|same].
  set (x := fresh _ _ _ _ _). set (h1 := h ++ [x]).
  assert (P1 : WF (S (length h)) h1).
  { subst h1 x. apply WF_alloc; [apply WF_self; exact W|reflexivity|exact T|reflexivity|reflexivity|reflexivity|reflexivity]. }
  destruct (parent h1 n) as [p|] eqn:Ep.
  - pose proof (parent_lt _ _ _ _ P1 Ep) as Hp.
    destruct (ins ins_fuel cfg_fixed h1 p (length h) (next_sib h1 n)) as [h2 r2] eqn:E2.
    pose proof (WF_ins _ _ _ _ _ _ _ _ P1 Hp (Nat.lt_succ_diag_r _) E2) as P2.
    destruct (is_err r2); [same|]. intros [= <- _].
    destruct (WF_upd_pres _ h2 n (set_val (firstn (N.to_nat off) (n_val (nd h n)))) ltac:(auto with upres) ltac:(auto with upres) P2) as [W2 L2].
    split; [exact W2|lia].
  - cbn [is_err]. intros [= <- _].
    destruct (WF_upd_pres _ h1 n (set_val (firstn (N.to_nat off) (n_val (nd h n)))) ltac:(auto with upres) ltac:(auto with upres) P1) as [W2 L2].
    split; [exact W2|lia].
Qed.

(** ------------------------------------------------------------ normalize *)
Lemma WF_norm : forall n fuel cf h this kid h' r, WF n h -> norm fuel cf h this kid = (h', r) -> WF n h'.
Proof.
  induction fuel as [|fuel IH]; intros cf h this kid h' r P; cbn [norm]; [wsame|].
  destruct kid as [k|]; [|wsame].
  assert (Elem : forall nx, (if ntype_eqb (n_ty (nd h k)) TElem
            then let (h1, r1) := norm fuel cf h k (n_first (nd h k)) in if is_err r1 then (h1, r1) else norm fuel cf h1 this nx
            else norm fuel cf h this nx) = (h', r) -> WF n h').
  { intros nx. destruct (ntype_eqb (n_ty (nd h k)) TElem); [|apply IH; assumption].
    destruct (norm fuel cf h k (n_first (nd h k))) as [h1 r1] eqn:E1. pose proof (IH _ _ _ _ _ _ P E1) as P1.
    destruct (is_err r1); [wsame|]. apply IH; assumption. }
  assert (Empty : forall nx, (let (h1, r1) := p_remove h this k in if is_err r1 then (h1, r1) else norm fuel cf h1 this nx) = (h', r) -> WF n h').
  { intros nx. destruct (p_remove h this k) as [h1 r1] eqn:E1. pose proof (WF_p_remove' _ _ _ _ _ _ P E1) as P1.
    destruct (is_err r1); [wsame|]. apply IH; assumption. }
  destruct (n_next (nd h k)) as [nx|].
  2:{ destruct (_ && _ && _); [apply Empty|apply Elem]. }
  destruct (ntype_eqb (n_ty (nd h k)) TText && ntype_eqb (n_ty (nd h nx)) TText).
  2:{ destruct (_ && _ && _); [apply Empty|apply Elem]. }
  destruct (cd_append h k (n_val (nd h nx))) as [h1 r1] eqn:E1.
  assert (P1 : WF n h1).
  { revert E1. unfold cd_append. destruct (n_ro _); [wsame|]. intros [= <- _]. apply WF_upd_pres; auto with upres. }
  destruct (is_err r1); [wsame|].
  destruct (p_remove h1 this nx) as [h2 r2] eqn:E2. pose proof (WF_p_remove' _ _ _ _ _ _ P1 E2) as P2.
  destruct (is_err r2); [wsame|]. apply IH; assumption.
Qed.

(** ------------------------------------------------------------ cloneNode *)
(** what a clone call guarantees: the invariant, a heap that only grew, and a result node inside the heap *)
Definition CL (h h' : heap) (r : result) : Prop :=
  WFheap h' /\ length h <= length h' /\ (forall i, r = RNode i -> i < length h').

Lemma WFC_clone_kids : forall k clonef h c kid h' r,
  (forall h0 m h1 r1, WFheap h0 -> clonef h0 m = (h1, r1) -> CL h0 h1 r1) ->
  WFheap h -> c < length h -> clone_kids k clonef cfg_fixed h c kid = (h', r) -> GW h h'.
Proof.
  induction k as [|k IH]; intros clonef h c kid h' r Hc W Hl; cbn [clone_kids]; [same|].
  destruct kid as [m|]; [|same].
  destruct (clonef h m) as [h2 r2] eqn:E2. pose proof (Hc _ _ _ _ W E2) as [W2 [L2 I2]].
  destruct r2; try (intros [= <- _]; split; assumption).
  destruct (ins ins_fuel cfg_fixed h2 c i None) as [h3 r3] eqn:E3.
  assert (Hc2 : c < length h2) by lia.
  pose proof (WF_ins _ _ _ _ _ _ _ _ (WF_self _ W2) Hc2 (I2 i eq_refl) E3) as [W3 L3].
  destruct (is_err r3); [intros [= <- _]; split; [assumption|lia]|]. intros E4.
  assert (Hc3 : c < length h3) by lia.
  destruct (IH _ _ _ _ _ _ Hc W3 Hc3 E4). split; [assumption|lia].
Qed.

Lemma WFC_clone_attrs : forall clonef l h c h' r,
  (forall h0 m h1 r1, WFheap h0 -> clonef h0 m = (h1, r1) -> CL h0 h1 r1) ->
  WFheap h -> clone_attrs clonef h c l = (h', r) -> GW h h'.
Proof.
  induction l as [|a l IH]; intros h c h' r Hc W; cbn [clone_attrs]; [same|].
  destruct (clonef h a) as [h2 r2] eqn:E2. pose proof (Hc _ _ _ _ W E2) as [W2 [L2 _]].
  destruct r2; try (intros [= <- _]; split; assumption).
  intros E.
  assert (P4 : WF (length h2) (upd (upd h2 i (set_oelem (Some c))) c (set_attrs (n_attrs (nd h2 c) ++ [i])))).
  { apply WF_upd_pres; auto with upres. apply WF_upd_pres; auto with upres. apply WF_self; assumption. }
  destruct P4 as [W4 L4]. destruct (IH _ _ _ _ Hc W4 E). split; [assumption|lia].
Qed.

Lemma clone_shallow_links : forall h n,
  n_first (clone_shallow cfg_fixed h n) = None /\ n_next (clone_shallow cfg_fixed h n) = None /\
  n_prev (clone_shallow cfg_fixed h n) = None /\ n_isfirst (clone_shallow cfg_fixed h n) = false.
Proof. intros h n. unfold clone_shallow. destruct (n_ty (nd h n)); cbn; repeat split; reflexivity. Qed.

Lemma WFC_clone : forall fuel h n deep h' r, WFheap h -> clone fuel cfg_fixed h n deep = (h', r) -> CL h h' r.
Proof.
  induction fuel as [|fuel IH]; intros h n deep h' r W; cbn [clone].
  { intros [= <- <-]. split; [assumption|split; [lia|discriminate]]. }
  destruct (ntype_eqb (n_ty (nd h n)) TDoc) eqn:ET.
  { intros [= <- <-]. split; [assumption|split; [lia|discriminate]]. }
  assert (T : n_ty (nd h n) <> TDoc) by (intros E; rewrite E in ET; discriminate).
  unfold alloc.
  destruct (clone_shallow_ok h n T) as [So St].
  destruct (clone_shallow_links h n) as [S1 [S2 [S3 S4]]].
  pose proof (WF_alloc (length h) h _ (WF_self _ W) So St S1 S2 S3 S4) as P0.
  set (hA := if ntype_eqb (n_ty (nd h n)) TAttr && n_isid (nd h n) then id_add (h ++ [clone_shallow cfg_fixed h n]) (length h)
             else h ++ [clone_shallow cfg_fixed h n]).
  assert (PA : WF (S (length h)) hA).
  { subst hA. destruct (_ && _); [apply WF_id_add|]; exact P0. }
  clearbody hA.
  match goal with |- context [is_err (snd ?R)] => remember R as res eqn:Eres end.
  assert (Gres : WFheap (fst res) /\ S (length h) <= length (fst res) /\ (is_err (snd res) = false -> snd res = RNode (length h))).
  { destruct res as [hr rr]. symmetry in Eres. cbn [fst snd]. revert Eres.
    destruct (_ && negb (is_leaf (n_ty (nd h n)))).
    2:{ intros [= <- <-]. destruct PA as [WA LA]. split; [assumption|split; [lia|reflexivity]]. }
    match goal with |- context [clone_kids _ _ _ ?X _ _] => set (h1 := X) end.
    assert (P1 : WF (S (length h)) h1).
    { subst h1. destruct (n_ty (nd h n)); try exact PA. apply WF_upd_pres; auto with upres. }
    destruct (clone_kids _ _ _ h1 _ _) as [h4 r4] eqn:E4.
    destruct P1 as [W1 L1].
    assert (G4 : GW h1 h4).
    { eapply WFC_clone_kids; [|exact W1| |exact E4]; [|lia].
      intros h0 m h2 r2 Wm E0. cbv beta in E0. eapply IH; eassumption. }
    destruct G4 as [W4 L4].
    destruct (is_err r4) eqn:Er4.
    { intros [= <- <-]. split; [assumption|split; [lia|]]. intros Hx. congruence. }
    assert (P4r : WF (length h4) (upd h4 (length h) (set_ro true))).
    { apply WF_upd_pres; auto with upres. split; [assumption|reflexivity]. }
    destruct P4r as [W4r L4r].
    destruct (n_ty (nd h n)); intros [= <- <-]; (split; [|split; [|reflexivity]]); try assumption; lia. }
  destruct Gres as [Wr [Lr Rr]]. clear Eres.
  assert (Fin : res = (h', r) -> CL h h' r).
  { intros E; rewrite E in *; cbn [fst snd] in *. split; [assumption|split; [lia|]].
    intros i Hi. subst r. specialize (Rr eq_refl). injection Rr as ->. lia. }
  destruct (n_ty (nd h n)); try exact Fin.
  destruct (is_err (snd res)) eqn:Eres2; [exact Fin|].
  destruct (clone_attrs _ (fst res) (length h) _) as [h5 r5] eqn:E5.
  assert (G5 : GW (fst res) h5).
  { eapply WFC_clone_attrs; [|exact Wr|exact E5]. intros h0 m h2 r2 Wm E0. cbv beta in E0. eapply IH; eassumption. }
  destruct G5 as [W5 L5]. destruct (is_err r5) eqn:Er5; intros [= <- <-]; (split; [assumption|split; [lia|]]).
  - intros i Hi. subst r5. discriminate.
  - intros i [= <-]. lia.
Qed.

(** ------------------------------------------------------------ renameNode *)
Lemma WF_rename_move : forall n k h old new h' r, WF n h -> new < n -> rename_move k cfg_fixed h old new = (h', r) -> WF n h'.
Proof.
  induction k as [|k IH]; intros h old new h' r P Hn; cbn [rename_move]; [wsame|].
  destruct (n_first (nd h old)) as [i|] eqn:Ef; [|wsame].
  assert (Hi : i < n). { destruct P as [[_ [ks Ws]] L]. rewrite <- L. eapply first_valid; eauto. }
  destruct (p_remove h old i) as [h1 r1] eqn:E1. pose proof (WF_p_remove' _ _ _ _ _ _ P E1) as P1.
  destruct (is_err r1); [wsame|].
  destruct (ins ins_fuel cfg_fixed h1 new i None) as [h2 r2] eqn:E2.
  pose proof (WF_ins _ _ _ _ _ _ _ _ P1 Hn Hi E2) as P2.
  destruct (is_err r2); [wsame|]. apply IH; assumption.
Qed.

Lemma WF_fold_oelem : forall n v l h, WF n h -> WF n (fold_left (fun h0 a => upd h0 a (set_oelem v)) l h).
Proof. induction l as [|a l IH]; intros h P; cbn [fold_left]; [exact P|]. apply IH. apply WF_upd_pres; auto with upres. Qed.

Lemma WFR_rename_core : forall h d n ns nm h' r, WFheap h -> rename_core cfg_fixed h d n ns nm = (h', r) -> GW h h'.
Proof.
  intros h d n ns nm h' r W. unfold rename_core, alloc, v_insert.
  destruct (negb (oid_eqb _ _)); [same|].
  destruct (negb (_ || _)) eqn:ET; [same|].
  destruct (n_nsimpl (nd h n)).
  { assert (P1 : WF (length h) (upd h n (set_name nm))) by (apply WF_upd_pres; auto with upres; apply WF_self; assumption).
    destruct (ns_bind _ ns nm); intros [= <- _]; apply GW_of; [|exact P1].
    apply WF_upd_pres; auto with upres. }
  destruct ns as [|c ns]; [intros [= <- _]; apply GW_of; apply WF_upd_pres; auto with upres; apply WF_self; assumption|].
  destruct (negb (valid_name nm)); [same|].
  destruct (ns_bind _ _ nm) as [uri|]; [|same].
  set (x := mkNode _ nm _ _ _ _ _ _ _ _ _ _ _ _ _ _ _ _ _ _ _ _). set (h0 := h ++ [x]).
  assert (Tx : n_ty (nd h n) <> TDoc).
  { intros T. rewrite T in ET. discriminate. }
  assert (P0 : WF (S (length h)) h0).
  { subst h0 x. apply WF_alloc; [apply WF_self; exact W|reflexivity|exact Tx|reflexivity|reflexivity|reflexivity|reflexivity]. }
  match goal with |- context [parent ?H n] => set (h1 := H) end.
  assert (P1 : WF (S (length h)) h1).
  { subst h1. repeat (apply WF_upd_pres; [auto with upres|auto with upres|]). exact P0. }
  set (par := if ntype_eqb (n_ty (nd h n)) TAttr then None else parent h1 n).
  destruct par as [p|] eqn:Ep.
  - assert (Hp : p < S (length h)).
    { subst par. destruct (ntype_eqb _ TAttr); [discriminate|]. eapply parent_lt; eassumption. }
    destruct (v_remove h1 p n) as [h2 r2] eqn:E2. pose proof (WF_v_remove' _ _ _ _ _ _ P1 E2) as P2.
    destruct (is_err r2); [intros [= <- _]; destruct P2; split; [assumption|lia]|].
    destruct (rename_move _ _ h2 n (length h)) as [h3 r3] eqn:E3.
    pose proof (WF_rename_move _ _ _ _ _ _ _ P2 (Nat.lt_succ_diag_r _) E3) as P3.
    destruct (is_err r3); [intros [= <- _]; destruct P3; split; [assumption|lia]|].
    destruct (ins ins_fuel cfg_fixed h3 p (length h) (next_sib h1 n)) as [h4 r4] eqn:E4.
    pose proof (WF_ins _ _ _ _ _ _ _ _ P3 Hp (Nat.lt_succ_diag_r _) E4) as P4.
    destruct (is_err r4); intros [= <- _]; [destruct P4; split; [assumption|lia]|].
    match goal with |- GW _ ?H => assert (P6 : WF (S (length h)) H) end.
    { apply WF_upd_pres; auto with upres. apply WF_upd_pres; auto with upres. apply WF_fold_oelem. exact P4. }
    destruct P6; split; [assumption|lia].
  - cbn [is_err].
    destruct (rename_move _ _ h1 n (length h)) as [h3 r3] eqn:E3.
    pose proof (WF_rename_move _ _ _ _ _ _ _ P1 (Nat.lt_succ_diag_r _) E3) as P3.
    destruct (is_err r3); [intros [= <- _]; destruct P3; split; [assumption|lia]|]. cbn [is_err].
    intros [= <- _].
    match goal with |- GW _ ?H => assert (P6 : WF (S (length h)) H) end.
    { apply WF_upd_pres; auto with upres. apply WF_upd_pres; auto with upres. apply WF_fold_oelem. exact P3. }
    destruct P6; split; [assumption|lia].
Qed.

Lemma WF_amap_set : forall n h e a h' r, WF n h -> amap_set cfg_fixed h e a = (h', r) -> WF n h'.
Proof.
  intros n h e a h' r P. unfold amap_set. change (fix_setattr_id cfg_fixed) with true. cbv iota.
  destruct (negb (oid_eqb _ _)); [wsame|]. destruct (n_ro (nd h e)); [wsame|].
  destruct (match n_oelem (nd h a) with Some o => _ | None => false end); [wsame|].
  assert (P1 : WF n (upd h a (set_oelem (Some e)))) by (apply WF_upd_pres; auto with upres).
  match goal with |- context [upd ?H e (set_attrs ?L)] =>
    assert (P2 : WF n (upd H e (set_attrs L))) by (apply WF_upd_pres; auto with upres) end.
  destruct (amap_find _ _ _) as [p|]; [|intros [= <- _]; exact P2].
  destruct (Nat.eqb p a); intros [= <- _]; [exact P2|]. apply WF_attr_id_off. apply WF_upd_pres; auto with upres.
Qed.

Lemma WF_remove_attr_node : forall n h e a h' r, WF n h -> remove_attribute_node h e a = (h', r) -> WF n h'.
Proof.
  intros n h e a h' r P. unfold remove_attribute_node. destruct (n_ro _); [wsame|].
  destruct (if n_nsimpl (nd h a) then _ else _) as [f|]; [|wsame].
  destruct (Nat.eqb f a); [|wsame]. intros [= <- _]. apply WF_attr_id_off.
  apply WF_upd_pres; auto with upres. apply WF_upd_pres; auto with upres.
Qed.

Lemma WFR_rename : forall h d n ns nm h' r, WFheap h -> rename_node cfg_fixed h d n ns nm = (h', r) -> GW h h'.
Proof.
  intros h d n ns nm h' r W. unfold rename_node. destruct (negb (oid_eqb _ _)); [same|].
  destruct (_ && _ && _); [same|].
  destruct (if ntype_eqb _ TAttr then _ else None) as [el|]; [|apply WFR_rename_core; assumption].
  destruct (remove_attribute_node h el n) as [h1 r1] eqn:E1.
  pose proof (WF_remove_attr_node _ _ _ _ _ _ (WF_self _ W) E1) as [W1 L1].
  destruct (is_err r1); [intros [= <- _]; split; [assumption|lia]|].
  destruct (rename_core cfg_fixed h1 d n ns nm) as [h2 r2] eqn:E2. pose proof (WFR_rename_core _ _ _ _ _ _ _ W1 E2) as [W2 L2].
  destruct r2; try (intros [= <- _]; split; [assumption|lia]).
  destruct (set_attribute_node cfg_fixed h2 el i) as [h3 r3] eqn:E3.
  assert (P3 : WF (length h2) h3).
  { revert E3. unfold set_attribute_node. destruct (n_ro _); [intros [= <- _]; apply WF_self; assumption|].
    apply WF_amap_set. apply WF_self; assumption. }
  cbn [fst]. intros [= <- _]. destruct P3. split; [assumption|lia].
Qed.

(** ------------------------------------------------------------ the value of an attribute: setValue / setAttribute *)
(** the walk to the root from a node of [h] never meets a node allocated afterwards *)
Lemma srooted_fresh : forall h x k c, (forall c p, c < length h -> parent h c = Some p -> p < length h) -> c < length h ->
  rooted (uv h) c k = true -> srooted (uv (h ++ [x])) (length h) c k = true.
Proof.
  intros h x. induction k as [|k IH]; intros c V Hc; cbn [rooted srooted]; [discriminate|].
  assert (Ev : vparent (uv (h ++ [x])) c = vparent (uv h) c).
  { unfold vparent, uv, nd. rewrite app_nth1 by assumption. reflexivity. }
  rewrite Ev. destruct (Nat.eqb_spec c (length h)); [lia|]. cbn [negb andb].
  destruct (vparent (uv h) c) as [p|] eqn:Ep; [|reflexivity]. intros Hr. apply IH; [assumption| |assumption].
  apply (V c p Hc). rewrite <- vparent_uv. exact Ep.
Qed.

(** removing the first child through the link primitive (the loop of DOMAttrImpl::setValue) *)
Lemma WF_drop_kids : forall n k h a, WF n h -> WF n (drop_kids k h a).
Proof.
  induction k as [|k IH]; intros h a P; cbn [drop_kids]; [exact P|].
  destruct (n_first (nd h a)) as [c|] eqn:Ef; [|exact P].
  apply IH. apply WF_kill.
  destruct (PW_link_remove n h a c (WF_PW _ _ P)) as [Wu' L'].
  destruct P as [[Wu [ks Ws]] L]. split; [|exact L']. split; [exact Wu'|].
  assert (Ha : a < length h).
  { destruct (Nat.lt_ge_cases a (length h)) as [|Hge]; [assumption|]. unfold nd in Ef. rewrite nth_overflow in Ef by assumption. discriminate. }
  pose proof (s_sibs _ _ Ws a Ha) as Hs. destruct (ks a) as [|f rr] eqn:Ek.
  { cbn in Hs. unfold fv in Hs. congruence. }
  assert (f = c) by (destruct Hs as [Hs _]; unfold fv in Hs; congruence). subst f.
  assert (Hin : In c (ks a)) by (rewrite Ek; left; reflexivity).
  destruct (WFsib_member _ _ _ _ Ws Hin) as [Hw Ho]. destruct (s_valid _ _ Ws a c Hin) as [Hc _].
  eexists. apply WFsib_link_remove; try eassumption.
Qed.

Lemma WFA_attr_set_value : forall h a v h' r, WFheap h -> a < length h -> attr_set_value h a v = (h', r) -> GW h h'.
Proof.
  intros h a v h' r W Ha. unfold attr_set_value, alloc.
  destruct (n_ro _); [same|].
  set (h0 := if n_isid (nd h a) then id_remove h a else h).
  assert (P0 : WF (length h) h0) by (subst h0; destruct (n_isid _); [apply WF_id_remove|]; apply WF_self; assumption).
  set (h1 := drop_kids (S (length h0)) h0 a).
  assert (P1 : WF (length h) h1) by (subst h1; apply WF_drop_kids; exact P0).
  clearbody h1.
  set (x := fresh _ _ _ _ _).
  assert (P2 : WF (S (length h)) (h1 ++ [x])).
  { subst x. apply WF_alloc; [exact P1|reflexivity|discriminate|reflexivity|reflexivity|reflexivity|reflexivity]. }
  assert (P3 : WF (S (length h)) (link_insert (h1 ++ [x]) a (length h1) None)).
  { destruct P1 as [[Wu1 [ks1 Ws1]] L1]. destruct P2 as [[Wu2 [ks2 Ws2]] L2].
    assert (Nn : nd (h1 ++ [x]) (length h1) = x) by (unfold nd; apply nth_middle).
    destruct Wu1 as [V1 A1 _ _]. assert (Ha1 : a < length h1) by (rewrite L1; exact Ha). destruct (A1 a Ha1) as [k Hk].
    assert (Hs : srooted (uv (h1 ++ [x])) (length h1) a k = true).
    { apply srooted_fresh; [|lia|exact Hk]. intros c p Hc Hp. apply (V1 c p Hc). rewrite vparent_uv. exact Hp. }
    assert (PWi : PW (S (length h)) (link_insert (h1 ++ [x]) a (length h1) None)).
    { eapply PW_link_insert; [split; [exact Wu2|exact L2]|lia|exact Hs| |]; rewrite Nn; subst x; cbn; intros; discriminate. }
    destruct PWi as [Wu3 L3]. split; [|exact L3]. split; [exact Wu3|]. eexists.
    apply WFsib_link_insert; [exact Ws2|rewrite L2; lia|rewrite L2; lia|lia|rewrite Nn; reflexivity|intros r0 Hr0; discriminate Hr0]. }
  intros [= <- _]. destruct (n_isid (nd h a)).
  - destruct (WF_id_add _ _ a P3) as [W4 L4]. split; [exact W4|lia].
  - destruct P3 as [W4 L4]. split; [exact W4|lia].
Qed.

Lemma amap_find_name : forall h l nm a, amap_find h l nm = Some a -> str_eqb nm (n_name (nd h a)) = true.
Proof.
  induction l as [|b l IH]; intros nm a; cbn [amap_find]; [discriminate|].
  destruct (str_eqb nm (n_name (nd h b))) eqn:E; [intros [= <-]; exact E|apply IH].
Qed.

(** setAttribute with a non-empty name (an empty name is refused by createAttribute; it could only "find" a node
    outside the heap) *)
Lemma WFA_set_attribute : forall h e nm v h' r, WFheap h -> nm <> [] -> set_attribute cfg_fixed h e nm v = (h', r) -> GW h h'.
Proof.
  intros h e nm v h' r W Hnm. unfold set_attribute, alloc. destruct (n_ro _); [same|].
  destruct (amap_find h (n_attrs (nd h e)) nm) as [a|] eqn:Ef.
  - apply WFA_attr_set_value; [assumption|].
    destruct (Nat.lt_ge_cases a (length h)) as [|Hge]; [assumption|]. exfalso.
    apply amap_find_name in Ef. unfold nd in Ef. rewrite nth_overflow in Ef by assumption.
    destruct nm; [congruence|cbn in Ef; discriminate Ef].
  - destruct (valid_name nm); [|same].
    set (x := fresh _ _ _ _ _).
    assert (P1 : WF (S (length h)) (h ++ [x])).
    { subst x. apply WF_alloc; [apply WF_self; exact W|reflexivity|discriminate|reflexivity|reflexivity|reflexivity|reflexivity]. }
    destruct (amap_set cfg_fixed (h ++ [x]) e (length h)) as [h2 r2] eqn:E2.
    pose proof (WF_amap_set _ _ _ _ _ _ P1 E2) as [W2 L2].
    destruct (is_err r2); [intros [= <- _]; split; [assumption|lia]|].
    intros E3. assert (Hl2 : length h < length h2) by lia. destruct (WFA_attr_set_value _ _ _ _ _ W2 Hl2 E3) as [W3 L3]. split; [assumption|lia].
Qed.

(** ------------------------------------------------------------ every operation *)
Definition named_attr_op (o : op) : bool := match o with OSetAttr _ [] _ => false | _ => true end.

Lemma step_GW_all : forall h o h' r, WFheap h -> named_attr_op o = true -> step h o = (h', r) -> GW h h'.
Proof.
  intros h o h' r W Hn E.
  destruct (link_op o && covered h o) eqn:El.
  { apply andb_prop in El. destruct El. eapply step_GW; eassumption. }
  revert E. unfold step, step_cfg. destruct o; cbn [link_op covered andb] in El; try discriminate El.
  - (* cloneNode *) splitw. unfold clone_node. intros E. destruct (WFC_clone _ _ _ _ _ _ W E) as [W1 [L1 _]]. split; assumption.
  - (* normalize *) splitw. unfold normalize. destruct (is_leaf _); [same|]. intros E. apply GW_of.
    eapply WF_norm; [apply WF_self; exact W|exact E].
  - (* setNodeValue / setData *)
    destruct (valid h n && is_leaf (n_ty (nd h n))).
    { unfold cd_set. destruct (n_ro _); [same|]. intros [= <- _]. apply GW_of. apply WF_upd_pres; auto with upres. apply WF_self; assumption. }
    destruct (valid h n && ntype_eqb (n_ty (nd h n)) TAttr) eqn:Ev2; [|same].
    apply andb_prop in Ev2. destruct Ev2 as [Ev2 _]. apply WFA_attr_set_value; [assumption|apply valid_lt; assumption].
  - (* splitText *) splitw. rewrite andb_true_iff in Ev. destruct Ev as [Ev1 Ev2].
    apply WFS_split; [assumption|apply valid_lt; assumption|]. intros T. rewrite T in Ev2. discriminate.
  - (* setAttribute *) splitw. apply WFA_set_attribute; [assumption|]. intros ->. discriminate Hn.
  - (* removeAttribute *) splitw. unfold remove_attribute. destruct (n_ro _); [same|].
    destruct (amap_find _ _ _) as [a|]; [|same]. intros [= <- _]. apply GW_of. apply WF_kill. apply WF_attr_id_off.
    apply WF_upd_pres; auto with upres. apply WF_upd_pres; auto with upres. apply WF_self; assumption.
  - (* renameNode *) splitw. apply WFR_rename; assumption.
Qed.

Lemma run_WFheap_all : forall l h h' rs, WFheap h -> forallb named_attr_op l = true ->
  run_cfg cfg_fixed h l = (h', rs) -> WFheap h' /\ length h <= length h'.
Proof.
  induction l as [|o l IH]; intros h h' rs W Hl; cbn [run_cfg].
  - intros [= <- _]; split; [assumption|lia].
  - cbn [forallb] in Hl. apply andb_prop in Hl. destruct Hl as [Ho Hl].
    destruct (step_cfg cfg_fixed h o) as [h1 x] eqn:E. destruct (step_GW_all _ _ _ _ W Ho E) as [W1 L1].
    destruct (run_cfg cfg_fixed h1 l) as [h2 xs] eqn:E2. intros [= <- _]. destruct (IH _ _ _ W1 Hl E2). split; [assumption|lia].
Qed.
