(** C13 -- lemmas, part d: [step] preserves the upward invariant; lifted to all runs. *)
From Coq Require Import NArith List Bool Arith Lia.
From XV Require Import Base.XDefs Gen.GenKidOK C13.Ops13 C13.Spec13 C13.Model13 C13.Abs13 C13.Proofs13b C13.Proofs13c.
Import ListNotations.

Definition G (h h' : heap) : Prop := WFup h' /\ length h <= length h'.

Lemma G_of_PW : forall h h', PW (length h) h' -> G h h'.
Proof. intros h h' [W L]. split; [assumption|lia]. Qed.
Lemma PW_self : forall h, WFup h -> PW (length h) h.
Proof. intros; split; auto. Qed.
Lemma G_refl : forall h, WFup h -> G h h.
Proof. intros; split; auto. Qed.
Lemma G_trans : forall a b c, G a b -> G b c -> G a c.
Proof. intros a b c [_ L1] [W L2]. split; [assumption|lia]. Qed.

Lemma G_upd : forall h i f, up_pres f -> WFup h -> G h (upd h i f).
Proof. intros. apply G_of_PW. apply PW_upd_pres; [assumption|apply PW_self; assumption]. Qed.

Lemma uv_alloc : forall h x j, uv (h ++ [x]) j = ext_view (uv h) (length h) (upf x) j.
Proof.
  intros. unfold uv, ext_view, nd. destruct (Nat.eqb_spec j (length h)) as [->|Hn].
  - rewrite nth_middle. reflexivity.
  - destruct (Nat.lt_ge_cases j (length h)).
    + rewrite app_nth1 by assumption. reflexivity.
    + rewrite !nth_overflow; [reflexivity|lia|rewrite app_length; cbn; lia].
Qed.

Lemma G_alloc : forall h x, WFup h -> n_owned x = false -> n_ty x <> TDoc -> G h (h ++ [x]).
Proof.
  intros h x W Ho Ht. split; [|rewrite app_length; lia].
  unfold WFup. rewrite app_length. cbn [length]. replace (length h + 1) with (S (length h)) by lia.
  eapply WFv_ext; [intros j; apply uv_alloc|].
  unfold upf. rewrite Ho. apply WFv_alloc; assumption.
Qed.

Lemma G_ins : forall fuel h this new ref h' r, WFup h -> this < length h ->
  ins fuel cfg_fixed h this new ref = (h', r) -> G h h'.
Proof. intros. apply G_of_PW. eapply PW_ins; eauto. apply PW_self; assumption. Qed.
Lemma G_p_remove : forall h this old h' r, WFup h -> p_remove h this old = (h', r) -> G h h'.
Proof. intros. apply G_of_PW. eapply PW_p_remove; eauto. apply PW_self; assumption. Qed.
Lemma G_v_remove : forall h this old h' r, WFup h -> v_remove h this old = (h', r) -> G h h'.
Proof. intros. apply G_of_PW. eapply PW_v_remove; eauto. apply PW_self; assumption. Qed.

Ltac done_same := intros [= <- _]; apply G_refl; assumption.

Lemma G_v_replace : forall h this new old h' r, WFup h -> this < length h ->
  v_replace cfg_fixed h this new old = (h', r) -> G h h'.
Proof.
  intros h this new old h' r W Ht. unfold v_replace, p_replace.
  destruct (n_ty (nd h this)); try done_same.
  - destruct (ins _ _ h this new (Some old)) as [h1 r1] eqn:E1. pose proof (G_ins _ _ _ _ _ _ _ W Ht E1) as [W1 L1].
    destruct (is_err r1); [intros [= <- _]; split; assumption|].
    intros E2. eapply G_trans; [split; eassumption|]. eapply G_p_remove; eauto.
  - destruct (ins _ _ h this new (Some old)) as [h1 r1] eqn:E1. pose proof (G_ins _ _ _ _ _ _ _ W Ht E1) as [W1 L1].
    destruct (is_err r1); [intros [= <- _]; split; assumption|].
    intros E2. eapply G_trans; [split; eassumption|]. eapply G_p_remove; eauto.
  - set (h0 := if ntype_eqb (n_ty (nd h old)) TElem then upd h this (set_docel None) else h).
    assert (G0 : G h h0) by (subst h0; destruct (ntype_eqb _ _); [apply G_upd; auto with upres|apply G_refl; assumption]).
    assert (L0 : length h0 = length h) by (subst h0; destruct (ntype_eqb _ _); rewrite ?length_upd; reflexivity).
    destruct G0 as [W0 _].
    destruct (ins _ _ h0 this new (Some old)) as [h1 r1] eqn:E1.
    assert (Ht0 : this < length h0) by lia.
    pose proof (G_ins _ _ _ _ _ _ _ W0 Ht0 E1) as [W1 L1].
    destruct (is_err r1).
    { intros [= <- _]. destruct (G_upd h1 this (set_docel (n_docel (nd h this))) ltac:(auto with upres) W1). split; [assumption|lia]. }
    destruct (if ntype_eqb (n_ty (nd h old)) TElem then p_remove h1 this old else v_remove h1 this old) as [h2 r2] eqn:E2.
    assert (G2 : G h1 h2) by (destruct (ntype_eqb _ _); [eapply G_p_remove|eapply G_v_remove]; eauto).
    destruct G2 as [W2 L2].
    destruct (is_err r2); [intros [= <- _]|].
    + destruct (G_upd h2 this (set_docel (n_docel (nd h this))) ltac:(auto with upres) W2). split; [assumption|lia].
    + destruct (_ && _ && _); intros [= <- _]; [|split; [assumption|lia]].
      destruct (G_upd h2 this (set_docel None) ltac:(auto with upres) W2). split; [assumption|lia].
  - destruct (ins _ _ h this new (Some old)) as [h1 r1] eqn:E1. pose proof (G_ins _ _ _ _ _ _ _ W Ht E1) as [W1 L1].
    destruct (is_err r1); [intros [= <- _]; split; assumption|].
    intros E2. eapply G_trans; [split; eassumption|]. eapply G_p_remove; eauto.
  - destruct (ins _ _ h this new (Some old)) as [h1 r1] eqn:E1. pose proof (G_ins _ _ _ _ _ _ _ W Ht E1) as [W1 L1].
    destruct (is_err r1); [intros [= <- _]; split; assumption|].
    intros E2. eapply G_trans; [split; eassumption|]. eapply G_p_remove; eauto.
Qed.

Lemma G_cd_append : forall h n s h' r, WFup h -> cd_append h n s = (h', r) -> G h h'.
Proof. intros h n s h' r W. unfold cd_append. destruct (n_ro _); [done_same|]. intros [= <- _]. apply G_upd; auto with upres. Qed.
Lemma G_cd_set : forall h n s h' r, WFup h -> cd_set h n s = (h', r) -> G h h'.
Proof. intros h n s h' r W. unfold cd_set. destruct (n_ro _); [done_same|]. intros [= <- _]. apply G_upd; auto with upres. Qed.
Lemma G_cd_delete : forall h n a b h' r, WFup h -> cd_delete h n a b = (h', r) -> G h h'.
Proof.
  intros h n a b h' r W. unfold cd_delete. destruct (n_ro _); [done_same|]. destruct (N.ltb _ _); [done_same|].
  intros [= <- _]. apply G_upd; auto with upres.
Qed.
Lemma G_cd_insert : forall h n a s h' r, WFup h -> cd_insert h n a s = (h', r) -> G h h'.
Proof.
  intros h n a s h' r W. unfold cd_insert. destruct (n_ro _); [done_same|]. destruct (N.ltb _ _); [done_same|].
  intros [= <- _]. apply G_upd; auto with upres.
Qed.
Lemma G_cd_replace : forall h n a b s h' r, WFup h -> cd_replace h n a b s = (h', r) -> G h h'.
Proof.
  intros h n a b s h' r W. unfold cd_replace. destruct (n_ro _); [done_same|].
  destruct (cd_delete h n a b) as [h1 r1] eqn:E. pose proof (G_cd_delete _ _ _ _ _ _ W E) as [W1 L1].
  destruct (is_err r1); [intros [= <- _]; split; assumption|]. intros E2.
  eapply G_trans; [split; eassumption|]. eapply G_cd_insert; eauto.
Qed.

Lemma G_create : forall h d t nm v h' r, WFup h -> create h d t nm v = (h', r) -> G h h'.
Proof.
  intros h d t nm v h' r W. unfold create, alloc, fresh.
  destruct (n_ty (nd h d)); try done_same.
  destruct t; try done_same; try (destruct (valid_name nm); [|done_same]);
    intros [= <- _]; apply G_alloc; auto; cbn; discriminate.
Qed.

Lemma G_split : forall h n off h' r, WFup h -> n < length h -> n_ty (nd h n) <> TDoc -> split_text cfg_fixed h n off = (h', r) -> G h h'.
Proof.
  intros h n off h' r W Hn T. unfold split_text, alloc, v_insert.
  destruct (n_ro _); [done_same|]. destruct (N.ltb _ _); [done_same|].
  destruct (pub_odoc h n) as [doc|]; [|done_same].
  set (x := fresh _ _ _ _ _). set (h1 := h ++ [x]).
  assert (G1 : G h h1) by (subst h1 x; apply G_alloc; auto).
  destruct G1 as [W1 L1].
  destruct (parent h1 n) as [p|] eqn:Ep.
  - assert (Hp : p < length h1).
    { destruct W1 as [V _ _ _]. apply (V n p); [lia|]. rewrite vparent_uv. exact Ep. }
    destruct (ins ins_fuel cfg_fixed h1 p (length h) (next_sib h1 n)) as [h2 r2] eqn:E2.
    pose proof (G_ins _ _ _ _ _ _ _ W1 Hp E2) as [W2 L2].
    destruct (is_err r2); [done_same|]. intros [= <- _].
    destruct (G_upd h2 n (set_val (firstn (N.to_nat off) (n_val (nd h n)))) ltac:(auto with upres) W2). split; [assumption|lia].
  - cbn [is_err]. intros [= <- _].
    destruct (G_upd h1 n (set_val (firstn (N.to_nat off) (n_val (nd h n)))) ltac:(auto with upres) W1). split; [assumption|lia].
Qed.

Lemma G_norm : forall fuel cf h this kid h' r, WFup h -> norm fuel cf h this kid = (h', r) -> G h h'.
Proof.
  induction fuel as [|fuel IH]; intros cf h this kid h' r W; cbn [norm]; [done_same|].
  destruct kid as [k|]; [|done_same].
  assert (Elem : forall nx, (if ntype_eqb (n_ty (nd h k)) TElem
            then let (h1, r1) := norm fuel cf h k (n_first (nd h k)) in if is_err r1 then (h1, r1) else norm fuel cf h1 this nx
            else norm fuel cf h this nx) = (h', r) -> G h h').
  { intros nx. destruct (ntype_eqb (n_ty (nd h k)) TElem); [|apply IH; assumption].
    destruct (norm fuel cf h k (n_first (nd h k))) as [h1 r1] eqn:E1. pose proof (IH _ _ _ _ _ _ W E1) as [W1 L1].
    destruct (is_err r1); [intros [= <- _]; split; assumption|]. intros E2.
    eapply G_trans; [split; eassumption|]. eapply IH; eauto. }
  assert (Empty : forall nx, (let (h1, r1) := p_remove h this k in if is_err r1 then (h1, r1) else norm fuel cf h1 this nx) = (h', r) -> G h h').
  { intros nx. destruct (p_remove h this k) as [h1 r1] eqn:E1. pose proof (G_p_remove _ _ _ _ _ W E1) as [W1 L1].
    destruct (is_err r1); [intros [= <- _]; split; assumption|]. intros E2.
    eapply G_trans; [split; eassumption|]. eapply IH; eauto. }
  destruct (n_next (nd h k)) as [nx|].
  2:{ destruct (_ && _ && _); [apply Empty|apply Elem]. }
  destruct (ntype_eqb (n_ty (nd h k)) TText && ntype_eqb (n_ty (nd h nx)) TText).
  2:{ destruct (_ && _ && _); [apply Empty|apply Elem]. }
  destruct (cd_append h k (n_val (nd h nx))) as [h1 r1] eqn:E1. pose proof (G_cd_append _ _ _ _ _ W E1) as [W1 L1].
  destruct (is_err r1); [intros [= <- _]; split; assumption|].
  destruct (p_remove h1 this nx) as [h2 r2] eqn:E2. pose proof (G_p_remove _ _ _ _ _ W1 E2) as [W2 L2].
  destruct (is_err r2); [intros [= <- _]; split; [assumption|lia]|]. intros E3.
  destruct (IH _ _ _ _ _ _ W2 E3). split; [assumption|lia].
Qed.

Lemma G_normalize : forall cf h n h' r, WFup h -> normalize cf h n = (h', r) -> G h h'.
Proof. intros cf h n h' r W. unfold normalize. destruct (is_leaf _); [done_same|]. apply G_norm; assumption. Qed.

Lemma G_clone_kids : forall k clonef h c kid h' r,
  (forall h0 m h1 r1, WFup h0 -> clonef h0 m = (h1, r1) -> G h0 h1) ->
  WFup h -> c < length h -> clone_kids k clonef cfg_fixed h c kid = (h', r) -> G h h'.
Proof.
  induction k as [|k IH]; intros clonef h c kid h' r Hc W Hl; cbn [clone_kids]; [done_same|].
  destruct kid as [m|]; [|done_same].
  destruct (clonef h m) as [h2 r2] eqn:E2. pose proof (Hc _ _ _ _ W E2) as [W2 L2].
  destruct r2; try (intros [= <- _]; split; assumption).
  destruct (ins ins_fuel cfg_fixed h2 c i None) as [h3 r3] eqn:E3.
  assert (Hc2 : c < length h2) by lia.
  pose proof (G_ins _ _ _ _ _ _ _ W2 Hc2 E3) as [W3 L3].
  destruct (is_err r3); [intros [= <- _]; split; [assumption|lia]|]. intros E4.
  assert (Hc3 : c < length h3) by lia.
  destruct (IH _ _ _ _ _ _ Hc W3 Hc3 E4). split; [assumption|lia].
Qed.

Lemma up_pres_ro v : up_pres (set_ro v). Proof. intros []; reflexivity. Qed.
#[export] Hint Resolve up_pres_ro : upres.

Lemma clone_shallow_ok : forall h n, n_ty (nd h n) <> TDoc ->
  n_owned (clone_shallow cfg_fixed h n) = false /\ n_ty (clone_shallow cfg_fixed h n) <> TDoc.
Proof. intros h n T. unfold clone_shallow. destruct (n_ty (nd h n)); cbn; split; try discriminate; auto. Qed.

Lemma up_pres_udata v : up_pres (set_udata v). Proof. intros []; reflexivity. Qed.
Lemma up_pres_hasud v : up_pres (set_hasud v). Proof. intros []; reflexivity. Qed.
Lemma up_pres_isid v : up_pres (set_isid v). Proof. intros []; reflexivity. Qed.
Lemma up_pres_idtab v : up_pres (set_idtab v). Proof. intros []; reflexivity. Qed.
Lemma up_pres_idnum v : up_pres (set_idnum v). Proof. intros []; reflexivity. Qed.
Lemma up_pres_released : up_pres set_released. Proof. intros []; reflexivity. Qed.
#[export] Hint Resolve up_pres_udata up_pres_hasud up_pres_isid up_pres_idtab up_pres_idnum up_pres_released : upres.
Lemma up_pres_oelem v : up_pres (set_oelem v). Proof. intros []; reflexivity. Qed.
Lemma up_pres_dead v : up_pres (set_dead v). Proof. intros []; reflexivity. Qed.
#[export] Hint Resolve up_pres_oelem up_pres_dead : upres.

Definition WL (h h' : heap) : Prop := WFup h' /\ length h' = length h.
Lemma WL_upd : forall h i f, up_pres f -> WFup h -> WL h (upd h i f).
Proof. intros h i f Hf W. destruct (G_upd h i f Hf W). split; [assumption|apply length_upd]. Qed.
Lemma WL_trans : forall a b c, WL a b -> WL b c -> WL a c.
Proof. intros a b c [_ L1] [W L2]. split; [assumption|congruence]. Qed.
Lemma WL_id_add : forall h a, WFup h -> WL h (id_add h a).
Proof.
  intros h a W. unfold id_add.
  match goal with |- WL _ (upd (upd ?H ?d ?f) _ ?g) =>
    destruct (WL_upd H d f ltac:(auto with upres) W) as [W1 L1]; destruct (WL_upd _ d g ltac:(auto with upres) W1) as [W2 L2] end.
  split; [exact W2|congruence].
Qed.
Lemma WL_id_remove : forall h a, WFup h -> WL h (id_remove h a).
Proof. intros h a W. unfold id_remove. destruct (id_probe_attr _ _ _ _ _); [apply WL_upd; auto with upres|split; auto]. Qed.
Lemma WL_attr_id_on : forall h a, WFup h -> WL h (attr_id_on h a).
Proof.
  intros h a W. unfold attr_id_on. destruct (n_isid _); [split; auto|].
  destruct (WL_upd h a (set_isid true) ltac:(auto with upres) W) as [W1 L1].
  destruct (WL_id_add _ a W1) as [W2 L2]. split; [exact W2|congruence].
Qed.
Lemma WL_attr_id_off : forall h a, WFup h -> WL h (attr_id_off h a).
Proof.
  intros h a W. unfold attr_id_off. destruct (n_isid _); [|split; auto].
  destruct (WL_id_remove h a W) as [W1 L1].
  destruct (WL_upd _ a (set_isid false) ltac:(auto with upres) W1) as [W2 L2]. split; [exact W2|congruence].
Qed.
Lemma WL_G : forall h h', WL h h' -> G h h'.
Proof. intros h h' [W L]. split; [assumption|lia]. Qed.

Lemma G_clone_attrs : forall clonef l h c h' r,
  (forall h0 m h1 r1, WFup h0 -> clonef h0 m = (h1, r1) -> G h0 h1) ->
  WFup h -> clone_attrs clonef h c l = (h', r) -> G h h'.
Proof.
  induction l as [|a l IH]; intros h c h' r Hc W; cbn [clone_attrs]; [done_same|].
  destruct (clonef h a) as [h2 r2] eqn:E2. pose proof (Hc _ _ _ _ W E2) as [W2 L2].
  destruct r2; try (intros [= <- _]; split; assumption).
  destruct (G_upd h2 i (set_oelem (Some c)) ltac:(auto with upres) W2) as [W3 L3].
  destruct (G_upd _ c (set_attrs (n_attrs (nd h2 c) ++ [i])) ltac:(auto with upres) W3) as [W4 L4].
  intros E. destruct (IH _ _ _ _ Hc W4 E). split; [assumption|lia].
Qed.

Lemma G_clone : forall fuel h n deep h' r, WFup h -> clone fuel cfg_fixed h n deep = (h', r) -> G h h'.
Proof.
  induction fuel as [|fuel IH]; intros h n deep h' r W; cbn [clone]; [done_same|].
  destruct (ntype_eqb (n_ty (nd h n)) TDoc) eqn:ET; [done_same|].
  assert (T : n_ty (nd h n) <> TDoc) by (intros E; rewrite E in ET; discriminate).
  unfold alloc.
  destruct (clone_shallow_ok h n T) as [So St].
  pose proof (G_alloc h _ W So St) as [W0 L0]. rewrite app_length in L0. cbn [length] in L0.
  set (hA := if ntype_eqb (n_ty (nd h n)) TAttr && n_isid (nd h n) then id_add (h ++ [clone_shallow cfg_fixed h n]) (length h)
             else h ++ [clone_shallow cfg_fixed h n]).
  assert (WA : WFup hA /\ length hA = length h + 1).
  { subst hA. destruct (_ && _).
    - destruct (WL_id_add _ (length h) W0) as [Wx Lx]. split; [assumption|]. rewrite Lx, app_length. reflexivity.
    - split; [assumption|]. rewrite app_length. reflexivity. }
  destruct WA as [W1 L1]. clearbody hA.
  match goal with |- context [is_err (snd ?R)] => remember R as res eqn:Eres end.
  assert (Gres : WFup (fst res) /\ length h <= length (fst res)).
  { destruct res as [hr rr]. symmetry in Eres. cbn [fst]. revert Eres.
    destruct (_ && negb (is_leaf (n_ty (nd h n)))); [|intros [= <- _]; split; [assumption|lia]].
    match goal with |- context [clone_kids _ _ _ ?X _ _] => set (h1 := X) end.
    assert (G1 : WFup h1 /\ length h1 = length h + 1).
    { subst h1. destruct (n_ty (nd h n)); try (split; assumption).
      destruct (G_upd hA (length h) (set_ro false) ltac:(auto with upres) W1).
      split; [assumption|rewrite length_upd; assumption]. }
    destruct G1 as [Wh1 Lh1].
    destruct (clone_kids _ _ _ h1 _ _) as [h4 r4] eqn:E4.
    assert (G4 : G h1 h4).
    { assert (Hc1 : length h < length h1) by lia.
      eapply G_clone_kids; [| |exact Hc1|exact E4]; [|assumption]. intros h0 m h2 r2 Wm E0. cbv beta in E0. eapply IH; eassumption. }
    destruct G4 as [W4 L4].
    destruct (is_err r4); [intros [= <- _]; split; [assumption|lia]|].
    destruct (n_ty (nd h n)); intros [= <- _]; try (split; [assumption|lia]).
    destruct (G_upd h4 (length h) (set_ro true) ltac:(auto with upres) W4). split; [assumption|lia]. }
  destruct Gres as [Wr Lr]. clear Eres.
  assert (Fin : res = (h', r) -> G h h') by (intros E; rewrite E in *; cbn [fst] in *; split; assumption).
  destruct (n_ty (nd h n)); try exact Fin.
  destruct (is_err (snd res)); [exact Fin|].
  destruct (clone_attrs _ (fst res) (length h) _) as [h5 r5] eqn:E5.
  assert (G5 : G (fst res) h5).
  { eapply G_clone_attrs; [|exact Wr|exact E5]. intros h0 m h2 r2 Wm E0. cbv beta in E0. eapply IH; eassumption. }
  destruct G5 as [W5 L5]. destruct (is_err r5); intros [= <- _]; (split; [assumption|lia]).
Qed.

Lemma G_attr : forall h e f, WFup h -> G h (upd h e (set_attrs f)).
Proof. intros. apply G_upd; auto with upres. Qed.

Lemma up_pres_name v : up_pres (set_name v). Proof. intros []; reflexivity. Qed.
Lemma up_pres_ns v : up_pres (set_ns v). Proof. intros []; reflexivity. Qed.
#[export] Hint Resolve up_pres_name up_pres_ns : upres.

Lemma G_rename_move : forall k h old new h' r, WFup h -> new < length h ->
  rename_move k cfg_fixed h old new = (h', r) -> G h h'.
Proof.
  induction k as [|k IH]; intros h old new h' r W Hn; cbn [rename_move]; [done_same|].
  destruct (n_first (nd h old)) as [i|]; [|done_same].
  destruct (p_remove h old i) as [h1 r1] eqn:E1. pose proof (G_p_remove _ _ _ _ _ W E1) as [W1 L1].
  destruct (is_err r1); [intros [= <- _]; split; assumption|].
  destruct (ins ins_fuel cfg_fixed h1 new i None) as [h2 r2] eqn:E2.
  assert (Hn1 : new < length h1) by lia.
  pose proof (G_ins _ _ _ _ _ _ _ W1 Hn1 E2) as [W2 L2].
  destruct (is_err r2); [intros [= <- _]; split; [assumption|lia]|]. intros E3.
  assert (Hn2 : new < length h2) by lia.
  destruct (IH _ _ _ _ _ W2 Hn2 E3). split; [assumption|lia].
Qed.

Lemma G_fold_oelem : forall v l h, WFup h ->
  WFup (fold_left (fun h0 a => upd h0 a (set_oelem v)) l h) /\ length (fold_left (fun h0 a => upd h0 a (set_oelem v)) l h) = length h.
Proof.
  induction l as [|a l IH]; intros h W; cbn [fold_left]; [split; [assumption|reflexivity]|].
  destruct (G_upd h a (set_oelem v) ltac:(auto with upres) W) as [W1 _].
  destruct (IH _ W1) as [W2 L2]. split; [assumption|]. rewrite L2. apply length_upd.
Qed.

Lemma G_rename_core : forall h d n ns nm h' r, WFup h -> rename_core cfg_fixed h d n ns nm = (h', r) -> G h h'.
Proof.
  intros h d n ns nm h' r W. unfold rename_core, alloc, v_insert.
  destruct (negb (oid_eqb _ _)); [done_same|].
  destruct (negb (_ || _)) eqn:ET; [done_same|].
  destruct (n_nsimpl (nd h n)).
  { destruct (G_upd h n (set_name nm) ltac:(auto with upres) W) as [W1 L1].
    destruct (ns_bind _ ns nm); intros [= <- _]; [|split; assumption].
    destruct (G_upd _ n (set_ns s) ltac:(auto with upres) W1). split; [assumption|lia]. }
  destruct ns as [|c ns]; [intros [= <- _]; apply G_upd; auto with upres|].
  destruct (negb (valid_name nm)); [done_same|].
  destruct (ns_bind _ _ nm) as [uri|]; [|done_same].
  set (x := mkNode _ nm _ _ _ _ _ _ _ _ _ _ _ _ _ _ _ _ _ _ _ _). set (h0 := h ++ [x]).
  assert (Tx : n_ty (nd h n) <> TDoc).
  { intros T. rewrite T in ET. discriminate. }
  assert (G0 : G h h0) by (subst h0 x; apply G_alloc; auto).
  destruct G0 as [W0 L0].
  assert (Ll0 : length h0 = length h + 1) by (subst h0; rewrite app_length; reflexivity).
  match goal with |- context [parent ?H n] => set (h1 := H) end.
  assert (WL1 : WL h0 h1).
  { subst h1. repeat (eapply WL_trans; [|apply WL_upd; [auto with upres|]]); try (split; [exact W0|reflexivity]).
    all: repeat (first [exact W0 | apply (fun H i f P W => proj1 (WL_upd H i f P W)); [auto with upres|]]). }
  destruct WL1 as [W1 L1e].
  assert (L1 : length h <= length h1) by lia.
  assert (Ll : length h < length h1) by lia.
  set (par := if ntype_eqb (n_ty (nd h n)) TAttr then None else parent h1 n).
  destruct par as [p|] eqn:Ep.
  - assert (Hp : p < length h1).
    { subst par. destruct (ntype_eqb _ TAttr); [discriminate|]. destruct W1 as [V _ _ _].
      destruct (Nat.lt_ge_cases n (length h1)) as [Hn|Hn].
      - apply (V n p Hn). rewrite vparent_uv. exact Ep.
      - unfold parent, nd in Ep. rewrite nth_overflow in Ep by assumption. discriminate. }
    destruct (v_remove h1 p n) as [h2 r2] eqn:E2. pose proof (G_v_remove _ _ _ _ _ W1 E2) as [W2 L2].
    destruct (is_err r2); [intros [= <- _]; split; [assumption|lia]|].
    destruct (rename_move _ _ h2 n (length h)) as [h3 r3] eqn:E3.
    assert (Hl2 : length h < length h2) by lia.
    pose proof (G_rename_move _ _ _ _ _ _ W2 Hl2 E3) as [W3 L3].
    destruct (is_err r3); [intros [= <- _]; split; [assumption|lia]|].
    destruct (ins ins_fuel cfg_fixed h3 p (length h) (next_sib h1 n)) as [h4 r4] eqn:E4.
    assert (Hp3 : p < length h3) by lia.
    pose proof (G_ins _ _ _ _ _ _ _ W3 Hp3 E4) as [W4 L4].
    destruct (is_err r4); intros [= <- _]; [split; [assumption|lia]|].
    destruct (G_fold_oelem (Some (length h)) (n_attrs (nd h4 n)) h4 W4) as [Wf Lf].
    destruct (G_upd _ (length h) (set_attrs (n_attrs (nd h4 n))) ltac:(auto with upres) Wf) as [W5 L5].
    destruct (G_upd _ n (set_attrs []) ltac:(auto with upres) W5) as [W6 L6]. split; [assumption|].
    rewrite !length_upd, Lf. lia.
  - cbn [is_err].
    destruct (rename_move _ _ h1 n (length h)) as [h3 r3] eqn:E3.
    pose proof (G_rename_move _ _ _ _ _ _ W1 Ll E3) as [W3 L3].
    destruct (is_err r3); [intros [= <- _]; split; [assumption|lia]|]. cbn [is_err].
    intros [= <- _].
    destruct (G_fold_oelem (Some (length h)) (n_attrs (nd h3 n)) h3 W3) as [Wf Lf].
    destruct (G_upd _ (length h) (set_attrs (n_attrs (nd h3 n))) ltac:(auto with upres) Wf) as [W5 L5].
    destruct (G_upd _ n (set_attrs []) ltac:(auto with upres) W5) as [W6 L6]. split; [assumption|].
    rewrite !length_upd, Lf. lia.
Qed.

Lemma valid_lt : forall h i, valid h i = true -> i < length h.
Proof. intros h i H. unfold valid in H. apply andb_prop in H. destruct H as [H _]. apply Nat.ltb_lt. exact H. Qed.

Lemma G_kill : forall fuel h n, WFup h -> WFup (kill fuel h n) /\ length (kill fuel h n) = length h.
Proof.
  induction fuel as [|fuel IH]; intros h n W; cbn [kill]; [split; [assumption|reflexivity]|].
  destruct (WL_upd h n set_released ltac:(auto with upres) W) as [W1 L1].
  revert W1 L1. generalize (upd h n set_released). generalize (kids h n ++ n_attrs (nd h n)). intros l.
  induction l as [|k l IHl]; intros h0 W0 L0; cbn [fold_left]; [split; assumption|].
  destruct (IH h0 k W0) as [W2 L2]. apply IHl; [exact W2|lia].
Qed.

Lemma WL_fold_id_off : forall l h, WFup h -> WL h (fold_left attr_id_off l h).
Proof.
  induction l as [|a l IH]; intros h W; cbn [fold_left]; [split; auto|].
  destruct (WL_attr_id_off h a W) as [W1 L1]. destruct (IH _ W1) as [W2 L2]. split; [exact W2|congruence].
Qed.

Lemma G_set_attr_node : forall h e a h' r, WFup h -> set_attribute_node cfg_fixed h e a = (h', r) -> G h h'.
Proof.
  intros h e a h' r W. unfold set_attribute_node, amap_set. change (fix_setattr_id cfg_fixed) with true. cbv iota.
  destruct (n_ro (nd h e)); [done_same|].
  destruct (negb (oid_eqb _ _)); [done_same|]. destruct (match n_oelem (nd h a) with Some o => _ | None => false end); [done_same|].
  destruct (G_upd h a (set_oelem (Some e)) ltac:(auto with upres) W) as [W1 L1].
  match goal with |- context [upd ?H e (set_attrs ?L)] => destruct (G_upd H e (set_attrs L) ltac:(auto with upres) W1) as [W2 L2] end.
  destruct (amap_find _ _ _) as [p|]; [|intros [= <- _]; split; [assumption|lia]].
  destruct (Nat.eqb p a); intros [= <- _]; [split; [assumption|lia]|].
  match goal with |- G _ (attr_id_off (upd ?H p ?f) p) =>
    destruct (WL_upd H p f ltac:(auto with upres) W2) as [W3 L3]; destruct (WL_attr_id_off _ p W3) as [W4 L4] end.
  split; [assumption|]. rewrite L4, L3. lia.
Qed.
Lemma G_remove_attr_node : forall h e a h' r, WFup h -> remove_attribute_node h e a = (h', r) -> G h h'.
Proof.
  intros h e a h' r W. unfold remove_attribute_node. destruct (n_ro _); [done_same|].
  destruct (if n_nsimpl (nd h a) then _ else _) as [f|]; [|done_same].
  destruct (Nat.eqb f a); [|done_same]. intros [= <- _].
  destruct (WL_upd h e (set_attrs (amap_del (n_attrs (nd h e)) a)) ltac:(auto with upres) W) as [W1 L1].
  destruct (WL_upd _ a (set_oelem None) ltac:(auto with upres) W1) as [W2 L2].
  destruct (WL_attr_id_off _ a W2) as [W3 L3]. split; [assumption|lia].
Qed.
Lemma G_rename : forall h d n ns nm h' r, WFup h -> rename_node cfg_fixed h d n ns nm = (h', r) -> G h h'.
Proof.
  intros h d n ns nm h' r W. unfold rename_node. destruct (negb (oid_eqb _ _)); [done_same|].
  destruct (_ && _ && _); [done_same|].
  destruct (if ntype_eqb _ TAttr then _ else None) as [el|]; [|apply G_rename_core; assumption].
  destruct (remove_attribute_node h el n) as [h1 r1] eqn:E1. pose proof (G_remove_attr_node _ _ _ _ _ W E1) as [W1 L1].
  destruct (is_err r1); [intros [= <- _]; split; assumption|].
  destruct (rename_core cfg_fixed h1 d n ns nm) as [h2 r2] eqn:E2. pose proof (G_rename_core _ _ _ _ _ _ _ W1 E2) as [W2 L2].
  destruct r2; try (intros [= <- _]; split; [assumption|lia]).
  destruct (set_attribute_node cfg_fixed h2 el i) as [h3 r3] eqn:E3. pose proof (G_set_attr_node _ _ _ _ _ W2 E3) as [W3 L3].
  cbn [fst]. intros [= <- _]. split; [assumption|lia].
Qed.

(** every operation, except the two that rebuild the VALUE of an attribute (setAttribute, and setNodeValue on an Attr):
    those release the attribute's children and append a fresh Text node; their invariant proof is not done *)
Definition covered (h : heap) (o : op) : bool :=
  match o with
  | OSetAttr _ _ _ => false
  | OSetData n _ => negb (ntype_eqb (n_ty (nd h n)) TAttr)
  | _ => true
  end.

Ltac splitc := match goal with |- (if ?b then _ else _) = _ -> _ => destruct b eqn:Ev; [|done_same] end.
Ltac vlt H := repeat rewrite andb_true_iff in H; repeat match type of H with _ /\ _ => destruct H as [H ?] end.

Lemma step_G : forall h o h' r, WFup h -> covered h o = true -> step h o = (h', r) -> G h h'.
Proof.
  intros h o h' r W Hc. unfold step, step_cfg.
  destruct o; cbn [covered] in Hc; try discriminate Hc.
  - splitc. apply G_create; assumption.
  - splitc. rewrite !andb_true_iff in Ev. destruct Ev as [[Ev1 Ev2] Ev3]. unfold v_insert. apply G_ins; [assumption|apply valid_lt; assumption].
  - splitc. rewrite !andb_true_iff in Ev. destruct Ev as [Ev1 Ev2]. unfold v_insert. apply G_ins; [assumption|apply valid_lt; assumption].
  - splitc. apply G_v_remove; assumption.
  - splitc. rewrite !andb_true_iff in Ev. destruct Ev as [[Ev1 Ev2] Ev3]. apply G_v_replace; [assumption|apply valid_lt; assumption].
  - splitc. unfold clone_node. apply G_clone; assumption.
  - splitc. apply G_normalize; assumption.
  - match goal with |- (if ?b then _ else _) = _ -> _ => destruct b eqn:Ev end; [apply G_cd_set; assumption|].
    match goal with |- (if ?b then _ else _) = _ -> _ => destruct b eqn:Ev2; [|done_same] end.
    exfalso. rewrite andb_true_iff in Ev2. destruct Ev2 as [_ Ev2]. rewrite Ev2 in Hc. discriminate.
  - splitc. apply G_cd_append; assumption.
  - splitc. apply G_cd_insert; assumption.
  - splitc. apply G_cd_delete; assumption.
  - splitc. apply G_cd_replace; assumption.
  - splitc. unfold cd_substring. destruct (N.ltb _ _); done_same.
  - splitc. rewrite !andb_true_iff in Ev. destruct Ev as [Ev1 Ev2].
    apply G_split; try assumption; [apply valid_lt; assumption|]. intros T. rewrite T in Ev2. discriminate.
  - splitc. unfold remove_attribute. destruct (n_ro _); [done_same|]. destruct (amap_find _ _ _) as [i|]; [|done_same].
    intros [= <- _].
    destruct (WL_upd h e (set_attrs (amap_del (n_attrs (nd h e)) i)) ltac:(auto with upres) W) as [W1 L1].
    destruct (WL_upd _ i (set_oelem None) ltac:(auto with upres) W1) as [W2 L2].
    destruct (WL_attr_id_off _ i W2) as [W3 L3].
    destruct (G_kill (length h) _ i W3) as [W4 L4]. split; [assumption|]. rewrite L4, L3, L2, L1. lia.
  - splitc. unfold get_attribute. done_same.
  - splitc. apply G_set_attr_node; assumption.
  - splitc. apply G_remove_attr_node; assumption.
  - splitc. unfold get_attribute_node. done_same.
  - splitc. unfold set_user_data. destruct (_ && _); [done_same|]. destruct (N.eqb data 0); intros [= <- _].
    + destruct (WL_upd h n (set_udata (ud_del (n_udata (nd h n)) key)) ltac:(auto with upres) W) as [W1 L1].
      match goal with |- G _ (upd ?H n ?f) => destruct (WL_upd H n f ltac:(auto with upres) W1) as [W2 L2] end. split; [assumption|lia].
    + match goal with |- G _ (upd (upd h n ?f1) n ?f2) =>
        destruct (WL_upd h n f1 ltac:(auto with upres) W) as [W1 L1]; destruct (WL_upd _ n f2 ltac:(auto with upres) W1) as [W2 L2] end.
      split; [assumption|lia].
  - splitc. unfold get_user_data. done_same.
  - splitc. unfold release_node. destruct (n_ty (nd h n)); try done_same;
      (destruct (_ || _); [done_same|]; destruct (_ && _); [done_same|]; intros [= <- _];
       destruct (WL_fold_id_off (subtree (length h) h n) h W) as [W1 L1];
       destruct (G_kill (length h) _ n W1) as [W2 L2]; split; [assumption|lia]).
  - splitc. unfold set_id_attribute. destruct (n_ro _); [done_same|]. destruct (amap_find _ _ _) as [a|]; [|done_same].
    destruct isid; intros [= <- _]; apply WL_G; [apply WL_attr_id_on|apply WL_attr_id_off]; assumption.
  - splitc. unfold set_id_attribute_node. destruct (n_ro _); [done_same|].
    destruct (if n_nsimpl (nd h a) then _ else _) as [f|]; [|done_same].
    destruct (_ && negb _); [done_same|].
    destruct isid; intros [= <- _]; apply WL_G; [apply WL_attr_id_on|apply WL_attr_id_off]; assumption.
  - splitc. unfold get_element_by_id. done_same.
  - splitc. apply G_rename; assumption.
Qed.

Lemma WFup_init : forall n, WFup (init_heap n).
Proof.
  intros n. unfold WFup, init_heap. rewrite map_length, seq_length.
  assert (V : forall j, j < n -> uv (map doc_node (seq 0 n)) j = (TDoc, j, false, j)).
  { intros j Hj. unfold uv, nd. rewrite nth_indep with (d' := doc_node 0) by (rewrite map_length, seq_length; assumption).
    rewrite map_nth, seq_nth by assumption. reflexivity. }
  assert (P : forall j, j < n -> vparent (uv (map doc_node (seq 0 n))) j = None) by (intros j Hj; unfold vparent; rewrite V by assumption; reflexivity).
  split.
  - intros c p Hc Hp. rewrite P in Hp by assumption. discriminate.
  - intros c Hc. exists 1. cbn [rooted]. rewrite P by assumption. reflexivity.
  - intros c p Hc Hp. rewrite P in Hp by assumption. discriminate.
  - intros d Hd _. split; [unfold vodoc; rewrite V by assumption; reflexivity|apply P; assumption].
Qed.

Definition no_attr_value_op (o : op) : bool := match o with OSetAttr _ _ _ | OSetData _ _ => false | _ => true end.
Lemma covered_of : forall h o, no_attr_value_op o = true -> covered h o = true.
Proof. intros h o. destruct o; cbn; auto; discriminate. Qed.

Lemma run_WFup : forall l h h' rs, WFup h -> forallb no_attr_value_op l = true -> run_cfg cfg_fixed h l = (h', rs) -> WFup h'.
Proof.
  induction l as [|o l IH]; intros h h' rs W Hl; cbn [run_cfg].
  - intros [= <- _]; assumption.
  - cbn [forallb] in Hl. apply andb_prop in Hl. destruct Hl as [Ho Hl].
    destruct (step_cfg cfg_fixed h o) as [h1 x] eqn:E. destruct (step_G _ _ _ _ W (covered_of h o Ho) E) as [W1 _].
    destruct (run_cfg cfg_fixed h1 l) as [h2 xs] eqn:E2. intros [= <- _]. eapply IH; eauto.
Qed.

(** readable consequences of the invariant *)
Lemma WFup_not_own_parent : forall h c, WFup h -> c < length h -> parent h c <> Some c.
Proof.
  intros h c [V A O D] Hc Hp. destruct (A c Hc) as [k Hk].
  assert (F : forall k, rooted (uv h) c k = false).
  { induction k0 as [|k0 IH]; cbn [rooted]; [reflexivity|]. rewrite vparent_uv, Hp. exact IH. }
  rewrite F in Hk. discriminate.
Qed.
