(** C13 -- executable model of the xerces-c DOM tree (src/xercesc/dom/impl): a heap of nodes carrying the
    implementation's link fields, and the mutating operations following the C++ line by line.
    No proofs in this file.

    Node identity = index in the heap (nodes are arena allocated and never freed before the document is
    released, so creation order is a faithful identity).  Strings are lists of UTF-16 code units.

    The record [cfg] carries one *defect switch* per repaired defect:
      fix_self      F18  DOMParentNode::insertBefore: ancestor walk starts at the parent of the target and is
                         skipped for a childless newChild, so e.appendChild(e) succeeds        (false = as found;
                         true = the walk is always made and starts at the target itself)
      fix_cloneflag F26  DOMNodeImpl copy constructor copies the FIRSTCHILD flag into the clone (false = as found)
    [cfg_fixed] is the behaviour after fixes/C13-*.patch; the theorems are about [cfg_fixed], the refutations
    about [cfg_found]. *)
From Coq Require Import NArith List Bool Arith.
From XV Require Import Base.XDefs Gen.GenKidOK Gen.GenC14IdMap C13.Ops13.
Import ListNotations.

(** DOMNode::NodeType numbers (regenerated from DOMNode.hpp) *)
Definition tcode (t : ntype) : N :=
  match t with
  | TElem => gen_ELEMENT_NODE | TText => gen_TEXT_NODE | TCData => gen_CDATA_SECTION_NODE
  | TERef => gen_ENTITY_REFERENCE_NODE | TPI => gen_PROCESSING_INSTRUCTION_NODE | TComment => gen_COMMENT_NODE
  | TDoc => gen_DOCUMENT_NODE | TFrag => gen_DOCUMENT_FRAGMENT_NODE | TAttr => gen_ATTRIBUTE_NODE
  end.

(** DOMException::ExceptionCode numbers (regenerated from DOMException.hpp) *)
Definition exc_code (e : exc) : N :=
  match e with
  | INDEX_SIZE => gen_INDEX_SIZE_ERR | HIERARCHY => gen_HIERARCHY_REQUEST_ERR | WRONG_DOC => gen_WRONG_DOCUMENT_ERR
  | INVALID_CHAR => gen_INVALID_CHARACTER_ERR | NO_MOD => gen_NO_MODIFICATION_ALLOWED_ERR
  | NOT_FOUND => gen_NOT_FOUND_ERR | NOT_SUPPORTED => gen_NOT_SUPPORTED_ERR | NAMESPACE => gen_NAMESPACE_ERR
  | INUSE => gen_INUSE_ATTRIBUTE_ERR | INVALID_ACCESS => gen_INVALID_ACCESS_ERR
  | E_INTERNAL => 99%N
  end.

Record cfg := mkCfg { fix_self : bool; fix_cloneflag : bool;
  fix_fragdoc : bool;      (* F27 fixes/C13-fragment-into-document.patch *)
  fix_docel : bool;        (* F28 fixes/C13-replace-self-docelem.patch *)
  fix_normempty : bool;    (* F29 fixes/C13-normalize-empty-text.patch *)
  fix_rnname : bool;       (* F30 fixes/C13-rename-name-check.patch *)
  fix_setattr_id : bool;   (* F36 fixes/C13-setattrnode-idmap.patch *)
  fix_idnode : bool        (* F37 fixes/C13-setidattrnode-identity.patch *) }.
Definition cfg_fixed := mkCfg true true true true true true true true.
Definition cfg_found := mkCfg false false false false false false false false.

(** ---------------------------------------------------------------- the heap *)
Record node := mkNode {
  n_ty : ntype;
  n_name : str;                 (* fName / target *)
  n_val : str;                  (* fDataBuf (character data, PI data) *)
  n_attrs : list id;            (* DOMAttrMapImpl::fNodes: the Attr nodes, a vector sorted by nodeName *)
  n_owner : id;                 (* DOMNodeImpl::fOwnerNode: the parent when OWNED, else the owner document *)
  n_first : option id;          (* DOMParentNode::fFirstChild *)
  n_prev : option id;           (* DOMChildNode::previousSibling (first child: the LAST child) *)
  n_next : option id;           (* DOMChildNode::nextSibling *)
  n_owned : bool;               (* flag OWNED *)
  n_isfirst : bool;             (* flag FIRSTCHILD *)
  n_ro : bool;                  (* flag READONLY *)
  n_odoc : id;                  (* DOMParentNode::fOwnerDocument (a Document: itself) *)
  n_docel : option id;          (* DOMDocumentImpl::fDocElement *)
  n_ns : str;                   (* fNamespaceURI of DOMElementNSImpl / DOMAttrNSImpl ([] = null) *)
  n_nsimpl : bool;              (* the node is a DOMElementNSImpl / DOMAttrNSImpl object *)
  n_oelem : option id;          (* an Attr: getOwnerElement().  The implementation keeps it in fOwnerNode + OWNED of the Attr;
                                   it is a field of its own here because every other reader of those two on an Attr
                                   (getParentNode) is overridden to ignore them *)
  n_dead : bool;                (* the node was release()d: its memory is recycled, it is no longer a live node *)
  n_udata : list (str * (N * bool));   (* the records of DOMDocumentImpl::fUserDataTable whose first key is this node:
                                          key -> (data, a handler is registered) *)
  n_hasud : bool;               (* flag USERDATA *)
  n_isid : bool;                (* an Attr: flag IDATTR *)
  n_idtab : list (nat * option id);    (* a Document: DOMNodeIDMap::fTable, slot -> Some attr | None = the (DOMAttr* )-1 marker *)
  n_idnum : nat                 (* a Document: DOMNodeIDMap::fNumEntries *)
}.
Definition heap := list node.

Definition dummy : node := mkNode TText [] [] [] 0 None None None false false false 0 None [] false None false [] false false [] 0.
Definition nd (h : heap) (i : id) : node := nth i h dummy.

Fixpoint upd (h : heap) (i : id) (f : node -> node) : heap :=
  match h, i with
  | [], _ => []
  | x :: r, O => f x :: r
  | x :: r, S j => x :: upd r j f
  end.

Definition set_val v (n : node) := mkNode (n_ty n) (n_name n) v (n_attrs n) (n_owner n) (n_first n) (n_prev n) (n_next n) (n_owned n) (n_isfirst n) (n_ro n) (n_odoc n) (n_docel n) (n_ns n) (n_nsimpl n) (n_oelem n) (n_dead n) (n_udata n) (n_hasud n) (n_isid n) (n_idtab n) (n_idnum n).
Definition set_attrs v (n : node) := mkNode (n_ty n) (n_name n) (n_val n) v (n_owner n) (n_first n) (n_prev n) (n_next n) (n_owned n) (n_isfirst n) (n_ro n) (n_odoc n) (n_docel n) (n_ns n) (n_nsimpl n) (n_oelem n) (n_dead n) (n_udata n) (n_hasud n) (n_isid n) (n_idtab n) (n_idnum n).
Definition set_owner v (n : node) := mkNode (n_ty n) (n_name n) (n_val n) (n_attrs n) v (n_first n) (n_prev n) (n_next n) (n_owned n) (n_isfirst n) (n_ro n) (n_odoc n) (n_docel n) (n_ns n) (n_nsimpl n) (n_oelem n) (n_dead n) (n_udata n) (n_hasud n) (n_isid n) (n_idtab n) (n_idnum n).
Definition set_first v (n : node) := mkNode (n_ty n) (n_name n) (n_val n) (n_attrs n) (n_owner n) v (n_prev n) (n_next n) (n_owned n) (n_isfirst n) (n_ro n) (n_odoc n) (n_docel n) (n_ns n) (n_nsimpl n) (n_oelem n) (n_dead n) (n_udata n) (n_hasud n) (n_isid n) (n_idtab n) (n_idnum n).
Definition set_prev v (n : node) := mkNode (n_ty n) (n_name n) (n_val n) (n_attrs n) (n_owner n) (n_first n) v (n_next n) (n_owned n) (n_isfirst n) (n_ro n) (n_odoc n) (n_docel n) (n_ns n) (n_nsimpl n) (n_oelem n) (n_dead n) (n_udata n) (n_hasud n) (n_isid n) (n_idtab n) (n_idnum n).
Definition set_next v (n : node) := mkNode (n_ty n) (n_name n) (n_val n) (n_attrs n) (n_owner n) (n_first n) (n_prev n) v (n_owned n) (n_isfirst n) (n_ro n) (n_odoc n) (n_docel n) (n_ns n) (n_nsimpl n) (n_oelem n) (n_dead n) (n_udata n) (n_hasud n) (n_isid n) (n_idtab n) (n_idnum n).
Definition set_owned v (n : node) := mkNode (n_ty n) (n_name n) (n_val n) (n_attrs n) (n_owner n) (n_first n) (n_prev n) (n_next n) v (n_isfirst n) (n_ro n) (n_odoc n) (n_docel n) (n_ns n) (n_nsimpl n) (n_oelem n) (n_dead n) (n_udata n) (n_hasud n) (n_isid n) (n_idtab n) (n_idnum n).
Definition set_isfirst v (n : node) := mkNode (n_ty n) (n_name n) (n_val n) (n_attrs n) (n_owner n) (n_first n) (n_prev n) (n_next n) (n_owned n) v (n_ro n) (n_odoc n) (n_docel n) (n_ns n) (n_nsimpl n) (n_oelem n) (n_dead n) (n_udata n) (n_hasud n) (n_isid n) (n_idtab n) (n_idnum n).
Definition set_docel v (n : node) := mkNode (n_ty n) (n_name n) (n_val n) (n_attrs n) (n_owner n) (n_first n) (n_prev n) (n_next n) (n_owned n) (n_isfirst n) (n_ro n) (n_odoc n) v (n_ns n) (n_nsimpl n) (n_oelem n) (n_dead n) (n_udata n) (n_hasud n) (n_isid n) (n_idtab n) (n_idnum n).

Definition set_oelem v (n : node) := mkNode (n_ty n) (n_name n) (n_val n) (n_attrs n) (n_owner n) (n_first n) (n_prev n) (n_next n) (n_owned n) (n_isfirst n) (n_ro n) (n_odoc n) (n_docel n) (n_ns n) (n_nsimpl n) v (n_dead n) (n_udata n) (n_hasud n) (n_isid n) (n_idtab n) (n_idnum n).
Definition set_dead v (n : node) := mkNode (n_ty n) (n_name n) (n_val n) (n_attrs n) (n_owner n) (n_first n) (n_prev n) (n_next n) (n_owned n) (n_isfirst n) (n_ro n) (n_odoc n) (n_docel n) (n_ns n) (n_nsimpl n) (n_oelem n) v (n_udata n) (n_hasud n) (n_isid n) (n_idtab n) (n_idnum n).

Definition set_udata v (n : node) := mkNode (n_ty n) (n_name n) (n_val n) (n_attrs n) (n_owner n) (n_first n) (n_prev n) (n_next n) (n_owned n) (n_isfirst n) (n_ro n) (n_odoc n) (n_docel n) (n_ns n) (n_nsimpl n) (n_oelem n) (n_dead n) v (n_hasud n) (n_isid n) (n_idtab n) (n_idnum n).
Definition set_hasud v (n : node) := mkNode (n_ty n) (n_name n) (n_val n) (n_attrs n) (n_owner n) (n_first n) (n_prev n) (n_next n) (n_owned n) (n_isfirst n) (n_ro n) (n_odoc n) (n_docel n) (n_ns n) (n_nsimpl n) (n_oelem n) (n_dead n) (n_udata n) v (n_isid n) (n_idtab n) (n_idnum n).
Definition set_isid v (n : node) := mkNode (n_ty n) (n_name n) (n_val n) (n_attrs n) (n_owner n) (n_first n) (n_prev n) (n_next n) (n_owned n) (n_isfirst n) (n_ro n) (n_odoc n) (n_docel n) (n_ns n) (n_nsimpl n) (n_oelem n) (n_dead n) (n_udata n) (n_hasud n) v (n_idtab n) (n_idnum n).
Definition set_idtab v (n : node) := mkNode (n_ty n) (n_name n) (n_val n) (n_attrs n) (n_owner n) (n_first n) (n_prev n) (n_next n) (n_owned n) (n_isfirst n) (n_ro n) (n_odoc n) (n_docel n) (n_ns n) (n_nsimpl n) (n_oelem n) (n_dead n) (n_udata n) (n_hasud n) (n_isid n) v (n_idnum n).
Definition set_idnum v (n : node) := mkNode (n_ty n) (n_name n) (n_val n) (n_attrs n) (n_owner n) (n_first n) (n_prev n) (n_next n) (n_owned n) (n_isfirst n) (n_ro n) (n_odoc n) (n_docel n) (n_ns n) (n_nsimpl n) (n_oelem n) (n_dead n) (n_udata n) (n_hasud n) (n_isid n) (n_idtab n) v.

Definition oid_eqb (a b : option id) : bool :=
  match a, b with Some x, Some y => Nat.eqb x y | None, None => true | _, _ => false end.

(** ---------------------------------------------------------------- the public getters *)
(** DOMChildNode::getParentNode: isOwned() ? fOwnerNode : 0 *)
Definition parent (h : heap) (c : id) : option id :=
  if n_owned (nd h c) then Some (n_owner (nd h c)) else None.
Definition first_child (h : heap) (p : id) : option id := n_first (nd h p).
Definition has_kids (h : heap) (p : id) : bool := match n_first (nd h p) with Some _ => true | None => false end.
(** DOMParentNode::lastChild: fFirstChild ? fFirstChild->previousSibling : 0 *)
Definition last_child (h : heap) (p : id) : option id :=
  match n_first (nd h p) with None => None | Some f => n_prev (nd h f) end.
Definition next_sib (h : heap) (c : id) : option id := n_next (nd h c).
(** DOMChildNode::getPreviousSibling: isFirstChild() ? 0 : previousSibling *)
Definition prev_sib (h : heap) (c : id) : option id :=
  if n_isfirst (nd h c) then None else n_prev (nd h c).
(** public getOwnerDocument: Document -> 0; parent-type nodes -> fParent.fOwnerDocument;
    leaf nodes -> DOMNodeImpl::getOwnerDocument (through fOwnerNode) *)
Definition pub_odoc (h : heap) (n : id) : option id :=
  let x := nd h n in
  match n_ty x with
  | TDoc => None
  | t => if is_leaf t then
           (if n_owned x then
              match n_ty (nd h (n_owner x)) with
              | TDoc => Some (n_owner x)
              | _ => Some (n_odoc (nd h (n_owner x)))
              end
            else Some (n_owner x))
         else Some (n_odoc x)
  end.
(** childNodes: item(i) walks getFirstChild / getNextSibling *)
Fixpoint walk (h : heap) (c : option id) (fuel : nat) : list id :=
  match fuel with
  | O => []
  | S f => match c with None => [] | Some k => k :: walk h (n_next (nd h k)) f end
  end.
Definition kids (h : heap) (p : id) : list id := walk h (n_first (nd h p)) (length h).

(** ---------------------------------------------------------------- DOMDocumentImpl::isKidOK *)
Fixpoint lookupN (k : N) (t : list (N * list N)) : list N :=
  match t with [] => [] | (a, v) :: r => if N.eqb a k then v else lookupN k r end.
Definition kid_ok (h : heap) (p c : id) : bool :=
  let pt := tcode (n_ty (nd h p)) in
  let ct := tcode (n_ty (nd h c)) in
  existsb (N.eqb ct) (lookupN pt gen_kidOK)
  || (N.eqb pt gen_DOCUMENT_NODE && N.eqb ct gen_TEXT_NODE && all_spaces (n_val (nd h c))   (* XMLChar1_0::isAllSpaces: false for length 0 *)).

(** ---------------------------------------------------------------- DOMParentNode::removeChild *)
(** "Patch linked list around oldChild" + "Remove oldChild's references to tree" *)
Definition link_remove (h : heap) (this old : id) : heap :=
  let o := nd h old in
  let h1 :=
    if oid_eqb (n_first (nd h this)) (Some old) then
      (* removing first child *)
      let h := upd h old (set_isfirst false) in
      let h := upd h this (set_first (n_next o)) in
      match n_next o with
      | Some f => upd (upd h f (set_isfirst true)) f (set_prev (n_prev o))
      | None => h
      end
    else
      match n_prev o with
      | None => h
      | Some pv =>
        let h := upd h pv (set_next (n_next o)) in
        match n_next o with
        | None => (* removing last child *)
          match n_first (nd h this) with Some f => upd h f (set_prev (Some pv)) | None => h end
        | Some nx => upd h nx (set_prev (Some pv))
        end
      end in
  let h2 := upd h1 old (set_owner (n_odoc (nd h this))) in
  let h3 := upd h2 old (set_owned false) in
  let h4 := upd h3 old (set_next None) in
  upd h4 old (set_prev None).

Definition p_remove (h : heap) (this old : id) : heap * result :=
  if n_ro (nd h this) then (h, RErr NO_MOD)
  else if negb (oid_eqb (parent h old) (Some this)) then (h, RErr NOT_FOUND)
  else (link_remove h this old, RNode old).

(** virtual removeChild *)
Definition v_remove (h : heap) (this old : id) : heap * result :=
  match n_ty (nd h this) with
  | TDoc =>
    let (h', r) := p_remove h this old in
    if is_err r then (h', r)
    else match n_ty (nd h' old) with
         | TElem => (upd h' this (set_docel None), r)
         | _ => (h', r)
         end
  | TElem | TFrag | TERef | TAttr => p_remove h this old
  | _ => (h, RErr NOT_FOUND)          (* DOMNodeImpl::removeChild *)
  end.

(** ---------------------------------------------------------------- DOMParentNode::insertBefore *)
(** "Attach up" + "Attach before and after" *)
Definition link_insert (h : heap) (this new : id) (ref : option id) : heap :=
  let h := upd h new (set_owner this) in
  let h := upd h new (set_owned true) in
  match n_first (nd h this) with
  | None =>
    let h := upd h this (set_first (Some new)) in
    let h := upd h new (set_isfirst true) in
    upd h new (set_prev (Some new))
  | Some f =>
    match ref with
    | None =>
      match n_prev (nd h f) with
      | None => h
      | Some last =>
        let h := upd h last (set_next (Some new)) in
        let h := upd h new (set_prev (Some last)) in
        upd h f (set_prev (Some new))
      end
    | Some r =>
      if Nat.eqb r f then
        let h := upd h f (set_isfirst false) in
        let h := upd h new (set_next (Some f)) in
        let h := upd h new (set_prev (n_prev (nd h f))) in
        let h := upd h f (set_prev (Some new)) in
        let h := upd h this (set_first (Some new)) in
        upd h new (set_isfirst true)
      else
        match n_prev (nd h r) with
        | None => h
        | Some pv =>
          let h := upd h new (set_next (Some r)) in
          let h := upd h pv (set_next (Some new)) in
          let h := upd h r (set_prev (Some new)) in
          upd h new (set_prev (Some pv))
        end
    end
  end.

(** for(a = start; treeSafe && a != 0; a = a->getParentNode()) treeSafe = (newChild != a) *)
Fixpoint tree_safe (h : heap) (new : id) (a : option id) (fuel : nat) : bool :=
  match a with
  | None => true
  | Some x => if Nat.eqb x new then false
              else match fuel with O => false | S f => tree_safe h new (parent h x) f end
  end.

(** while (newChild->hasChildNodes()) getContainingNode()->insertBefore(newChild->getFirstChild(), refChild) *)
Fixpoint move_loop (k : nat) (insf : heap -> id -> heap * result) (h : heap) (frag : id) : heap * result :=
  match k with
  | O => (h, RErr E_INTERNAL)
  | S k' => match n_first (nd h frag) with
            | None => (h, ROk)
            | Some kid => let (h', r) := insf h kid in
                          if is_err r then (h', r) else move_loop k' insf h' frag
            end
  end.

(** DOMParentNode::insertBefore; [insf h0 kid] is the call getContainingNode()->insertBefore(kid, refChild) made by
    the DocumentFragment loop (a virtual call, hence a parameter here; [ins] below ties the knot) *)
Definition pins_body (insf : heap -> id -> heap * result) (cf : cfg) (h : heap) (this new : id) (ref : option id)
  : heap * result :=
  if n_ro (nd h this) then (h, RErr NO_MOD)
  else if negb (oid_eqb (pub_odoc h new) (Some (n_odoc (nd h this)))) then (h, RErr WRONG_DOC)
  else if (if fix_self cf then negb (tree_safe h new (Some this) (length h))        (* repaired: always, from this *)
           else has_kids h new && negb (tree_safe h new (parent h this) (length h)))   (* as found *)
       then (h, RErr HIERARCHY)
  else if match ref with Some r => negb (oid_eqb (parent h r) (Some this)) | None => false end
       then (h, RErr NOT_FOUND)
  else if oid_eqb ref (Some new) then (h, RNode new)
  else if ntype_eqb (n_ty (nd h new)) TFrag then
    if forallb (kid_ok h this) (kids h new) then
      let (h', r) := move_loop (S (length h)) insf h new in
      if is_err r then (h', r) else (h', RNode new)
    else (h, RErr HIERARCHY)
  else if negb (kid_ok h this new) then (h, RErr HIERARCHY)
  else
    match parent h new with
    | Some op =>            (* oldparent->removeChild(newChild), the virtual one; its exception propagates *)
      let (h1, r1) := v_remove h op new in
      if is_err r1 then (h1, r1) else (link_insert h1 this new ref, RNode new)
    | None => (link_insert h this new ref, RNode new)
    end.

(** [ins] = the virtual insertBefore (DOMDocumentImpl::insertBefore for a Document, DOMParentNode::insertBefore
    for Element / DocumentFragment / EntityReference, DOMNodeImpl::insertBefore for the leaf types).
    [fuel] bounds the nesting DocumentFragment -> child (2 levels suffice). *)
Fixpoint ins (fuel : nat) (cf : cfg) (h : heap) (this new : id) (ref : option id) : heap * result :=
  match fuel with
  | O => (h, RErr E_INTERNAL)
  | S fuel' =>
    match n_ty (nd h this) with
    | TDoc =>
      (* DOMDocumentImpl::insertBefore: only one element child permitted *)
      if fix_fragdoc cf && ntype_eqb (n_ty (nd h new)) TFrag &&
         (1 <? length (filter (fun k => ntype_eqb (n_ty (nd h k)) TElem) (kids h new)) + (match n_docel (nd h this) with Some _ => 1 | None => 0 end))
      then (h, RErr HIERARCHY)         (* repaired (F27): a fragment that would bring a second element is refused as a whole *)
      else
      if ntype_eqb (n_ty (nd h new)) TElem && (match n_docel (nd h this) with Some _ => true | None => false end)
      then (h, RErr HIERARCHY)
      else let (h', r) := pins_body (fun h0 kid => ins fuel' cf h0 this kid ref) cf h this new ref in
           if is_err r then (h', r)
           else if ntype_eqb (n_ty (nd h' new)) TElem then (upd h' this (set_docel (Some new)), r) else (h', r)
    | TElem | TFrag | TERef | TAttr => pins_body (fun h0 kid => ins fuel' cf h0 this kid ref) cf h this new ref
    | _ => (h, RErr HIERARCHY)        (* DOMNodeImpl::insertBefore *)
    end
  end.

Definition ins_fuel : nat := 3.
Definition v_insert (cf : cfg) (h : heap) (this new : id) (ref : option id) : heap * result :=
  ins ins_fuel cf h this new ref.

(** ---------------------------------------------------------------- replaceChild *)
(** DOMParentNode::replaceChild: insertBefore(newChild, oldChild); return removeChild(oldChild); *)
Definition p_replace (cf : cfg) (h : heap) (this new old : id) : heap * result :=
  let (h1, r1) := ins ins_fuel cf h this new (Some old) in     (* fParent's own insertBefore, see v_replace *)
  if is_err r1 then (h1, r1) else p_remove h1 this old.

(** the non-virtual DOMParentNode::insertBefore applied to a Document's fParent is reached only through
    DOMDocumentImpl::insertBefore, which is what [ins] models for TDoc *)
Definition v_replace (cf : cfg) (h : heap) (this new old : id) : heap * result :=
  match n_ty (nd h this) with
  | TDoc =>
    (* DOMDocumentImpl::replaceChild: the cached fDocElement is cleared while an element is being replaced
       and restored when anything throws *)
    let saved := n_docel (nd h this) in
    let old_is_elem := ntype_eqb (n_ty (nd h old)) TElem in
    let h0 := if old_is_elem then upd h this (set_docel None) else h in
    let (h1, r1) := ins ins_fuel cf h0 this new (Some old) in
    if is_err r1 then (upd h1 this (set_docel saved), r1)
    else
      let (h2, r2) := if old_is_elem then p_remove h1 this old else v_remove h1 this old in
      if is_err r2 then (upd h2 this (set_docel saved), r2)
      else if fix_docel cf && old_is_elem && oid_eqb (n_docel (nd h2 this)) (Some old)
           then (upd h2 this (set_docel None), r2)             (* repaired (F28): replaceChild(x, x) *)
           else (h2, r2)
  | TElem | TFrag | TERef | TAttr => p_replace cf h this new old
  | _ => (h, RErr HIERARCHY)         (* DOMNodeImpl::replaceChild *)
  end.

(** ---------------------------------------------------------------- character data *)
Definition cd_set (h : heap) (n : id) (s : str) : heap * result :=
  if n_ro (nd h n) then (h, RErr NO_MOD) else (upd h n (set_val s), ROk).
Definition cd_append (h : heap) (n : id) (s : str) : heap * result :=
  if n_ro (nd h n) then (h, RErr NO_MOD) else (upd h n (set_val (n_val (nd h n) ++ s)), ROk).
(** XMLSize_t arithmetic: offsets and counts are 64-bit unsigned, sums wrap around *)
Definition w64 : N := 18446744073709551616%N.
Definition wadd (a b : N) : N := N.modulo (a + b) w64.
Definition dlen (h : heap) (n : id) : N := N.of_nat (length (n_val (nd h n))).

Definition cd_delete (h : heap) (n : id) (off cnt : N) : heap * result :=
  if n_ro (nd h n) then (h, RErr NO_MOD)
  else let d := n_val (nd h n) in
       let len := dlen h n in
       if N.ltb len off then (h, RErr INDEX_SIZE)
       else let cnt := if N.ltb len cnt then len else cnt in                (* "cap ... to avoid trouble with overflows" *)
            let cnt := if N.leb len (wadd off cnt) then (len - off)%N else cnt in
            (upd h n (set_val (firstn (N.to_nat off) d ++ skipn (N.to_nat (off + cnt)) d)), ROk).
Definition cd_insert (h : heap) (n : id) (off : N) (s : str) : heap * result :=
  if n_ro (nd h n) then (h, RErr NO_MOD)
  else let d := n_val (nd h n) in
       if N.ltb (dlen h n) off then (h, RErr INDEX_SIZE)
       else (upd h n (set_val (firstn (N.to_nat off) d ++ s ++ skipn (N.to_nat off) d)), ROk).
Definition cd_replace (h : heap) (n : id) (off cnt : N) (s : str) : heap * result :=
  if n_ro (nd h n) then (h, RErr NO_MOD)
  else let (h1, r1) := cd_delete h n off cnt in
       if is_err r1 then (h1, r1) else cd_insert h1 n off s.
(** copyNString(newString, raw + offset, count): copies at most count units, stops at the terminator.
    (The repaired code clamps count to the rest of the data before it writes the terminator, F32.) *)
Definition cd_substring (h : heap) (n : id) (off cnt : N) : heap * result :=
  let d := n_val (nd h n) in
  if N.ltb (dlen h n) off then (h, RErr INDEX_SIZE)
  else (h, RStr (firstn (N.to_nat (N.min cnt (dlen h n))) (skipn (N.to_nat off) d))).

(** ---------------------------------------------------------------- node creation *)
Definition alloc (h : heap) (x : node) : heap * id := (h ++ [x], length h).
Definition fresh (t : ntype) (doc : id) (nm v : str) (ro : bool) : node :=
  mkNode t nm v [] doc None None None false false ro doc None [] false None false [] false false [] 0.

Definition create (h : heap) (doc : id) (t : ntype) (nm v : str) : heap * result :=
  match n_ty (nd h doc) with
  | TDoc =>
    match t with
    | TDoc => (h, RSkip)
    | TElem | TPI | TERef | TAttr =>
      if valid_name nm then
        let (h', i) := alloc h (fresh t doc nm (match t with TPI => v | _ => [] end)
                                      (match t with TERef => true | _ => false end)) in (h', RNode i)
      else (h, RErr INVALID_CHAR)
    | TFrag => let (h', i) := alloc h (fresh t doc [] [] false) in (h', RNode i)
    | _ => let (h', i) := alloc h (fresh t doc [] v false) in (h', RNode i)
    end
  | _ => (h, RSkip)
  end.

(** DOMTextImpl::splitText / DOMCDATASectionImpl::splitText *)
Definition split_text (cf : cfg) (h : heap) (n : id) (offN : N) : heap * result :=
  if n_ro (nd h n) then (h, RErr NO_MOD)
  else let d := n_val (nd h n) in
       if N.ltb (dlen h n) offN then (h, RErr INDEX_SIZE)
       else
       let off := N.to_nat offN in
       match pub_odoc h n with
            | None => (h, RErr E_INTERNAL)
            | Some doc =>
              let (h1, nt) := alloc h (fresh (n_ty (nd h n)) doc [] (skipn off d) false) in
              let (h2, r2) := match parent h1 n with
                              | Some p => v_insert cf h1 p nt (next_sib h1 n)
                              | None => (h1, ROk)
                              end in
              (* the insertion can only be refused for a Text child of a Document whose tail is not white space; the
                 node just created is then unreachable (the arena is not modelled): the heap is reported unchanged *)
              if is_err r2 then (h, r2)
              else (upd h2 n (set_val (firstn off d)), RNode nt)
            end.

(** ---------------------------------------------------------------- normalize *)
(** DOMParentNode::normalize; [kid] is the loop variable *)
Fixpoint norm (fuel : nat) (cf : cfg) (h : heap) (this : id) (kid : option id) : heap * result :=
  match fuel with
  | O => (h, RErr E_INTERNAL)
  | S f =>
    match kid with
    | None => (h, ROk)
    | Some k =>
      let next := n_next (nd h k) in
      match next with
      | Some nx =>
        if ntype_eqb (n_ty (nd h k)) TText && ntype_eqb (n_ty (nd h nx)) TText then
          let (h1, r1) := cd_append h k (n_val (nd h nx)) in
          if is_err r1 then (h1, r1)
          else let (h2, r2) := p_remove h1 this nx in
               if is_err r2 then (h2, r2) else norm f cf h2 this (Some k)
        else if fix_normempty cf && ntype_eqb (n_ty (nd h k)) TText && match n_val (nd h k) with [] => true | _ => false end then
          let (h1, r1) := p_remove h this k in                       (* repaired (F29): an empty Text node is removed *)
          if is_err r1 then (h1, r1) else norm f cf h1 this next
        else if ntype_eqb (n_ty (nd h k)) TElem then
          let (h1, r1) := norm f cf h k (n_first (nd h k)) in
          if is_err r1 then (h1, r1) else norm f cf h1 this next
        else norm f cf h this next
      | None =>
        if fix_normempty cf && ntype_eqb (n_ty (nd h k)) TText && match n_val (nd h k) with [] => true | _ => false end then
          let (h1, r1) := p_remove h this k in
          if is_err r1 then (h1, r1) else norm f cf h1 this next
        else
        if ntype_eqb (n_ty (nd h k)) TElem then
          let (h1, r1) := norm f cf h k (n_first (nd h k)) in
          if is_err r1 then (h1, r1) else norm f cf h1 this next
        else norm f cf h this next
      end
    end
  end.
Definition normalize (cf : cfg) (h : heap) (n : id) : heap * result :=
  if is_leaf (n_ty (nd h n)) then (h, ROk)          (* DOMNodeImpl::normalize does nothing *)
  else norm (2 * length h + 2) cf h n (n_first (nd h n)).

(** DOMAttrImpl::getValue *)
Definition attr_value (h : heap) (a : id) : str :=
  flat_map (fun k => match n_ty (nd h k) with TText => n_val (nd h k) | _ => [] end) (kids h a).

(** ---------------------------------------------------------------- DOMNodeIDMap (per document) *)
(** XMLString::hash on 64-bit XMLSize_t; multiplier and shift regenerated from XMLString.hpp (Gen/GenC14IdMap.v) *)
Definition w64m (x : N) : N := N.modulo x 18446744073709551616%N.
Fixpoint xhash_go (hv : N) (s : str) : N :=
  match s with [] => hv | c :: r => xhash_go (w64m (hv * xhash_mult + N.shiftr hv xhash_shift + c)%N) r end.
Definition xhash (s : str) (modulus : N) : N := match s with [] => 0%N | c :: r => N.modulo (xhash_go c r) modulus end.
(** the table has its initial size (gPrimes[0]); growth at fMaxEntries additions is NOT modelled *)
Definition id_size : nat := match idmap_sizes with (s, _) :: _ => N.to_nat s | [] => 997 end.
Definition id_h0 (v : str) : nat := S (N.to_nat (xhash v (N.of_nat (id_size - 1)))).
Definition id_step (h0 cur : nat) : nat := let c := cur + h0 in if id_size <=? c then Nat.modulo c id_size else c.
Fixpoint tab_get (t : list (nat * option id)) (k : nat) : option (option id) :=
  match t with [] => None | (j, v) :: r => if Nat.eqb j k then Some v else tab_get r k end.
Definition tab_set (t : list (nat * option id)) (k : nat) (v : option id) : list (nat * option id) :=
  (k, v) :: filter (fun p => negb (Nat.eqb (fst p) k)) t.

(** add(): first slot of the probe sequence that is empty or marked deleted *)
Fixpoint id_probe_free (t : list (nat * option id)) (h0 : nat) (fuel cur : nat) : nat :=
  match fuel with
  | O => cur
  | S f => match tab_get t cur with Some (Some _) => id_probe_free t h0 f (id_step h0 cur) | _ => cur end
  end.
Definition id_add (h : heap) (a : id) : heap :=
  let d := n_odoc (nd h a) in
  let h0 := id_h0 (attr_value h a) in
  let t := n_idtab (nd h d) in
  upd (upd h d (set_idnum (S (n_idnum (nd h d))))) d (set_idtab (tab_set t (id_probe_free t h0 id_size h0) (Some a))).
(** remove(attr): the slot holding THIS attribute (identity) gets the deleted marker *)
Fixpoint id_probe_attr (t : list (nat * option id)) (h0 : nat) (a : id) (fuel cur : nat) : option nat :=
  match fuel with
  | O => None
  | S f => match tab_get t cur with
           | None => None
           | Some (Some b) => if Nat.eqb b a then Some cur else id_probe_attr t h0 a f (id_step h0 cur)
           | Some None => id_probe_attr t h0 a f (id_step h0 cur)
           end
  end.
Definition id_remove (h : heap) (a : id) : heap :=
  let d := n_odoc (nd h a) in
  let h0 := id_h0 (attr_value h a) in
  let t := n_idtab (nd h d) in
  match id_probe_attr t h0 a id_size h0 with
  | Some k => upd h d (set_idtab (tab_set t k None))
  | None => h
  end.
(** find(id): the first attribute on the probe sequence whose CURRENT value equals id *)
Fixpoint id_probe_val (h : heap) (t : list (nat * option id)) (h0 : nat) (v : str) (fuel cur : nat) : option id :=
  match fuel with
  | O => None
  | S f => match tab_get t cur with
           | None => None
           | Some (Some b) => if str_eqb (attr_value h b) v then Some b else id_probe_val h t h0 v f (id_step h0 cur)
           | Some None => id_probe_val h t h0 v f (id_step h0 cur)
           end
  end.
Definition id_find (h : heap) (d : id) (v : str) : option id :=
  id_probe_val h (n_idtab (nd h d)) (id_h0 v) v id_size (id_h0 v).

(** DOMAttrImpl::addAttrToIDNodeMap / removeAttrFromIDNodeMap *)
Definition attr_id_on (h : heap) (a : id) : heap :=
  if n_isid (nd h a) then h else id_add (upd h a (set_isid true)) a.
Definition attr_id_off (h : heap) (a : id) : heap :=
  if n_isid (nd h a) then upd (id_remove h a) a (set_isid false) else h.

(** ---------------------------------------------------------------- cloneNode *)
(** copy constructors: DOMNodeImpl(other) copies the flags (clearing READONLY and OWNED) for the leaf types and
    EntityReference; Element and DocumentFragment build a fresh fNode (flags = 0) *)
Definition clone_shallow (cf : cfg) (h : heap) (n : id) : node :=
  let x := nd h n in
  let doc := match pub_odoc h n with Some d => d | None => n end in
  let copied_first := if fix_cloneflag cf then false else n_isfirst x in
  match n_ty x with
  | TElem => mkNode TElem (n_name x) [] [] doc None None None false false false doc None (n_ns x) (n_nsimpl x) None false [] false false [] 0
  | TAttr => mkNode TAttr (n_name x) [] [] doc None None None false copied_first false doc None (n_ns x) (n_nsimpl x) None false [] (n_hasud x) (n_isid x) [] 0
  | TFrag => mkNode TFrag [] [] [] doc None None None false false false doc None [] false None false [] false false [] 0
  | TERef => mkNode TERef (n_name x) [] [] doc None None None false copied_first true doc None [] false None false [] (n_hasud x) false [] 0
  | t => mkNode t (n_name x) (n_val x) [] doc None None None false copied_first false doc None [] false None false [] (n_hasud x) false [] 0
  end.

Definition set_ro v (n : node) := mkNode (n_ty n) (n_name n) (n_val n) (n_attrs n) (n_owner n) (n_first n) (n_prev n) (n_next n) (n_owned n) (n_isfirst n) v (n_odoc n) (n_docel n) (n_ns n) (n_nsimpl n) (n_oelem n) (n_dead n) (n_udata n) (n_hasud n) (n_isid n) (n_idtab n) (n_idnum n).

(** cloneChildren: for (mykid = other->getFirstChild(); mykid; mykid = mykid->getNextSibling())
                      appendChild(mykid->cloneNode(true))            -- DOMParentNode::appendChild;
    [clonef h m] is the virtual call mykid->cloneNode(true) *)
Fixpoint clone_kids (k : nat) (clonef : heap -> id -> heap * result) (cf : cfg) (h : heap) (c : id) (kid : option id)
  : heap * result :=
  match k with
  | O => (h, RErr E_INTERNAL)
  | S k' =>
    match kid with
    | None => (h, ROk)
    | Some m =>
      let (h2, r2) := clonef h m in
      match r2 with
      | RNode mc =>
        let (h3, r3) := ins ins_fuel cf h2 c mc None in
        if is_err r3 then (h3, r3) else clone_kids k' clonef cf h3 c (n_next (nd h3 m))
      | _ => (h2, r2)
      end
    end
  end.

(** DOMAttrMapImpl::cloneContent: clone = n->cloneNode(true); clone->fOwnerNode = owner; fNodes->addElement(clone) *)
Fixpoint clone_attrs (clonef : heap -> id -> heap * result) (h : heap) (c : id) (l : list id) : heap * result :=
  match l with
  | [] => (h, ROk)
  | a :: r =>
    let (h2, r2) := clonef h a in
    match r2 with
    | RNode ac => clone_attrs clonef (upd (upd h2 ac (set_oelem (Some c))) c (set_attrs (n_attrs (nd h2 c) ++ [ac]))) c r
    | _ => (h2, r2)
    end
  end.

Fixpoint clone (fuel : nat) (cf : cfg) (h : heap) (n : id) (deep : bool) : heap * result :=
  match fuel with
  | O => (h, RErr E_INTERNAL)
  | S f =>
    if ntype_eqb (n_ty (nd h n)) TDoc then (h, RSkip)   (* DOMDocumentImpl::cloneNode builds a new document: not modelled *)
    else
    let (h1, c) := alloc h (clone_shallow cf h n) in
    let t := n_ty (nd h n) in
    (* the DOMAttrImpl copy constructor puts the copy of an ID attribute into the ID map at once (it has no value yet) *)
    let h1 := if ntype_eqb t TAttr && n_isid (nd h n) then id_add h1 c else h1 in
    let res :=
    if (deep || ntype_eqb t TAttr) && negb (is_leaf t) then      (* the DOMAttrImpl copy constructor always clones the children *)
        (* an EntityReference clone is made read-only after its children were cloned: setReadOnly(true,true) *)
        let h1 := match t with TERef => upd h1 c (set_ro false) | _ => h1 end in
        let (h4, r4) := clone_kids (S (length h)) (fun h0 m => clone f cf h0 m true) cf h1 c (n_first (nd h n)) in
        if is_err r4 then (h4, r4)
        else match t with
             | TERef => (upd h4 c (set_ro true), RNode c)
             | _ => (h4, RNode c)
             end
      else (h1, RNode c) in
    (* the element's attributes are cloned after its children (DOMElementImpl copy constructor) *)
    match t with
    | TElem => if is_err (snd res) then res
               else let (h5, r5) := clone_attrs (fun h0 a => clone f cf h0 a true) (fst res) c (n_attrs (nd h n)) in
                    if is_err r5 then (h5, r5) else (h5, RNode c)
    | _ => res
    end
  end.
Definition clone_node (cf : cfg) (h : heap) (n : id) (deep : bool) : heap * result :=
  clone (S (length h)) cf h n deep.

(** ---------------------------------------------------------------- attributes (DOMAttrMapImpl, by name):
    the sorted vector operations attr_set / attr_remove / attr_get are in Ops13.v *)
(** findNamePoint(name) + item: the attribute with that nodeName (the vector is sorted, the C++ searches by bisection;
    a linear scan of a name-sorted vector finds the same element) *)
Fixpoint amap_find (h : heap) (l : list id) (nm : str) : option id :=
  match l with [] => None | a :: r => if str_eqb nm (n_name (nd h a)) then Some a else amap_find h r nm end.
(** findNamePoint(namespaceURI, localName): linear search on the DOM Level 2 keys *)
Fixpoint amap_find_ns (h : heap) (l : list id) (ns loc : str) : option id :=
  match l with
  | [] => None
  | a :: r => if n_nsimpl (nd h a) && str_eqb ns (n_ns (nd h a)) && str_eqb loc (local_name (n_name (nd h a))) then Some a
              else amap_find_ns h r ns loc
  end.
(** setElementAt(arg, i) when the name is present, insertElementAt(arg, insertion point) otherwise *)
Fixpoint amap_put (h : heap) (l : list id) (a : id) : list id :=
  match l with
  | [] => [a]
  | b :: r => match str_cmp (n_name (nd h a)) (n_name (nd h b)) with
              | Eq => a :: r
              | Lt => a :: l
              | Gt => b :: amap_put h r a
              end
  end.
Fixpoint amap_del (l : list id) (a : id) : list id :=
  match l with [] => [] | b :: r => if Nat.eqb b a then r else b :: amap_del r a end.

(** release(): the node and everything under it (children; for an element also its attributes) is handed back to the
    document's allocator; callUserDataHandlers(NODE_DELETED) removes the node's user-data records *)
Definition set_released (n : node) : node := set_hasud false (set_udata [] (set_dead true n)).
Fixpoint kill (fuel : nat) (h : heap) (n : id) : heap :=
  match fuel with
  | O => h
  | S f => fold_left (kill f) (kids h n ++ n_attrs (nd h n)) (upd h n set_released)
  end.
Fixpoint subtree (fuel : nat) (h : heap) (n : id) : list id :=
  match fuel with
  | O => [n]
  | S f => n :: flat_map (subtree f h) (kids h n ++ n_attrs (nd h n))
  end.

(** DOMAttrImpl::setValue: an ID attribute leaves the ID map and re-enters it under the new value; the children are
    removed and released, a new Text node is appended *)
Fixpoint drop_kids (k : nat) (h : heap) (a : id) : heap :=
  match k with
  | O => h
  | S k' => match n_first (nd h a) with
            | None => h
            | Some c => drop_kids k' (kill (length h) (link_remove h a c) c) a
            end
  end.
Definition attr_set_value (h : heap) (a : id) (v : str) : heap * result :=
  if n_ro (nd h a) then (h, RErr NO_MOD)
  else let h0 := if n_isid (nd h a) then id_remove h a else h in
       let h1 := drop_kids (S (length h0)) h0 a in
       let (h2, t) := alloc h1 (fresh TText (n_odoc (nd h a)) [] v false) in
       let h3 := link_insert h2 a t None in                    (* appendChildFast *)
       (if n_isid (nd h a) then id_add h3 a else h3, ROk).

(** DOMAttrMapImpl::setNamedItem *)
Definition amap_set (cf : cfg) (h : heap) (e a : id) : heap * result :=
  if negb (oid_eqb (pub_odoc h a) (Some (n_odoc (nd h e)))) then (h, RErr WRONG_DOC)
  else if n_ro (nd h e) then (h, RErr NO_MOD)
  else if match n_oelem (nd h a) with Some o => negb (Nat.eqb o e) | None => false end then (h, RErr INUSE)
  else
    let h1 := upd h a (set_oelem (Some e)) in
    let prev := amap_find h1 (n_attrs (nd h1 e)) (n_name (nd h1 a)) in
    let h2 := upd h1 e (set_attrs (amap_put h1 (n_attrs (nd h1 e)) a)) in
    match prev with
    | Some p => if Nat.eqb p a then (h2, RNode a)              (* repaired (F33): as found, the owner of a was cleared here too *)
                else ((if fix_setattr_id cf then attr_id_off (upd h2 p (set_oelem None)) p else upd h2 p (set_oelem None)), RNode p)   (* repaired (F36) *)
    | None => (h2, ROk)
    end.

Definition set_attribute_node (cf : cfg) (h : heap) (e a : id) : heap * result :=
  if n_ro (nd h e) then (h, RErr NO_MOD) else amap_set cf h e a.

Definition remove_attribute_node (h : heap) (e a : id) : heap * result :=
  if n_ro (nd h e) then (h, RErr NO_MOD)
  else
    let found := if n_nsimpl (nd h a) then amap_find_ns h (n_attrs (nd h e)) (n_ns (nd h a)) (local_name (n_name (nd h a)))
                 else amap_find h (n_attrs (nd h e)) (n_name (nd h a)) in
    match found with
    | Some f => if Nat.eqb f a                                 (* "if it is in fact the right object" *)
                then (attr_id_off (upd (upd h e (set_attrs (amap_del (n_attrs (nd h e)) a))) a (set_oelem None)) a, RNode a)
                else (h, RErr NOT_FOUND)
    | None => (h, RErr NOT_FOUND)
    end.

Definition set_attribute (cf : cfg) (h : heap) (e : id) (nm v : str) : heap * result :=
  if n_ro (nd h e) then (h, RErr NO_MOD)
  else match amap_find h (n_attrs (nd h e)) nm with
       | Some a => attr_set_value h a v
       | None =>
         if valid_name nm then
           let (h1, a) := alloc h (fresh TAttr (n_odoc (nd h e)) nm [] false) in
           let (h2, r2) := amap_set cf h1 e a in
           if is_err r2 then (h2, r2) else attr_set_value h2 a v
         else (h, RErr INVALID_CHAR)           (* createAttribute *)
       end.
Definition remove_attribute (h : heap) (e : id) (nm : str) : heap * result :=
  if n_ro (nd h e) then (h, RErr NO_MOD)
  else match amap_find h (n_attrs (nd h e)) nm with
       | Some a =>
         let h1 := upd (upd h e (set_attrs (amap_del (n_attrs (nd h e)) a))) a (set_oelem None) in
         (kill (length h) (attr_id_off h1 a) a, ROk)              (* removeAttrFromIDNodeMap(); att->release() *)
       | None => (h, ROk)
       end.
Definition get_attribute (h : heap) (e : id) (nm : str) : heap * result :=
  (h, RStr (match amap_find h (n_attrs (nd h e)) nm with Some a => attr_value h a | None => [] end)).
Definition get_attribute_node (h : heap) (e : id) (nm : str) : heap * result :=
  (h, match amap_find h (n_attrs (nd h e)) nm with Some a => RNode a | None => ROk end).

(** ---------------------------------------------------------------- ID attributes, getElementById *)
Definition set_id_attribute (h : heap) (e : id) (nm : str) (isid : bool) : heap * result :=
  if n_ro (nd h e) then (h, RErr NO_MOD)
  else match amap_find h (n_attrs (nd h e)) nm with
       | None => (h, RErr NOT_FOUND)
       | Some a => (if isid then attr_id_on h a else attr_id_off h a, ROk)
       end.
(** setIdAttributeNode looks the attribute up by the NAME of the node passed in *)
Definition set_id_attribute_node (cf : cfg) (h : heap) (e a : id) (isid : bool) : heap * result :=
  if n_ro (nd h e) then (h, RErr NO_MOD)
  else
    let found := if n_nsimpl (nd h a) then amap_find_ns h (n_attrs (nd h e)) (n_ns (nd h a)) (local_name (n_name (nd h a)))
                 else amap_find h (n_attrs (nd h e)) (n_name (nd h a)) in
    match found with
    | None => (h, RErr NOT_FOUND)
    | Some f => if fix_idnode cf && negb (Nat.eqb f a) then (h, RErr NOT_FOUND)      (* repaired (F37): it must be THAT node *)
                else (if isid then attr_id_on h f else attr_id_off h f, ROk)
    end.
Definition get_element_by_id (h : heap) (d : id) (v : str) : heap * result :=
  (h, match id_find h d v with
      | Some a => match n_oelem (nd h a) with Some e => RNode e | None => ROk end
      | None => ROk
      end).

(** ---------------------------------------------------------------- user data *)
Fixpoint ud_get (l : list (str * (N * bool))) (k : str) : option (N * bool) :=
  match l with [] => None | (j, v) :: r => if str_eqb j k then Some v else ud_get r k end.
Definition ud_del (l : list (str * (N * bool))) (k : str) := filter (fun p => negb (str_eqb (fst p) k)) l.
(** DOMNodeImpl::setUserData + DOMDocumentImpl::setUserData; data 0 = null: the record is removed *)
Definition set_user_data (h : heap) (n : id) (key : str) (data : N) (handler : bool) : heap * result :=
  if N.eqb data 0 && negb (n_hasud (nd h n)) then (h, RData 0)
  else
    let l := n_udata (nd h n) in
    let old := match ud_get l key with Some (d, _) => d | None => 0%N end in
    let l1 := ud_del l key in
    if N.eqb data 0 then
      (upd (upd h n (set_udata l1)) n (set_hasud (match l1 with [] => false | _ => true end)), RData old)
    else (upd (upd h n (set_udata ((key, (data, handler)) :: l1))) n (set_hasud true), RData old).
Definition get_user_data (h : heap) (n : id) (key : str) : heap * result :=
  (h, RData (if n_hasud (nd h n) then match ud_get (n_udata (nd h n)) key with Some (d, _) => d | None => 0%N end else 0%N)).

(** ---------------------------------------------------------------- release() *)
(** DOMNode::release() of a node: INVALID_ACCESS_ERR when it has a parent / an owner element; otherwise the whole
    subtree is released.  As found (F35) the ID attributes in the subtree stay in the ID map as dangling pointers;
    [force = false]: such a release is not performed (skip, on both sides of the correspondence);
    [force = true]: the repaired behaviour -- every ID attribute is taken out of the ID map first. *)
Definition has_registered_id (h : heap) (n : id) : bool :=
  existsb (fun x => n_isid (nd h x)) (subtree (length h) h n).
Definition release_node (h : heap) (n : id) (force : bool) : heap * result :=
  match n_ty (nd h n) with
  | TDoc => (h, RSkip)
  | _ =>
    if (match parent h n with Some _ => true | None => false end) || (match n_oelem (nd h n) with Some _ => true | None => false end)
    then (h, RErr INVALID_ACCESS)
    else if negb force && has_registered_id h n then (h, RSkip)
    else (kill (length h) (fold_left attr_id_off (subtree (length h) h n) h) n, ROk)
  end.

(** ---------------------------------------------------------------- renameNode *)
Definition set_name v (n : node) := mkNode (n_ty n) v (n_val n) (n_attrs n) (n_owner n) (n_first n) (n_prev n) (n_next n) (n_owned n) (n_isfirst n) (n_ro n) (n_odoc n) (n_docel n) (n_ns n) (n_nsimpl n) (n_oelem n) (n_dead n) (n_udata n) (n_hasud n) (n_isid n) (n_idtab n) (n_idnum n).
Definition set_ns v (n : node) := mkNode (n_ty n) (n_name n) (n_val n) (n_attrs n) (n_owner n) (n_first n) (n_prev n) (n_next n) (n_owned n) (n_isfirst n) (n_ro n) (n_odoc n) (n_docel n) v (n_nsimpl n) (n_oelem n) (n_dead n) (n_udata n) (n_hasud n) (n_isid n) (n_idtab n) (n_idnum n).

(** while (child = getFirstChild()) { removeChild(child); newNode->appendChild(child); } *)
Fixpoint rename_move (k : nat) (cf : cfg) (h : heap) (old new : id) : heap * result :=
  match k with
  | O => (h, RErr E_INTERNAL)
  | S k' =>
    match n_first (nd h old) with
    | None => (h, ROk)
    | Some c =>
      let (h1, r1) := p_remove h old c in
      if is_err r1 then (h1, r1)
      else let (h2, r2) := ins ins_fuel cf h1 new c None in
           if is_err r2 then (h2, r2) else rename_move k' cf h2 old new
    end
  end.

(** DOMElementImpl::rename, DOMElementNSImpl::rename, DOMAttrImpl::rename, DOMAttrNSImpl::rename (attributes are
    modelled detached from any element: getOwnerElement() == 0) *)
Definition rename_core (cf : cfg) (h : heap) (doc n : id) (ns nm : str) : heap * result :=
  if negb (oid_eqb (pub_odoc h n) (Some doc)) then (h, RErr WRONG_DOC)
  else
    let x := nd h n in
    let is_attr := ntype_eqb (n_ty x) TAttr in
    if negb (ntype_eqb (n_ty x) TElem || is_attr) then (h, RErr NOT_SUPPORTED)
    else if n_nsimpl x then
      (* setName: fName is assigned first, the checks come afterwards *)
      let h1 := upd h n (set_name nm) in
      match ns_bind is_attr ns nm with
      | None => (h1, RErr NAMESPACE)
      | Some uri => (upd h1 n (set_ns uri), RNode n)
      end
    else
      match ns with
      | [] => (upd h n (set_name nm), RNode n)          (* no check of the new name at all *)
      | _ =>
        (* createElementNS / createAttributeNS: an exception leaves only an unreachable object behind *)
        if negb (valid_name nm) then (h, RErr INVALID_CHAR)
        else match ns_bind is_attr ns nm with
             | None => (h, RErr NAMESPACE)
             | Some uri =>
               let (h1, ne) := alloc h (mkNode (n_ty x) nm [] [] doc None None None false false false doc None uri true None false [] false false [] 0) in
               (* doc->transferUserData(this, newNode) *)
               let h1 := upd (upd h1 ne (set_udata (n_udata (nd h1 n)))) ne (set_hasud true) in
               let h1 := upd (upd h1 n (set_udata [])) n (set_hasud false) in
               let par := if is_attr then None else parent h1 n in
               let nxt := next_sib h1 n in
               let (h2, r2) := match par with Some p => v_remove h1 p n | None => (h1, ROk) end in
               if is_err r2 then (h2, r2)
               else let (h3, r3) := rename_move (S (length h)) cf h2 n ne in
                    if is_err r3 then (h3, r3)
                    else let (h4, r4) := match par with Some p => v_insert cf h3 p ne nxt | None => (h3, ROk) end in
                         if is_err r4 then (h4, r4)
                         else (* moveSpecifiedAttributes: the Attr nodes change owner *)
                              let al := n_attrs (nd h4 n) in
                              let h5 := fold_left (fun h0 a => upd h0 a (set_oelem (Some ne))) al h4 in
                              (upd (upd h5 ne (set_attrs al)) n (set_attrs []), RNode ne)
             end
      end.

(** DOMDocumentImpl::renameNode.  An attribute that is on an element is first taken off it (el->removeAttributeNode(this)),
    renamed, and put back (el->setAttributeNode(NS)); an exception raised in between leaves it detached *)
Definition rename_node (cf : cfg) (h : heap) (doc n : id) (ns nm : str) : heap * result :=
  if negb (oid_eqb (pub_odoc h n) (Some doc)) then (h, RErr WRONG_DOC)
  else if fix_rnname cf && (ntype_eqb (n_ty (nd h n)) TElem || ntype_eqb (n_ty (nd h n)) TAttr) && negb (valid_name nm)
       then (h, RErr INVALID_CHAR)                  (* repaired (F30): the new name is checked before anything happens *)
  else match (if ntype_eqb (n_ty (nd h n)) TAttr then n_oelem (nd h n) else None) with
       | Some el =>
         let (h1, r1) := remove_attribute_node h el n in
         if is_err r1 then (h1, r1)
         else let (h2, r2) := rename_core cf h1 doc n ns nm in
              match r2 with
              | RNode m => (fst (set_attribute_node cf h2 el m), RNode m)
              | _ => (h2, r2)
              end
       | None => rename_core cf h doc n ns nm
       end.

Definition valid (h : heap) (i : id) : bool := (i <? length h) && negb (n_dead (nd h i)).
Definition ovalid (h : heap) (o : option id) : bool := match o with Some i => valid h i | None => true end.

(** one operation; an operand that is not a live node, or a call the static type of the operand does not offer
    (appendData on an Element, ...) is skipped: [RSkip], heap unchanged *)
Definition step_cfg (cf : cfg) (h : heap) (o : op) : heap * result :=
  match o with
  | OCreate d t nm v => if valid h d then create h d t nm v else (h, RSkip)
  | OInsertBefore p c r => if valid h p && valid h c && ovalid h r then v_insert cf h p c r else (h, RSkip)
  | OAppend p c => if valid h p && valid h c then v_insert cf h p c None else (h, RSkip)
  | ORemove p c => if valid h p && valid h c then v_remove h p c else (h, RSkip)
  | OReplace p n o => if valid h p && valid h n && valid h o then v_replace cf h p n o else (h, RSkip)
  | OClone n deep => if valid h n then clone_node cf h n deep else (h, RSkip)
  | ONormalize n => if valid h n then normalize cf h n else (h, RSkip)
  | OSetData n s => if valid h n && is_leaf (n_ty (nd h n)) then cd_set h n s
                    else if valid h n && ntype_eqb (n_ty (nd h n)) TAttr then attr_set_value h n s else (h, RSkip)
  | OAppendData n s => if valid h n && is_chardata (n_ty (nd h n)) then cd_append h n s else (h, RSkip)
  | OInsertData n off s => if valid h n && is_chardata (n_ty (nd h n)) then cd_insert h n off s else (h, RSkip)
  | ODeleteData n off cnt => if valid h n && is_chardata (n_ty (nd h n)) then cd_delete h n off cnt else (h, RSkip)
  | OReplaceData n off cnt s => if valid h n && is_chardata (n_ty (nd h n)) then cd_replace h n off cnt s else (h, RSkip)
  | OSubstring n off cnt => if valid h n && is_chardata (n_ty (nd h n)) then cd_substring h n off cnt else (h, RSkip)
  | OSplitText n off =>
    if valid h n && (ntype_eqb (n_ty (nd h n)) TText || ntype_eqb (n_ty (nd h n)) TCData) then split_text cf h n off
    else (h, RSkip)
  | OSetAttr e nm v => if valid h e && ntype_eqb (n_ty (nd h e)) TElem then set_attribute cf h e nm v else (h, RSkip)
  | ORemoveAttr e nm => if valid h e && ntype_eqb (n_ty (nd h e)) TElem then remove_attribute h e nm else (h, RSkip)
  | OGetAttr e nm => if valid h e && ntype_eqb (n_ty (nd h e)) TElem then get_attribute h e nm else (h, RSkip)
  | OSetAttrNode e a =>
    if valid h e && valid h a && ntype_eqb (n_ty (nd h e)) TElem && ntype_eqb (n_ty (nd h a)) TAttr then set_attribute_node cf h e a else (h, RSkip)
  | ORemoveAttrNode e a =>
    if valid h e && valid h a && ntype_eqb (n_ty (nd h e)) TElem && ntype_eqb (n_ty (nd h a)) TAttr then remove_attribute_node h e a else (h, RSkip)
  | OGetAttrNode e nm => if valid h e && ntype_eqb (n_ty (nd h e)) TElem then get_attribute_node h e nm else (h, RSkip)
  | OSetUserData n key data hd => if valid h n then set_user_data h n key data hd else (h, RSkip)
  | OGetUserData n key => if valid h n then get_user_data h n key else (h, RSkip)
  | ORelease n force => if valid h n then release_node h n force else (h, RSkip)
  | OSetIdAttr e nm b => if valid h e && ntype_eqb (n_ty (nd h e)) TElem then set_id_attribute h e nm b else (h, RSkip)
  | OSetIdAttrNode e a b =>
    if valid h e && valid h a && ntype_eqb (n_ty (nd h e)) TElem && ntype_eqb (n_ty (nd h a)) TAttr then set_id_attribute_node cf h e a b else (h, RSkip)
  | OGetById d v => if valid h d && ntype_eqb (n_ty (nd h d)) TDoc then get_element_by_id h d v else (h, RSkip)
  | ORename d n ns nm =>
    if valid h d && valid h n && ntype_eqb (n_ty (nd h d)) TDoc then rename_node cf h d n ns nm else (h, RSkip)
  end.

(** the repaired library (fixes/C13-*.patch applied) *)
Definition step (h : heap) (o : op) : heap * result := step_cfg cfg_fixed h o.

(** a run: the results of all operations and the final heap *)
Fixpoint run_cfg (cf : cfg) (h : heap) (l : list op) : heap * list result :=
  match l with
  | [] => (h, [])
  | o :: r => let (h1, x) := step_cfg cf h o in let (h2, xs) := run_cfg cf h1 r in (h2, x :: xs)
  end.

(** initial heap of a request: [n] empty documents, DOMImplementation::createDocument() *)
Definition doc_node (i : id) : node := mkNode TDoc [] [] [] i None None None false false false i None [] false None false [] false false [] 0.
Definition init_heap (n : nat) : heap := map doc_node (seq 0 n).
