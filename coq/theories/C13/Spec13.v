(** C13 -- the reference DOM: a store of nodes, each with its data, its owner document, its parent and the
    LIST of its children (so the store is a forest of rose trees, [tree_of] below), and the DOM Core
    operations on it with their exception conditions.  Nothing here mentions the implementation.

    Where DOM Core leaves a choice, the choice is stated:
      (a) when several exception conditions hold at once the one reported is the first in the order written
          in [s_insert_check];
      (b) replaceChild(x, x) ("implementation dependent" in DOM L3) removes x;
      (c) a Document refuses a second Element child even when the Element offered is its present root;
      (d) a non-empty Text node consisting of white space only is tolerated as a child of a Document;
      (e) normalize merges adjacent Text nodes (not CDATA sections), descends through Element children,
          and removes Text nodes that are empty (DOM L2/L3 Node.normalize). *)
From Coq Require Import NArith List Bool Arith.
From XV Require Import C13.Ops13.
Import ListNotations.

Record snode := mkS {
  s_ty : ntype; s_name : str; s_val : str;
  s_attrs : list id;             (* an Element: its Attr nodes, kept sorted by name (canonical form of the unordered map) *)
  s_doc : id;                    (* ownerDocument (a Document: itself) *)
  s_parent : option id;
  s_kids : list id;
  s_ro : bool;
  s_ns : str;                    (* namespace URI ([] = none) *)
  s_l1 : bool;                   (* created by a DOM Level 1 method (createElement/createAttribute): no namespace support *)
  s_oelem : option id;           (* an Attr: ownerElement *)
  s_dead : bool;                 (* discarded: removeAttribute, a replaced attribute value, release() *)
  s_udata : list (str * N);      (* user data: key -> data (DOM L3 setUserData / getUserData) *)
  s_isid : bool                  (* an Attr: isId *)
}.
Definition sheap := list snode.
Definition sdummy : snode := mkS TText [] [] [] 0 None [] false [] true None false [] false.
Definition sn (s : sheap) (i : id) : snode := nth i s sdummy.
Fixpoint supd (s : sheap) (i : id) (f : snode -> snode) : sheap :=
  match s, i with [], _ => [] | x :: r, O => f x :: r | x :: r, S j => x :: supd r j f end.

Definition with_val v (n : snode) := mkS (s_ty n) (s_name n) v (s_attrs n) (s_doc n) (s_parent n) (s_kids n) (s_ro n) (s_ns n) (s_l1 n) (s_oelem n) (s_dead n) (s_udata n) (s_isid n).
Definition with_attrs v (n : snode) := mkS (s_ty n) (s_name n) (s_val n) v (s_doc n) (s_parent n) (s_kids n) (s_ro n) (s_ns n) (s_l1 n) (s_oelem n) (s_dead n) (s_udata n) (s_isid n).
Definition with_parent v (n : snode) := mkS (s_ty n) (s_name n) (s_val n) (s_attrs n) (s_doc n) v (s_kids n) (s_ro n) (s_ns n) (s_l1 n) (s_oelem n) (s_dead n) (s_udata n) (s_isid n).
Definition with_name v (n : snode) := mkS (s_ty n) v (s_val n) (s_attrs n) (s_doc n) (s_parent n) (s_kids n) (s_ro n) (s_ns n) (s_l1 n) (s_oelem n) (s_dead n) (s_udata n) (s_isid n).
Definition with_ns v (n : snode) := mkS (s_ty n) (s_name n) (s_val n) (s_attrs n) (s_doc n) (s_parent n) (s_kids n) (s_ro n) v (s_l1 n) (s_oelem n) (s_dead n) (s_udata n) (s_isid n).
Definition with_oelem v (n : snode) := mkS (s_ty n) (s_name n) (s_val n) (s_attrs n) (s_doc n) (s_parent n) (s_kids n) (s_ro n) (s_ns n) (s_l1 n) v (s_dead n) (s_udata n) (s_isid n).
Definition with_dead v (n : snode) := mkS (s_ty n) (s_name n) (s_val n) (s_attrs n) (s_doc n) (s_parent n) (s_kids n) (s_ro n) (s_ns n) (s_l1 n) (s_oelem n) v (s_udata n) (s_isid n).
Definition with_udata v (n : snode) := mkS (s_ty n) (s_name n) (s_val n) (s_attrs n) (s_doc n) (s_parent n) (s_kids n) (s_ro n) (s_ns n) (s_l1 n) (s_oelem n) (s_dead n) v (s_isid n).
Definition with_isid v (n : snode) := mkS (s_ty n) (s_name n) (s_val n) (s_attrs n) (s_doc n) (s_parent n) (s_kids n) (s_ro n) (s_ns n) (s_l1 n) (s_oelem n) (s_dead n) (s_udata n) v.
Definition with_kids v (n : snode) := mkS (s_ty n) (s_name n) (s_val n) (s_attrs n) (s_doc n) (s_parent n) v (s_ro n) (s_ns n) (s_l1 n) (s_oelem n) (s_dead n) (s_udata n) (s_isid n).

(** rose-tree view of the subtree rooted at [i] *)
Inductive tree := T (i : id) (ty : ntype) (name value : str) (attrs : list id) (children : list tree).
Fixpoint tree_of (fuel : nat) (s : sheap) (i : id) : tree :=
  match fuel with
  | O => T i (s_ty (sn s i)) (s_name (sn s i)) (s_val (sn s i)) (s_attrs (sn s i)) []
  | S f => T i (s_ty (sn s i)) (s_name (sn s i)) (s_val (sn s i)) (s_attrs (sn s i)) (map (tree_of f s) (s_kids (sn s i)))
  end.

(** which node types may be children of which (DOM Core 1.1.1 "The DOM Structure Model") *)
Definition allowed_child (p c : ntype) : bool :=
  match p with
  | TDoc => match c with TElem | TPI | TComment => true | _ => false end
  | TElem | TFrag | TERef => match c with TElem | TText | TCData | TERef | TPI | TComment => true | _ => false end
  | TAttr => match c with TText | TERef => true | _ => false end
  | _ => false
  end.
Definition child_ok (s : sheap) (p c : id) : bool :=
  allowed_child (s_ty (sn s p)) (s_ty (sn s c))
  || (ntype_eqb (s_ty (sn s p)) TDoc && ntype_eqb (s_ty (sn s c)) TText && all_spaces (s_val (sn s c))).   (* (d) *)

Definition oeqb (a b : option id) : bool :=
  match a, b with Some x, Some y => Nat.eqb x y | None, None => true | _, _ => false end.
(** the owner document as the API reports it: none for a Document *)
Definition s_owner_doc (s : sheap) (n : id) : option id :=
  match s_ty (sn s n) with TDoc => None | _ => Some (s_doc (sn s n)) end.
(** is [a] the node [n] or one of its ancestors *)
Fixpoint anc_or_self (fuel : nat) (s : sheap) (a n : id) : bool :=
  Nat.eqb a n ||
  match fuel with
  | O => true
  | S f => match s_parent (sn s n) with Some p => anc_or_self f s a p | None => false end
  end.
Definition is_elem (s : sheap) (i : id) : bool := ntype_eqb (s_ty (sn s i)) TElem.

Fixpoint remove_id (c : id) (l : list id) : list id :=
  match l with [] => [] | x :: r => if Nat.eqb x c then r else x :: remove_id c r end.
Fixpoint insert_before (ref : option id) (c : id) (l : list id) : list id :=
  match ref with
  | None => l ++ [c]
  | Some r => match l with [] => [c] | x :: t => if Nat.eqb x r then c :: l else x :: insert_before ref c t end
  end.

Fixpoint next_of (n : id) (l : list id) : option id :=
  match l with [] => None | x :: r => if Nat.eqb x n then hd_error r else next_of n r end.

Definition detach (s : sheap) (c : id) : sheap :=
  match s_parent (sn s c) with
  | None => s
  | Some p => supd (supd s p (fun x => with_kids (remove_id c (s_kids x)) x)) c (with_parent None)
  end.
Definition attach (s : sheap) (p c : id) (ref : option id) : sheap :=
  supd (supd s p (fun x => with_kids (insert_before ref c (s_kids x)) x)) c (with_parent (Some p)).
Definition move (s : sheap) (p c : id) (ref : option id) : sheap := attach (detach s c) p c ref.

(** insertBefore(newChild = c, refChild = ref) on node p; [ignore] is the child about to be replaced (replaceChild) *)
Definition s_insert_check (s : sheap) (p c : id) (ref ignore : option id) : option exc :=
  let others := match ignore with Some o => remove_id o (s_kids (sn s p)) | None => s_kids (sn s p) end in
  (* replacing an Element: either it is the root (no other element remains) or it is not a child (NOT_FOUND below) *)
  let root_taken := match ignore with
                    | Some o => if is_elem s o then false else existsb (is_elem s) others
                    | None => existsb (is_elem s) others
                    end in
  if is_leaf (s_ty (sn s p)) then Some HIERARCHY
  else if ntype_eqb (s_ty (sn s p)) TDoc && is_elem s c && root_taken then Some HIERARCHY   (* (c) *)
  else if ntype_eqb (s_ty (sn s p)) TDoc && ntype_eqb (s_ty (sn s c)) TFrag
          && (1 <? length (filter (is_elem s) (s_kids (sn s c))) + (if root_taken then 1 else 0)) then Some HIERARCHY
  else if s_ro (sn s p) then Some NO_MOD
  else if negb (oeqb (s_owner_doc s c) (Some (s_doc (sn s p)))) then Some WRONG_DOC
  else if anc_or_self (length s) s c p then Some HIERARCHY
  else if match ref with Some r => negb (oeqb (s_parent (sn s r)) (Some p)) | None => false end then Some NOT_FOUND
  else if oeqb ref (Some c) then None
  else if ntype_eqb (s_ty (sn s c)) TFrag then
    if negb (forallb (child_ok s p) (s_kids (sn s c))) then Some HIERARCHY
    else if ntype_eqb (s_ty (sn s p)) TDoc
            && (1 <? length (filter (is_elem s) (s_kids (sn s c) ++ others))) then Some HIERARCHY
    else None
  else if negb (child_ok s p c) then Some HIERARCHY
  else match s_parent (sn s c) with
       | Some q => if s_ro (sn s q) then Some NO_MOD else None
       | None => None
       end.

Definition s_insert (s : sheap) (p c : id) (ref ignore : option id) : sheap * result :=
  match s_insert_check s p c ref ignore with
  | Some e => (s, RErr e)
  | None =>
    if oeqb ref (Some c) then (s, RNode c)
    else if ntype_eqb (s_ty (sn s c)) TFrag then
      (fold_left (fun s0 k => move s0 p k ref) (s_kids (sn s c)) s, RNode c)
    else (move s p c ref, RNode c)
  end.

Definition s_remove (s : sheap) (p c : id) : sheap * result :=
  if is_leaf (s_ty (sn s p)) then (s, RErr NOT_FOUND)
  else if s_ro (sn s p) then (s, RErr NO_MOD)
  else if negb (oeqb (s_parent (sn s c)) (Some p)) then (s, RErr NOT_FOUND)
  else (detach s c, RNode c).

Definition s_replace (s : sheap) (p n o : id) : sheap * result :=
  if is_leaf (s_ty (sn s p)) then (s, RErr HIERARCHY)
  else let (s1, r1) := s_insert s p n (Some o) (Some o) in
       if is_err r1 then (s1, r1) else (detach s1 o, RNode o).                    (* (b) *)

(** character data: offsets beyond the end raise INDEX_SIZE_ERR, counts are clipped to the end *)
Definition s_chardata (s : sheap) (n : id) (f : str -> option str) : sheap * result :=
  if s_ro (sn s n) then (s, RErr NO_MOD)
  else match f (s_val (sn s n)) with
       | None => (s, RErr INDEX_SIZE)
       | Some v => (supd s n (with_val v), ROk)
       end.
Definition in_range (off : N) (d : str) : bool := N.leb off (N.of_nat (length d)).
(** the part of [d] from [off] on, at most [cnt] units long: a count beyond the end means "to the end" *)
Definition tail_from (off cnt : N) (d : str) : str := skipn (N.to_nat off + N.to_nat (N.min cnt (N.of_nat (length d) - off))) d.
Definition head_to (off : N) (d : str) : str := firstn (N.to_nat off) d.

Definition s_new (s : sheap) (x : snode) : sheap * result := (s ++ [x], RNode (length s)).

Definition s_create (s : sheap) (doc : id) (t : ntype) (nm v : str) : sheap * result :=
  if negb (ntype_eqb (s_ty (sn s doc)) TDoc) then (s, RSkip)
  else match t with
       | TDoc => (s, RSkip)
       | TElem | TERef | TAttr => if valid_name nm then s_new s (mkS t nm [] [] doc None [] (ntype_eqb t TERef) [] true None false [] false) else (s, RErr INVALID_CHAR)
       | TPI => if valid_name nm then s_new s (mkS t nm v [] doc None [] false [] true None false [] false) else (s, RErr INVALID_CHAR)
       | TFrag => s_new s (mkS t [] [] [] doc None [] false [] true None false [] false)
       | _ => s_new s (mkS t [] v [] doc None [] false [] true None false [] false)
       end.

(** splitText: the tail becomes a new node of the same type, inserted as the next sibling (under the rules of
    insertBefore: by (d) a Document may refuse the tail, then nothing happens) *)
Definition s_split (s : sheap) (n : id) (offN : N) : sheap * result :=
  if s_ro (sn s n) then (s, RErr NO_MOD)
  else let d := s_val (sn s n) in
       if negb (in_range offN d) then (s, RErr INDEX_SIZE)
       else let off := N.to_nat offN in
            let nt := length s in
            let s1 := s ++ [mkS (s_ty (sn s n)) [] (skipn off d) [] (s_doc (sn s n)) None [] false [] true None false [] false] in
            let (s2, r2) := match s_parent (sn s n) with
                            | Some p => s_insert s1 p nt (next_of n (s_kids (sn s p))) None
                            | None => (s1, ROk)
                            end in
            if is_err r2 then (s, r2) else (supd s2 n (with_val (firstn off d)), RNode nt).

(** normalize: within one child list, merge every run of adjacent Text nodes into its first node; the merged-away
    nodes become parentless and keep their data; then remove Text nodes left empty (e); Element children are
    normalized recursively.  [merge s p prev l]: prev = the Text node the current run started with *)
Fixpoint merge_runs (s : sheap) (p : id) (run : option id) (l : list id) : sheap :=
  match l with
  | [] => s
  | k :: r =>
    if ntype_eqb (s_ty (sn s k)) TText then
      match run with
      | Some t => let s1 := supd s t (with_val (s_val (sn s t) ++ s_val (sn s k))) in
                  merge_runs (detach s1 k) p run r
      | None => merge_runs s p (Some k) r
      end
    else merge_runs s p None r
  end.
Definition drop_empty (s : sheap) (p : id) : sheap :=
  fold_left (fun s0 k => if ntype_eqb (s_ty (sn s0 k)) TText && match s_val (sn s0 k) with [] => true | _ => false end
                         then detach s0 k else s0) (s_kids (sn s p)) s.
Fixpoint s_norm (fuel : nat) (s : sheap) (p : id) : sheap :=
  match fuel with
  | O => s
  | S f =>
    let s1 := drop_empty (merge_runs s p None (s_kids (sn s p))) p in
    fold_left (fun s0 k => if is_elem s0 k then s_norm f s0 k else s0) (s_kids (sn s1 p)) s1
  end.
Definition s_normalize (s : sheap) (n : id) : sheap * result :=
  if is_leaf (s_ty (sn s n)) then (s, ROk) else (s_norm (length s) s n, ROk).

(** cloneNode: a copy of the node (attributes included, parentless, never read-only except an entity reference);
    deep: followed by copies of the children, appended in order.  New nodes are numbered in document order. *)
Fixpoint s_clone (fuel : nat) (s : sheap) (n : id) (deep : bool) : sheap * id :=
  let x := sn s n in
  let c := length s in
  let s1 := s ++ [mkS (s_ty x) (match s_ty x with TFrag => [] | _ => s_name x end)
                      (if is_leaf (s_ty x) then s_val x else []) []
                      (s_doc x) None [] (ntype_eqb (s_ty x) TERef) (s_ns x) (s_l1 x) None false [] (s_isid x)] in
  match fuel with
  | O => (s1, c)
  | S f =>
    let s3 := if deep || ntype_eqb (s_ty x) TAttr then          (* the value of an attribute is always copied *)
                fold_left (fun s0 k => let (s2, kc) := s_clone f s0 k true in
                                       supd (supd s2 c (fun y => with_kids (s_kids y ++ [kc]) y)) kc (with_parent (Some c)))
                          (s_kids x) s1
              else s1 in
    (* the attributes of an element are copied with it, after its children *)
    (fold_left (fun s0 a => let (s2, ac) := s_clone f s0 a true in
                            supd (supd s2 c (fun y => with_attrs (s_attrs y ++ [ac]) y)) ac (with_oelem (Some c)))
               (s_attrs x) s3, c)
  end.


(** renameNode (DOM L3): the node keeps its children, attributes and its position among its siblings.
    (f) a node created by a Level 1 method that is renamed into a namespace is replaced by a new, namespace-aware
        node (numbered next) which takes over children, attributes and position; the old node is left empty and
        parentless.  Otherwise the node is renamed in place.
    (g) for a Level 1 node renamed without a namespace only XML-name validity is required (it has no prefix). *)
Fixpoint replace_id (old new : id) (l : list id) : list id :=
  match l with [] => [] | x :: r => if Nat.eqb x old then new :: r else x :: replace_id old new r end.
Definition s_rename_core (s : sheap) (doc n : id) (ns nm : str) : sheap * result :=
  if negb (oeqb (s_owner_doc s n) (Some doc)) then (s, RErr WRONG_DOC)
  else
    let x := sn s n in
    let is_attr := ntype_eqb (s_ty x) TAttr in
    if negb (is_elem s n || is_attr) then (s, RErr NOT_SUPPORTED)
    else if negb (valid_name nm) then (s, RErr INVALID_CHAR)
    else if s_l1 x && match ns with [] => true | _ => false end then (supd s n (with_name nm), RNode n)      (* (g) *)
    else match ns_bind is_attr ns nm with
         | None => (s, RErr NAMESPACE)
         | Some uri =>
           if s_l1 x then                                                                                    (* (f) *)
             let ne := length s in
             let s1 := s ++ [mkS (s_ty x) nm [] (s_attrs x) doc (s_parent x) (s_kids x) false uri false None false (s_udata x) false] in
             let s2 := fold_left (fun s0 k => supd s0 k (with_parent (Some ne))) (s_kids x) s1 in
             let s3 := match s_parent x with
                       | Some p => supd s2 p (fun y => with_kids (replace_id n ne (s_kids y)) y)
                       | None => s2
                       end in
             let s4 := fold_left (fun s0 a => supd s0 a (with_oelem (Some ne))) (s_attrs x) s3 in
             (supd s4 n (fun y => with_udata [] (with_attrs [] (with_kids [] (with_parent None y)))), RNode ne)
           else (supd s n (fun y => with_ns uri (with_name nm y)), RNode n)
         end.

(** ------------------------------------------------------------ attributes: Attr nodes owned by an element *)
Fixpoint a_find (s : sheap) (l : list id) (nm : str) : option id :=
  match l with [] => None | a :: r => if str_eqb nm (s_name (sn s a)) then Some a else a_find s r nm end.
(** put [a] into the name-sorted list (replacing an attribute of the same name) *)
Fixpoint a_put (s : sheap) (l : list id) (a : id) : list id :=
  match l with
  | [] => [a]
  | b :: r => match str_cmp (s_name (sn s a)) (s_name (sn s b)) with
              | Eq => a :: r | Lt => a :: l | Gt => b :: a_put s r a
              end
  end.
(** the value of an attribute: the text of its children *)
Definition a_value (s : sheap) (a : id) : str :=
  flat_map (fun k => match s_ty (sn s k) with TText => s_val (sn s k) | _ => [] end) (s_kids (sn s a)).
(** discard a subtree *)
Fixpoint s_kill (fuel : nat) (s : sheap) (n : id) : sheap :=
  match fuel with O => s | S f => fold_left (s_kill f) (s_kids (sn s n) ++ s_attrs (sn s n)) (supd s n (fun x => with_isid false (with_udata [] (with_dead true x)))) end.
(** give the attribute the value v: its children are discarded, one new Text node (numbered next) holds v *)
Definition a_set_value (s : sheap) (a : id) (v : str) : sheap * result :=
  if s_ro (sn s a) then (s, RErr NO_MOD)
  else let s1 := fold_left (fun s0 k => s_kill (length s) (detach s0 k) k) (s_kids (sn s a)) s in
       let t := length s1 in
       let s2 := s1 ++ [mkS TText [] v [] (s_doc (sn s a)) None [] false [] true None false [] false] in
       (attach s2 a t None, ROk).

Definition s_set_attr_node (s : sheap) (e a : id) : sheap * result :=
  if s_ro (sn s e) then (s, RErr NO_MOD)
  else if negb (oeqb (s_owner_doc s a) (Some (s_doc (sn s e)))) then (s, RErr WRONG_DOC)
  else match s_oelem (sn s a) with
       | Some o => if Nat.eqb o e then (s, RNode a)                 (* already an attribute of e: nothing happens *)
                   else (s, RErr INUSE)
       | None =>
         let old := a_find s (s_attrs (sn s e)) (s_name (sn s a)) in
         let s1 := supd (supd s e (fun x => with_attrs (a_put s (s_attrs x) a) x)) a (with_oelem (Some e)) in
         match old with
         | Some p => (supd s1 p (fun x => with_isid false (with_oelem None x)), RNode p)     (* the replaced attribute is no ID of the document any more *)
         | None => (s1, ROk)
         end
       end.

Definition s_remove_attr_node (s : sheap) (e a : id) : sheap * result :=
  if s_ro (sn s e) then (s, RErr NO_MOD)
  else if existsb (Nat.eqb a) (s_attrs (sn s e))                     (* THAT node, not one of the same name *)
       then (supd (supd s e (fun x => with_attrs (remove_id a (s_attrs x)) x)) a (fun x => with_isid false (with_oelem None x)), RNode a)
       else (s, RErr NOT_FOUND).

Definition s_set_attribute (s : sheap) (e : id) (nm v : str) : sheap * result :=
  if s_ro (sn s e) then (s, RErr NO_MOD)
  else match a_find s (s_attrs (sn s e)) nm with
       | Some a => a_set_value s a v
       | None =>
         if valid_name nm then
           let a := length s in
           let s1 := s ++ [mkS TAttr nm [] [] (s_doc (sn s e)) None [] false [] true (Some e) false [] false] in
           a_set_value (supd s1 e (fun x => with_attrs (a_put s1 (s_attrs x) a) x)) a v
         else (s, RErr INVALID_CHAR)
       end.

Definition s_remove_attribute (s : sheap) (e : id) (nm : str) : sheap * result :=
  if s_ro (sn s e) then (s, RErr NO_MOD)
  else match a_find s (s_attrs (sn s e)) nm with
       | Some a => (s_kill (length s) (supd (supd s e (fun x => with_attrs (remove_id a (s_attrs x)) x)) a (with_oelem None)) a, ROk)
       | None => (s, ROk)
       end.


(** an attribute that is on an element stays on it under its new name (replacing an attribute that has that name) *)
Definition s_rename (s : sheap) (doc n : id) (ns nm : str) : sheap * result :=
  match (if ntype_eqb (s_ty (sn s n)) TAttr then s_oelem (sn s n) else None) with
  | Some el =>
    if s_ro (sn s el) then (if negb (oeqb (s_owner_doc s n) (Some doc)) then (s, RErr WRONG_DOC) else (s, RErr NO_MOD))
    else
    let s0 := supd (supd s el (fun x => with_attrs (remove_id n (s_attrs x)) x)) n (fun x => with_isid false (with_oelem None x)) in
    let (s1, r1) := s_rename_core s0 doc n ns nm in
    match r1 with
    | RNode m => (fst (s_set_attr_node s1 el m), RNode m)
    | _ => (s, r1)
    end
  | None => s_rename_core s doc n ns nm
  end.

(** ------------------------------------------------------------ user data, release, ID attributes *)
Fixpoint u_get (l : list (str * N)) (k : str) : N :=
  match l with [] => 0%N | (j, v) :: r => if str_eqb j k then v else u_get r k end.
Definition u_del (l : list (str * N)) (k : str) := filter (fun p => negb (str_eqb (fst p) k)) l.
Definition s_set_user_data (s : sheap) (n : id) (key : str) (data : N) : sheap * result :=
  let l := s_udata (sn s n) in
  let l1 := u_del l key in
  (supd s n (with_udata (if N.eqb data 0 then l1 else (key, data) :: l1)), RData (u_get l key)).

Fixpoint s_subtree (fuel : nat) (s : sheap) (n : id) : list id :=
  match fuel with O => [n] | S f => n :: flat_map (s_subtree f s) (s_kids (sn s n) ++ s_attrs (sn s n)) end.
(** release(): only a node without parent / owner element; it and everything under it is discarded ([force]: see Model13) *)
Definition s_release (s : sheap) (n : id) (force : bool) : sheap * result :=
  match s_ty (sn s n) with
  | TDoc => (s, RSkip)
  | _ => if (match s_parent (sn s n) with Some _ => true | None => false end) || (match s_oelem (sn s n) with Some _ => true | None => false end)
         then (s, RErr INVALID_ACCESS)
         else if negb force && existsb (fun x => s_isid (sn s x)) (s_subtree (length s) s n) then (s, RSkip)
         else (s_kill (length s) s n, ROk)
  end.
Definition s_set_id_attr (s : sheap) (e : id) (nm : str) (b : bool) : sheap * result :=
  if s_ro (sn s e) then (s, RErr NO_MOD)
  else match a_find s (s_attrs (sn s e)) nm with
       | None => (s, RErr NOT_FOUND)
       | Some a => (supd s a (with_isid b), ROk)
       end.
Definition s_set_id_attr_node (s : sheap) (e a : id) (b : bool) : sheap * result :=
  if s_ro (sn s e) then (s, RErr NO_MOD)
  else if existsb (Nat.eqb a) (s_attrs (sn s e)) then (supd s a (with_isid b), ROk)         (* THAT node *)
  else (s, RErr NOT_FOUND).
(** getElementById(v): an element of the document that carries an ID attribute with value v.  When several do, DOM
    leaves the choice open: [s_carries] is the admissible set, [s_get_by_id] picks the oldest *)
Definition s_carries (s : sheap) (d : id) (v : str) (e : id) : bool :=
  is_elem s e && negb (s_dead (sn s e)) && Nat.eqb (s_doc (sn s e)) d &&
  existsb (fun a => s_isid (sn s a) && str_eqb (a_value s a) v) (s_attrs (sn s e)).
Definition s_get_by_id (s : sheap) (d : id) (v : str) : result :=
  match filter (s_carries s d v) (seq 0 (length s)) with e :: _ => RNode e | [] => ROk end.
Definition s_by_id_ok (s : sheap) (d : id) (v : str) (r : result) : bool :=
  match r with
  | RNode e => s_carries s d v e
  | ROk => match filter (s_carries s d v) (seq 0 (length s)) with [] => true | _ => false end
  | _ => false
  end.

Definition svalid (s : sheap) (i : id) : bool := (i <? length s) && negb (s_dead (sn s i)).
Definition sovalid (s : sheap) (o : option id) : bool := match o with Some i => svalid s i | None => true end.
Definition is_text (t : ntype) : bool := match t with TText | TCData => true | _ => false end.

(** one operation of the reference DOM *)
Definition sstep (s : sheap) (o : op) : sheap * result :=
  match o with
  | OCreate d t nm v => if svalid s d then s_create s d t nm v else (s, RSkip)
  | OInsertBefore p c r => if svalid s p && svalid s c && sovalid s r then s_insert s p c r None else (s, RSkip)
  | OAppend p c => if svalid s p && svalid s c then s_insert s p c None None else (s, RSkip)
  | ORemove p c => if svalid s p && svalid s c then s_remove s p c else (s, RSkip)
  | OReplace p n o => if svalid s p && svalid s n && svalid s o then s_replace s p n o else (s, RSkip)
  | OClone n deep =>
    if svalid s n then
      match s_ty (sn s n) with TDoc => (s, RSkip) | _ => let (s1, c) := s_clone (length s) s n deep in (s1, RNode c) end
    else (s, RSkip)
  | ONormalize n => if svalid s n then s_normalize s n else (s, RSkip)
  | OSetData n v => if svalid s n && is_leaf (s_ty (sn s n)) then s_chardata s n (fun _ => Some v)
                    else if svalid s n && ntype_eqb (s_ty (sn s n)) TAttr then a_set_value s n v else (s, RSkip)
  | OAppendData n v => if svalid s n && is_chardata (s_ty (sn s n)) then s_chardata s n (fun d => Some (d ++ v)) else (s, RSkip)
  | OInsertData n off v =>
    if svalid s n && is_chardata (s_ty (sn s n)) then
      s_chardata s n (fun d => if in_range off d then Some (head_to off d ++ v ++ tail_from off 0 d) else None)
    else (s, RSkip)
  | ODeleteData n off cnt =>
    if svalid s n && is_chardata (s_ty (sn s n)) then
      s_chardata s n (fun d => if in_range off d then Some (head_to off d ++ tail_from off cnt d) else None)
    else (s, RSkip)
  | OReplaceData n off cnt v =>
    if svalid s n && is_chardata (s_ty (sn s n)) then
      s_chardata s n (fun d => if in_range off d then Some (head_to off d ++ v ++ tail_from off cnt d) else None)
    else (s, RSkip)
  | OSubstring n off cnt =>
    if svalid s n && is_chardata (s_ty (sn s n)) then
      (if in_range off (s_val (sn s n))
       then (s, RStr (firstn (N.to_nat (N.min cnt (N.of_nat (length (s_val (sn s n)))))) (tail_from off 0 (s_val (sn s n)))))
       else (s, RErr INDEX_SIZE))
    else (s, RSkip)
  | OSplitText n off => if svalid s n && is_text (s_ty (sn s n)) then s_split s n off else (s, RSkip)
  | OSetAttr e nm v => if svalid s e && is_elem s e then s_set_attribute s e nm v else (s, RSkip)
  | ORemoveAttr e nm => if svalid s e && is_elem s e then s_remove_attribute s e nm else (s, RSkip)
  | OGetAttr e nm =>
    if svalid s e && is_elem s e then (s, RStr (match a_find s (s_attrs (sn s e)) nm with Some a => a_value s a | None => [] end))
    else (s, RSkip)
  | OSetAttrNode e a =>
    if svalid s e && svalid s a && is_elem s e && ntype_eqb (s_ty (sn s a)) TAttr then s_set_attr_node s e a else (s, RSkip)
  | ORemoveAttrNode e a =>
    if svalid s e && svalid s a && is_elem s e && ntype_eqb (s_ty (sn s a)) TAttr then s_remove_attr_node s e a else (s, RSkip)
  | OGetAttrNode e nm =>
    if svalid s e && is_elem s e then (s, match a_find s (s_attrs (sn s e)) nm with Some a => RNode a | None => ROk end)
    else (s, RSkip)
  | OSetUserData n key data _ => if svalid s n then s_set_user_data s n key data else (s, RSkip)
  | OGetUserData n key => if svalid s n then (s, RData (u_get (s_udata (sn s n)) key)) else (s, RSkip)
  | ORelease n force => if svalid s n then s_release s n force else (s, RSkip)
  | OSetIdAttr e nm b => if svalid s e && is_elem s e then s_set_id_attr s e nm b else (s, RSkip)
  | OSetIdAttrNode e a b =>
    if svalid s e && svalid s a && is_elem s e && ntype_eqb (s_ty (sn s a)) TAttr then s_set_id_attr_node s e a b else (s, RSkip)
  | OGetById d v => if svalid s d && ntype_eqb (s_ty (sn s d)) TDoc then (s, s_get_by_id s d v) else (s, RSkip)
  | ORename d n ns nm =>
    if svalid s d && svalid s n && ntype_eqb (s_ty (sn s d)) TDoc then s_rename s d n ns nm else (s, RSkip)
  end.

Fixpoint srun (s : sheap) (l : list op) : sheap * list result :=
  match l with
  | [] => (s, [])
  | o :: r => let (s1, x) := sstep s o in let (s2, xs) := srun s1 r in (s2, x :: xs)
  end.

Definition sinit (n : nat) : sheap := map (fun i => mkS TDoc [] [] [] i None [] false [] true None false [] false) (seq 0 n).
