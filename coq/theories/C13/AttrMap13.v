(** C13 -- executable model of DOMAttrMapImpl::findNamePoint(name) (the bisection over the name-sorted vector fNodes)
    and of the two users of its answer, getNamedItem and the vector update of setNamedItem, line by line.
    No proofs in this file.  (Model13.v searches the vector linearly: [amap_find], [amap_put]; Proofs13n.v proves that on
    a name-sorted vector both agree and that the vector stays sorted.)  The C++ uses int arithmetic: Z here. *)
From Coq Require Import NArith ZArith List Bool Arith.
From XV Require Import C13.Ops13 C13.Spec13 C13.Model13.
Import ListNotations.

(** fNodes->elementAt(i)->getNodeName() *)
Definition name_at (h : heap) (l : list id) (i : Z) : str := n_name (nd h (nth (Z.to_nat i) l 0)).

(** int first=0, last=size()-1;
    while (first<=last) { i=(first+last)/2; test=compareString(name, elementAt(i)->getNodeName());
                          if (test==0) return i; else if (test<0) last=i-1; else first=i+1; }
    if (first>i) i=first;
    return -1 - i; *)
Fixpoint fnp_loop (fuel : nat) (h : heap) (l : list id) (nm : str) (first last i : Z) : Z :=
  match fuel with
  | O => (-1 - i)%Z                      (* fuel = size + 1 suffices (Proofs13n.fnp_loop_spec) *)
  | S f =>
    if (first <=? last)%Z then
      let i := ((first + last) / 2)%Z in
      match str_cmp nm (name_at h l i) with
      | Eq => i
      | Lt => fnp_loop f h l nm first (i - 1)%Z i
      | Gt => fnp_loop f h l nm (i + 1)%Z last i
      end
    else (-1 - (if (i <? first)%Z then first else i))%Z
  end.
Definition find_name_point (h : heap) (l : list id) (nm : str) : Z :=
  fnp_loop (S (length l)) h l nm 0%Z (Z.of_nat (length l) - 1)%Z 0%Z.

(** getNamedItem: i = findNamePoint(name); return (i<0) ? 0 : fNodes->elementAt(i) *)
Definition amap_find_bis (h : heap) (l : list id) (nm : str) : option id :=
  let i := find_name_point h l nm in
  if (i <? 0)%Z then None else Some (nth (Z.to_nat i) l 0).

(** DOMNodeVector::setElementAt / insertElementAt *)
Definition set_at (p : nat) (a : id) (l : list id) : list id := firstn p l ++ a :: skipn (S p) l.
Definition insert_at (p : nat) (a : id) (l : list id) : list id := firstn p l ++ a :: skipn p l.
(** setNamedItem: i=findNamePoint(arg->getNodeName()); if (i>=0) setElementAt(arg,i); else insertElementAt(arg,-1-i) *)
Definition amap_put_bis (h : heap) (l : list id) (a : id) : list id :=
  let i := find_name_point h l (n_name (nd h a)) in
  if (i <? 0)%Z then insert_at (Z.to_nat (-1 - i)) a l else set_at (Z.to_nat i) a l.

(** the answer of findNamePoint as the harness prints it: (found, index or insertion point) *)
Definition name_point (h : heap) (e : id) (nm : str) : bool * nat :=
  let i := find_name_point h (n_attrs (nd h e)) nm in
  if (i <? 0)%Z then (false, Z.to_nat (-1 - i)) else (true, Z.to_nat i).

(** the reference answer, computed on the reference store (Spec13): the position of the name in the element's attribute
    list, or the number of attributes whose name is smaller *)
Fixpoint s_point (s : sheap) (l : list id) (nm : str) (k : nat) : bool * nat :=
  match l with
  | [] => (false, k)
  | a :: r => match str_cmp nm (s_name (sn s a)) with
              | Eq => (true, k)
              | Lt => (false, k)
              | Gt => s_point s r nm (S k)
              end
  end.
Definition s_name_point (s : sheap) (e : id) (nm : str) : bool * nat := s_point s (s_attrs (sn s e)) nm 0.
