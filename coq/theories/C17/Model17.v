(** C17 -- model of the concurrency protocol: an interleaving semantics of any number of threads.

    A thread is a program tree ([prog]): lock / unlock a mutex, read / write a shared location (reads feed the
    continuation, so lock-then-check-then-initialise can be written down), wait for / signal the start barrier
    (the happens-before edge created by "threads are started after XMLPlatformUtils::Initialize returned"), local
    computation, and termination with a result value.  A state is the shared memory, the barrier flag and, per
    thread, the set of mutexes it holds plus its remaining program.  One step = one thread performs the action at
    the head of its program (sequentially consistent interleaving; the C++ memory model below the granularity of
    mutexes is NOT modelled -- see Properties_C17.v for what that leaves open).  NO proofs in this file. *)
From Coq Require Import List Arith Bool Lia.
Import ListNotations.

Definition mutex := nat.
Definition loc := nat.
Definition memory := loc -> nat.

Inductive prog : Type :=
| Done (v : nat)
| PAcq (m : mutex) (k : prog)
| PRel (m : mutex) (k : prog)
| PRd (x : loc) (k : nat -> prog)
| PWr (x : loc) (v : nat) (k : prog)
| PLocal (k : prog)
| PWait (k : prog)              (* worker side of the start barrier: enabled once the flag is set *)
| PSignal (k : prog).           (* main thread: Initialize() has returned, release the workers *)

Record thread := mkT { held : list mutex; code : prog }.

Record state := mkS { mem : memory; started : bool; thr : list thread }.

Definition upd (f : memory) (x : loc) (v : nat) : memory := fun y => if Nat.eqb y x then v else f y.

Fixpoint set_nth {A} (l : list A) (i : nat) (a : A) : list A :=
  match l, i with
  | [], _ => []
  | _ :: r, O => a :: r
  | b :: r, S j => b :: set_nth r j a
  end.

Definition holds (m : mutex) (t : thread) : Prop := In m (held t).
Definition free (m : mutex) (ts : list thread) : Prop := forall t, In t ts -> ~ holds m t.

Definition remove_mutex (m : mutex) (h : list mutex) : list mutex := filter (fun x => negb (Nat.eqb x m)) h.

(** relational small-step semantics: thread [i] moves *)
Inductive step : state -> nat -> state -> Prop :=
| s_acq : forall s i h m k, nth_error (thr s) i = Some (mkT h (PAcq m k)) -> free m (thr s) ->
    step s i (mkS (mem s) (started s) (set_nth (thr s) i (mkT (m :: h) k)))
| s_rel : forall s i h m k, nth_error (thr s) i = Some (mkT h (PRel m k)) -> In m h ->
    step s i (mkS (mem s) (started s) (set_nth (thr s) i (mkT (remove_mutex m h) k)))
| s_rd : forall s i h x k, nth_error (thr s) i = Some (mkT h (PRd x k)) ->
    step s i (mkS (mem s) (started s) (set_nth (thr s) i (mkT h (k (mem s x)))))
| s_wr : forall s i h x v k, nth_error (thr s) i = Some (mkT h (PWr x v k)) ->
    step s i (mkS (upd (mem s) x v) (started s) (set_nth (thr s) i (mkT h k)))
| s_local : forall s i h k, nth_error (thr s) i = Some (mkT h (PLocal k)) ->
    step s i (mkS (mem s) (started s) (set_nth (thr s) i (mkT h k)))
| s_wait : forall s i h k, nth_error (thr s) i = Some (mkT h (PWait k)) -> started s = true ->
    step s i (mkS (mem s) (started s) (set_nth (thr s) i (mkT h k)))
| s_signal : forall s i h k, nth_error (thr s) i = Some (mkT h (PSignal k)) ->
    step s i (mkS (mem s) true (set_nth (thr s) i (mkT h k))).

Inductive reach (s0 : state) : state -> Prop :=
| r_refl : reach s0 s0
| r_step : forall s i s', reach s0 s -> step s i s' -> reach s0 s'.

Definition init_state (m0 : memory) (ps : list prog) : state := mkS m0 false (map (mkT []) ps).

(** ---- data races ---------------------------------------------------------------------------------------- *)
Definition reads (x : loc) (p : prog) : Prop := match p with PRd y _ => y = x | _ => False end.
Definition writes (x : loc) (p : prog) : Prop := match p with PWr y _ _ => y = x | _ => False end.
Definition accesses (x : loc) (p : prog) : Prop := reads x p \/ writes x p.

(** A wait that is still blocked is not an enabled action; everything else at the head of a program is about to
    happen.  Two threads race on [x] in state [s] when both are about to access [x], at least one of them writing:
    in a sequentially consistent interleaving semantics this ("conflicting accesses are co-enabled") is equivalent
    to the existence of two conflicting accesses unordered by happens-before. *)
Definition race_at (x : loc) (s : state) : Prop :=
  exists i j ti tj, i <> j /\ nth_error (thr s) i = Some ti /\ nth_error (thr s) j = Some tj /\
    accesses x (code ti) /\ accesses x (code tj) /\ (writes x (code ti) \/ writes x (code tj)).

Definition race_free (x : loc) (s0 : state) : Prop := forall s, reach s0 s -> ~ race_at x s.

(** two threads inside a critical section of the same mutex at the same time *)
Definition both_inside (m : mutex) (s : state) : Prop :=
  exists i j ti tj, i <> j /\ nth_error (thr s) i = Some ti /\ nth_error (thr s) j = Some tj /\ holds m ti /\ holds m tj.

(** ---- lock discipline (what T-locks measures lexically) --------------------------------------------------- *)
(** [guarded x m h p]: running [p] with mutexes [h] held, every access to [x] happens while [m] is held *)
Fixpoint guarded (x : loc) (m : mutex) (h : list mutex) (p : prog) : Prop :=
  match p with
  | Done _ => True
  | PAcq m' k => guarded x m (m' :: h) k
  | PRel m' k => guarded x m (remove_mutex m' h) k
  | PRd y k => (y = x -> In m h) /\ forall v, guarded x m h (k v)
  | PWr y _ k => (y = x -> In m h) /\ guarded x m h k
  | PLocal k | PWait k | PSignal k => guarded x m h k
  end.

(** no write to [x] anywhere in the program *)
Fixpoint nowrite (x : loc) (p : prog) : Prop :=
  match p with
  | Done _ => True
  | PAcq _ k | PRel _ k | PLocal k | PWait k | PSignal k => nowrite x k
  | PRd _ k => forall v, nowrite x (k v)
  | PWr y _ k => y <> x /\ nowrite x k
  end.

(** no signal anywhere (workers never open the barrier themselves) *)
Fixpoint nosignal (p : prog) : Prop :=
  match p with
  | Done _ => True
  | PAcq _ k | PRel _ k | PLocal k | PWait k | PWr _ _ k => nosignal k
  | PRd _ k => forall v, nosignal (k v)
  | PSignal _ => False
  end.

(** the main thread: a straight-line initialisation (arbitrary accesses), then the signal, then code that no longer
    writes [x];  [initphase x p] = "p is still before its signal and behaves like that afterwards" *)
Fixpoint initphase (x : loc) (p : prog) : Prop :=
  match p with
  | Done _ => True
  | PAcq _ k | PRel _ k | PLocal k | PWait k | PWr _ _ k => initphase x k
  | PRd _ k => forall v, initphase x (k v)
  | PSignal k => nowrite x k /\ nosignal k
  end.

(** a worker: waits for the barrier first, then never writes [x] *)
Definition worker (x : loc) (p : prog) : Prop :=
  match p with PWait k => nowrite x k /\ nosignal k | _ => False end.

(** ---- thread programs of the library's lazily initialised facilities ------------------------------------- *)
(** lock-then-check-then-initialise (DOMImplementationRegistry::getDOMImplementation, RangeTokenMap::getRange slow
    path, ...): under mutex [m], if the flag says "not built" build the table -- modelled as data := data + v, so
    that running the body twice is *visible* as 2v -- and set the flag; after unlocking, use the table. *)
Definition lazy_get (m : mutex) (flag data : loc) (v : nat) : prog :=
  PAcq m (PRd flag (fun f =>
    if Nat.eqb f 0
    then PRd data (fun d => PWr data (d + v) (PWr flag 1 (PRel m (PRd data (fun r => Done r)))))
    else PRel m (PRd data (fun r => Done r)))).

(** the same check without any lock (DOMDocumentImpl::isKidOK's kidOK table, TraverseSchema::getElementAttValue's
    wsFacets table): a defect, kept here so that the race definition can be shown to detect it *)
Definition lazy_get_unsync (flag data : loc) (v : nat) : prog :=
  PRd flag (fun f =>
    if Nat.eqb f 0
    then PRd data (fun d => PWr data (d + v) (PWr flag 1 (PRd data (fun r => Done r))))
    else PRd data (fun r => Done r)).

(** flag published BEFORE the data (TraverseSchema::getElementAttValue sets bInitialized=true first) *)
Definition lazy_get_flag_first (flag data : loc) (v : nat) : prog :=
  PRd flag (fun f =>
    if Nat.eqb f 0
    then PWr flag 1 (PWr data v (PRd data (fun r => Done r)))
    else PRd data (fun r => Done r)).

(** double-checked variant (RangeTokenMap::getRange): unlocked fast-path read, locked slow path *)
Definition dcl_get (m : mutex) (flag data : loc) (v : nat) : prog :=
  PRd flag (fun f0 =>
    if Nat.eqb f0 0 then lazy_get m flag data v else PRd data (fun r => Done r)).

(** ---- executable semantics, used for the non-vacuity examples (bounded exhaustive exploration) -------------- *)
Definition is_free (m : mutex) (ts : list thread) : bool :=
  forallb (fun t => negb (existsb (Nat.eqb m) (held t))) ts.

Definition step_fn (s : state) (i : nat) : option state :=
  match nth_error (thr s) i with
  | None => None
  | Some (mkT h p) =>
    match p with
    | Done _ => None
    | PAcq m k => if is_free m (thr s) then Some (mkS (mem s) (started s) (set_nth (thr s) i (mkT (m :: h) k))) else None
    | PRel m k => if existsb (Nat.eqb m) h then Some (mkS (mem s) (started s) (set_nth (thr s) i (mkT (remove_mutex m h) k))) else None
    | PRd x k => Some (mkS (mem s) (started s) (set_nth (thr s) i (mkT h (k (mem s x)))))
    | PWr x v k => Some (mkS (upd (mem s) x v) (started s) (set_nth (thr s) i (mkT h k)))
    | PLocal k => Some (mkS (mem s) (started s) (set_nth (thr s) i (mkT h k)))
    | PWait k => if started s then Some (mkS (mem s) (started s) (set_nth (thr s) i (mkT h k))) else None
    | PSignal k => Some (mkS (mem s) true (set_nth (thr s) i (mkT h k)))
    end
  end.

Fixpoint run_sched (s : state) (sched : list nat) : option state :=
  match sched with
  | [] => Some s
  | i :: r => match step_fn s i with Some s' => run_sched s' r | None => None end
  end.

Definition acc_kind (x : loc) (p : prog) : nat :=       (* 0 none, 1 read, 2 write *)
  match p with PRd y _ => if Nat.eqb y x then 1 else 0 | PWr y _ _ => if Nat.eqb y x then 2 else 0 | _ => 0 end.

Fixpoint race_with (x : loc) (k : nat) (ts : list thread) : bool :=
  match ts with
  | [] => false
  | t :: r => let k' := acc_kind x (code t) in
              (negb (Nat.eqb k' 0) && (Nat.eqb k 2 || Nat.eqb k' 2)) || race_with x k r
  end.

Fixpoint race_in (x : loc) (ts : list thread) : bool :=
  match ts with
  | [] => false
  | t :: r => let k := acc_kind x (code t) in (negb (Nat.eqb k 0) && race_with x k r) || race_in x r
  end.

(** all states reachable within [fuel] steps (depth-first, no memoisation: only for tiny examples) *)
Fixpoint explore (fuel : nat) (s : state) : list state :=
  match fuel with
  | O => [s]
  | S f => s :: flat_map (fun i => match step_fn s i with Some s' => explore f s' | None => [] end)
                         (seq 0 (length (thr s)))
  end.

Definition finished (s : state) : bool := forallb (fun t => match code t with Done _ => true | _ => false end) (thr s).
Definition results (s : state) : list nat := flat_map (fun t => match code t with Done v => [v] | _ => [] end) (thr s).

(** sequential run of one program on a memory (locks always succeed: nobody else is there) *)
Fixpoint run_alone (fuel : nat) (m : memory) (p : prog) : option (nat * memory) :=
  match fuel with
  | O => None
  | S f => match p with
           | Done v => Some (v, m)
           | PAcq _ k | PRel _ k | PLocal k | PWait k | PSignal k => run_alone f m k
           | PRd x k => run_alone f m (k (m x))
           | PWr x v k => run_alone f (upd m x v) k
           end
  end.

(** ---- a tiny restatement of the locked grammar pool (XMLGrammarPoolImpl) -------------------------------- *)
(** registry = list of keys; once locked, cacheGrammar / orphanGrammar / clear leave it untouched, and URI ids come
    from a synchronised pool that only appends under its mutex (ids are positions, hence stable and unique) *)
Record gpool := mkP { registry : list nat; locked : bool; uris : list nat }.

Inductive pool_op := OpCache (k : nat) | OpOrphan (k : nat) | OpClear | OpRetrieve (k : nat) | OpAddUri (u : nat).

Fixpoint index_of (u : nat) (l : list nat) (i : nat) : option nat :=
  match l with [] => None | a :: r => if Nat.eqb a u then Some i else index_of u r (S i) end.

Definition pool_step (p : gpool) (o : pool_op) : gpool :=
  match o with
  | OpCache k => if locked p then p else if existsb (Nat.eqb k) (registry p) then p else mkP (k :: registry p) false (uris p)
  | OpOrphan k => if locked p then p else mkP (filter (fun a => negb (Nat.eqb a k)) (registry p)) false (uris p)
  | OpClear => if locked p then p else mkP [] false (uris p)
  | OpRetrieve _ => p
  | OpAddUri u => match index_of u (uris p) 0 with Some _ => p | None => mkP (registry p) (locked p) (uris p ++ [u]) end
  end.

Definition pool_run (p : gpool) (ops : list pool_op) : gpool := fold_left pool_step ops p.

Definition uri_id (p : gpool) (u : nat) : option nat := index_of u (uris p) 0.

(** ---- RangeTokenMap::getRange: the two slots of a keyword and the lazily published complement ----------------- *)
(** A keyword of the token map has a positive slot (fRange) and a complement slot (fNRange).  Tokens are kept abstract
    ([T] with a complement operation).  [get_range] follows RangeTokenMap::getRange: return the requested slot if it is
    filled; otherwise (under the map's mutex, so sequentially -- T17_lockset) re-check, and when the complement is asked
    for and the positive token exists, build its complement and publish it IN THE COMPLEMENT SLOT. *)
Section GetRange.
  Variable T : Type.
  Variable compl : T -> T.

  Record slots := mkSlots { s_pos : option T; s_neg : option T }.

  Definition get_range (e : slots) (complement : bool) : slots * option T :=
    match (if complement then s_neg e else s_pos e) with
    | Some t => (e, Some t)
    | None =>
        if complement then
          match s_pos e with
          | Some p => let t := compl p in (mkSlots (s_pos e) (Some t), Some t)
          | None => (e, None)
          end
        else (e, None)
    end.

  (** a sequence of requests (any threads, any order: the slow path is serialised by the mutex) *)
  Definition run_requests (e : slots) (reqs : list bool) : slots :=
    fold_left (fun e c => fst (get_range e c)) reqs e.

  (** the complement slot, when filled, holds the complement of the positive slot *)
  Definition slots_wf (e : slots) : Prop :=
    forall p n, s_pos e = Some p -> s_neg e = Some n -> n = compl p.
End GetRange.
