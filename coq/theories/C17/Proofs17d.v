(** C17 proofs, part d: the locked grammar pool is read-only; URI ids of the synchronised pool are stable. *)
From Coq Require Import List Arith Bool Lia.
Import ListNotations.
From XV Require Import C17.Model17.

Lemma pool_step_locked : forall p o, locked p = true ->
  locked (pool_step p o) = true /\ registry (pool_step p o) = registry p.
Proof.
  intros p o L. destruct o; cbn; rewrite ?L; auto.
  destruct (index_of u (uris p) 0); cbn; auto.
Qed.

Lemma pool_run_locked : forall ops p, locked p = true ->
  locked (pool_run p ops) = true /\ registry (pool_run p ops) = registry p.
Proof.
  induction ops as [|o ops IH]; intros p L; [cbn; auto|].
  change (pool_run p (o :: ops)) with (pool_run (pool_step p o) ops).
  destruct (pool_step_locked p o L) as [L' R']. destruct (IH _ L') as [L'' R'']. split; [exact L''|rewrite R''; exact R'].
Qed.

Lemma index_of_app : forall u l r i n, index_of u l n = Some i -> index_of u (l ++ r) n = Some i.
Proof.
  induction l as [|a l IH]; intros r i n H; cbn in *; [discriminate|].
  destruct (Nat.eqb a u); [exact H|]. apply IH. exact H.
Qed.

Lemma pool_step_uri : forall p o u i, uri_id p u = Some i -> uri_id (pool_step p o) u = Some i.
Proof.
  intros p o u i H. unfold uri_id in *. destruct o; cbn.
  - destruct (locked p); [exact H|]. destruct (existsb _ _); exact H.
  - destruct (locked p); exact H.
  - destruct (locked p); exact H.
  - exact H.
  - destruct (index_of u0 (uris p) 0); cbn; [exact H|]. apply index_of_app. exact H.
Qed.

Lemma pool_run_uri : forall ops p u i, uri_id p u = Some i -> uri_id (pool_run p ops) u = Some i.
Proof.
  induction ops as [|o ops IH]; intros p u i H; [exact H|].
  change (pool_run p (o :: ops)) with (pool_run (pool_step p o) ops). apply IH. apply pool_step_uri. exact H.
Qed.

Lemma index_of_ge : forall u l n i, index_of u l n = Some i -> n <= i /\ nth_error l (i - n) = Some u.
Proof.
  induction l as [|a l IH]; intros n i H; cbn in H; [discriminate|].
  destruct (Nat.eqb_spec a u) as [->|N].
  - inversion H; subst. rewrite Nat.sub_diag. split; [lia|reflexivity].
  - destruct (IH _ _ H) as [Hle Hn]. split; [lia|]. replace (i - n) with (S (i - S n)) by lia. exact Hn.
Qed.

(** two different URIs never share an id *)
Lemma uri_id_injective : forall p u1 u2 i, uri_id p u1 = Some i -> uri_id p u2 = Some i -> u1 = u2.
Proof.
  intros p u1 u2 i H1 H2. unfold uri_id in *. apply index_of_ge in H1. apply index_of_ge in H2.
  destruct H1 as [_ H1]. destruct H2 as [_ H2]. congruence.
Qed.

(** ---- RangeTokenMap::getRange ---------------------------------------------------------------------------------- *)
Section GetRangeProofs.
  Variable T : Type.
  Variable compl : T -> T.

  Lemma get_range_pos : forall e c, s_pos T (fst (get_range T compl e c)) = s_pos T e.
  Proof.
    intros e c. unfold get_range. destruct c; cbn.
    - destruct (s_neg T e); cbn; [reflexivity|]. destruct (s_pos T e) eqn:E; cbn; [reflexivity|exact E].
    - destruct (s_pos T e) eqn:E; cbn; exact E.
  Qed.

  Lemma get_range_wf : forall e c, slots_wf T compl e -> slots_wf T compl (fst (get_range T compl e c)).
  Proof.
    intros e c W. unfold get_range. destruct c; cbn.
    - destruct (s_neg T e) eqn:En; cbn; [exact W|]. destruct (s_pos T e) eqn:Ep; cbn; [|exact W].
      intros p n Hp Hn. cbn in Hp, Hn. inversion Hp; inversion Hn; subst. reflexivity.
    - destruct (s_pos T e); exact W.
  Qed.

  Lemma get_range_compl : forall e p, slots_wf T compl e -> s_pos T e = Some p ->
    s_neg T (fst (get_range T compl e true)) = Some (compl p) /\ snd (get_range T compl e true) = Some (compl p).
  Proof.
    intros e p W Hp. unfold get_range. cbn. destruct (s_neg T e) eqn:En; cbn.
    - pose proof (W p t Hp En) as Et. subst t. split; [exact En|reflexivity].
    - rewrite Hp. cbn. split; reflexivity.
  Qed.

  Lemma run_requests_pos : forall reqs e, s_pos T (run_requests T compl e reqs) = s_pos T e.
  Proof.
    induction reqs as [|c reqs IH]; intros e; [reflexivity|].
    change (run_requests T compl e (c :: reqs)) with (run_requests T compl (fst (get_range T compl e c)) reqs).
    rewrite IH. apply get_range_pos.
  Qed.

  Lemma run_requests_wf : forall reqs e, slots_wf T compl e -> slots_wf T compl (run_requests T compl e reqs).
  Proof.
    induction reqs as [|c reqs IH]; intros e W; [exact W|].
    change (run_requests T compl e (c :: reqs)) with (run_requests T compl (fst (get_range T compl e c)) reqs).
    apply IH. apply get_range_wf. exact W.
  Qed.

  (** once a complement was requested, the complement slot holds the complement of the (unchanged) positive slot, whatever
      the order and number of the other requests *)
  Lemma run_requests_neg : forall reqs e p, slots_wf T compl e -> s_pos T e = Some p -> In true reqs ->
    s_neg T (run_requests T compl e reqs) = Some (compl p).
  Proof.
    induction reqs as [|c reqs IH]; intros e p W Hp Hin; [contradiction|].
    change (run_requests T compl e (c :: reqs)) with (run_requests T compl (fst (get_range T compl e c)) reqs).
    assert (slots_wf T compl (fst (get_range T compl e c))) as W' by (apply get_range_wf; exact W).
    assert (s_pos T (fst (get_range T compl e c)) = Some p) as Hp' by (rewrite get_range_pos; exact Hp).
    destruct Hin as [->|Hin].
    - destruct (get_range_compl e p W Hp) as [Hn _].
      (* later requests keep a filled, well-formed complement slot *)
      clear IH. revert Hn W' Hp'. generalize (fst (get_range T compl e true)). clear e W Hp.
      induction reqs as [|c reqs IH]; intros e Hn W Hp; [exact Hn|].
      change (run_requests T compl e (c :: reqs)) with (run_requests T compl (fst (get_range T compl e c)) reqs).
      apply IH.
      + unfold get_range. destruct c; cbn; [rewrite Hn; exact Hn|destruct (s_pos T e); exact Hn].
      + apply get_range_wf. exact W.
      + rewrite get_range_pos. exact Hp.
    - apply IH; assumption.
  Qed.
End GetRangeProofs.
