(** C17 proofs, part d: the locked grammar pool is read-only; URI ids of the synchronised pool are stable. *)
From Coq Require Import List Arith Bool Lia.
Import ListNotations.
From XV Require Import C17.Model17.

Lemma pool_step_locked : forall p o, locked p = true ->
  locked (pool_step p o) = true /\ registry (pool_step p o) = registry p.
Proof.
  intros p o L. destruct o; cbn; rewrite ?L; auto.
  destruct (index_of u (uris p) 0); cbn; auto.
Qed.

Lemma pool_run_locked : forall ops p, locked p = true ->
  locked (pool_run p ops) = true /\ registry (pool_run p ops) = registry p.
Proof.
  induction ops as [|o ops IH]; intros p L; [cbn; auto|].
  change (pool_run p (o :: ops)) with (pool_run (pool_step p o) ops).
  destruct (pool_step_locked p o L) as [L' R']. destruct (IH _ L') as [L'' R'']. split; [exact L''|rewrite R''; exact R'].
Qed.

Lemma index_of_app : forall u l r i n, index_of u l n = Some i -> index_of u (l ++ r) n = Some i.
Proof.
  induction l as [|a l IH]; intros r i n H; cbn in *; [discriminate|].
  destruct (Nat.eqb a u); [exact H|]. apply IH. exact H.
Qed.

Lemma pool_step_uri : forall p o u i, uri_id p u = Some i -> uri_id (pool_step p o) u = Some i.
Proof.
  intros p o u i H. unfold uri_id in *. destruct o; cbn.
  - destruct (locked p); [exact H|]. destruct (existsb _ _); exact H.
  - destruct (locked p); exact H.
  - destruct (locked p); exact H.
  - exact H.
  - destruct (index_of u0 (uris p) 0); cbn; [exact H|]. apply index_of_app. exact H.
Qed.

Lemma pool_run_uri : forall ops p u i, uri_id p u = Some i -> uri_id (pool_run p ops) u = Some i.
Proof.
  induction ops as [|o ops IH]; intros p u i H; [exact H|].
  change (pool_run p (o :: ops)) with (pool_run (pool_step p o) ops). apply IH. apply pool_step_uri. exact H.
Qed.

Lemma index_of_ge : forall u l n i, index_of u l n = Some i -> n <= i /\ nth_error l (i - n) = Some u.
Proof.
  induction l as [|a l IH]; intros n i H; cbn in H; [discriminate|].
  destruct (Nat.eqb_spec a u) as [->|N].
  - inversion H; subst. rewrite Nat.sub_diag. split; [lia|reflexivity].
  - destruct (IH _ _ H) as [Hle Hn]. split; [lia|]. replace (i - n) with (S (i - S n)) by lia. exact Hn.
Qed.

(** two different URIs never share an id *)
Lemma uri_id_injective : forall p u1 u2 i, uri_id p u1 = Some i -> uri_id p u2 = Some i -> u1 = u2.
Proof.
  intros p u1 u2 i H1 H2. unfold uri_id in *. apply index_of_ge in H1. apply index_of_ge in H2.
  destruct H1 as [_ H1]. destruct H2 as [_ H2]. congruence.
Qed.
