(** Property C17 -- Distinct parser, document and transcoder objects are safe to use concurrently.

    CLAIM: PARTIAL.  What is proved here, for ANY number of threads and ALL interleavings of the model (Model17.v):
      - the lock discipline and the Initialize barrier exclude data races on a location, give mutual exclusion and
        make the protected location stable inside a critical section (T17_lockset, T17_initonly);
      - lock-then-check-then-initialise runs its body at most once and every caller sees the built value
        (T17_lazy_once); read-only sharing and idempotent initialisation are deterministic (T17_determinacy);
      - the locked grammar pool is read-only and URI ids are stable and unique (T17_locked_pool_readonly);
      - the *measured* inventory of this build (every writable symbol of the .so, every mention in the source with
        its lexical lock scopes, the Initialize/Terminate call lists) satisfies the committed classification
        (T17_inventory -- regenerated on every run).
    What the model cannot exhibit: the C++ memory model below mutex granularity, heap objects shared in ways the
    inventory does not list, ICU / libc internals.  Those rest on the ThreadSanitizer exploration run by
    checks/C17.py, which is labelled as exploration in the evidence.

    This file contains only the property theorems (closed by [exact]) + Print Assumptions + non-vacuity Examples. *)
From Coq Require Import List Arith Bool String.
Import ListNotations.
From XV Require Import C17.Model17 C17.Proofs17a C17.Proofs17b C17.Proofs17c C17.Proofs17d C17.Classify17.

(** T17_lockset (generic, full): if every thread accesses [x] only while holding [m], then in every reachable state
    of every interleaving there is no race on [x], no two threads are inside a critical section of [m], and while a
    thread is inside, no other thread's step changes [x] (so a sequential argument about the body applies). *)
Theorem T17_lockset : forall x m m0 ps, Forall (guarded x m []) ps ->
  forall s, reach (init_state m0 ps) s ->
    ~ race_at x s /\ ~ both_inside m s /\
    (forall i ti j s', nth_error (thr s) i = Some ti -> holds m ti -> i <> j -> step s j s' -> mem s' x = mem s x).
Proof. exact lockset_sound. Qed.
Print Assumptions T17_lockset.

(** T17_inventory (generated obligation): every writable symbol of this build is classified and every access site
    measured by T-locks satisfies its class; Terminate mirrors Initialize; every path to a mutation of the locked
    pool's registry is dominated by the fLocked test; every shared RangeToken has its bitmap built by Initialize. *)
Theorem T17_inventory : inventory_ok = true.
Proof. vm_compute. reflexivity. Qed.
Print Assumptions T17_inventory.

(** the symbols classified as known defects are really unprotected in this tree (the findings are not stale) *)
Theorem T17_inventory_racy_confirmed : racy_confirmed = true.
Proof. vm_compute. reflexivity. Qed.
Print Assumptions T17_inventory_racy_confirmed.

(** T17_initonly: a location written only by the main thread before it releases the workers (the Initialize
    barrier), and by nobody afterwards, is race free for any number of workers and all interleavings. *)
Theorem T17_initonly : forall x m0 p0 ws, initphase x p0 -> Forall (worker x) ws ->
  forall s, reach (init_state m0 (p0 :: ws)) s -> ~ race_at x s.
Proof. exact initonly_race_free. Qed.
Print Assumptions T17_initonly.

(** T17_lazy_once: N threads (any N) all run lock-then-check-then-initialise on a fresh facility.  In every reachable
    state of every interleaving the body "data := data + v" has run at most once (data is 0 or v, never 2v), every
    finished caller returns the fully built value v, and no two threads are inside the critical section. *)
Theorem T17_lazy_once : forall m flag data v, flag <> data -> forall N m0, m0 flag = 0 -> m0 data = 0 ->
  forall s, reach (init_state m0 (repeat (lazy_get m flag data v) N)) s ->
    (mem s data = 0 \/ mem s data = v) /\
    (forall i t r, nth_error (thr s) i = Some t -> code t = Done r -> r = v) /\
    ~ both_inside m s.
Proof. exact lazy_once. Qed.
Print Assumptions T17_lazy_once.

(** T17_determinacy: threads that only read shared state (reads after initialisation) compute, under every
    interleaving, exactly what each computes when run alone on the initial memory; memory is never changed.  Together
    with T17_lazy_once (every caller of an idempotent lock-protected initialisation returns the value the sequential
    run returns, see [lazy_sequential]) this is "same results as single-threaded" for the model. *)
Theorem T17_determinacy : forall m0 ps, Forall readonly ps ->
  forall s, reach (init_state m0 ps) s ->
    (forall y, mem s y = m0 y) /\
    forall i t p v, nth_error (thr s) i = Some t -> nth_error ps i = Some p -> code t = Done v ->
      exists fuel, run_alone fuel m0 p = Some (v, m0).
Proof. exact readonly_determinate. Qed.
Print Assumptions T17_determinacy.

(** T17_locked_pool_readonly: whatever parsers do with a locked pool (cache / orphan / clear / retrieve / add URIs), its
    grammar registry is unchanged and it stays locked; an id handed out for a URI is never changed or reused. *)
Theorem T17_locked_pool_readonly : forall p ops, locked p = true ->
  locked (pool_run p ops) = true /\ registry (pool_run p ops) = registry p /\
  (forall u i, uri_id p u = Some i -> uri_id (pool_run p ops) u = Some i) /\
  (forall u1 u2 i, uri_id (pool_run p ops) u1 = Some i -> uri_id (pool_run p ops) u2 = Some i -> u1 = u2).
Proof.
  intros p ops L. destruct (pool_run_locked ops p L) as [A B]. split; [exact A|split; [exact B|split]].
  - intros u i. apply pool_run_uri.
  - intros u1 u2 i. apply uri_id_injective.
Qed.
Print Assumptions T17_locked_pool_readonly.

(** T17_getrange: RangeTokenMap::getRange (functional model with the lazy publication) never changes the positive slot of
    a keyword, keeps "complement slot = complement of the positive slot", and once any thread has asked for the
    complement, that slot holds exactly the complement of the positive token -- for every order and number of requests
    (the slow path runs under the map's mutex, so requests are serialised: T17_lockset). *)
Theorem T17_getrange : forall (T : Type) (compl : T -> T) (e : slots T) (reqs : list bool),
  slots_wf T compl e ->
  s_pos T (run_requests T compl e reqs) = s_pos T e /\
  slots_wf T compl (run_requests T compl e reqs) /\
  (forall p, s_pos T e = Some p -> In true reqs -> s_neg T (run_requests T compl e reqs) = Some (compl p)).
Proof.
  intros T compl e reqs W. split; [apply run_requests_pos|split; [apply run_requests_wf; exact W|]].
  intros p Hp Hin. apply run_requests_neg; assumption.
Qed.
Print Assumptions T17_getrange.

(** publishing into the wrong slot (the default argument of setRangeToken) is NOT what the model does: it would change
    the positive slot *)
Example getrange_wrong_slot_differs :
  let e := mkSlots nat (Some 5) None in
  s_pos nat (fst (get_range nat (fun n => 100 - n) e true)) = Some 5 /\ s_neg nat (fst (get_range nat (fun n => 100 - n) e true)) = Some 95.
Proof. split; reflexivity. Qed.

(** ------------------------------------------------------------------------------------------------------------
    Non-vacuity and defect witnesses (bounded exhaustive exploration of the executable semantics, by vm_compute;
    these are EXAMPLES about 2-3 threads, not the unbounded claims above). *)
Definition mem0 : memory := fun _ => 0.

(** the hypotheses of T17_lockset are satisfiable by a non-trivial program: lazy_get guards its flag by its mutex *)
Example lockset_hyp_satisfiable : Forall (guarded 0 5 []) [lazy_get 5 0 1 7; lazy_get 5 0 1 7].
Proof. repeat constructor; cbn; intros; destruct (Nat.eqb v 0); cbn; intuition (try discriminate; auto). Qed.

(** ... and of T17_initonly: main initialises location 3 then signals; two workers wait, then read it *)
Example initonly_hyp_satisfiable :
  initphase 3 (PWr 3 9 (PSignal (PRd 3 (fun r => Done r)))) /\ Forall (worker 3) [PWait (PRd 3 (fun r => Done r)); PWait (PRd 3 (fun r => Done r))].
Proof. split; [cbn; auto|repeat constructor; cbn; auto]. Qed.

(** the race definition is not vacuous: the UNSYNCHRONISED lazy initialisation (DOMDocumentImpl::isKidOK's kidOK,
    TraverseSchema's wsFacets: findings F17-1, F17-2) IS detected as racy on its data location with 2 threads ... *)
Example T17_unsync_lazy_init_races :
  existsb (fun s => race_in 1 (thr s)) (explore 12 (init_state mem0 [lazy_get_unsync 0 1 7; lazy_get_unsync 0 1 7])) = true.
Proof. vm_compute. reflexivity. Qed.

(** ... and its body can run twice (a finished thread returns 2v = 14) *)
Example T17_unsync_runs_twice :
  existsb (fun s => finished s && existsb (Nat.eqb 14) (results s))
          (explore 12 (init_state mem0 [lazy_get_unsync 0 1 7; lazy_get_unsync 0 1 7])) = true.
Proof. vm_compute. reflexivity. Qed.

(** F17-2: publishing the flag before the data lets a second thread finish with the unbuilt value 0 instead of 7 *)
Example T17_flag_first_refuted :
  existsb (fun s => finished s && existsb (Nat.eqb 0) (results s))
          (explore 12 (init_state mem0 [lazy_get_flag_first 0 1 7; lazy_get_flag_first 0 1 7])) = true.
Proof. vm_compute. reflexivity. Qed.

(** the double-checked variant (RangeTokenMap::getRange) races on its unlocked fast-path read when the table is NOT
    pre-built; the library avoids the slow path by building every range in Initialize (class InitBuilt) *)
Example T17_dcl_races_when_not_prebuilt :
  existsb (fun s => race_in 0 (thr s)) (explore 20 (init_state mem0 [dcl_get 5 0 1 7; dcl_get 5 0 1 7])) = true.
Proof. vm_compute. reflexivity. Qed.

Example T17_dcl_quiet_when_prebuilt :
  existsb (fun s => race_in 0 (thr s) || race_in 1 (thr s))
          (explore 20 (init_state (upd (upd mem0 0 1) 1 7) [dcl_get 5 0 1 7; dcl_get 5 0 1 7; dcl_get 5 0 1 7])) = false.
Proof. vm_compute. reflexivity. Qed.

(** the locked variant, explored exhaustively for 3 threads, agrees with T17_lazy_once: no race, every result is 7 *)
Example T17_lazy_once_3threads_explored :
  forallb (fun s => negb (race_in 0 (thr s) || race_in 1 (thr s)) && (negb (finished s) || forallb (Nat.eqb 7) (results s)))
          (explore 30 (init_state mem0 [lazy_get 5 0 1 7; lazy_get 5 0 1 7; lazy_get 5 0 1 7])) = true.
Proof. vm_compute. reflexivity. Qed.

(** sequential run of the lazy getter returns v: the value T17_lazy_once gives every concurrent caller *)
Example lazy_sequential_value : option_map fst (run_alone 20 mem0 (lazy_get 5 0 1 7)) = Some 7.
Proof. vm_compute. reflexivity. Qed.

(** the pool model does move when NOT locked (the read-only theorem is not trivially true) *)
Example pool_unlocked_changes : registry (pool_run (mkP [1] false []) [OpCache 2]) = [2; 1].
Proof. reflexivity. Qed.
Example pool_locked_keeps : registry (pool_run (mkP [1] true []) [OpCache 2; OpClear; OpOrphan 1; OpAddUri 9]) = [1].
Proof. reflexivity. Qed.
