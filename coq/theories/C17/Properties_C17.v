(** Property C17 -- Distinct parser, document and transcoder objects are safe to use concurrently.

    CLAIM: PARTIAL.  What is proved here, for ANY number of threads and ALL interleavings of the model (Model17.v):
      - the lock discipline and the Initialize barrier exclude data races on a location, give mutual exclusion and
        make the protected location stable inside a critical section (T17_lockset, T17_initonly);
      - lock-then-check-then-initialise runs its body at most once and every caller sees the built value
        (T17_lazy_once); read-only sharing and idempotent initialisation are deterministic (T17_determinacy);
      - the locked grammar pool is read-only and URI ids are stable and unique (T17_locked_pool_readonly);
      - the *measured* inventory of this build (every writable symbol of the .so, every mention in the source with
        its lexical lock scopes, the Initialize/Terminate call lists) satisfies the committed classification
        (T17_inventory -- regenerated on every run).
    What the model cannot exhibit: the C++ memory model below mutex granularity, heap objects shared in ways the
    inventory does not list, ICU / libc internals.  Those rest on the ThreadSanitizer exploration run by
    checks/C17.py, which is labelled as exploration in the evidence.

    This file contains only the property theorems (closed by [exact]) + Print Assumptions + non-vacuity Examples. *)
From Coq Require Import List Arith Bool String.
Import ListNotations.
From XV Require Import C17.Model17 C17.Proofs17a C17.Classify17.

(** T17_lockset (generic, full): if every thread accesses [x] only while holding [m], then in every reachable state
    of every interleaving there is no race on [x], no two threads are inside a critical section of [m], and while a
    thread is inside, no other thread's step changes [x] (so a sequential argument about the body applies). *)
Theorem T17_lockset : forall x m m0 ps, Forall (guarded x m []) ps ->
  forall s, reach (init_state m0 ps) s ->
    ~ race_at x s /\ ~ both_inside m s /\
    (forall i ti j s', nth_error (thr s) i = Some ti -> holds m ti -> i <> j -> step s j s' -> mem s' x = mem s x).
Proof. exact lockset_sound. Qed.
Print Assumptions T17_lockset.

(** T17_inventory (generated obligation): every writable symbol of this build is classified and every access site
    measured by T-locks satisfies its class; Terminate mirrors Initialize; the locked pool's mutators are guarded. *)
Theorem T17_inventory : inventory_ok = true.
Proof. vm_compute. reflexivity. Qed.
Print Assumptions T17_inventory.

(** the symbols classified as known defects are really unprotected in this tree (the findings are not stale) *)
Theorem T17_inventory_racy_confirmed : racy_confirmed = true.
Proof. vm_compute. reflexivity. Qed.
