(** C17 proofs, part a: the lockset theorem (mutual exclusion, race freedom, stability inside critical sections)
    for arbitrary many threads and all interleavings. *)
From Coq Require Import List Arith Bool Lia.
Import ListNotations.
From XV Require Import C17.Model17.

Lemma nth_set_nth : forall A (l : list A) i j a,
  nth_error (set_nth l i a) j =
  if Nat.eqb i j then (match nth_error l i with Some _ => Some a | None => None end) else nth_error l j.
Proof.
  induction l as [|b l IH]; intros i j a.
  - destruct i, j; cbn; try reflexivity; destruct (Nat.eqb i j); reflexivity.
  - destruct i, j; cbn; try reflexivity. apply IH.
Qed.

Lemma length_set_nth : forall A (l : list A) i a, length (set_nth l i a) = length l.
Proof. induction l as [|b l IH]; intros [|i] a; cbn; auto. Qed.

Lemma in_remove_mutex : forall m m' h, In m (remove_mutex m' h) <-> In m h /\ m <> m'.
Proof.
  intros m m' h. unfold remove_mutex. rewrite filter_In. split; intros [H1 H2]; split; auto.
  - intros ->. rewrite Nat.eqb_refl in H2. discriminate.
  - destruct (Nat.eqb_spec m m'); [contradiction|reflexivity].
Qed.

Section Lockset.
  Variables (x : loc) (m : mutex).

  Definition TInv (ts : list thread) : Prop :=
    (forall i t, nth_error ts i = Some t -> guarded x m (held t) (code t)) /\
    (forall i j ti tj, i <> j -> nth_error ts i = Some ti -> nth_error ts j = Some tj ->
                       holds m ti -> holds m tj -> False).

  Lemma tinv_update : forall ts i told t',
    TInv ts -> nth_error ts i = Some told -> guarded x m (held t') (code t') ->
    (holds m t' -> holds m told \/ free m ts) -> TInv (set_nth ts i t').
  Proof.
    intros ts i told t' [G E] Hold Gt Hh. split.
    - intros j t Hj. rewrite nth_set_nth in Hj. destruct (Nat.eqb_spec i j) as [Eq|N].
      + subst j. rewrite Hold in Hj. inversion Hj; subst. exact Gt.
      + eapply G; eauto.
    - intros a b ta tb Hab Ha Hb Hma Hmb. rewrite nth_set_nth in Ha, Hb.
      destruct (Nat.eqb_spec i a) as [Ea|Na]; destruct (Nat.eqb_spec i b) as [Eb|Nb]; try subst a; try subst b.
      + congruence.
      + rewrite Hold in Ha. inversion Ha; subst ta.
        destruct (Hh Hma) as [Ho|Hf].
        * exact (E i b told tb Hab Hold Hb Ho Hmb).
        * exact (Hf tb (nth_error_In _ _ Hb) Hmb).
      + rewrite Hold in Hb. inversion Hb; subst tb.
        destruct (Hh Hmb) as [Ho|Hf].
        * exact (E a i ta told Hab Ha Hold Hma Ho).
        * exact (Hf ta (nth_error_In _ _ Ha) Hma).
      + exact (E a b ta tb Hab Ha Hb Hma Hmb).
  Qed.

  Lemma tinv_step : forall s i s', TInv (thr s) -> step s i s' -> TInv (thr s').
  Proof.
    intros s i s' I St. pose proof I as [G E].
    inversion St; subst; cbn [thr];
      match goal with H : nth_error (thr s) i = Some ?t |- _ => pose proof (G i t H) as Gt; cbn [held code guarded] in Gt end.
    - (* acquire *)
      eapply (tinv_update _ _ _ _ I H); cbn [held code]; [exact Gt|].
      intros [->|Hin]; [right; assumption|left; exact Hin].
    - (* release *)
      eapply (tinv_update _ _ _ _ I H); cbn [held code]; [exact Gt|].
      intros Hin. left. apply in_remove_mutex in Hin. apply Hin.
    - eapply (tinv_update _ _ _ _ I H); cbn [held code]; [apply Gt|intros Hin; left; exact Hin].
    - eapply (tinv_update _ _ _ _ I H); cbn [held code]; [apply Gt|intros Hin; left; exact Hin].
    - eapply (tinv_update _ _ _ _ I H); cbn [held code]; [exact Gt|intros Hin; left; exact Hin].
    - eapply (tinv_update _ _ _ _ I H); cbn [held code]; [exact Gt|intros Hin; left; exact Hin].
    - eapply (tinv_update _ _ _ _ I H); cbn [held code]; [exact Gt|intros Hin; left; exact Hin].
  Qed.

  Lemma tinv_init : forall ps, Forall (guarded x m []) ps -> TInv (map (mkT []) ps).
  Proof.
    intros ps F. split.
    - intros i t Hi. rewrite nth_error_map in Hi. destruct (nth_error ps i) as [p|] eqn:Ep; [|discriminate].
      inversion Hi; subst. cbn. rewrite Forall_forall in F. apply F. eapply nth_error_In; eauto.
    - intros i j ti tj _ Hi _ Hm _. rewrite nth_error_map in Hi. destruct (nth_error ps i); [|discriminate].
      inversion Hi; subst. exact Hm.
  Qed.

  Lemma tinv_reach : forall m0 ps s, Forall (guarded x m []) ps -> reach (init_state m0 ps) s -> TInv (thr s).
  Proof.
    intros m0 ps s F R. induction R.
    - apply tinv_init. exact F.
    - eapply tinv_step; eauto.
  Qed.

  Lemma access_needs_lock : forall t, guarded x m (held t) (code t) -> accesses x (code t) -> holds m t.
  Proof.
    intros [h p] G A. cbn in *. destruct p; cbn in A; destruct A as [A|A]; try contradiction; cbn in G; apply G; exact A.
  Qed.

  Lemma tinv_no_race : forall s, TInv (thr s) -> ~ race_at x s.
  Proof.
    intros s [G E] (i & j & ti & tj & Hij & Hi & Hj & Ai & Aj & _).
    exact (E i j ti tj Hij Hi Hj (access_needs_lock _ (G _ _ Hi) Ai) (access_needs_lock _ (G _ _ Hj) Aj)).
  Qed.

  Lemma tinv_mutex : forall s, TInv (thr s) -> ~ both_inside m s.
  Proof. intros s [_ E] (i & j & ti & tj & Hij & Hi & Hj & Mi & Mj). exact (E i j ti tj Hij Hi Hj Mi Mj). Qed.

  (** while thread [i] is inside its critical section, a step of any other thread leaves [x] unchanged: the body of
      the critical section sees [x] exactly as in a sequential execution *)
  Lemma tinv_stable : forall s i ti j s', TInv (thr s) -> nth_error (thr s) i = Some ti -> holds m ti ->
    i <> j -> step s j s' -> mem s' x = mem s x.
  Proof.
    intros s i ti j s' [G E] Hi Hm Hij St. inversion St; subst; cbn [mem]; try reflexivity.
    unfold upd. destruct (Nat.eqb_spec x x0) as [->|N]; [|reflexivity]. exfalso.
    match goal with H : nth_error (thr s) j = Some ?t |- _ => pose proof (G j t H) as Gt; cbn in Gt;
      exact (E i j ti t Hij Hi H Hm (proj1 Gt eq_refl)) end.
  Qed.

  Theorem lockset_sound : forall m0 ps, Forall (guarded x m []) ps ->
    forall s, reach (init_state m0 ps) s ->
      ~ race_at x s /\ ~ both_inside m s /\
      (forall i ti j s', nth_error (thr s) i = Some ti -> holds m ti -> i <> j -> step s j s' -> mem s' x = mem s x).
  Proof.
    intros m0 ps F s R. pose proof (tinv_reach m0 ps s F R) as I. split; [|split].
    - apply tinv_no_race; exact I.
    - apply tinv_mutex; exact I.
    - intros. eapply tinv_stable; eauto.
  Qed.
End Lockset.
