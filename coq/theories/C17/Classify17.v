(** C17 -- the COMMITTED classification of every writable global of libxerces-c and of the mutex-protected member
    facilities, and the executable checker that confronts it with what the translator measured on this run
    (Gen/GenGlobals.v = nm on the rebuilt .so, Gen/GenLocks.v = lexical lock coverage of every mention,
    Gen/GenInit17.v = Initialize/Terminate call lists and a call-graph fragment).

    A symbol that is not listed here (a new mutable static), a store that moved outside the Initialize/Terminate
    call tree, or an access that moved outside its XMLMutexLock scope makes [inventory_ok] compute to [false]. *)
From Coq Require Import String List Bool Arith.
Import ListNotations.
From XV Require Import Gen.GenGlobals Gen.GenLocks Gen.GenInit17.
Local Open Scope string_scope.

Inductive cls :=
| InitOnly                                (* stored to only inside the Initialize/Terminate call tree *)
| Guarded (m : string)                    (* every mention outside that tree is inside an XMLMutexLock scope on m *)
| GuardedExcept (m : string) (fns : list string)   (* same, except in the named single-owner functions *)
| InitBuilt (m : string)                  (* filled during Initialize; stores only in ctor/dtor/init tree; the locked
                                             slow path of its double-checked getter is dead after Initialize *)
| OwnerSync (fns : list string)           (* member of an application-owned object; stores only in ctor/dtor and the
                                             named set-up functions the owner calls before sharing the object *)
| Atomic                                  (* accessed through atomic operations only (none at present) *)
| ConstAfterLoad                          (* never stored to by any function: constant after relocation *)
| CxaStatic                               (* function-local static initialised under its C++11 guard variable, never
                                             stored to afterwards *)
| AppConfig (fns : list string)           (* stored to only by the named process-configuration API, documented as
                                             "call before any other use"; outside the quantifier of C17 *)
| ThreadLocal
| Toolchain                               (* linker / C++ runtime bookkeeping, not library state *)
| Racy (finding : string).                (* a known defect: unsynchronised lazy initialisation *)

(** singleton destructors: the only instance is owned by an InitOnly global and deleted in Terminate *)
Definition singleton_dtors : list string :=
  [ "CurlNetAccessor::~CurlNetAccessor"     (* XMLPlatformUtils::fgNetAccessor, deleted in Terminate *)
  ; "RangeTokenMap::~RangeTokenMap"          (* RangeTokenMap::fInstance, deleted in terminateRangeTokenMap *)
  ; "ICULCPTranscoder::~ICULCPTranscoder"    (* gTranscoder (XMLString::termString) or caller-owned *)
  ].

Definition toolchain_names : list string :=
  [ "_DYNAMIC"; "_GLOBAL_OFFSET_TABLE_"; "__TMC_END__"; "__do_global_dtors_aux_fini_array_entry"; "__dso_handle";
    "__frame_dummy_init_array_entry"; "completed.0"; "__bss_start"; "_edata"; "_end"; "__data_start"; "data_start" ].

(** (owner, base) -> class.  owner = class name, qualified function name (function-local statics) or "" *)
Definition table : list ((string * string) * cls) :=
  [ (* ---- created in Initialize, destroyed in Terminate ---- *)
    (("ComplexTypeInfo", "fAnyType"), InitOnly);
    (("CurlNetAccessor", "fgCurlInitCount"), InitOnly);
    (("DTDGrammar", "fDefaultEntities"), InitOnly);
    (("DatatypeValidatorFactory", "fBuiltInRegistry"), InitOnly);
    (("DatatypeValidatorFactory", "fCanRepRegistry"), InitOnly);
    (("EncodingValidator", "fInstance"), InitOnly);
    (("GeneralAttributeCheck", "fAnyURIDV"), InitOnly);
    (("GeneralAttributeCheck", "fAttMap"), InitOnly);
    (("GeneralAttributeCheck", "fBooleanDV"), InitOnly);
    (("GeneralAttributeCheck", "fFacetsMap"), InitOnly);
    (("GeneralAttributeCheck", "fNonNegIntDV"), InitOnly);
    (("RangeTokenMap", "fInstance"), InitOnly);
    (("RegularExpression", "fWordRange"), InitOnly);
    (("XMLMsgLoader", "fLocale"), InitOnly);
    (("XMLMsgLoader", "fPath"), InitOnly);
    (("XMLPlatformUtils", "fgAtomicMutex"), InitOnly);
    (("XMLPlatformUtils", "fgDefaultPanicHandler"), InitOnly);
    (("XMLPlatformUtils", "fgFileMgr"), InitOnly);
    (("XMLPlatformUtils", "fgMemMgrAdopted"), InitOnly);
    (("XMLPlatformUtils", "fgMemoryManager"), InitOnly);
    (("XMLPlatformUtils", "fgMutexMgr"), InitOnly);
    (("XMLPlatformUtils", "fgNetAccessor"), InitOnly);
    (("XMLPlatformUtils", "fgSSE2ok"), InitOnly);
    (("XMLPlatformUtils", "fgTransService"), InitOnly);
    (("XMLPlatformUtils", "fgUserPanicHandler"), InitOnly);
    (("XMLPlatformUtils", "fgXMLChBigEndian"), InitOnly);
    (("XMLString", "fgMemoryManager"), InitOnly);
    (("XMLTransService", "gMappings"), InitOnly);
    (("XMLTransService", "gMappingsRecognizer"), InitOnly);
    (("XSValue", "fDataTypeRegistry"), InitOnly);
    (("", "gDOMImplSrcVectorMutex"), InitOnly);
    (("", "gDomimp"), InitOnly);
    (("", "gEmptyNodeList"), InitOnly);
    (("", "gErrMsgLoader"), InitOnly);
    (("", "gValidMsgLoader"), InitOnly);
    (("", "gInitFlag"), InitOnly);
    (("", "gMsgLoader"), InitOnly);            (* three translation units: XMLScanner, DOMNormalizer, XIncludeUtils *)
    (("", "sMsgLoader"), InitOnly);            (* three translation units: XMLException, XMLValidator, DOMImplementationImpl *)
    (("", "gSyncMutex"), InitOnly);
    (("", "gTranscoder"), InitOnly);
    (("", "sDocumentMutex"), InitOnly);
    (("", "sScannerMutex"), InitOnly);
    (("", "sXSValueRegEx"), InitOnly);
    (("", "kInitialHeapAllocSize"), InitOnly);
    (("", "kMaxHeapAllocSize"), InitOnly);
    (("", "kMaxSubAllocationSize"), InitOnly);
    (* ---- mutex protected process-wide state ---- *)
    (("", "gDOMImplSrcVector"), Guarded "gDOMImplSrcVectorMutex");
    (("", "sDocument"), Guarded "sDocumentMutex");
    (("", "gScannerId"), Guarded "sScannerMutex");
    (("ICULCPTranscoder", "fConverter"), Guarded "fMutex");
    (("XMLSynchronizedStringPool", "XMLStringPool::"), GuardedExcept "fMutex" ["XMLSynchronizedStringPool::flushAll"]);
    (("XMLSynchronizedStringPool", "fCurId"), Guarded "fMutex");
    (("RangeTokenMap", "fTokenRegistry"), InitBuilt "fMutex");
    (("RangeTokenMap", "fRangeMap"), InitBuilt "fMutex");
    (("RangeTokenMap", "fCategories"), InitBuilt "fMutex");
    (("RangeTokenMap", "fTokenFactory"), InitBuilt "fMutex");
    (* ---- the application-owned grammar pool ---- *)
    (("XMLGrammarPoolImpl", "fLocked"),
       OwnerSync ["XMLGrammarPoolImpl::lockPool"; "XMLGrammarPoolImpl::unlockPool"; "XMLGrammarPoolImpl::cleanUp"]);
    (("XMLGrammarPoolImpl", "fSynchronizedStringPool"),
       OwnerSync ["XMLGrammarPoolImpl::lockPool"; "XMLGrammarPoolImpl::unlockPool"]);
    (("XMLGrammarPoolImpl", "fGrammarRegistry"), OwnerSync []);
    (* ---- never stored to ---- *)
    (("DOMTypeInfoImpl", "g_DtdNotValidatedAttribute"), ConstAfterLoad);
    (("DOMTypeInfoImpl", "g_DtdValidatedCDATAAttribute"), ConstAfterLoad);
    (("DOMTypeInfoImpl", "g_DtdValidatedENTITIESAttribute"), ConstAfterLoad);
    (("DOMTypeInfoImpl", "g_DtdValidatedENTITYAttribute"), ConstAfterLoad);
    (("DOMTypeInfoImpl", "g_DtdValidatedENUMERATIONAttribute"), ConstAfterLoad);
    (("DOMTypeInfoImpl", "g_DtdValidatedElement"), ConstAfterLoad);
    (("DOMTypeInfoImpl", "g_DtdValidatedIDAttribute"), ConstAfterLoad);
    (("DOMTypeInfoImpl", "g_DtdValidatedIDREFAttribute"), ConstAfterLoad);
    (("DOMTypeInfoImpl", "g_DtdValidatedIDREFSAttribute"), ConstAfterLoad);
    (("DOMTypeInfoImpl", "g_DtdValidatedNMTOKENAttribute"), ConstAfterLoad);
    (("DOMTypeInfoImpl", "g_DtdValidatedNMTOKENSAttribute"), ConstAfterLoad);
    (("DOMTypeInfoImpl", "g_DtdValidatedNOTATIONAttribute"), ConstAfterLoad);
    (("GeneralAttributeCheck", "fAttNames"), ConstAfterLoad);
    (("GeneralAttributeCheck", "fgElemAttTable"), ConstAfterLoad);
    (("XMLChar1_1", "fgCharCharsTable1_1"), ConstAfterLoad);
    (("", "expSign"), ConstAfterLoad);
    (("", "fgIdentityConstraints"), ConstAfterLoad);
    (("", "gAttTypeStrings"), ConstAfterLoad);
    (("", "gDefAttTypeStrings"), ConstAfterLoad);
    (("", "gEncodingNameMap"), ConstAfterLoad);
    (("", "gNullStr"), ConstAfterLoad);
    (("", "gProtoList"), ConstAfterLoad);
    (("", "regexSeparator"), ConstAfterLoad);
    (("", "g_AbortFilter"), ConstAfterLoad);
    (* ---- C++11 guarded function-local statics ---- *)
    (("DOMLSSerializerImpl::procCdataSection", "offset"), CxaStatic);
    (("DOMDocumentImpl::isKidOK", "kidOKTable"), CxaStatic);              (* after fixes/C17-kidok-static-init.patch *)
    (("TraverseSchema::getElementAttValue", "wsFacetTable"), CxaStatic); (* after fixes/C17-wsfacets-static-init.patch *)
    (* ---- process configuration API (XMLPlatformUtils::recognizeNEL / strictIANAEncoding) ---- *)
    (("XMLChar1_0", "enableNEL"), AppConfig ["XMLChar1_0::enableNELWS"]);
    (("XMLChar1_0", "fgCharCharsTable1_0"), AppConfig ["XMLChar1_0::enableNELWS"]);
    (("", "gStrictIANAEncoding"), AppConfig ["XMLTransService::strictIANAEncoding"]);
    (* ---- known defects (known-findings.d/C17.json) ---- *)
    (("DOMDocumentImpl::isKidOK", "kidOK"), Racy "F26");
    (("TraverseSchema::getElementAttValue", "bInitialized"), Racy "F27");
    (("TraverseSchema::getElementAttValue", "wsFacets"), Racy "F27")
  ].

(** ---- accessors of the generated tuples (strings are interned in [gen_names]) ---- *)
Definition nm (i : nat) : string := nth i gen_names "?".
Definition gsym := (nat * (nat * (nat * (nat * nat))))%type.
Definition g_id (g : gsym) := fst g.
Definition g_sect (g : gsym) := nm (fst (snd g)).
Definition g_kind (g : gsym) := nm (fst (snd (snd g))).
Definition g_owner (g : gsym) := nm (fst (snd (snd (snd g)))).
Definition g_base (g : gsym) := nm (snd (snd (snd (snd g)))).

Definition site := (nat * (nat * (nat * (string * (bool * (bool * list nat))))))%type.
Definition s_sym (s : site) := fst s.
Definition s_func (s : site) := nm (fst (snd s)).
Definition s_kind (s : site) := nm (fst (snd (snd s))).
Definition s_line (s : site) := fst (snd (snd (snd s))).
Definition s_init (s : site) := fst (snd (snd (snd (snd s)))).
Definition s_ctor (s : site) := fst (snd (snd (snd (snd (snd s))))).
Definition s_held (s : site) := map nm (snd (snd (snd (snd (snd (snd s)))))).

Definition mem_str (x : string) (l : list string) : bool := existsb (String.eqb x) l.

Fixpoint lookup (o b : string) (t : list ((string * string) * cls)) : option cls :=
  match t with
  | [] => None
  | ((o', b'), c) :: r => if String.eqb o o' && String.eqb b b' then Some c else lookup o b r
  end.

Definition classify (kind owner base : string) : option cls :=
  if String.eqb kind "toolchain" then
    (if mem_str base toolchain_names || String.prefix "DW.ref." base then Some Toolchain else None)
  else if String.eqb kind "guard" then
    (match lookup owner base table with Some CxaStatic => Some Toolchain | _ => None end)
  else if String.eqb kind "classstatic" && String.eqb base (String.append "class" owner) then
    Some ConstAfterLoad                   (* XProtoType records of the XSerializable classes *)
  else lookup owner base table.

(** ---- functions that only run inside the Initialize/Terminate call tree ---- *)
Fixpoint callers_of (f : string) (t : list (string * list string)) : option (list string) :=
  match t with [] => None | (g, cs) :: r => if String.eqb f g then Some cs else callers_of f r end.

Fixpoint init_only (fuel : nat) (f : string) : bool :=
  mem_str f gen_init_functions || String.prefix "XMLInitializer::" f || mem_str f singleton_dtors ||
  match fuel with
  | O => false
  | S n => match callers_of f gen_callers with
           | Some (c :: cs) => forallb (init_only n) (c :: cs)
           | _ => false
           end
  end.

Definition excl_site (s : site) : bool := s_init s || init_only 4 (s_func s).
Definition is_store (s : site) : bool := String.eqb (s_kind s) "write" || String.eqb (s_kind s) "dwrite".
Definition is_decl (s : site) : bool := String.eqb (s_kind s) "decl".

Definition site_ok (c : cls) (s : site) : bool :=
  match c with
  | InitOnly => negb (is_store s) || excl_site s
  | Guarded m => is_decl s || excl_site s || s_ctor s || mem_str m (s_held s)
  | GuardedExcept m fns => is_decl s || excl_site s || s_ctor s || mem_str m (s_held s) || mem_str (s_func s) fns
  | InitBuilt m => negb (is_store s) || excl_site s || s_ctor s || mem_str m (s_held s)
  | OwnerSync fns => negb (is_store s) || s_ctor s || mem_str (s_func s) fns
  | Atomic => false
  | ConstAfterLoad => negb (is_store s)
  | CxaStatic => negb (is_store s)
  | AppConfig fns => negb (is_store s) || excl_site s || mem_str (s_func s) fns
  | ThreadLocal => true
  | Toolchain => true
  | Racy _ => true
  end.

Definition class_of_id (id : nat) : option cls :=
  match find (fun g => Nat.eqb (g_id g) id) gen_globals with
  | Some g => classify (g_kind g) (g_owner g) (g_base g)
  | None => None
  end.

Definition all_classified : bool :=
  forallb (fun g => match classify (g_kind g) (g_owner g) (g_base g) with Some _ => true | None => false end) gen_globals.

Definition unclassified : list string :=
  flat_map (fun g => match classify (g_kind g) (g_owner g) (g_base g) with Some _ => [] | None => [String.append (g_owner g) (String.append "::" (g_base g))] end) gen_globals.

Definition all_sites_ok : bool :=
  forallb (fun s => match class_of_id (s_sym s) with Some c => site_ok c s | None => false end) gen_sites.

Definition bad_sites : list site :=
  filter (fun s => match class_of_id (s_sym s) with Some c => negb (site_ok c s) | None => true end) gen_sites.

(** every Guarded facility is really exercised under its lock somewhere (the lock scopes were found at all) *)
Definition guarded_nonvacuous : bool :=
  forallb (fun g => match classify (g_kind g) (g_owner g) (g_base g) with
                    | Some (Guarded m) | Some (GuardedExcept m _) =>
                        existsb (fun s => Nat.eqb (s_sym s) (g_id g) && mem_str m (s_held s)) gen_sites
                    | _ => true end) gen_globals.

(** symbols the table calls racy, as present in this build *)
Definition racy_symbols : list (string * string) :=
  flat_map (fun g => match classify (g_kind g) (g_owner g) (g_base g) with
                     | Some (Racy f) => [(f, g_base g)] | _ => [] end) gen_globals.

(** a symbol classified Racy really is stored to outside any lock and outside Initialize (the finding is not stale) *)
Definition racy_confirmed : bool :=
  forallb (fun g => match classify (g_kind g) (g_owner g) (g_base g) with
                    | Some (Racy _) => existsb (fun s => Nat.eqb (s_sym s) (g_id g) && is_store s && negb (excl_site s) &&
                                                         match s_held s with [] => true | _ => false end) gen_sites
                    | _ => true end) gen_globals.

(** Terminate undoes Initialize in reverse order *)
Definition strip (p s : string) : string := substring (String.length p) (String.length s - String.length p) s.
Fixpoint strs_eqb (a b : list string) : bool :=
  match a, b with
  | [], [] => true
  | x :: a', y :: b' => String.eqb x y && strs_eqb a' b'
  | _, _ => false
  end.
Definition init_term_mirror : bool :=
  strs_eqb (map (strip "initialize") gen_init_order) (rev (map (strip "terminate") gen_term_order)).

Definition init_calls_static_data_last : bool :=
  match rev gen_platform_init_calls with c :: _ => String.eqb c "XMLInitializer::initializeStaticData" | [] => false end.
Definition term_calls_static_data_first : bool :=
  match gen_platform_term_calls with c :: _ => String.eqb c "XMLInitializer::terminateStaticData" | [] => false end.

(** every write of a field of the grammar pool (fXSModel, fXSModelIsValid, fGrammarRegistry and its mutators, fStringPool,
    fSynchronizedStringPool, calls of the private createXSModel) is dominated by the fLocked test (per site and per
    branch, see translator dominated_by_flag) or sits on the documented lock/unlock path (constructor, destructor,
    lockPool, unlockPool, cleanUp, deserializeGrammars); the mutators of the public interface are among the sites found *)
Definition pool_guards_ok : bool :=
  forallb (fun g => snd (snd g)) gen_pool_guards &&
  forallb (fun f => existsb (fun g => String.eqb (fst g) f) gen_pool_guards)
          ["XMLGrammarPoolImpl::cacheGrammar"; "XMLGrammarPoolImpl::orphanGrammar"; "XMLGrammarPoolImpl::clear";
           "XMLGrammarPoolImpl::getXSModel"].
Definition bad_pool_writes : list (string * string) :=
  map (fun g => (fst g, fst (snd g))) (filter (fun g => negb (snd (snd g))) gen_pool_guards).

(** RangeTokenMap::getRange publishes the lazily built complement with the complement flag (slot selection of the
    functional model Model17.get_range); the lazy branch still exists only while complements are not all pre-built *)
Definition getrange_publish_ok : bool := forallb (fun g => snd g) gen_getrange_publish.

(** shared range tokens as the built library reports them right after Initialize: every token that exists has its bitmap
    built (a token whose map is built lazily on first match is shared state that Initialize should have built: racy);
    every keyword has its positive token; the only complement tokens that are still created on first use (under
    RangeTokenMap's mutex) are the four listed -- part of known finding F17-4, not used by the default workloads *)
Definition lazy_complements : list string := ["ALL"; "ASSIGNED"; "IsAlnum"; "IsAlpha"].
Definition rt_key (t : string * (bool * (bool * bool))) := fst t.
Definition rt_compl (t : string * (bool * (bool * bool))) := fst (snd t).
Definition rt_present (t : string * (bool * (bool * bool))) := fst (snd (snd t)).
Definition rt_map (t : string * (bool * (bool * bool))) := snd (snd (snd t)).
Definition range_tokens_ok : bool :=
  Nat.leb 200 (List.length gen_range_tokens) &&
  forallb (fun t => if rt_present t then rt_map t
                    else rt_compl t && mem_str (rt_key t) lazy_complements) gen_range_tokens.
Definition bad_range_tokens : list string :=
  map rt_key (filter (fun t => negb (if rt_present t then rt_map t else rt_compl t && mem_str (rt_key t) lazy_complements))
                     gen_range_tokens).

Definition inventory_ok : bool :=
  all_classified && all_sites_ok && guarded_nonvacuous && init_term_mirror && init_calls_static_data_last &&
  term_calls_static_data_first && pool_guards_ok && range_tokens_ok && getrange_publish_ok.
