(** C17 proofs, part b: the Initialize barrier.  A location that is written only by the main thread before it
    releases the workers (InitOnly) is race free, for any number of workers and all interleavings; and programs that
    never write any shared location compute what they compute alone (determinacy of read-only sharing). *)
From Coq Require Import List Arith Bool Lia.
Import ListNotations.
From XV Require Import C17.Model17 C17.Proofs17a.

(** one-step continuation of a program *)
Inductive succ : prog -> prog -> Prop :=
| su_acq : forall m k, succ (PAcq m k) k
| su_rel : forall m k, succ (PRel m k) k
| su_rd : forall x k v, succ (PRd x k) (k v)
| su_wr : forall x v k, succ (PWr x v k) k
| su_local : forall k, succ (PLocal k) k
| su_wait : forall k, succ (PWait k) k
| su_signal : forall k, succ (PSignal k) k.

Lemma step_shape : forall s i s', step s i s' ->
  exists told tnew, nth_error (thr s) i = Some told /\ thr s' = set_nth (thr s) i tnew /\ succ (code told) (code tnew) /\
    (forall k, code told = PWait k -> started s = true) /\
    ((started s' = started s /\ forall k, code told <> PSignal k) \/ (exists k, code told = PSignal k /\ started s' = true)).
Proof.
  intros s i s' St. inversion St; subst; cbn [thr started];
    (eexists; eexists; split; [eassumption|split; [reflexivity|split; [cbn [code]; constructor|split]]]);
    cbn [code]; try (intros; discriminate).
  all: try (left; split; [reflexivity|intros; discriminate]).
  - intros k0 E. inversion E; subst. assumption.
  - right. eexists. split; reflexivity.
Qed.

Section Barrier.
  Variable x : loc.

  Lemma nowrite_succ : forall p p', nowrite x p -> succ p p' -> nowrite x p'.
  Proof. intros p p' N S. inversion S; subst; cbn in N; auto. apply N. Qed.

  Lemma nosignal_succ : forall p p', nosignal p -> succ p p' -> nosignal p'.
  Proof. intros p p' N S. inversion S; subst; cbn in N; auto. contradiction. Qed.

  Lemma initphase_succ : forall p p', initphase x p -> succ p p' -> (forall k, p <> PSignal k) -> initphase x p'.
  Proof. intros p p' N S NS. inversion S; subst; cbn in N; auto. exfalso. eapply NS; reflexivity. Qed.

  Definition JA (ts : list thread) : Prop :=
    (exists t0, nth_error ts 0 = Some t0 /\ initphase x (code t0)) /\
    (forall j t, j <> 0 -> nth_error ts j = Some t -> worker x (code t)).
  Definition JB (ts : list thread) : Prop := forall j t, nth_error ts j = Some t -> nowrite x (code t).
  Definition J (s : state) : Prop := (started s = false /\ JA (thr s)) \/ (started s = true /\ JB (thr s)).

  Lemma worker_is_wait : forall p, worker x p -> exists k, p = PWait k /\ nowrite x k.
  Proof. intros p W. destruct p; cbn in W; try contradiction. eexists; split; [reflexivity|apply W]. Qed.

  Lemma J_step : forall s i s', J s -> step s i s' -> J s'.
  Proof.
    intros s i s' HJ St. destruct (step_shape _ _ _ St) as (told & tnew & Hold & Hthr & Hs & Hw & Hst).
    destruct HJ as [[Hf [[t0 [H0 I0]] W]]|[Ht B]].
    - (* before the signal: only the main thread can move *)
      destruct (Nat.eq_dec i 0) as [->|Ni].
      + rewrite H0 in Hold. inversion Hold; subst told.
        destruct Hst as [[Es NS]|[k [Ek Es]]].
        * left. split; [congruence|]. split.
          -- exists tnew. split; [rewrite Hthr, nth_set_nth, Nat.eqb_refl, H0; reflexivity|].
             eapply initphase_succ; eauto.
          -- intros j t Nj Hj. rewrite Hthr, nth_set_nth in Hj. destruct (Nat.eqb_spec 0 j); [congruence|]. eapply W; eauto.
        * right. split; [exact Es|]. intros j t Hj. rewrite Hthr, nth_set_nth in Hj.
          destruct (Nat.eqb_spec 0 j) as [Ej|Nj]; [subst j|].
          -- rewrite H0 in Hj. inversion Hj; subst t. rewrite Ek in I0, Hs. cbn in I0. inversion Hs; subst. apply I0.
          -- destruct (worker_is_wait _ (W j t (not_eq_sym Nj) Hj)) as [k' [E N]]. rewrite E. exact N.
      + destruct (worker_is_wait _ (W i told Ni Hold)) as [k' [E _]]. rewrite (Hw _ E) in Hf. discriminate.
    - right. split.
      + destruct Hst as [[Es _]|[k [_ Es]]]; congruence.
      + intros j t Hj. rewrite Hthr, nth_set_nth in Hj. destruct (Nat.eqb_spec i j) as [Ej|Nj]; [subst j|].
        * rewrite Hold in Hj. inversion Hj; subst t. eapply nowrite_succ; eauto.
        * eapply B; eauto.
  Qed.

  Lemma J_init : forall m0 p0 ws, initphase x p0 -> Forall (worker x) ws -> J (init_state m0 (p0 :: ws)).
  Proof.
    intros m0 p0 ws I F. left. split; [reflexivity|]. split.
    - exists (mkT [] p0). split; [reflexivity|exact I].
    - intros j t Nj Hj. destruct j as [|j]; [congruence|]. cbn in Hj. rewrite nth_error_map in Hj.
      destruct (nth_error ws j) as [p|] eqn:E; [|discriminate]. inversion Hj; subst. cbn.
      rewrite Forall_forall in F. apply F. eapply nth_error_In; eauto.
  Qed.

  Lemma J_no_race : forall s, J s -> ~ race_at x s.
  Proof.
    intros s HJ (i & j & ti & tj & Hij & Hi & Hj & Ai & Aj & Wr).
    destruct HJ as [[_ [_ W]]|[_ B]].
    - (* one of the two is a worker, whose head is the wait *)
      assert (forall k t, k <> 0 -> nth_error (thr s) k = Some t -> ~ accesses x (code t)) as NA.
      { intros k t Nk Hk A. destruct (worker_is_wait _ (W k t Nk Hk)) as [k' [E _]]. rewrite E in A. destruct A as [A|A]; exact A. }
      destruct i as [|i].
      + apply (NA j tj); auto.
      + apply (NA (S i) ti); auto.
    - assert (forall k t, nth_error (thr s) k = Some t -> ~ writes x (code t)) as NW.
      { intros k t Hk Wk. pose proof (B k t Hk) as N. destruct (code t); cbn in Wk; try contradiction. cbn in N. apply N. exact Wk. }
      destruct Wr as [Wr|Wr]; [exact (NW i ti Hi Wr)|exact (NW j tj Hj Wr)].
  Qed.

  Theorem initonly_race_free : forall m0 p0 ws, initphase x p0 -> Forall (worker x) ws ->
    forall s, reach (init_state m0 (p0 :: ws)) s -> ~ race_at x s.
  Proof.
    intros m0 p0 ws I F s R. apply J_no_race. induction R.
    - apply J_init; assumption.
    - eapply J_step; eauto.
  Qed.
End Barrier.

(** ---- determinacy of read-only sharing ------------------------------------------------------------------ *)
(** [residual m p q]: running [p] alone on the (unchanging) memory [m] passes through [q] *)
Inductive residual (m : memory) : prog -> prog -> Prop :=
| res_refl : forall p, residual m p p
| res_acq : forall p mx k, residual m p (PAcq mx k) -> residual m p k
| res_rel : forall p mx k, residual m p (PRel mx k) -> residual m p k
| res_rd : forall p x k, residual m p (PRd x k) -> residual m p (k (m x))
| res_local : forall p k, residual m p (PLocal k) -> residual m p k
| res_wait : forall p k, residual m p (PWait k) -> residual m p k
| res_signal : forall p k, residual m p (PSignal k) -> residual m p k.

Fixpoint readonly (p : prog) : Prop :=
  match p with
  | Done _ => True
  | PAcq _ k | PRel _ k | PLocal k | PWait k | PSignal k => readonly k
  | PRd _ k => forall v, readonly (k v)
  | PWr _ _ _ => False
  end.

Lemma readonly_residual : forall m p q, readonly p -> residual m p q -> readonly q.
Proof. intros m p q R Res. induction Res; auto; specialize (IHRes R); cbn in IHRes; auto. Qed.

Definition DInv (m0 : memory) (ps : list prog) (s : state) : Prop :=
  (forall y, mem s y = m0 y) /\ length (thr s) = length ps /\
  forall i t p, nth_error (thr s) i = Some t -> nth_error ps i = Some p -> residual m0 p (code t).

Lemma DInv_step : forall m0 ps s i s', Forall readonly ps -> DInv m0 ps s -> step s i s' -> DInv m0 ps s'.
Proof.
  intros m0 ps s i s' RO (Hm & Hl & Hr) St.
  assert (forall t, nth_error (thr s) i = Some t -> readonly (code t)) as ROi.
  { intros t Ht. destruct (nth_error ps i) as [p|] eqn:Ep.
    - eapply readonly_residual; [|eapply Hr; eauto]. rewrite Forall_forall in RO. apply RO. eapply nth_error_In; eauto.
    - apply nth_error_None in Ep. assert (i < length (thr s)) by (apply nth_error_Some; congruence). lia. }
  destruct St; cbn [mem thr].
  all: match goal with H : nth_error (thr _) ?ii = Some ?t |- _ => pose proof (ROi t H) as ROt; cbn in ROt end.
  all: try contradiction.
  all: unfold DInv; cbn [mem thr started]; (split; [exact Hm|split; [rewrite length_set_nth; exact Hl|]]).
  all: intros j t p Hj Hp; rewrite nth_set_nth in Hj;
       match goal with H : nth_error (thr _) ?ii = Some _ |- _ =>
         destruct (Nat.eqb_spec ii j) as [Ej|Nj]; [subst j|eapply Hr; eauto];
         rewrite H in Hj; inversion Hj; subst t; cbn [code];
         pose proof (Hr ii _ p H Hp) as Res; cbn [code] in Res end.
  - eapply res_acq; eauto.
  - eapply res_rel; eauto.
  - rewrite Hm. eapply res_rd; eauto.
  - eapply res_local; eauto.
  - eapply res_wait; eauto.
  - eapply res_signal; eauto.
Qed.

Lemma DInv_init : forall m0 ps, DInv m0 ps (init_state m0 ps).
Proof.
  intros m0 ps. split; [reflexivity|]. split; [cbn; apply map_length|].
  intros i t p Hi Hp. cbn in Hi. rewrite nth_error_map, Hp in Hi. inversion Hi; subst. cbn. constructor.
Qed.

(** a residual that is [Done v] is the answer of the sequential run *)
Lemma residual_run_alone : forall m p q, residual m p q -> forall v, q = Done v ->
  exists fuel, run_alone fuel m p = Some (v, m).
Proof.
  intros m p q Res.
  assert (forall fuel r, run_alone fuel m q = Some r -> exists fuel', run_alone fuel' m p = Some r) as G.
  { induction Res; intros fuel r H.
    - eauto.
    - apply (IHRes (S fuel)). exact H.
    - apply (IHRes (S fuel)). exact H.
    - apply (IHRes (S fuel)). exact H.
    - apply (IHRes (S fuel)). exact H.
    - apply (IHRes (S fuel)). exact H.
    - apply (IHRes (S fuel)). exact H. }
  intros v ->. apply (G 1). reflexivity.
Qed.

Theorem readonly_determinate : forall m0 ps, Forall readonly ps ->
  forall s, reach (init_state m0 ps) s ->
    (forall y, mem s y = m0 y) /\
    forall i t p v, nth_error (thr s) i = Some t -> nth_error ps i = Some p -> code t = Done v ->
      exists fuel, run_alone fuel m0 p = Some (v, m0).
Proof.
  intros m0 ps RO s R.
  assert (DInv m0 ps s) as D.
  { induction R; [apply DInv_init|eapply DInv_step; eauto]. }
  destruct D as (Hm & _ & Hr). split; [exact Hm|].
  intros i t p v Hi Hp E. eapply residual_run_alone; [eapply Hr; eauto|exact E].
Qed.
