(** C17 proofs, part c: lock-then-check-then-initialise ([lazy_get]) run by any number of threads.  In every reachable
    state of every interleaving the initialiser body (data := data + v) has run at most once (data is 0 or v, never
    2v) and every finished caller has observed the fully built value v. *)
From Coq Require Import List Arith Bool Lia.
Import ListNotations.
From XV Require Import C17.Model17 C17.Proofs17a.

Section Lazy.
  Variables (m : mutex) (flag data : loc) (v : nat).
  Hypothesis flag_data : flag <> data.

  Definition fin : prog := PRd data (fun r => Done r).
  Definition pB : prog := PWr flag 1 (PRel m fin).
  Definition pA : prog := PRd data (fun d => PWr data (d + v) pB).
  Definition pK : nat -> prog := fun f => if Nat.eqb f 0 then pA else PRel m fin.

  Lemma lazy_get_eq : lazy_get m flag data v = PAcq m (PRd flag pK).
  Proof. reflexivity. Qed.

  Definition pc_of (t : thread) (n : nat) : Prop :=
    match n with
    | 0 => t = mkT [] (PAcq m (PRd flag pK))
    | 1 => t = mkT [m] (PRd flag pK)
    | 2 => t = mkT [m] pA
    | 3 => t = mkT [m] (PWr data (0 + v) pB)
    | 4 => t = mkT [m] pB
    | 5 => t = mkT [m] (PRel m fin)
    | 6 => t = mkT [] fin
    | 7 => t = mkT [] (Done v)
    | _ => False
    end.

  Definition allowed (ph n : nat) : Prop :=
    match ph with
    | 0 => n <= 3
    | 1 => n = 0 \/ n = 4
    | _ => n = 0 \/ n = 1 \/ n = 5 \/ n = 6 \/ n = 7
    end.

  Definition memok (ph : nat) (mm : memory) : Prop :=
    match ph with
    | 0 => mm flag = 0 /\ mm data = 0
    | 1 => mm flag = 0 /\ mm data = v
    | _ => mm flag = 1 /\ mm data = v
    end.

  Definition TOK (ph : nat) (t : thread) : Prop := exists n, pc_of t n /\ allowed ph n.
  Definition EXCL (ts : list thread) : Prop :=
    forall i j ti tj, i <> j -> nth_error ts i = Some ti -> nth_error ts j = Some tj -> holds m ti -> holds m tj -> False.

  Definition Inv (s : state) : Prop :=
    exists ph, ph <= 2 /\ memok ph (mem s) /\ (forall i t, nth_error (thr s) i = Some t -> TOK ph t) /\ EXCL (thr s) /\
               (ph = 1 -> exists i t, nth_error (thr s) i = Some t /\ pc_of t 4).

  Lemma pc_holds : forall t n, pc_of t n -> (holds m t <-> 1 <= n <= 5).
  Proof.
    intros t n P. destruct n as [|[|[|[|[|[|[|[|n]]]]]]]]; cbn in P; try contradiction; subst t; unfold holds; cbn;
      (split; [intros H; try lia; try (destruct H as [H|H]; [lia|contradiction]); contradiction|intros H; try lia; left; reflexivity]).
  Qed.

  Lemma pc_le7 : forall t n, pc_of t n -> n <= 7.
  Proof. intros t n. destruct n as [|[|[|[|[|[|[|[|n]]]]]]]]; cbn; intros P; try lia; contradiction. Qed.

  Lemma excl_update : forall ts i told t',
    EXCL ts -> nth_error ts i = Some told -> (holds m t' -> holds m told \/ free m ts) -> EXCL (set_nth ts i t').
  Proof.
    intros ts i told t' E Hold Hh a b ta tb Hab Ha Hb Hma Hmb. rewrite nth_set_nth in Ha, Hb.
    destruct (Nat.eqb_spec i a) as [Ea|Na]; destruct (Nat.eqb_spec i b) as [Eb|Nb]; try subst a; try subst b.
    - congruence.
    - rewrite Hold in Ha. inversion Ha; subst ta. destruct (Hh Hma) as [Ho|Hf].
      + exact (E i b told tb Hab Hold Hb Ho Hmb).
      + exact (Hf tb (nth_error_In _ _ Hb) Hmb).
    - rewrite Hold in Hb. inversion Hb; subst tb. destruct (Hh Hmb) as [Ho|Hf].
      + exact (E a i ta told Hab Ha Hold Hma Ho).
      + exact (Hf ta (nth_error_In _ _ Ha) Hma).
    - exact (E a b ta tb Hab Ha Hb Hma Hmb).
  Qed.

  Lemma rebuild : forall ts i told tnew ph' mem' st',
    nth_error ts i = Some told -> EXCL ts -> ph' <= 2 -> memok ph' mem' -> TOK ph' tnew ->
    (forall j t, j <> i -> nth_error ts j = Some t -> TOK ph' t) ->
    (holds m tnew -> holds m told \/ free m ts) ->
    (ph' = 1 -> pc_of tnew 4 \/ exists j t, j <> i /\ nth_error ts j = Some t /\ pc_of t 4) ->
    Inv (mkS mem' st' (set_nth ts i tnew)).
  Proof.
    intros ts i told tnew ph' mem' st' Hold E Hph M Tn To Hh H4. exists ph'. cbn [mem thr]. split; [exact Hph|]. split; [exact M|]. split; [|split].
    - intros j t Hj. rewrite nth_set_nth in Hj. destruct (Nat.eqb_spec i j) as [Ej|Nj].
      + subst j. rewrite Hold in Hj. inversion Hj; subst t. exact Tn.
      + apply (To j t); auto.
    - eapply excl_update; eauto.
    - intros E1. destruct (H4 E1) as [P|(j & t & Nj & Hj & P)].
      + exists i, tnew. split; [rewrite nth_set_nth, Nat.eqb_refl, Hold; reflexivity|exact P].
      + exists j, t. split; [rewrite nth_set_nth; destruct (Nat.eqb_spec i j); [congruence|exact Hj]|exact P].
  Qed.

  (** the other threads do not hold the mutex while [told] does, hence they sit at pc 0, 6 or 7 *)
  Lemma others_outside : forall ts i told ph, EXCL ts -> nth_error ts i = Some told -> holds m told ->
    (forall j t, nth_error ts j = Some t -> TOK ph t) ->
    forall j t, j <> i -> nth_error ts j = Some t -> exists n, pc_of t n /\ allowed ph n /\ (n = 0 \/ n = 6 \/ n = 7).
  Proof.
    intros ts i told ph E Hold Hm All j t Nj Hj. destruct (All j t Hj) as (n & P & A). exists n. split; [exact P|split; [exact A|]].
    assert (~ holds m t) as NH by (intros Hh; exact (E i j told t (not_eq_sym Nj) Hold Hj Hm Hh)).
    rewrite (pc_holds t n P) in NH.
    pose proof (pc_le7 t n P). lia.
  Qed.

  Lemma upd_same : forall f x w, upd f x w x = w.
  Proof. intros. unfold upd. rewrite Nat.eqb_refl. reflexivity. Qed.
  Lemma upd_other : forall f x w y, y <> x -> upd f x w y = f y.
  Proof. intros f x w y N. unfold upd. destruct (Nat.eqb_spec y x); [contradiction|reflexivity]. Qed.

  Ltac told_is Hold :=
    match goal with H : nth_error (thr _) _ = Some _ |- _ => rewrite Hold in H; inversion H; clear H end.

  Lemma Inv_step : forall s i s', Inv s -> step s i s' -> Inv s'.
  Proof.
    intros s i s' (ph & Hph & M & All & E & H4) St.
    destruct St as [s i h mx k Hn Hfree|s i h mx k Hn Hin|s i h x k Hn|s i h x w k Hn|s i h k Hn|s i h k Hn Hs|s i h k Hn];
      destruct (All i _ Hn) as (n & P & A);
      destruct n as [|[|[|[|[|[|[|[|n]]]]]]]]; cbn in P; try discriminate P; try contradiction;
      inversion P; subst; clear P.
    - (* pc0 -> pc1 : acquire *)
      eapply (rebuild (thr s) i _ _ ph _ _ Hn E Hph M).
      + exists 1. split; [reflexivity|]. destruct ph as [|[|ph]]; cbn in A |- *; try lia.
        exfalso. destruct (H4 eq_refl) as (j & t & Hj & P4). apply (Hfree t (nth_error_In _ _ Hj)).
        apply (pc_holds t 4 P4). lia.
      + intros j t _ Hj. apply (All j t Hj).
      + intros _. right. exact Hfree.
      + intros Eq. right. destruct (H4 Eq) as (j & t & Hj & P4). exists j, t. split; [|split; auto].
        intros Ej. subst j. rewrite Hn in Hj. inversion Hj; subst t. cbn in P4. discriminate P4.
    - (* pc5 -> pc6 : release *)
      assert (ph = 2) as Eph by (destruct ph as [|[|ph]]; cbn in A; lia). subst ph.
      eapply (rebuild (thr s) i _ _ 2 _ _ Hn E Hph M).
      + exists 6. split; [cbn; unfold remove_mutex; cbn; rewrite Nat.eqb_refl; reflexivity|cbn; auto].
      + intros j t _ Hj. apply (All j t Hj).
      + cbn. unfold holds, remove_mutex. cbn. rewrite Nat.eqb_refl. cbn. intros [].
      + discriminate.
    - (* pc1 : read the flag *)
      destruct ph as [|[|ph]]; cbn in A; try lia.
      + destruct M as [Mf Md]. rewrite Mf. eapply (rebuild (thr s) i _ _ 0 _ _ Hn E Hph); [split; assumption| | | |discriminate].
        * exists 2. split; [reflexivity|cbn; lia].
        * intros j t _ Hj. apply (All j t Hj).
        * intros _. left. unfold holds. cbn. auto.
      + assert (ph = 0) as Eph by lia. subst ph. destruct M as [Mf Md]. rewrite Mf.
        eapply (rebuild (thr s) i _ _ 2 _ _ Hn E Hph); [split; assumption| | | |discriminate].
        * exists 5. split; [reflexivity|cbn; auto].
        * intros j t _ Hj. apply (All j t Hj).
        * intros _. left. unfold holds. cbn. auto.
    - (* pc2 : read data (phase 0, data = 0) *)
      assert (ph = 0) as Eph by (destruct ph as [|[|ph]]; cbn in A; lia). subst ph.
      destruct M as [Mf Md]. rewrite Md. eapply (rebuild (thr s) i _ _ 0 _ _ Hn E Hph); [split; assumption| | | |discriminate].
      + exists 3. split; [reflexivity|cbn; lia].
      + intros j t _ Hj. apply (All j t Hj).
      + intros _. left. unfold holds. cbn. auto.
    - (* pc6 : final read of data (phase 2) *)
      assert (ph = 2) as Eph by (destruct ph as [|[|ph]]; cbn in A; lia). subst ph.
      destruct M as [Mf Md]. rewrite Md. eapply (rebuild (thr s) i _ _ 2 _ _ Hn E Hph); [split; assumption| | | |discriminate].
      + exists 7. split; [reflexivity|cbn; auto 6].
      + intros j t _ Hj. apply (All j t Hj).
      + unfold holds. cbn. intros [].
    - (* pc3 : write data (phase 0 -> 1) *)
      assert (ph = 0) as Eph by (destruct ph as [|[|ph]]; cbn in A; lia). subst ph.
      destruct M as [Mf Md].
      assert (holds m (mkT [m] (PWr data (0 + v) pB))) as Hm by (unfold holds; cbn; auto).
      eapply (rebuild (thr s) i _ _ 1 _ _ Hn E); [lia| | | | |].
      + cbn. rewrite upd_other by exact flag_data. rewrite upd_same. split; [exact Mf|reflexivity].
      + exists 4. split; [reflexivity|cbn; auto].
      + intros j t Nj Hj. destruct (others_outside _ _ _ _ E Hn Hm All j t Nj Hj) as (n & P & A' & Hn').
        exists n. split; [exact P|]. cbn in A' |- *. lia.
      + intros _. left. exact Hm.
      + intros _. left. reflexivity.
    - (* pc4 : write flag (phase 1 -> 2) *)
      assert (ph = 1) as Eph by (destruct ph as [|[|ph]]; cbn in A; lia). subst ph.
      destruct M as [Mf Md].
      assert (holds m (mkT [m] pB)) as Hm by (unfold holds; cbn; auto).
      eapply (rebuild (thr s) i _ _ 2 _ _ Hn E); [lia| | | | |discriminate].
      + cbn. rewrite upd_same. rewrite upd_other by (intros Eq; apply flag_data; symmetry; exact Eq). split; [reflexivity|exact Md].
      + exists 5. split; [reflexivity|cbn; auto].
      + intros j t Nj Hj. destruct (others_outside _ _ _ _ E Hn Hm All j t Nj Hj) as (n & P & A' & Hn').
        exists n. split; [exact P|]. cbn in A' |- *. lia.
      + intros _. left. exact Hm.
  Qed.

  Lemma Inv_init : forall N m0, m0 flag = 0 -> m0 data = 0 -> Inv (init_state m0 (repeat (lazy_get m flag data v) N)).
  Proof.
    intros N m0 Hf Hd. exists 0. split; [lia|]. split; [split; assumption|]. split; [|split].
    - intros i t Hi. cbn in Hi. rewrite nth_error_map in Hi. destruct (nth_error (repeat _ N) i) as [p|] eqn:Ep; [|discriminate].
      inversion Hi; subst t. apply nth_error_In in Ep. apply repeat_spec in Ep. subst p. exists 0. split; [reflexivity|cbn; lia].
    - intros i j ti tj _ Hi _ Hm _. cbn in Hi. rewrite nth_error_map in Hi. destruct (nth_error (repeat _ N) i); [|discriminate].
      inversion Hi; subst ti. exact Hm.
    - discriminate.
  Qed.

  Theorem lazy_once : forall N m0, m0 flag = 0 -> m0 data = 0 ->
    forall s, reach (init_state m0 (repeat (lazy_get m flag data v) N)) s ->
      (mem s data = 0 \/ mem s data = v) /\
      (forall i t r, nth_error (thr s) i = Some t -> code t = Done r -> r = v) /\
      ~ both_inside m s.
  Proof.
    intros N m0 Hf Hd s R.
    assert (Inv s) as (ph & Hph & M & All & E & _).
    { induction R; [apply Inv_init; assumption|eapply Inv_step; eauto]. }
    split; [|split].
    - destruct ph as [|[|ph]]; cbn in M; destruct M; auto.
    - intros i t r Hi Hc. destruct (All i t Hi) as (n & P & _).
      destruct n as [|[|[|[|[|[|[|[|n]]]]]]]]; cbn in P; try contradiction; subst t; cbn in Hc; try discriminate Hc.
      inversion Hc. reflexivity.
    - intros (i & j & ti & tj & Hij & Hi & Hj & Mi & Mj). exact (E i j ti tj Hij Hi Hj Mi Mj).
  Qed.
End Lazy.
