(** Executable model of xerces-c's XInclude processor, following
      src/xercesc/xinclude/XIncludeUtils.cpp        (parseDOMNodeDoingXInclude, doDOMNodeXInclude,
                                                     doXIncludeXMLFileDOM, doXIncludeTEXTFileDOM, history stack)
      src/xercesc/xinclude/XIncludeLocation.cpp     (prependPath)
      src/xercesc/xinclude/XIncludeDOMDocumentProcessor.cpp (doXIncludeDOMProcess)
      src/xercesc/parsers/AbstractDOMParser.cpp     (endElement, fDoXInclude branch)
    No proofs in this file.

    What is abstracted:
    * URIs are paths (lists of segments) below the root of an abstract file system.  The code works on
      strings: [XIncludeLocation::prependPath] concatenates the directory part of the base with the href
      *without* normalising the result, and the history stack compares these strings; the model compares
      normalised paths ([resolve]).  The two agree whenever hrefs contain no ".." segment; with ".." the
      code may detect a loop one round later than the model (the loop error is reported in both).
    * [DOMElementImpl::getBaseURI] (xml:base chain resolved through XMLUri) is [elem_base].
    * parsing an included file: the file system maps a path to the already parsed top-level nodes (FDoc),
      to decoded text (FText; decoding itself is C05's subject) or to nothing.  A text file requested
      with parse="xml", or a document requested with parse="text", counts as not obtainable.
    * the DOM is mutated in place by the code; the model returns the list of nodes that replaces a node. *)
From Coq Require Import NArith List Bool.
Import ListNotations.
From XV Require Import C20.Spec20.
Local Open Scope N_scope.

(** XMLErrs codes reported through XIncludeUtils::reportError, plus two model-only values *)
Inductive err :=
| E_ResourceErrorWarning | E_CannotOpenFile | E_IncludeFailedResourceError      (* warnings *)
| E_OrphanFallback | E_NoHref | E_XPointerNotSupported | E_InvalidParseVal | E_MultipleFallbackElems
| E_IncludeFailedNoFallback | E_CircularInclusionLoop | E_CircularInclusionDocIncludesSelf
| E_DisallowedChild                                                            (* fatal errors *)
| E_Fuel                                                                       (* model only; proved unreachable *)
| E_HierarchyExc.   (* model only: marks the point where DOMDocumentImpl::insertBefore throws HIERARCHY_REQUEST_ERR *)

Definition is_fatal (e : err) : bool :=
  match e with
  | E_ResourceErrorWarning | E_CannotOpenFile | E_IncludeFailedResourceError => false
  | _ => true
  end.

(** setAttribute("xml:base", v) *)
Definition set_base_attr (at_ : list attr) (v : str) : list attr :=
  (NS_XML, s_base, v) :: drop_base_attr at_.

(** XMLPlatformUtils::removeDotDotSlash on a relative reference: "seg/../" is removed when another '/'
    precedes seg, so the first segment always stays *)
Definition norm_pinned (p : path) : path :=
  match p with [] => [] | s0 :: r => s0 :: norm r end.
Definition rm_dotdot (s : str) : str := join_slash (norm_pinned (split_slash s)).

(** XIncludeLocation(href).prependPath(b): directory part of [b] followed by href.  prependPath first runs
    removeDotDotSlash on [b] *in place* (it casts the const away), i.e. on the value of the xml:base
    attribute node itself. *)
Definition pp (fixn : bool) (b : path) (ref : path) : path :=
  let r := dir (norm_pinned b) ++ ref in
  if fixn then norm_pinned r else r            (* repaired (C20-F4): the result is normalised as well *)
.
Definition prepend_path (fixn : bool) (b : option str) (ref : str) : path :=
  match b with
  | Some bs => pp fixn (split_slash bs) (split_slash ref)
  | None => split_slash ref
  end.

(** Opening "<directory of the base>/<href>": the code hands this string to the file system *without*
    removing "seg/.." first (XIncludeLocation::prependPath does not normalise its result), so every directory
    named on the way must exist, also one that is left again by a following "..".
    [os_walk fs cur p]: [cur] = current directory (innermost name first), [p] = remaining segments. *)
Definition is_dir (fs : fsys) (d : path) : bool :=
  match lookup fs (d ++ [[]]) with Some FDir => true | _ => false end.
Fixpoint os_walk (fs : fsys) (cur : list str) (p : path) : option path :=
  match p with
  | [] => None
  | [s] => if str_eqb s dotdot then None else Some (rev (s :: cur))
  | s :: r =>
    if str_eqb s dotdot then os_walk fs (tl cur) r
    else if is_dir fs (rev (s :: cur)) then os_walk fs (s :: cur) r else None
  end.
(** [fixn] = true: the repaired behaviour (finding C20-F4), the path is normalised before it is opened *)
Definition fetch (fs : fsys) (fixn : bool) (incbase : path) (href : path) : option file :=
  let target := resolve incbase href in
  if fixn then lookup fs target
  else match os_walk fs [] (dir incbase ++ href) with
       | Some p => if path_eqb p target then lookup fs target else None
       | None => None
       end.

(** outcome of looking at one xi:include element: either it stays (an error was reported), or it is to be
    replaced by [nodes], which are then processed with history [hist'] *)
Inductive inc_result := IR_fail | IR_repl (nodes : list node) (hist' : list path).

(** DOMDocumentImpl::insertBefore: a document accepts no text child and at most one element child;
    a violation is a DOMException(HIERARCHY_REQUEST_ERR) that leaves parse()/doXIncludeDOMProcess *)
Fixpoint count_elem_nodes (l : list node) : nat :=
  match l with [] => O | Elem _ _ _ _ :: r => S (count_elem_nodes r) | _ :: r => count_elem_nodes r end.
(* isKidOK: "(p==DOCUMENT_NODE && ch==TEXT_NODE && isAllSpaces(value))" -- white-space-only text is accepted (and
   kept); XMLChar1_0::isAllSpaces is false for the empty string, so an empty Text node (empty text inclusion) is not *)
Definition doc_text_ok (s : str) : bool := match s with [] => false | _ => is_ws s end.
Fixpoint has_text_node (l : list node) : bool :=
  match l with [] => false | Text s :: r => negb (doc_text_ok s) || has_text_node r | _ :: r => has_text_node r end.
Definition doc_kids_ok (l : list node) : bool :=
  negb (has_text_node l) && Nat.leb (count_elem_nodes l) 1.

Section Model.
Variable fs : fsys.
Variable docuri : path.            (* parsedDocument->getBaseURI() *)
(** defect switches: true = repaired behaviour.  In /repo: C20-F2, C20-F4, C20-F1 are repaired (fix: commits),
    C20-F7 is not. *)
Variable fixb : bool.              (* C20-F2: own xml:base of an included root is prefixed with the directory of the href *)
Variable fixn : bool.              (* C20-F4: directory of the base + href is normalised (before opening, and in xml:base values) *)
Variable fixc : bool.              (* C20-F7: the fix-up test compares the base URI at the parent of xi:include, not its own *)
Variable fixe : bool.              (* C20-F1: the parser leaves the content of xi:fallback alone until the fallback is used *)

(** doXIncludeXMLFileDOM, lines 509-531: base URI fix-up of the included document element *)
Definition fix_root_attrs (base incbase target : path) (ib : option str) (href : str) (rat : list attr) : list attr :=
  (* the code compares the base URI of the xi:include element itself (which its own xml:base may have moved)
     with the URI of the included document; repaired: the base URI in force at its parent *)
  if path_eqb (if fixc then base else incbase) target then rat
  else
    match get_base_attr rat with
    | None => set_base_attr rat (join_slash (prepend_path fixn ib href))
    | Some rb =>
      if fixb then set_base_attr rat (join_slash (pp fixn (prepend_path fixn ib href) (split_slash rb)))
      else set_base_attr rat (join_slash (prepend_path fixn ib rb))
    end.
Fixpoint fix_root (base incbase target : path) (ib : option str) (href : str) (top : list node) : list node :=
  match top with
  | [] => []
  | Elem ns nm at_ k :: r => Elem ns nm (fix_root_attrs base incbase target ib href at_) k :: r
  | n :: r => n :: fix_root base incbase target ib href r
  end.

(** doDOMNodeXInclude, lines 292-320: fix-up of the imported fallback children *)
Definition fix_fb_child (differ : bool) (ib : option str) (n : node) : node :=
  match n with
  | Elem ns nm at_ k =>
    if differ then
      match get_base_attr at_ with
      | None => Elem ns nm (set_base_attr at_ (match ib with Some b => rm_dotdot b | None => [] end)) k
      | Some cb => Elem ns nm (set_base_attr at_ (join_slash (prepend_path fixn ib cb))) k
      end
    else n
  | _ => n
  end.

(** doDOMNodeXInclude up to (not including) the processing of the replacement nodes.
    [base] = base URI of the parent of the xi:include element. *)
Definition inc_resolve (hist : list path) (base : path) (at_ : list attr) (kids : list node)
  : inc_result * list err :=
  match scan_fallback kids None with                                   (* lines 193-213 *)
  | FS_multi => (IR_fail, [E_MultipleFallbackElems])
  | FS_disallowed => (IR_fail, [E_DisallowedChild])
  | FS_ok fb =>
    match get_attr NS_NONE s_href at_ with
    | None => (IR_fail, [E_NoHref])                                    (* 215-222 *)
    | Some href =>
      match get_attr NS_NONE s_xpointer at_ with
      | Some _ => (IR_fail, [E_XPointerNotSupported])                  (* 234-241 *)
      | None =>
        let parse := match get_attr NS_NONE s_parse at_ with Some p => p | None => s_xml end in
        let ib := get_base_attr at_ in
        let incbase := elem_base base at_ in                           (* xincludeNode->getBaseURI() *)
        let target := resolve incbase (split_slash href) in            (* hrefLoc *)
        (* lines 275-339: resource error, look for a fallback *)
        let failed (e : list err) :=
            match fb with
            | Some (fat, fkids) =>
              let differ := negb (path_eqb base (elem_base incbase fat)) in
              (IR_repl (map (fix_fb_child differ ib) fkids) hist, e ++ [E_IncludeFailedResourceError])
            | None => (IR_fail, e ++ [E_IncludeFailedResourceError; E_IncludeFailedNoFallback])
            end in
        if str_eqb parse s_xml then                                    (* doXIncludeXMLFileDOM *)
          if path_mem target hist then failed [E_CircularInclusionLoop]
          else if path_eqb target docuri then failed [E_CircularInclusionDocIncludesSelf]
          else match fetch fs fixn incbase (split_slash href) with
               | Some (FDoc top) => (IR_repl (fix_root base incbase target ib href top) (target :: hist), [])
               | _ => failed []
               end
        else if str_eqb parse s_text then                              (* doXIncludeTEXTFileDOM *)
          if negb (encoding_ok (get_attr NS_NONE s_encoding at_)) then failed [E_CannotOpenFile]
          else match fetch fs fixn incbase (split_slash href) with
               | Some (FText s) => (IR_repl [Text s] hist, [])
               | _ => failed [E_CannotOpenFile]
               end
        else (IR_fail, [E_InvalidParseVal])                            (* 267-272 *)
      end
    end
  end.

(** the attributes of an xi:include element that stays in the tree: its xml:base value was normalised in
    place by prependPath (line 252) unless an earlier check returned *)
Definition attrs_after (at_ : list attr) (kids : list node) : list attr :=
  match scan_fallback kids None, get_attr NS_NONE s_href at_, get_attr NS_NONE s_xpointer at_, get_base_attr at_ with
  | FS_ok _, Some _, None, Some b => set_base_attr at_ (rm_dotdot b)
  | _, _, _, _ => at_
  end.

Definition walk_list (rec : node -> list node * list err) (l : list node) : list node * list err :=
  fold_right (fun n acc => let (r, e) := rec n in (r ++ fst acc, e ++ snd acc)) ([], []) l.

(** parseDOMNodeDoingXInclude (pre-order): an xi:include is resolved and its replacement is walked; an
    xi:fallback met by the walk is an orphan; any other element has its children walked.  Text nodes
    produced by a text inclusion are not walked again by the code (they have no children): [Text] is
    returned as it is. *)
Fixpoint walk (fuel : nat) (atdoc : bool) (hist : list path) (base : path) (n : node) {struct fuel}
  : list node * list err :=
  match n with
  | Elem ns nm at_ kids =>
    match fuel with
    | O => ([n], [E_Fuel])
    | S f =>
      if is_include ns nm then
        match inc_resolve hist base at_ kids with
        | (IR_fail, e) => ([Elem ns nm (attrs_after at_ kids) kids], e)
        | (IR_repl nodes hist', e) =>
          (* includeParent->replaceChild: a Document refuses text and a second element *)
          if atdoc && negb (doc_kids_ok nodes) then ([Elem ns nm at_ kids], e ++ [E_HierarchyExc])
          else let (r, e2) := walk_list (walk f atdoc hist' base) nodes in (r, e ++ e2)
        end
      else if is_fallback ns nm then ([n], [E_OrphanFallback])
      else
        let (ks, e) := walk_list (walk f false hist (elem_base base at_)) kids in
        ([Elem ns nm at_ ks], e)
    end
  | _ => ([n], [])
  end.

(** AbstractDOMParser::endElement: while the parser builds the tree, every xi:include element is processed
    when its end tag is seen, i.e. after its descendants (post-order), each time with a fresh XIncludeUtils
    (empty history); an xi:fallback whose parent is not in the XInclude namespace is reported. *)
Fixpoint top_walk (fuel : nat) (pns : N) (base : path) (n : node) {struct n} : list node * list err :=
  match n with
  | Elem ns nm at_ kids =>
    let nb := elem_base base at_ in
    let kr := if fixe && is_fallback ns nm then (kids, []) else
              (fix go (l : list node) : list node * list err :=
                 match l with
                 | [] => ([], [])
                 | k :: r => let (a, ea) := top_walk fuel ns nb k in
                             let (b, eb) := go r in (a ++ b, ea ++ eb)
                 end) kids in
    let n' := Elem ns nm at_ (fst kr) in
    if is_include ns nm then
      match inc_resolve [] base at_ (fst kr) with
      | (IR_fail, e) => ([Elem ns nm (attrs_after at_ (fst kr)) (fst kr)], snd kr ++ e)
      | (IR_repl nodes hist', e) =>
        let (r, e2) := walk_list (walk fuel false hist' base) nodes in (r, snd kr ++ e ++ e2)
      end
    else if is_fallback ns nm && negb (pns =? NS_XI) then ([n'], snd kr ++ [E_OrphanFallback])
    else ([n'], snd kr)
  | _ => ([n], [])
  end.
End Model.

(** ---- whole documents ---------------------------------------------------------------------- *)
Inductive doc_result := D_ok (top : list node) | D_hierarchy_exc.

(** the document element [root] (with the comments [pre], [post] around it) *)
Definition root_step (fs : fsys) (uri : path) (fixb fixn fixc fixe : bool) (fuel : nat) (eager : bool)
           (pre : list node) (root : node) (post : list node) : doc_result * list err :=
  match root with
  | Elem ns nm at_ kids =>
    if is_include ns nm then
      (* the descendants first when the parser drives the processing *)
      let kr := if eager then walk_list (top_walk fs uri fixb fixn fixc fixe fuel ns (elem_base uri at_)) kids else (kids, []) in
      match inc_resolve fs uri fixb fixn fixc [] uri at_ (fst kr) with
      | (IR_fail, e) => (D_ok (pre ++ [Elem ns nm (attrs_after at_ (fst kr)) (fst kr)] ++ post), snd kr ++ e)
      | (IR_repl nodes hist', e) =>
        if doc_kids_ok nodes then
          let (r, e2) := walk_list (walk fs uri fixb fixn fixc fuel true hist' uri) nodes in
          (D_ok (pre ++ r ++ post), snd kr ++ e ++ e2)
        else (D_ok [], snd kr ++ e ++ [E_HierarchyExc])
      end
    else
      let (r, e) := if eager then top_walk fs uri fixb fixn fixc fixe fuel NS_NONE uri root else walk fs uri fixb fixn fixc fuel true [] uri root in
      (D_ok (pre ++ r ++ post), e)
  | _ => (D_ok (pre ++ [root] ++ post), [])
  end.

Fixpoint split_root (pre : list node) (l : list node) : option (list node * node * list node) :=
  match l with
  | [] => None
  | Elem ns nm a k :: r => Some (rev pre, Elem ns nm a k, r)
  | n :: r => split_root (n :: pre) r
  end.

(** fuel that is always enough (proved in Proofs20b.v): (files + 1) * (largest tree + 1) + largest tree *)
Fixpoint node_size (n : node) : nat :=
  match n with
  | Elem _ _ _ kids => S (S (fold_right (fun k a => node_size k + a)%nat O kids))
  | _ => 1%nat
  end.
Definition nodes_size (l : list node) : nat := fold_right (fun k a => node_size k + a)%nat O l.
Definition file_size (f : file) : nat := match f with FDoc top => nodes_size top | _ => O end.
Definition max_size (fs : fsys) (top : list node) : nat :=
  fold_right (fun pf a => Nat.max (file_size (snd pf)) a) (nodes_size top) fs.
Definition enough_fuel (fs : fsys) (top : list node) : nat :=
  ((length fs + 1) * (max_size fs top + 1) + max_size fs top + 1)%nat.

(** an exception leaves the whole operation: nothing after the marker happened *)
Fixpoint cut_at_exc (l : list err) : list err * bool :=
  match l with
  | [] => ([], false)
  | E_HierarchyExc :: _ => ([], true)
  | e :: r => let (a, b) := cut_at_exc r in (e :: a, b)
  end.
Definition finish (r : doc_result * list err) : doc_result * list err :=
  let (es, exc) := cut_at_exc (snd r) in
  if exc then (D_hierarchy_exc, es) else r.

(** XercesDOMParser / DOMLSParser with XInclude switched on *)
Definition xi_parser (fs : fsys) (fixb fixn fixc fixe : bool) (uri : path) (top : list node) : doc_result * list err :=
  match split_root [] top with
  | Some (pre, root, post) => finish (root_step fs uri fixb fixn fixc fixe (enough_fuel fs top) true pre root post)
  | None => (D_ok top, [])
  end.

(** XIncludeDOMDocumentProcessor::doXIncludeDOMProcess on the parsed (unexpanded) document *)
Definition xi_docproc (fs : fsys) (fixb fixn fixc : bool) (uri : path) (top : list node) : doc_result * list err :=
  match split_root [] top with
  | Some (pre, root, post) => finish (root_step fs uri fixb fixn fixc true (enough_fuel fs top) false pre root post)
  | None => (D_ok top, [])
  end.
