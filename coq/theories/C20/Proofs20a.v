(** C20 lemmas, part a: decidable equalities, the fuel measure, termination of the pre-order walk. *)
From Coq Require Import NArith List Bool Lia Arith.
Import ListNotations.
From XV Require Import C20.Spec20 C20.Model20.
Local Open Scope N_scope.

Lemma str_eqb_eq : forall a b, str_eqb a b = true <-> a = b.
Proof.
  induction a as [|x a IH]; destruct b as [|y b]; cbn [str_eqb]; split; intro H; try reflexivity; try discriminate.
  - apply andb_true_iff in H. destruct H as [H1 H2]. apply N.eqb_eq in H1. apply IH in H2. subst; reflexivity.
  - inversion H; subst. rewrite N.eqb_refl. cbn [andb]. apply IH. reflexivity.
Qed.
Lemma path_eqb_eq : forall a b, path_eqb a b = true <-> a = b.
Proof.
  induction a as [|x a IH]; destruct b as [|y b]; cbn [path_eqb]; split; intro H; try reflexivity; try discriminate.
  - apply andb_true_iff in H. destruct H as [H1 H2]. apply str_eqb_eq in H1. apply IH in H2. subst; reflexivity.
  - inversion H; subst. apply andb_true_iff. split; [apply str_eqb_eq|apply IH]; reflexivity.
Qed.
Lemma path_eqb_refl : forall a, path_eqb a a = true.
Proof. intros a. apply path_eqb_eq. reflexivity. Qed.
Lemma path_mem_In : forall p l, path_mem p l = true <-> In p l.
Proof.
  intros p l. induction l as [|q l IH]; cbn [path_mem In]; [split; [discriminate|tauto]|].
  rewrite orb_true_iff, IH, path_eqb_eq. split; intros [H|H]; auto.
Qed.

(** ---- sizes ---------------------------------------------------------------------------------- *)
Lemma node_size_pos : forall n, (1 <= node_size n)%nat.
Proof. destruct n; cbn [node_size]; lia. Qed.
Lemma node_size_elem : forall ns nm a k, node_size (Elem ns nm a k) = S (S (nodes_size k)).
Proof. reflexivity. Qed.
Lemma nodes_size_cons : forall n l, nodes_size (n :: l) = (node_size n + nodes_size l)%nat.
Proof. reflexivity. Qed.
Lemma in_nodes_size : forall c l, In c l -> (node_size c <= nodes_size l)%nat.
Proof.
  induction l as [|x l IH]; intros H; [destruct H|]. rewrite nodes_size_cons. destruct H as [H|H].
  - subst. lia.
  - specialize (IH H). lia.
Qed.
Lemma fix_fb_child_size : forall fixn d ib n, node_size (fix_fb_child fixn d ib n) = node_size n.
Proof.
  intros fixn d ib n. destruct n as [ns nm a k| |]; cbn [fix_fb_child]; try reflexivity.
  destruct d; [|reflexivity]. destruct (get_base_attr a); reflexivity.
Qed.
Lemma fix_root_size : forall fixb fixn fixc pb ib tg b h top, nodes_size (fix_root fixb fixn fixc pb ib tg b h top) = nodes_size top.
Proof.
  intros fixb fixn fixc pb ib tg b h top. induction top as [|n top IH]; [reflexivity|].
  destruct n as [ns nm a k| |]; cbn [fix_root]; rewrite !nodes_size_cons; try (rewrite IH; reflexivity).
  reflexivity.
Qed.

Lemma scan_fallback_in : forall kids found fat fkids,
  scan_fallback kids found = FS_ok (Some (fat, fkids)) ->
  found = Some (fat, fkids) \/ (S (S (nodes_size fkids)) <= nodes_size kids)%nat.
Proof.
  induction kids as [|k kids IH]; intros found fat fkids H; cbn [scan_fallback] in H.
  - left. congruence.
  - rewrite nodes_size_cons. destruct k as [ns nm a kk| |].
    + destruct (is_fallback ns nm).
      * destruct found; [discriminate|]. apply IH in H. destruct H as [H|H].
        -- right. inversion H; subst. rewrite node_size_elem. lia.
        -- right. lia.
      * destruct (ns =? NS_XI); [discriminate|]. apply IH in H. destruct H as [H|H]; [left; exact H|right; lia].
    + apply IH in H. destruct H as [H|H]; [left; exact H|right; lia].
    + apply IH in H. destruct H as [H|H]; [left; exact H|right; lia].
Qed.

Lemma lookup_size : forall fs top0 t top, lookup fs t = Some (FDoc top) -> (nodes_size top <= max_size fs top0)%nat.
Proof.
  induction fs as [|[q f] fs IH]; intros top0 t top H; cbn [lookup] in H; [discriminate|].
  unfold max_size. cbn [fold_right snd]. fold (max_size fs top0). destruct (path_eqb t q).
  - inversion H; subst. cbn [file_size snd]. lia.
  - specialize (IH top0 t top H). lia.
Qed.
Lemma max_size_top : forall fs top0, (nodes_size top0 <= max_size fs top0)%nat.
Proof.
  induction fs as [|[q f] fs IH]; intros top0; unfold max_size; cbn [fold_right]; [lia|].
  fold (max_size fs top0). specialize (IH top0). lia.
Qed.

(** ---- the measure: files not on the history stack --------------------------------------------- *)
Definition kcount (fs : fsys) (hist : list path) : nat :=
  length (filter (fun pf => negb (path_mem (fst pf) hist)) fs).

Lemma kcount_le : forall fs hist, (kcount fs hist <= length fs)%nat.
Proof.
  intros fs hist. unfold kcount. induction fs as [|x l IH]; cbn [filter length]; [lia|].
  destruct (negb _); cbn [length]; lia.
Qed.

Lemma filter_len_mono : forall (A : Type) (P Q : A -> bool) l,
  (forall x, P x = true -> Q x = true) -> (length (filter P l) <= length (filter Q l))%nat.
Proof.
  intros A P Q l H. induction l as [|x l IH]; cbn [filter]; [lia|].
  destruct (P x) eqn:Px.
  - rewrite (H x Px). cbn [length]. lia.
  - destruct (Q x); cbn [length]; lia.
Qed.

Lemma kcount_push : forall fs hist t f, lookup fs t = Some f -> path_mem t hist = false ->
  (kcount fs (t :: hist) < kcount fs hist)%nat.
Proof.
  intros fs hist t f. unfold kcount. induction fs as [|[q f0] fs IH]; intros Hl Hm; cbn [lookup] in Hl; [discriminate|].
  cbn [filter fst path_mem].
  assert (Hmono : (length (filter (fun pf => negb (path_mem (fst pf) (t :: hist))) fs) <=
                   length (filter (fun pf => negb (path_mem (fst pf) hist)) fs))%nat).
  { apply filter_len_mono. intros x Hx. cbn [path_mem] in Hx. apply negb_true_iff in Hx.
    apply orb_false_iff in Hx. destruct Hx as [_ Hx]. rewrite Hx. reflexivity. }
  destruct (path_eqb t q) eqn:Etq.
  - apply path_eqb_eq in Etq. subst q. rewrite path_eqb_refl. cbn [orb negb]. rewrite Hm. cbn [negb length]. cbn [path_mem] in *. lia.
  - specialize (IH Hl Hm). destruct (path_eqb q t) eqn:Eqt.
    + apply path_eqb_eq in Eqt. subst q. rewrite path_eqb_refl in Etq. discriminate.
    + cbn [orb]. cbn [path_mem] in *. destruct (path_mem q hist); cbn [negb length]; lia.
Qed.

(** ---- what inc_resolve hands to the walk ------------------------------------------------------- *)
Section Fuel.
Variable fs : fsys.
Variable docuri : path.
Variable fixb : bool.
Variable fixn : bool.
Variable fixc : bool.

Lemma fetch_lookup : forall incbase href f, fetch fs fixn incbase href = Some f -> lookup fs (resolve incbase href) = Some f.
Proof.
  intros incbase href f H. unfold fetch in H. destruct fixn; [exact H|].
  destruct (os_walk fs [] (dir incbase ++ href)); [|discriminate]. destruct (path_eqb _ _); [exact H|discriminate].
Qed.

Lemma inc_resolve_repl : forall hist base at_ kids nodes h' e,
  inc_resolve fs docuri fixb fixn fixc hist base at_ kids = (IR_repl nodes h', e) ->
  (h' = hist /\ forall c, In c nodes -> (node_size c <= S (nodes_size kids))%nat) \/
  (exists target top, h' = target :: hist /\ path_mem target hist = false /\
                      lookup fs target = Some (FDoc top) /\
                      forall c, In c nodes -> (node_size c <= nodes_size top)%nat).
Proof.
  intros hist base at_ kids nodes h' e H. unfold inc_resolve in H.
  destruct (scan_fallback kids None) as [fb| |] eqn:SF; try discriminate.
  destruct (get_attr NS_NONE s_href at_) as [href|]; [|discriminate].
  destruct (get_attr NS_NONE s_xpointer at_); [discriminate|].
  set (parse := match get_attr NS_NONE s_parse at_ with Some p => p | None => s_xml end) in *.
  set (incbase := elem_base base at_) in *.
  set (target := resolve incbase (split_slash href)) in *.
  assert (FB : forall e0 nodes0 h0 e1,
             match fb with
             | Some (fat, fkids) =>
               (IR_repl (map (fix_fb_child fixn (negb (path_eqb base (elem_base incbase fat))) (get_base_attr at_)) fkids) hist,
                e0 ++ [E_IncludeFailedResourceError])
             | None => (IR_fail, e0 ++ [E_IncludeFailedResourceError; E_IncludeFailedNoFallback])
             end = (IR_repl nodes0 h0, e1) ->
             h0 = hist /\ forall c, In c nodes0 -> (node_size c <= S (nodes_size kids))%nat).
  { intros e0 nodes0 h0 e1 HF. destruct fb as [[fat fkids]|]; [|discriminate].
    inversion HF; subst. split; [reflexivity|]. intros c Hc. apply in_map_iff in Hc. destruct Hc as [c0 [Ec Hc0]].
    subst c. rewrite fix_fb_child_size. apply in_nodes_size in Hc0.
    apply scan_fallback_in in SF. destruct SF as [SF|SF]; [discriminate|]. lia. }
  destruct (str_eqb parse s_xml).
  - destruct (path_mem target hist) eqn:PM; [left; eapply FB; exact H|].
    destruct (path_eqb target docuri); [left; eapply FB; exact H|].
    destruct (fetch fs fixn incbase (split_slash href)) as [[top|s|]|] eqn:LK; try (left; eapply FB; exact H).
    apply fetch_lookup in LK. fold target in LK.
    inversion H; subst. right. exists target, top. repeat split; try assumption.
    intros c Hc. apply in_nodes_size in Hc. rewrite fix_root_size in Hc. exact Hc.
  - destruct (str_eqb parse s_text); [|discriminate].
    destruct (negb (encoding_ok (get_attr NS_NONE s_encoding at_))); [left; eapply FB; exact H|].
    destruct (fetch fs fixn incbase (split_slash href)) as [[top|s|]|] eqn:LK; try (left; eapply FB; exact H).
    inversion H; subst. left. split; [reflexivity|]. intros c [Hc|[]]. subst c. cbn [node_size]. lia.
Qed.

Lemma inc_resolve_no_fuel : forall hist base at_ kids r e,
  inc_resolve fs docuri fixb fixn fixc hist base at_ kids = (r, e) -> ~ In E_Fuel e.
Proof.
  intros hist base at_ kids r e H. unfold inc_resolve in H.
  destruct (scan_fallback kids None) as [fb| |];
    try (inversion H; subst; cbn [In]; intuition discriminate).
  destruct (get_attr NS_NONE s_href at_) as [href|]; [|inversion H; subst; cbn [In]; intuition discriminate].
  destruct (get_attr NS_NONE s_xpointer at_); [inversion H; subst; cbn [In]; intuition discriminate|].
  assert (FB : forall e0 r0 e1, ~ In E_Fuel e0 ->
             match fb with
             | Some (fat, fkids) =>
               (IR_repl (map (fix_fb_child fixn (negb (path_eqb base (elem_base (elem_base base at_) fat))) (get_base_attr at_)) fkids) hist,
                e0 ++ [E_IncludeFailedResourceError])
             | None => (IR_fail, e0 ++ [E_IncludeFailedResourceError; E_IncludeFailedNoFallback])
             end = (r0, e1) -> ~ In E_Fuel e1).
  { intros e0 r0 e1 H0 HF. destruct fb as [[fat fkids]|]; inversion HF; subst; intro HI;
      apply in_app_or in HI; destruct HI as [HI|HI]; try (apply H0; exact HI); cbn [In] in HI; intuition discriminate. }
  assert (N0 : ~ In E_Fuel []) by (intros []).
  assert (N1 : ~ In E_Fuel [E_CircularInclusionLoop]) by (cbn [In]; intuition discriminate).
  assert (N2 : ~ In E_Fuel [E_CircularInclusionDocIncludesSelf]) by (cbn [In]; intuition discriminate).
  assert (N3 : ~ In E_Fuel [E_CannotOpenFile]) by (cbn [In]; intuition discriminate).
  destruct (str_eqb _ s_xml).
  - destruct (path_mem _ hist); [eapply FB; [exact N1|exact H]|].
    destruct (path_eqb _ docuri); [eapply FB; [exact N2|exact H]|].
    destruct (fetch fs fixn _ _) as [[top|s|]|]; try (eapply FB; [exact N0|exact H]).
    inversion H; subst. exact N0.
  - destruct (str_eqb _ s_text); [|inversion H; subst; cbn [In]; intuition discriminate].
    destruct (negb (encoding_ok _)); [eapply FB; [exact N3|exact H]|].
    destruct (fetch fs fixn _ _) as [[top|s|]|]; try (eapply FB; [exact N3|exact H]).
    inversion H; subst. exact N0.
Qed.

Lemma walk_list_no_fuel : forall rec l,
  (forall c, In c l -> ~ In E_Fuel (snd (rec c))) -> ~ In E_Fuel (snd (walk_list rec l)).
Proof.
  intros rec l. induction l as [|n l IH]; intros H; cbn [walk_list fold_right]; [intros []|].
  fold (walk_list rec l). destruct (rec n) as [r e] eqn:R. cbn [snd]. intro HI. apply in_app_or in HI.
  destruct HI as [HI|HI].
  - apply (H n (or_introl eq_refl)). rewrite R. exact HI.
  - apply IH; [|exact HI]. intros c Hc. apply H. right. exact Hc.
Qed.

Variable top0 : list node.
Let M := max_size fs top0.

Lemma walk_fuel_ok : forall fuel atdoc hist base n,
  (node_size n <= M)%nat -> (kcount fs hist * (M + 1) + node_size n <= fuel)%nat ->
  ~ In E_Fuel (snd (walk fs docuri fixb fixn fixc fuel atdoc hist base n)).
Proof.
  induction fuel as [|f IH]; intros atdoc hist base n HM HF.
  - destruct n as [ns nm at_ kids|s|s]; cbn [walk snd]; [rewrite node_size_elem in HF; lia|intros []|intros []].
  - destruct n as [ns nm at_ kids|s|s]; cbn [walk]; try (intros []).
    destruct (is_include ns nm).
    + destruct (inc_resolve fs docuri fixb fixn fixc hist base at_ kids) as [[|nodes h'] e] eqn:IR.
      * cbn [snd]. eapply inc_resolve_no_fuel. exact IR.
      * pose proof (inc_resolve_no_fuel _ _ _ _ _ _ IR) as NE.
        destruct (atdoc && negb (doc_kids_ok nodes)).
        { cbn [snd]. intro HI. apply in_app_or in HI. destruct HI as [HI|HI]; [exact (NE HI)|].
          cbn [In] in HI. intuition discriminate. }
        destruct (walk_list (walk fs docuri fixb fixn fixc f atdoc h' base) nodes) as [r e2] eqn:WL. cbn [snd].
        intro HI. apply in_app_or in HI. destruct HI as [HI|HI]; [exact (NE HI)|].
        assert (W : ~ In E_Fuel (snd (walk_list (walk fs docuri fixb fixn fixc f atdoc h' base) nodes))).
        { apply walk_list_no_fuel. intros c Hc. rewrite node_size_elem in HM, HF.
          apply inc_resolve_repl in IR. destruct IR as [[Eh Hs]|[target [top [Eh [PM [LK Hs]]]]]].
          - subst h'. specialize (Hs c Hc). apply IH; lia.
          - subst h'. specialize (Hs c Hc). pose proof (lookup_size fs top0 _ _ LK) as LS. fold M in LS.
            pose proof (kcount_push fs hist target _ LK PM) as KP.
            apply IH; [lia|]. nia. }
        rewrite WL in W. exact (W HI).
    + destruct (is_fallback ns nm); [cbn [snd In]; intuition discriminate|].
      destruct (walk_list (walk fs docuri fixb fixn fixc f false hist (elem_base base at_)) kids) as [ks e] eqn:WL. cbn [snd].
      assert (W : ~ In E_Fuel (snd (walk_list (walk fs docuri fixb fixn fixc f false hist (elem_base base at_)) kids))).
      { apply walk_list_no_fuel. intros c Hc. rewrite node_size_elem in HM, HF. apply in_nodes_size in Hc.
        apply IH; lia. }
      rewrite WL in W. exact W.
Qed.
End Fuel.

(** ---- whole documents ---------------------------------------------------------------------- *)
Lemma cut_at_exc_sub : forall l x, In x (fst (cut_at_exc l)) -> In x l.
Proof.
  induction l as [|e l IH]; intros x H; cbn [cut_at_exc] in H; [exact H|].
  destruct e; try (destruct (cut_at_exc l) as [a b] eqn:C; cbn [fst In] in H; destruct H as [H|H];
                   [left; exact H|right; apply IH; cbn [fst]; exact H]).
  destruct H.
Qed.
Lemma finish_sub : forall r x, In x (snd (finish r)) -> In x (snd r).
Proof.
  intros [d es] x H. unfold finish in H. cbn [snd] in *. destruct (cut_at_exc es) as [a b] eqn:C.
  destruct b; cbn [snd] in H; [|exact H]. apply cut_at_exc_sub. rewrite C. exact H.
Qed.
Lemma split_root_in : forall l pre0 pre root post, split_root pre0 l = Some (pre, root, post) -> In root l.
Proof.
  induction l as [|n l IH]; intros pre0 pre root post H; cbn [split_root] in H; [discriminate|].
  destruct n; try (right; eapply IH; exact H). inversion H; subst. left. reflexivity.
Qed.

Lemma docproc_no_fuel : forall fs fixb fixn fixc uri top, ~ In E_Fuel (snd (xi_docproc fs fixb fixn fixc uri top)).
Proof.
  intros fs fixb fixn fixc uri top HI. unfold xi_docproc in HI.
  destruct (split_root [] top) as [[[pre root] post]|] eqn:SR; [|destruct HI].
  apply finish_sub in HI. apply split_root_in in SR. apply in_nodes_size in SR.
  pose proof (max_size_top fs top) as MT. pose proof (kcount_le fs []) as K0.
  set (M := max_size fs top) in *.
  assert (EF : forall k s, (k <= length fs)%nat -> (s <= M)%nat -> (k * (M + 1) + s <= enough_fuel fs top)%nat).
  { intros k s Hk Hs. unfold enough_fuel. fold M. nia. }
  unfold root_step in HI. destruct root as [ns nm at_ kids|s|s]; try (destruct HI).
  destruct (is_include ns nm).
  - cbn [fst snd] in HI.
    destruct (inc_resolve fs uri fixb fixn fixc [] uri at_ kids) as [[|nodes h'] e] eqn:IR.
    + cbn [snd app] in HI. exact (inc_resolve_no_fuel _ _ _ _ _ _ _ _ _ _ _ IR HI).
    + pose proof (inc_resolve_no_fuel _ _ _ _ _ _ _ _ _ _ _ IR) as NE.
      destruct (doc_kids_ok nodes).
      * destruct (walk_list (walk fs uri fixb fixn fixc (enough_fuel fs top) true h' uri) nodes) as [r e2] eqn:WL.
        cbn [snd app] in HI. apply in_app_or in HI. destruct HI as [HI|HI]; [exact (NE HI)|].
        assert (W : ~ In E_Fuel (snd (walk_list (walk fs uri fixb fixn fixc (enough_fuel fs top) true h' uri) nodes))).
        { apply walk_list_no_fuel. intros c Hc. rewrite node_size_elem in SR.
          apply inc_resolve_repl in IR. destruct IR as [[Eh Hs]|[target [t0 [Eh [PM [LK Hs]]]]]].
          - subst h'. specialize (Hs c Hc). apply (walk_fuel_ok fs uri fixb fixn fixc top); fold M; [lia|]. apply EF; lia.
          - subst h'. specialize (Hs c Hc). pose proof (lookup_size fs top _ _ LK) as LS. fold M in LS.
            pose proof (kcount_le fs [target]).
            apply (walk_fuel_ok fs uri fixb fixn fixc top); fold M; [lia|]. apply EF; lia. }
        rewrite WL in W. exact (W HI).
      * cbn [snd app] in HI. apply in_app_or in HI. destruct HI as [HI|HI]; [exact (NE HI)|].
        cbn [In] in HI. intuition discriminate.
  - destruct (walk fs uri fixb fixn fixc (enough_fuel fs top) true [] uri (Elem ns nm at_ kids)) as [r e] eqn:W. cbn [snd] in HI.
    assert (WN : ~ In E_Fuel (snd (walk fs uri fixb fixn fixc (enough_fuel fs top) true [] uri (Elem ns nm at_ kids)))).
    { apply (walk_fuel_ok fs uri fixb fixn fixc top); fold M; [lia|]. apply EF; lia. }
    rewrite W in WN. exact (WN HI).
Qed.
