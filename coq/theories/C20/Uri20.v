(** C20: XMLUri accepts every character that RFC 2396 allows unescaped in a path segment.  The tables come from
    /repo's XMLUri.cpp on every run (Gen/GenUri20.v); the predicates are those of XMLUri.hpp:
      isUnreservedCharacter c = isAlphaNum c || c in MARK_CHARACTERS,   isPathCharacter c = c in PATH_CHARACTERS,
    and the path scan of XMLUri (initializePath / isURIString) accepts c iff isUnreservedCharacter c || isPathCharacter c
    (besides '%' HEX HEX). *)
From Coq Require Import NArith List Bool.
Import ListNotations.
From XV Require Import Gen.GenUri20.
Local Open Scope N_scope.

Definition memN (c : N) (l : list N) : bool := existsb (N.eqb c) l.
Definition is_alnum (c : N) : bool :=
  ((48 <=? c) && (c <=? 57)) || ((65 <=? c) && (c <=? 90)) || ((97 <=? c) && (c <=? 122)).
Definition xmluri_unreserved (c : N) : bool := is_alnum c || memN c uri_mark_characters.
Definition xmluri_accepts_in_path (c : N) : bool := xmluri_unreserved c || memN c uri_path_characters.

(** RFC 2396: pchar = unreserved | escaped | ":" | "@" | "&" | "=" | "+" | "$" | ",";
    unreserved = alphanum | mark;  mark = "-" | "_" | "." | "!" | "~" | "*" | "'" | "(" | ")" *)
Definition rfc_mark : list N := [45; 95; 46; 33; 126; 42; 39; 40; 41].
Definition rfc_pchar_extra : list N := [58; 64; 38; 61; 43; 36; 44].
Definition rfc_alnum : list N := map N.of_nat (seq 48 10 ++ seq 65 26 ++ seq 97 26).
Definition rfc_pchar_unescaped : list N := rfc_alnum ++ rfc_mark ++ rfc_pchar_extra.
(** reserved = ";" | "/" | "?" | ":" | "@" | "&" | "=" | "+" | "$" | "," *)
Definition rfc_reserved : list N := [59; 47; 63; 58; 64; 38; 61; 43; 36; 44].
(** scheme = alpha *( alpha | digit | "+" | "-" | "." ) *)
Definition rfc_scheme_extra : list N := [43; 45; 46].

Definition uri_tables_ok : bool :=
  forallb xmluri_accepts_in_path rfc_pchar_unescaped &&
  forallb (fun c => memN c uri_mark_characters) rfc_mark && forallb (fun c => memN c rfc_mark) uri_mark_characters &&
  forallb (fun c => memN c uri_reserved_characters) rfc_reserved &&
  forallb (fun c => memN c uri_scheme_characters) rfc_scheme_extra &&
  (* ';' and '/' separate segments / parameters and must be path characters as well *)
  memN 59 uri_path_characters && memN 47 uri_path_characters &&
  (* and nothing outside RFC 2396's uric set is accepted in a path *)
  forallb (fun c => memN c (rfc_reserved ++ rfc_mark)) uri_path_characters.

Lemma uri_tables_ok_true : uri_tables_ok = true.
Proof. vm_compute. reflexivity. Qed.
Lemma uri_pchars : forall c, In c rfc_pchar_unescaped -> xmluri_accepts_in_path c = true.
Proof.
  intros c H. assert (A : forallb xmluri_accepts_in_path rfc_pchar_unescaped = true) by (vm_compute; reflexivity).
  rewrite forallb_forall in A. exact (A c H).
Qed.
