(** C20 lemmas, part d: the pre-order walk of the repaired model computes [xi_spec] (tree, base URIs, errors). *)
From Coq Require Import NArith List Bool Lia Arith.
Import ListNotations.
From XV Require Import C20.Spec20 C20.Model20 C20.Hyps20 C20.Proofs20a C20.Proofs20c.
Local Open Scope N_scope.

Lemma clean_ref_okp : forall v, clean_ref v = true -> okp (split_slash v) /\ exists c v', v = c :: v'.
Proof.
  intros v H. unfold clean_ref in H. apply andb_true_iff in H. destruct H as [H1 H2].
  destruct v as [|c v']; [discriminate|]. split; [|eauto].
  apply negb_true_iff in H1. apply negb_true_iff in H2.
  destruct (split_segs (c :: v')) as [F NE]. split; [exact F|]. split; [apply hdne_split; exact H1|].
  exists (removelast (split_slash (c :: v'))), (last (split_slash (c :: v')) []). split; [|exact H2].
  apply app_removelast_last. exact NE.
Qed.

Lemma lookup_clean : forall fs t top, clean_fs fs = true -> lookup fs t = Some (FDoc top) -> clean_doc top = true.
Proof.
  induction fs as [|[q f] fs IH]; intros t top C L; cbn [lookup] in L; [discriminate|].
  cbn [clean_fs forallb] in C. apply andb_true_iff in C. destruct C as [C1 C2].
  destruct (path_eqb t q); [|exact (IH t top C2 L)]. inversion L; subst. exact C1.
Qed.

(** ---- attributes ------------------------------------------------------------------------------- *)
Lemma get_attr_drop : forall ns nm a, (ns =? NS_XML) = false -> get_attr ns nm (drop_base_attr a) = get_attr ns nm a.
Proof.
  intros ns nm a H. induction a as [|[[n m] v] a IH]; [reflexivity|]. cbn [drop_base_attr filter is_base_attr].
  destruct ((n =? NS_XML) && str_eqb m s_base) eqn:B; cbn [negb].
  - cbn [get_attr]. apply andb_true_iff in B. destruct B as [B1 _]. apply N.eqb_eq in B1. subst n.
    rewrite N.eqb_sym, H. cbn [andb]. exact IH.
  - cbn [get_attr]. destruct ((n =? ns) && str_eqb m nm); [reflexivity|exact IH].
Qed.
Lemma get_attr_of_drop_eq : forall nm a b, drop_base_attr a = drop_base_attr b ->
  get_attr NS_NONE nm a = get_attr NS_NONE nm b.
Proof. intros nm a b H. rewrite <- (get_attr_drop NS_NONE nm a), <- (get_attr_drop NS_NONE nm b), H; reflexivity. Qed.
Lemma drop_base_idem : forall a, drop_base_attr (drop_base_attr a) = drop_base_attr a.
Proof.
  induction a as [|x a IH]; [reflexivity|]. cbn [drop_base_attr filter]. destruct (negb (is_base_attr x)) eqn:E.
  - cbn [filter]. rewrite E. f_equal. exact IH.
  - exact IH.
Qed.
Lemma drop_base_set : forall a v, drop_base_attr (set_base_attr a v) = drop_base_attr a.
Proof.
  intros a v. unfold set_base_attr. cbn [drop_base_attr filter is_base_attr]. rewrite N.eqb_refl.
  change (str_eqb s_base s_base) with true. cbn [andb negb]. apply drop_base_idem.
Qed.
Lemma get_base_set : forall a v, get_base_attr (set_base_attr a v) = Some v.
Proof.
  intros a v. unfold get_base_attr, set_base_attr. cbn [get_attr]. rewrite N.eqb_refl.
  change (str_eqb s_base s_base) with true. reflexivity.
Qed.
Lemma get_attr_set : forall nm a v, get_attr NS_NONE nm (set_base_attr a v) = get_attr NS_NONE nm a.
Proof.
  intros nm a v. rewrite <- (get_attr_drop NS_NONE nm (set_base_attr a v)) by reflexivity.
  rewrite drop_base_set. apply get_attr_drop. reflexivity.
Qed.
Lemma elem_base_none : forall base a, get_base_attr a = None -> elem_base base a = base.
Proof. intros base a H. unfold elem_base. rewrite H. reflexivity. Qed.
Lemma elem_base_some : forall base a c v, get_base_attr a = Some (c :: v) ->
  elem_base base a = resolve base (split_slash (c :: v)).
Proof. intros base a c v H. unfold elem_base. rewrite H. reflexivity. Qed.

(** the written-out value of a well-behaved path is a clean reference again *)
Lemma hd_noslash_first : forall p, hdne p -> Forall noslash p -> exists c v, join_slash p = c :: v /\ (c =? SLASH) = false.
Proof.
  intros [|[|c s] r] H F; try destruct H. inversion F as [|x l Fx Fl]; subst. inversion Fx; subst.
  destruct r as [|t r]; cbn [join_slash app]; eexists; eexists; split; try reflexivity; assumption.
Qed.
Lemma clean_ref_join : forall p, okp p -> clean_ref (join_slash p) = true.
Proof.
  intros p H. destruct H as [F [Hd [p' [l [E D]]]]]. unfold clean_ref.
  destruct (hd_noslash_first p Hd F) as [c [v [EJ Hc]]]. rewrite EJ. rewrite Hc. cbn [negb andb].
  rewrite <- EJ. rewrite split_join; [|subst p; destruct p'; discriminate|exact F].
  subst p. rewrite last_last. rewrite D. reflexivity.
Qed.

(** ---- the simulation relation ------------------------------------------------------------------ *)
(** model node [m] (base URI at its parent: [bm]) stands for the source node [s] of the Spec (base [bs]) *)
Definition sim (bm : path) (m : node) (bs : path) (s : node) : Prop :=
  match m, s with
  | Elem ns nm am km, Elem ns' nm' as_ ks =>
    ns = ns' /\ nm = nm' /\ km = ks /\ drop_base_attr am = drop_base_attr as_ /\
    elem_base bm am = elem_base bs as_ /\ clean_node s = true /\
    match get_base_attr am with Some v => clean_ref v = true | None => True end
  | Text a, Text b => a = b
  | Comment a, Comment b => a = b
  | _, _ => False
  end.

Lemma sim_refl : forall b n, clean_node n = true -> sim b n b n.
Proof.
  intros b [ns nm a k|s|s] H; cbn [sim]; auto. repeat split; auto.
  cbn [clean_node] in H. apply andb_true_iff in H. destruct H as [H _]. apply andb_true_iff in H. destruct H as [H _].
  unfold clean_attrs in H. apply andb_true_iff in H. destruct H as [H _]. destruct (get_base_attr a); [exact H|exact I].
Qed.

Lemma sim_refl_list : forall b l, forallb clean_node l = true -> Forall2 (fun m s => sim b m b s) l l.
Proof.
  induction l as [|n l IH]; intros H; [constructor|]. cbn [forallb] in H. apply andb_true_iff in H.
  destruct H as [H1 H2]. constructor; [apply sim_refl; exact H1|apply IH; exact H2].
Qed.

Definition has_fatal (e : list err) : bool := existsb is_fatal e.
Definition good_res (bm : path) (res : list node * list err) (t : list snode) : Prop :=
  has_fatal (snd res) = false /\ map (annot bm) (fst res) = t.
(** the XMLErrs code that the Spec's error class must show up as *)
Definition reports (x : xerr) (e : list err) : Prop :=
  match x with
  | XE_Loop => In E_CircularInclusionLoop e \/ In E_CircularInclusionDocIncludesSelf e
  | XE_NoHref => In E_NoHref e
  | XE_XPointer => In E_XPointerNotSupported e
  | XE_BadParse => In E_InvalidParseVal e
  | XE_MultiFallback => In E_MultipleFallbackElems e
  | XE_DisallowedChild => In E_DisallowedChild e
  | XE_OrphanFallback => In E_OrphanFallback e
  | XE_NoFallback => In E_IncludeFailedNoFallback e
  | XE_RootShape => In E_HierarchyExc e
  | XE_Fuel => In E_Fuel e
  end.
(** what the model's answer must be, given the Spec's answer *)
Definition agrees (bm : path) (res : list node * list err) (sp : sres) : Prop :=
  match sp with
  | inr t => good_res bm res t
  | inl x => reports x (snd res)
  end.

Lemma reports_app_l : forall x a b, reports x a -> reports x (a ++ b).
Proof. intros x a b H. destruct x; cbn [reports] in *; try (apply in_or_app; left; exact H).
  destruct H as [H|H]; [left|right]; apply in_or_app; left; exact H. Qed.
Lemma reports_app_r : forall x a b, reports x b -> reports x (a ++ b).
Proof. intros x a b H. destruct x; cbn [reports] in *; try (apply in_or_app; right; exact H).
  destruct H as [H|H]; [left|right]; apply in_or_app; right; exact H. Qed.
Lemma reports_fatal : forall x e, reports x e -> has_fatal e = true.
Proof.
  intros x e H. unfold has_fatal. apply existsb_exists.
  destruct x; cbn [reports] in H; try (eexists; split; [exact H|reflexivity]).
  destruct H as [H|H]; eexists; (split; [exact H|reflexivity]).
Qed.

Lemma Forall2_impl : forall (A B : Type) (R1 R2 : A -> B -> Prop), (forall a b, R1 a b -> R2 a b) ->
  forall l1 l2, Forall2 R1 l1 l2 -> Forall2 R2 l1 l2.
Proof. intros A B R1 R2 H l1 l2 F. induction F; constructor; auto. Qed.

Lemma has_fatal_app : forall a b, has_fatal (a ++ b) = has_fatal a || has_fatal b.
Proof. intros. unfold has_fatal. apply existsb_app. Qed.

Lemma walk_list_cons : forall rec n l,
  walk_list rec (n :: l) = (fst (rec n) ++ fst (walk_list rec l), snd (rec n) ++ snd (walk_list rec l)).
Proof. intros rec n l. unfold walk_list. cbn [fold_right]. destruct (rec n). reflexivity. Qed.

Lemma agrees_list : forall (F : node -> sres) (G : node -> list node * list err) bm lm ls,
  Forall2 (fun m s => agrees bm (G m) (F s)) lm ls ->
  agrees bm (walk_list G lm) (smap F ls).
Proof.
  intros F G bm lm ls H. induction H as [|m s lm ls Hms Hrest IH].
  - cbn. split; reflexivity.
  - rewrite walk_list_cons. cbn [smap]. unfold agrees in Hms. destruct (F s) as [e|a].
    + cbn [agrees snd]. apply reports_app_l. exact Hms.
    + destruct Hms as [Hm1 Hm2]. unfold agrees in IH. destruct (smap F ls) as [e|b].
      * cbn [agrees snd]. apply reports_app_r. exact IH.
      * destruct IH as [I1 I2]. cbn [agrees]. split; cbn [fst snd].
        -- rewrite has_fatal_app, Hm1, I1. reflexivity.
        -- rewrite map_app, Hm2, I2. reflexivity.
Qed.

Lemma path_mem_app1 : forall t l d, path_mem t (l ++ [d]) = path_mem t l || path_eqb t d.
Proof.
  intros t l d. induction l as [|q l IH]; cbn [app path_mem]; [rewrite orb_false_r; reflexivity|].
  rewrite IH, orb_assoc. reflexivity.
Qed.

Lemma scan_fallback_elem : forall kids found fat fkids,
  scan_fallback kids found = FS_ok (Some (fat, fkids)) ->
  found = Some (fat, fkids) \/ exists ns nm, In (Elem ns nm fat fkids) kids /\ is_fallback ns nm = true.
Proof.
  induction kids as [|k kids IH]; intros found fat fkids H; cbn [scan_fallback] in H; [left; congruence|].
  destruct k as [ns nm a kk| |].
  - destruct (is_fallback ns nm) eqn:IF.
    + destruct found; [discriminate|]. apply IH in H. destruct H as [H|[ns' [nm' [HI HF]]]].
      * inversion H; subst. right. exists ns, nm. split; [left; reflexivity|exact IF].
      * right. exists ns', nm'. split; [right; exact HI|exact HF].
    + destruct (ns =? NS_XI); [discriminate|]. apply IH in H. destruct H as [H|[ns' [nm' [HI HF]]]]; [left; exact H|].
      right. exists ns', nm'. split; [right; exact HI|exact HF].
  - apply IH in H. destruct H as [H|[ns' [nm' [HI HF]]]]; [left; exact H|].
    right. exists ns', nm'. split; [right; exact HI|exact HF].
  - apply IH in H. destruct H as [H|[ns' [nm' [HI HF]]]]; [left; exact H|].
    right. exists ns', nm'. split; [right; exact HI|exact HF].
Qed.

Lemma clean_node_elem : forall ns nm a k, clean_node (Elem ns nm a k) = true ->
  match get_base_attr a with Some v => clean_ref v = true | None => True end /\
  match get_attr NS_NONE s_href a with Some v => clean_ref v = true | None => True end /\
  (is_fallback ns nm = true -> get_base_attr a = None) /\ forallb clean_node k = true.
Proof.
  intros ns nm a k H. cbn [clean_node] in H. apply andb_true_iff in H. destruct H as [H H3].
  apply andb_true_iff in H. destruct H as [H1 H2]. unfold clean_attrs in H1. apply andb_true_iff in H1.
  destruct H1 as [H1 H1']. repeat split.
  - destruct (get_base_attr a); [exact H1|exact I].
  - destruct (get_attr NS_NONE s_href a); [exact H1'|exact I].
  - intros HF. rewrite HF in H2. destruct (get_base_attr a); [discriminate|reflexivity].
  - exact H3.
Qed.

Lemma sim_nonelem_list : forall bm bs r, count_elem_nodes r = O -> Forall2 (fun m s => sim bm m bs s) r r.
Proof.
  induction r as [|n r IH]; intros H; [constructor|]. destruct n; cbn [count_elem_nodes] in H; [discriminate| |];
    (constructor; [cbn [sim]; reflexivity|apply IH; exact H]).
Qed.

(** ---- the two fix-ups establish the relation ------------------------------------------------------ *)
Lemma fix_fb_sim : forall bm b ib fkids,
  forallb clean_node fkids = true ->
  (ib = None -> b = bm) ->
  (forall v, ib = Some v -> clean_ref v = true /\ b = resolve bm (split_slash v)) ->
  Forall2 (fun m s => sim bm m b s) (map (fix_fb_child true (negb (path_eqb bm b)) ib) fkids) fkids.
Proof.
  intros bm b ib fkids HC HN HS. induction fkids as [|c fkids IH]; [constructor|].
  cbn [forallb] in HC. apply andb_true_iff in HC. destruct HC as [Hc HC]. cbn [map]. constructor; [|apply IH; exact HC].
  destruct (path_eqb bm b) eqn:E.
  - apply path_eqb_eq in E. subst b. cbn [negb]. destruct c; cbn [fix_fb_child]; apply sim_refl; exact Hc.
  - cbn [negb]. destruct c as [cns cnm cat ck|t|t]; cbn [fix_fb_child]; try (cbn [sim]; reflexivity).
    destruct ib as [v|]; [|rewrite (HN eq_refl), path_eqb_refl in E; discriminate].
    destruct (HS v eq_refl) as [Cv Eb]. destruct (clean_ref_okp v Cv) as [Ov _].
    destruct (clean_node_elem _ _ _ _ Hc) as [Cb [_ [_ _]]].
    destruct (get_base_attr cat) as [w|] eqn:GB.
    + destruct (clean_ref_okp w Cb) as [Ow [c' [w' Ew]]].
      assert (OP : okp (pp true (split_slash v) (split_slash w))) by (apply okp_pp; assumption).
      cbn [sim]. repeat split; try reflexivity.
      * apply drop_base_set.
      * unfold prepend_path. rewrite (elem_base_set bm cat _ OP).
        rewrite (resolve_pp true bm (split_slash v) (split_slash w) (proj2 (proj2 Ov))).
        rewrite <- Eb. subst w. symmetry. apply elem_base_some. exact GB.
      * exact Hc.
      * rewrite get_base_set. unfold prepend_path. apply clean_ref_join. exact OP.
    + assert (OP : okp (norm_pinned (split_slash v))) by (apply okp_norm_pinned; exact Ov).
      cbn [sim]. repeat split; try reflexivity.
      * apply drop_base_set.
      * unfold rm_dotdot. rewrite (elem_base_set bm cat _ OP). rewrite resolve_norm_pinned.
        rewrite <- Eb. symmetry. apply elem_base_none. exact GB.
      * exact Hc.
      * rewrite get_base_set. unfold rm_dotdot. apply clean_ref_join. exact OP.
Qed.

Lemma fix_root_sim : forall bm b target ib href top,
  clean_doc top = true -> clean_ref href = true -> target = resolve b (split_slash href) ->
  (ib = None -> b = bm) ->
  (forall v, ib = Some v -> clean_ref v = true /\ b = resolve bm (split_slash v)) ->
  Forall2 (fun m s => sim bm m target s) (fix_root true true true bm b target ib href top) top.
Proof.
  intros bm b target ib href top HC Ch Et HN HS. unfold clean_doc in HC. apply andb_true_iff in HC.
  destruct HC as [HC HL]. apply Nat.leb_le in HL.
  destruct (clean_ref_okp href Ch) as [Oh _].
  assert (OX : okp (prepend_path true ib href) /\ resolve bm (prepend_path true ib href) = target).
  { destruct ib as [v|].
    - destruct (HS v eq_refl) as [Cv Eb]. destruct (clean_ref_okp v Cv) as [Ov _]. unfold prepend_path. split.
      + apply okp_pp; assumption.
      + rewrite (resolve_pp true bm _ _ (proj2 (proj2 Ov))). rewrite <- Eb. symmetry. exact Et.
    - unfold prepend_path. split; [exact Oh|]. rewrite <- (HN eq_refl). symmetry. exact Et. }
  destruct OX as [OX RX].
  induction top as [|n top IH]; [constructor|].
  cbn [forallb] in HC. apply andb_true_iff in HC. destruct HC as [Hn HC].
  destruct n as [ns nm rat k|t|t]; cbn [fix_root].
  - cbn [count_elem_nodes] in HL. constructor; [|apply sim_nonelem_list; lia].
    destruct (clean_node_elem _ _ _ _ Hn) as [Cb _].
    unfold fix_root_attrs. destruct (path_eqb bm target) eqn:E.
    + apply path_eqb_eq in E. subst target. rewrite <- E. apply sim_refl. exact Hn.
    + destruct (get_base_attr rat) as [r|] eqn:GB.
      * destruct (clean_ref_okp r Cb) as [Or [c' [r' Er]]].
        assert (OP : okp (pp true (prepend_path true ib href) (split_slash r))) by (apply okp_pp; assumption).
        cbn [sim]. repeat split; try reflexivity.
        -- apply drop_base_set.
        -- rewrite (elem_base_set bm rat _ OP). rewrite (resolve_pp true bm _ _ (proj2 (proj2 OX))). rewrite RX.
           subst r. symmetry. apply elem_base_some. exact GB.
        -- exact Hn.
        -- rewrite get_base_set. apply clean_ref_join. exact OP.
      * cbn [sim]. repeat split; try reflexivity.
        -- apply drop_base_set.
        -- rewrite (elem_base_set bm rat _ OX). rewrite RX. symmetry. apply elem_base_none. exact GB.
        -- exact Hn.
        -- rewrite get_base_set. apply clean_ref_join. exact OX.
  - constructor; [cbn [sim]; reflexivity|]. apply IH; [exact HC|exact HL].
  - constructor; [cbn [sim]; reflexivity|]. apply IH; [exact HC|exact HL].
Qed.

(** ---- the walk computes the Spec ------------------------------------------------------------------- *)
Section Sim.
Variable fs : fsys.
Variable docuri : path.
Hypothesis CFS : clean_fs fs = true.


Lemma sim_walk : forall fuel hist bm m bs s, sim bm m bs s ->
  agrees bm (walk fs docuri true true true fuel false hist bm m) (xi_spec fs fuel (hist ++ [docuri]) bs s).
Proof.
  induction fuel as [|f IH]; intros hist bm m bs s HS.
  - destruct m as [ns nm am km|a|a], s as [ns' nm' as_ ks|a'|a']; cbn [sim] in HS; try destruct HS;
      cbn [walk xi_spec agrees reports snd In]; try (left; reflexivity); subst; split; reflexivity.
  - destruct m as [ns nm am km|a|a], s as [ns' nm' as_ ks|a'|a']; cbn [sim] in HS; try (destruct HS; fail);
      try (subst; cbn [walk xi_spec agrees]; split; reflexivity).
    destruct HS as [E1 [E2 [E3 [HD [HB [HCs HCb]]]]]]. subst ns' nm' km.
    destruct (clean_node_elem _ _ _ _ HCs) as [_ [Chref [CFB Ckids]]].
    cbn [walk xi_spec]. destruct (is_include ns nm) eqn:II.
    + (* xi:include *)
      unfold inc_resolve.
      rewrite (get_attr_of_drop_eq s_href am as_ HD), (get_attr_of_drop_eq s_xpointer am as_ HD),
        (get_attr_of_drop_eq s_parse am as_ HD), (get_attr_of_drop_eq s_encoding am as_ HD).
      destruct (scan_fallback ks None) as [fb| |] eqn:SF; try (cbn; left; reflexivity).
      destruct (get_attr NS_NONE s_href as_) as [href|] eqn:GH; [|cbn; left; reflexivity].
      destruct (get_attr NS_NONE s_xpointer as_); [cbn; left; reflexivity|].
      rewrite HB. set (b := elem_base bs as_) in *.
      set (parse := match get_attr NS_NONE s_parse as_ with Some p => p | None => s_xml end).
      set (target := resolve b (split_slash href)).
      (* facts about the include's own xml:base *)
      assert (IBN : get_base_attr am = None -> b = bm).
      { intros H. rewrite <- HB. apply elem_base_none. exact H. }
      assert (IBS : forall v, get_base_attr am = Some v -> clean_ref v = true /\ b = resolve bm (split_slash v)).
      { intros v H. rewrite H in HCb. split; [exact HCb|]. destruct (clean_ref_okp v HCb) as [_ [c [v' Ev]]]. subst v.
        rewrite <- HB. apply elem_base_some. exact H. }
      (* the fallback path *)
      assert (FB : forall e0, has_fatal e0 = false ->
        agrees bm
          (match (match fb with
                  | Some (fat, fkids) =>
                    (IR_repl (map (fix_fb_child true (negb (path_eqb bm (elem_base b fat))) (get_base_attr am)) fkids) hist,
                     e0 ++ [E_IncludeFailedResourceError])
                  | None => (IR_fail, e0 ++ [E_IncludeFailedResourceError; E_IncludeFailedNoFallback])
                  end) with
           | (IR_fail, e) => ([Elem ns nm (attrs_after am ks) ks], e)
           | (IR_repl nodes hist', e) =>
             if false && negb (doc_kids_ok nodes) then ([Elem ns nm am ks], e ++ [E_HierarchyExc])
             else let (r, e2) := walk_list (walk fs docuri true true true f false hist' bm) nodes in (r, e ++ e2)
           end)
          (match fb with
           | None => inl XE_NoFallback
           | Some (fat, fkids) => smap (xi_spec fs f (hist ++ [docuri]) (elem_base b fat)) fkids
           end)).
      { intros e0 He0. destruct fb as [[fat fkids]|].
        - apply scan_fallback_elem in SF. destruct SF as [SF|[fns [fnm [FIn FIs]]]]; [discriminate|].
          rewrite forallb_forall in Ckids. pose proof (Ckids _ FIn) as CF.
          destruct (clean_node_elem _ _ _ _ CF) as [_ [_ [FNB FK]]]. specialize (FNB FIs).
          rewrite (elem_base_none b fat FNB). cbn [andb].
          pose proof (agrees_list (xi_spec fs f (hist ++ [docuri]) b) (walk fs docuri true true true f false hist bm) bm
                        (map (fix_fb_child true (negb (path_eqb bm b)) (get_base_attr am)) fkids) fkids) as AL.
          assert (F2 : Forall2 (fun m s => agrees bm (walk fs docuri true true true f false hist bm m)
                                                  (xi_spec fs f (hist ++ [docuri]) b s))
                               (map (fix_fb_child true (negb (path_eqb bm b)) (get_base_attr am)) fkids) fkids).
          { pose proof (fix_fb_sim bm b (get_base_attr am) fkids FK IBN IBS) as FS.
            eapply Forall2_impl; [|exact FS]. intros m0 s0 Hms. apply IH. exact Hms. }
          specialize (AL F2). destruct (walk_list _ _) as [r e2]. unfold agrees in *.
          destruct (smap _ fkids) as [e|t].
          + cbn [snd] in *. apply reports_app_r. exact AL.
          + destruct AL as [A1 A2]. split; cbn [fst snd] in *; [|exact A2].
            rewrite !has_fatal_app, He0, A1. reflexivity.
        - cbn [agrees snd]. apply reports_app_r. cbn. right. left. reflexivity. }
      (* a loop: whatever happens afterwards, the loop error has been reported *)
      assert (FBF : forall e0, reports XE_Loop e0 ->
        reports XE_Loop (snd
          (match (match fb with
                  | Some (fat, fkids) =>
                    (IR_repl (map (fix_fb_child true (negb (path_eqb bm (elem_base b fat))) (get_base_attr am)) fkids) hist,
                     e0 ++ [E_IncludeFailedResourceError])
                  | None => (IR_fail, e0 ++ [E_IncludeFailedResourceError; E_IncludeFailedNoFallback])
                  end) with
           | (IR_fail, e) => ([Elem ns nm (attrs_after am ks) ks], e)
           | (IR_repl nodes hist', e) =>
             if false && negb (doc_kids_ok nodes) then ([Elem ns nm am ks], e ++ [E_HierarchyExc])
             else let (r, e2) := walk_list (walk fs docuri true true true f false hist' bm) nodes in (r, e ++ e2)
           end))).
      { intros e0 He0. destruct fb as [[fat fkids]|]; cbn [andb].
        - destruct (walk_list _ _) as [r e2]. cbn [snd]. apply reports_app_l, reports_app_l. exact He0.
        - cbn [snd]. apply reports_app_l. exact He0. }
      destruct (str_eqb parse s_xml).
      * rewrite path_mem_app1. destruct (path_mem target hist).
        { cbn [orb agrees]. apply FBF. left. left. reflexivity. }
        cbn [orb]. destruct (path_eqb target docuri).
        { cbn [agrees]. apply FBF. right. left. reflexivity. }
        unfold fetch. change (resolve b (split_slash href)) with target. destruct (lookup fs target) as [[top|t|]|] eqn:LK; try (apply FB; reflexivity).
        cbn [andb app].
        pose proof (lookup_clean fs target top CFS LK) as CT.
        assert (Ch : clean_ref href = true) by exact Chref.
        pose proof (fix_root_sim bm b target (get_base_attr am) href top CT Ch eq_refl IBN IBS) as FS.
        pose proof (agrees_list (xi_spec fs f (target :: hist ++ [docuri]) target)
                                (walk fs docuri true true true f false (target :: hist) bm) bm
                                (fix_root true true true bm b target (get_base_attr am) href top) top) as AL.
        assert (F2 : Forall2 (fun m s => agrees bm (walk fs docuri true true true f false (target :: hist) bm m)
                                                (xi_spec fs f (target :: hist ++ [docuri]) target s))
                             (fix_root true true true bm b target (get_base_attr am) href top) top).
        { eapply Forall2_impl; [|exact FS]. intros m0 s0 Hms. exact (IH (target :: hist) bm m0 target s0 Hms). }
        specialize (AL F2). destruct (walk_list _ _) as [r e2]. exact AL.
      * destruct (str_eqb parse s_text); [|cbn; left; reflexivity].
        destruct (negb (encoding_ok (get_attr NS_NONE s_encoding as_))); [apply FB; reflexivity|].
        unfold fetch. change (resolve b (split_slash href)) with target. destruct (lookup fs target) as [[top|t|]|] eqn:LK; try (apply FB; reflexivity).
        cbn [andb]. rewrite walk_list_cons. cbn. destruct f; split; reflexivity.
    + destruct (is_fallback ns nm); [cbn; left; reflexivity|].
      rewrite HB. set (b := elem_base bs as_) in *.
      pose proof (agrees_list (xi_spec fs f (hist ++ [docuri]) b) (walk fs docuri true true true f false hist b) b ks ks) as AL.
      assert (F2 : Forall2 (fun m s => agrees b (walk fs docuri true true true f false hist b m)
                                              (xi_spec fs f (hist ++ [docuri]) b s)) ks ks).
      { pose proof (sim_refl_list b ks Ckids) as FS.
        eapply Forall2_impl; [|exact FS]. intros m0 s0 Hms. apply IH. exact Hms. }
      specialize (AL F2). destruct (walk_list _ ks) as [r e]. unfold agrees in *.
      destruct (smap _ ks) as [e'|t]; [exact AL|]. destruct AL as [A1 A2]. split; [exact A1|].
      cbn [fst map annot]. rewrite HB, HD. cbn [fst] in A2. rewrite A2. reflexivity.
Qed.
End Sim.
