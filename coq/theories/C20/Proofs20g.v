(** C20 lemmas, part g: whole documents in general, including an xi:include as the document element. *)
From Coq Require Import NArith List Bool Lia Arith.
Import ListNotations.
From XV Require Import C20.Spec20 C20.Model20 C20.Hyps20 C20.Proofs20a C20.Proofs20c C20.Proofs20d C20.Proofs20e C20.Proofs20f.
Local Open Scope N_scope.

Section G.
Variable fs : fsys.
Variable docuri : path.
Variables fixb fixn fixc : bool.
Notation W := (walk fs docuri fixb fixn fixc).

Lemma walk_list_noexc_each : forall (g : node -> list node * list err) l,
  ~ In E_HierarchyExc (snd (walk_list g l)) -> forall c, In c l -> ~ In E_HierarchyExc (snd (g c)).
Proof. intros g l H c Hc HI. apply H. eapply walk_list_err_in; eassumption. Qed.

(** at the document level the only difference is the DOMException *)
Lemma walk_doc_false : forall f hist base n,
  ~ In E_HierarchyExc (snd (W f true hist base n)) -> W f true hist base n = W f false hist base n.
Proof.
  induction f as [|f IH]; intros hist base n H; [destruct n; reflexivity|].
  destruct n as [ns nm a k|s|s]; [|reflexivity|reflexivity].
  rewrite !walk_S_elem in *. destruct (is_include ns nm); [|reflexivity].
  destruct (inc_resolve fs docuri fixb fixn fixc hist base a k) as [[|nodes h'] e]; [reflexivity|].
  cbn [andb] in *. destruct (negb (doc_kids_ok nodes)).
  - exfalso. apply H. cbn [snd]. apply in_or_app. right. left. reflexivity.
  - assert (E : walk_list (W f true h' base) nodes = walk_list (W f false h' base) nodes).
    { apply walk_list_ext. intros c Hc. apply IH. intro HI. apply H.
      destruct (walk_list (W f true h' base) nodes) as [r e2] eqn:WL. cbn [snd]. apply in_or_app. right.
      change e2 with (snd (r, e2)). rewrite <- WL. eapply walk_list_err_in; eassumption. }
    rewrite E. reflexivity.
Qed.

(** without a DOMException, what replaces a document-level node is a document-level list *)
Lemma doc_kids_ok_spec : forall l, doc_kids_ok l = true <-> has_text_node l = false /\ (count_elem_nodes l <= 1)%nat.
Proof.
  intros l. unfold doc_kids_ok. rewrite andb_true_iff, negb_true_iff, Nat.leb_le. tauto.
Qed.
Lemma walk_list_shape : forall (g : node -> list node * list err) l,
  has_text_node l = false ->
  (forall c, In c l -> match c with
                       | Elem _ _ _ _ => has_text_node (fst (g c)) = false /\ (count_elem_nodes (fst (g c)) <= 1)%nat
                       | _ => g c = ([c], [])
                       end) ->
  has_text_node (fst (walk_list g l)) = false /\
  (count_elem_nodes (fst (walk_list g l)) <= count_elem_nodes l)%nat.
Proof.
  intros g l. induction l as [|n l IH]; intros HT H; [split; [reflexivity|cbn; lia]|].
  rewrite walk_list_cons. cbn [fst]. rewrite has_text_app, count_elem_app.
  assert (HT' : has_text_node l = false).
  { destruct n; cbn [has_text_node] in HT; [exact HT| |exact HT]. apply orb_false_iff in HT. exact (proj2 HT). }
  destruct (IH HT' (fun c Hc => H c (or_intror Hc))) as [I1 I2]. pose proof (H n (or_introl eq_refl)) as Hn.
  destruct n as [ns nm a k|s|s].
  - destruct Hn as [A B]. rewrite A, I1. cbn [count_elem_nodes]. split; [reflexivity|lia].
  - rewrite Hn. cbn [has_text_node] in HT. apply orb_false_iff in HT. destruct HT as [HW _].
    cbn [fst has_text_node count_elem_nodes]. rewrite HW. split; [exact I1|lia].
  - rewrite Hn. cbn [fst has_text_node count_elem_nodes]. split; [exact I1|lia].
Qed.

Lemma walk_doc_shape : forall f hist base n,
  ~ In E_HierarchyExc (snd (W f true hist base n)) ->
  match n with
  | Elem _ _ _ _ => has_text_node (fst (W f true hist base n)) = false /\ (count_elem_nodes (fst (W f true hist base n)) <= 1)%nat
  | _ => W f true hist base n = ([n], [])
  end.
Proof.
  induction f as [|f IH]; intros hist base n H.
  - destruct n; [cbn; split; [reflexivity|lia]|reflexivity|reflexivity].
  - destruct n as [ns nm a k|s|s]; [|reflexivity|reflexivity]. rewrite walk_S_elem in *.
    destruct (is_include ns nm).
    + destruct (inc_resolve fs docuri fixb fixn fixc hist base a k) as [[|nodes h'] e]; [cbn; split; [reflexivity|lia]|].
      cbn [andb] in *. destruct (doc_kids_ok nodes) eqn:DK; cbn [negb] in *.
      * apply doc_kids_ok_spec in DK. destruct DK as [D1 D2].
        destruct (walk_list (W f true h' base) nodes) as [r e2] eqn:WL. cbn [fst snd] in *.
        assert (NX : ~ In E_HierarchyExc (snd (walk_list (W f true h' base) nodes))).
        { rewrite WL. cbn [snd]. intro A. apply H. apply in_or_app. right. exact A. }
        pose proof (walk_list_shape (W f true h' base) nodes D1) as SH.
        assert (PC : forall c, In c nodes -> match c with
                       | Elem _ _ _ _ => has_text_node (fst (W f true h' base c)) = false /\ (count_elem_nodes (fst (W f true h' base c)) <= 1)%nat
                       | _ => W f true h' base c = ([c], [])
                       end).
        { intros c Hc. apply IH. exact (walk_list_noexc_each _ _ NX c Hc). }
        destruct (SH PC) as [S1 S2]. rewrite WL in S1, S2. cbn [fst] in S1, S2. split; [exact S1|lia].
      * exfalso. apply H. cbn [snd]. apply in_or_app. right. left. reflexivity.
    + destruct (is_fallback ns nm); [cbn; split; [reflexivity|lia]|].
      destruct (walk_list _ k) as [ks e]. cbn. split; [reflexivity|lia].
Qed.
End G.

Lemma cut_exc : forall l, In E_HierarchyExc l -> snd (cut_at_exc l) = true.
Proof.
  induction l as [|x l IH]; intros H; [destruct H|]. cbn [cut_at_exc].
  destruct x; try (destruct H as [H|H]; [discriminate|]; destruct (cut_at_exc l) as [p q]; cbn [snd] in *; exact (IH H)).
  reflexivity.
Qed.
Lemma finish_exc : forall r, In E_HierarchyExc (snd r) -> fst (finish r) = D_hierarchy_exc.
Proof.
  intros [d e] H. unfold finish. cbn [snd] in *. pose proof (cut_exc e H) as C.
  destruct (cut_at_exc e) as [es b]. cbn [snd] in C. subst b. reflexivity.
Qed.

(** [xi_docproc] is the document-level walk of the document element *)
Lemma docproc_as_walk : forall fs fixb fixn fixc uri top pre ns nm a k post,
  split_root [] top = Some (pre, Elem ns nm a k, post) ->
  xi_docproc fs fixb fixn fixc uri top =
  finish (let (r, e) := walk fs uri fixb fixn fixc (enough_fuel fs top) true [] uri (Elem ns nm a k) in
          (D_ok (pre ++ r ++ post), e)) \/
  (fst (xi_docproc fs fixb fixn fixc uri top) = D_hierarchy_exc /\
   In E_HierarchyExc (snd (walk fs uri fixb fixn fixc (enough_fuel fs top) true [] uri (Elem ns nm a k)))).
Proof.
  intros fs fixb fixn fixc uri top pre ns nm a k post SR.
  pose proof (split_root_in _ _ _ _ _ SR) as SRI. apply in_nodes_size in SRI. pose proof (max_size_top fs top) as MT.
  set (F := enough_fuel fs top).
  assert (NFW : ~ In E_Fuel (snd (walk fs uri fixb fixn fixc F true [] uri (Elem ns nm a k)))).
  { apply (walk_fuel_ok fs uri fixb fixn fixc top); [lia|]. unfold F, enough_fuel. pose proof (kcount_le fs []). nia. }
  pose proof (walk_mono fs uri fixb fixn fixc F true [] uri (Elem ns nm a k) NFW) as MONO.
  unfold xi_docproc. rewrite SR. fold F. unfold root_step. cbv beta iota.
  destruct (is_include ns nm) eqn:II; [|left; reflexivity].
  rewrite <- MONO. rewrite walk_S_elem, II. cbn [fst snd app].
  destruct (inc_resolve fs uri fixb fixn fixc [] uri a k) as [[|nodes h'] e]; [left; reflexivity|].
  cbn [andb]. destruct (doc_kids_ok nodes); cbn [negb].
  - left. destruct (walk_list _ nodes) as [r e2]. reflexivity.
  - right. split.
    + apply finish_exc. cbn [snd]. apply in_or_app. right. left. reflexivity.
    + cbn [snd]. apply in_or_app. right. left. reflexivity.
Qed.

(** the Spec does not run out of the fuel either *)
Lemma spec_doc_no_fuel : forall fs uri top, clean_fs fs = true -> forallb clean_node top = true ->
  xi_spec_doc fs (enough_fuel fs top) uri top <> inl XE_Fuel.
Proof.
  intros fs uri top CFS CN H. set (F := enough_fuel fs top) in *. unfold xi_spec_doc in H.
  pose proof (agrees_list (xi_spec fs F ([] ++ [uri]) uri) (walk fs uri true true true F false [] uri) uri top top) as AL.
  assert (F2 : Forall2 (fun m s => agrees uri (walk fs uri true true true F false [] uri m) (xi_spec fs F ([] ++ [uri]) uri s)) top top).
  { eapply Forall2_impl; [|exact (sim_refl_list uri top CN)]. intros m0 s0 Hms. apply sim_walk; assumption. }
  specialize (AL F2). cbn [app] in AL.
  destruct (smap (xi_spec fs F [uri] uri) top) as [x|l]; [|destruct (has_text l || negb (Nat.eqb (count_elems l) 1)); discriminate].
  assert (x = XE_Fuel) by congruence. subst x. cbn [agrees reports] in AL.
  apply walk_list_in in AL. destruct AL as [c [Hc HF]].
  apply (walk_fuel_ok fs uri true true true top F false [] uri c); [| |exact HF].
  - apply in_nodes_size in Hc. pose proof (max_size_top fs top). lia.
  - apply in_nodes_size in Hc. pose proof (max_size_top fs top). pose proof (kcount_le fs []).
    unfold F, enough_fuel. nia.
Qed.

(** every document, also with an xi:include as document element: the Spec's result, or the Spec's error class, or --
    only at the document level -- a DOMException(HIERARCHY_REQUEST_ERR); and the one silent case C20-F5 *)
Theorem docproc_expansion_gen : forall fs uri top pre ns nm a k post,
  clean_fs fs = true -> clean_doc top = true -> has_text_node top = false ->
  split_root [] top = Some (pre, Elem ns nm a k, post) ->
  let res := xi_docproc fs true true true uri top in
  match xi_spec_doc fs (enough_fuel fs top) uri top with
  | inr t => (exists r e, res = (D_ok r, e) /\ existsb is_fatal e = false /\ map (annot uri) r = t) \/
             fst res = D_hierarchy_exc
  | inl x => x <> XE_Fuel /\
             (reports x (snd res) \/ fst res = D_hierarchy_exc \/
              (x = XE_RootShape /\ exists r e, res = (D_ok r, e) /\ count_elem_nodes r = O))
  end.
Proof.
  intros fs uri top pre ns nm a k post CFS CD HT SR res.
  pose proof (docproc_no_fuel fs true true true uri top) as NF. fold res in NF.
  set (F := enough_fuel fs top) in *.
  assert (SNF : xi_spec_doc fs F uri top <> inl XE_Fuel).
  { apply spec_doc_no_fuel; [exact CFS|]. unfold clean_doc in CD. apply andb_true_iff in CD. exact (proj1 CD). }
  destruct (docproc_as_walk fs true true true uri top pre ns nm a k post SR) as [E|[E1 E2]]; fold res in E || fold res in E1.
  2:{ destruct (xi_spec_doc fs F uri top) as [x|t]; [|right; exact E1]. split; [|right; left; exact E1].
      intro; subst x. apply SNF. reflexivity. }
  destruct (split_root_spec _ _ _ _ _ SR) as [ET [_ CP]]. cbn [rev app] in ET. specialize (CP eq_refl).
  unfold clean_doc in CD. apply andb_true_iff in CD. destruct CD as [CN CL]. apply Nat.leb_le in CL.
  assert (CPost : count_elem_nodes post = O).
  { rewrite ET, count_elem_app in CL. cbn [count_elem_nodes] in CL. lia. }
  assert (HTs : has_text_node pre = false /\ has_text_node post = false).
  { rewrite ET in HT. change (pre ++ Elem ns nm a k :: post) with (pre ++ [Elem ns nm a k] ++ post) in HT.
    rewrite !has_text_app in HT. cbn [has_text_node] in HT. apply orb_false_iff in HT. destruct HT as [H1 H2].
    cbn [orb] in H2. split; assumption. }
  destruct HTs as [HT1 HT2].
  fold F in E.
  destruct (walk fs uri true true true F true [] uri (Elem ns nm a k)) as [r e] eqn:WT.
  destruct (in_dec (fun x y : err => ltac:(decide equality)) E_HierarchyExc e) as [HX|NX].
  { assert (EX : fst res = D_hierarchy_exc) by (rewrite E; apply finish_exc; exact HX).
    destruct (xi_spec_doc fs F uri top) as [x|t]; [|right; exact EX]. split; [|right; left; exact EX].
    intro; subst x. apply SNF. reflexivity. }
  (* no exception: the document-level walk is the plain walk, and its result has the shape of a document *)
  assert (NXW : ~ In E_HierarchyExc (snd (walk fs uri true true true F true [] uri (Elem ns nm a k)))) by (rewrite WT; exact NX).
  pose proof (walk_doc_false fs uri true true true F [] uri (Elem ns nm a k) NXW) as WF.
  pose proof (walk_doc_shape fs uri true true true F [] uri (Elem ns nm a k) NXW) as SH. cbv beta iota in SH.
  rewrite WT in WF, SH. cbn [fst] in SH. destruct SH as [SH1 SH2].
  unfold finish in E. cbn [snd] in E. rewrite (cut_no_exc e NX) in E.
  pose proof (agrees_list (xi_spec fs F ([] ++ [uri]) uri) (walk fs uri true true true F false [] uri) uri top top) as AL.
  assert (F2 : Forall2 (fun m s => agrees uri (walk fs uri true true true F false [] uri m) (xi_spec fs F ([] ++ [uri]) uri s)) top top).
  { eapply Forall2_impl; [|exact (sim_refl_list uri top CN)]. intros m0 s0 Hms. apply sim_walk; assumption. }
  specialize (AL F2). cbn [app] in AL.
  assert (WL : walk_list (walk fs uri true true true F false [] uri) top = (pre ++ r ++ post, e)).
  { rewrite ET. change (pre ++ Elem ns nm a k :: post) with (pre ++ [Elem ns nm a k] ++ post).
    rewrite !walk_list_app. rewrite (walk_list_nonelem _ _ _ _ _ _ _ _ _ pre CP), (walk_list_nonelem _ _ _ _ _ _ _ _ _ post CPost).
    rewrite walk_list_cons. rewrite <- WF. cbn [fst snd walk_list fold_right]. rewrite !app_nil_r. reflexivity. }
  rewrite WL in AL. rewrite E in NF. cbn [snd] in NF.
  unfold xi_spec_doc. destruct (smap (xi_spec fs F [uri] uri) top) as [x|l].
  - cbn [agrees snd] in AL. split; [intro; subst x; exact (NF AL)|]. left. rewrite E. exact AL.
  - destruct AL as [A1 A2]. cbn [fst snd] in A1, A2.
    destruct (annot_counts uri (pre ++ r ++ post)) as [C1 C2]. rewrite A2 in C1, C2.
    rewrite C2 by (rewrite !has_text_app, HT1, HT2, SH1; reflexivity).
    rewrite C1. rewrite !count_elem_app. rewrite CP, CPost. cbn [orb].
    rewrite Nat.add_0_l, Nat.add_0_r.
    destruct (Nat.eqb (count_elem_nodes r) 1) eqn:C; cbn [negb].
    + left. exists (pre ++ r ++ post), e. split; [exact E|]. split; [exact A1|exact A2].
    + split; [discriminate|]. right. right. split; [reflexivity|].
      exists (pre ++ r ++ post), e. split; [exact E|]. rewrite !count_elem_app, CP, CPost.
      apply Nat.eqb_neq in C. lia.
Qed.

(** ---- the Document child rule ----------------------------------------------------------------------------------
    [doc_kids_ok] = what DOMDocumentImpl accepts as children besides comments: no text other than white space, at most
    one element.  Merging a legal replacement list at the position of the document element keeps the rule ... *)
Lemma merge_at_document_element : forall pre nodes post,
  count_elem_nodes pre = O -> count_elem_nodes post = O -> has_text_node pre = false -> has_text_node post = false ->
  doc_kids_ok nodes = true -> doc_kids_ok (pre ++ nodes ++ post) = true.
Proof.
  intros pre nodes post C1 C2 T1 T2 H. apply doc_kids_ok_spec in H. destruct H as [H1 H2]. apply doc_kids_ok_spec.
  rewrite !has_text_app, !count_elem_app, T1, T2, H1, C1, C2. split; [reflexivity|lia].
Qed.

(** ... and so does the whole processing: whenever [xi_docproc] hands back a document (no DOMException), its child
    list is a well-formed Document child list, whatever the files contain and whatever replaced the document element
    (included document with comments around its element, fallback children with white space, nested fallbacks ...) *)
Theorem docproc_children_ok : forall fs fixb fixn fixc uri top pre ns nm a k post r e,
  split_root [] top = Some (pre, Elem ns nm a k, post) ->
  has_text_node top = false -> (count_elem_nodes top <= 1)%nat ->
  xi_docproc fs fixb fixn fixc uri top = (D_ok r, e) -> doc_kids_ok r = true.
Proof.
  intros fs fixb fixn fixc uri top pre ns nm a k post r e SR HT CL H.
  destruct (split_root_spec _ _ _ _ _ SR) as [ET [_ CP]]. cbn [rev app] in ET. specialize (CP eq_refl).
  assert (CPost : count_elem_nodes post = O).
  { rewrite ET, count_elem_app in CL. cbn [count_elem_nodes] in CL. lia. }
  assert (HTs : has_text_node pre = false /\ has_text_node post = false).
  { rewrite ET in HT. change (pre ++ Elem ns nm a k :: post) with (pre ++ [Elem ns nm a k] ++ post) in HT.
    rewrite !has_text_app in HT. cbn [has_text_node] in HT. apply orb_false_iff in HT. destruct HT as [H1 H2].
    cbn [orb] in H2. split; assumption. }
  destruct HTs as [HT1 HT2].
  destruct (docproc_as_walk fs fixb fixn fixc uri top pre ns nm a k post SR) as [E|[E1 _]].
  2:{ rewrite H in E1. discriminate. }
  rewrite H in E. set (F := enough_fuel fs top) in *.
  destruct (walk fs uri fixb fixn fixc F true [] uri (Elem ns nm a k)) as [r0 e0] eqn:WT.
  destruct (in_dec (fun x y : err => ltac:(decide equality)) E_HierarchyExc e0) as [HX|NX].
  { pose proof (finish_exc (D_ok (pre ++ r0 ++ post), e0) HX) as FE. rewrite <- E in FE. discriminate. }
  unfold finish in E. cbn [snd] in E. rewrite (cut_no_exc e0 NX) in E. inversion E; subst r e.
  assert (NXW : ~ In E_HierarchyExc (snd (walk fs uri fixb fixn fixc F true [] uri (Elem ns nm a k)))) by (rewrite WT; exact NX).
  pose proof (walk_doc_shape fs uri fixb fixn fixc F [] uri (Elem ns nm a k) NXW) as SH. cbv beta iota in SH.
  rewrite WT in SH. cbn [fst] in SH. destruct SH as [SH1 SH2].
  apply merge_at_document_element; try assumption. apply doc_kids_ok_spec. split; assumption.
Qed.
