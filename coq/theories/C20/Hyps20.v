(** C20: the decidable hypotheses of the expansion theorems (no proofs here; also extracted, so that the check can
    count how many generated cases the theorems cover). *)
From Coq Require Import NArith List Bool.
Import ListNotations.
From XV Require Import C20.Spec20 C20.Model20.
Local Open Scope N_scope.

Definition is_dd (s : str) : bool := str_eqb s dotdot.

(** ---- hypotheses on the input (decidable; the generator of the correspondence satisfies them) ----------- *)
(** a reference (href or xml:base value) is clean: not empty, not starting with '/', last segment not ".." *)
Definition clean_ref (v : str) : bool :=
  match v with c :: _ => negb (c =? SLASH) | [] => false end && negb (is_dd (last (split_slash v) [])).
Definition clean_attrs (at_ : list attr) : bool :=
  match get_base_attr at_ with Some v => clean_ref v | None => true end &&
  match get_attr NS_NONE s_href at_ with Some v => clean_ref v | None => true end.
(** every element has clean references; xi:fallback carries no xml:base *)
Fixpoint clean_node (n : node) : bool :=
  match n with
  | Elem ns nm at_ kids =>
    clean_attrs at_ &&
    (if is_fallback ns nm then match get_base_attr at_ with None => true | Some _ => false end else true) &&
    forallb clean_node kids
  | _ => true
  end.
(** a document has at most one top-level element (it is well-formed) *)
Definition clean_doc (top : list node) : bool := forallb clean_node top && Nat.leb (count_elem_nodes top) 1.
Definition clean_file (pf : path * file) : bool := match snd pf with FDoc top => clean_doc top | _ => true end.
Definition clean_fs (fs : fsys) : bool := forallb clean_file fs.


(** the hypothesis on the top document (the documents it includes are unrestricted) *)
Definition fb_or_leaf (c : node) : bool := match c with Elem cns cnm _ _ => is_fallback cns cnm | _ => true end.
Fixpoint simple (n : node) : bool :=
  match n with
  | Elem ns nm a k =>
    if is_include ns nm then forallb fb_or_leaf k
    else if is_fallback ns nm then true
    else negb (ns =? NS_XI) && forallb simple k
  | _ => true
  end.


(** all hypotheses of T20_expansion_parser for a top document *)
Definition under_theorem (fs : fsys) (top : list node) : bool :=
  clean_fs fs && clean_doc top && negb (has_text_node top) &&
  match split_root [] top with
  | Some (_, Elem ns nm a k, _) => negb (is_include ns nm) && simple (Elem ns nm a k)
  | _ => false
  end.
