(** Extraction of the executable C20 model and of the specification functions used as oracle.
    Only ExtrOcamlBasic is used.  The path is relative to the directory coqc runs in (coq/). *)
From Coq Require Import Extraction ExtrOcamlBasic.
From XV Require Import C20.Spec20 C20.Model20 C20.Hyps20 C20.Text20.
Extraction Language OCaml.
Extraction "../ocaml/C20/gen_c20.ml"
  xi_parser xi_docproc xi_spec_doc annot erase_base enough_fuel resolve split_slash join_slash elem_base
  get_base_attr drop_base_attr is_fatal under_theorem clean_fs clean_doc include_text decode_whole xi_resource_errors_doc.
