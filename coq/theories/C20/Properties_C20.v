(** Property C20 -- XInclude processing yields the specified merged tree and detects inclusion loops.
    Only the property theorems: each is closed by [exact] of a lemma of Proofs20*.v and followed by
    [Print Assumptions].  Spec: Spec20.v ([xi_spec], XInclude 1.0 section 4 over an abstract file system).
    Model: Model20.v ([walk] = XIncludeUtils::parseDOMNodeDoingXInclude, [inc_resolve] = doDOMNodeXInclude,
    [xi_docproc] = XIncludeDOMDocumentProcessor::doXIncludeDOMProcess, [xi_parser] = AbstractDOMParser with
    fDoXInclude).  The model has four defect switches (fixb, fixn, fixc, fixe; true = repaired).  /repo carries all
    four repairs (fix: commits 0b3e60b, 440f5a3, 7545b06, 310c4f3); which ones the source contains is read from
    it on every run (translator/c20_switches.py) and the correspondence runs the model with exactly those.

    What is proved about which entry point:
    * termination (fuel sufficiency): [xi_docproc], every document, every switch setting (T20_terminates);
      [xi_parser] with the end-tag repair (fixe), for top documents whose document element is not an xi:include
      and whose xi:include elements have only xi:fallback element children ([simple], T20_terminates_parser).
      Beyond that (old end-tag rule, which re-walks already expanded fallback content) it is not proved; the
      correspondence checks on every run that the model never answers MODEL_FUEL.
    * expansion = Spec, base URIs included: [walk] at any node, in particular inside included documents
      (T20_expansion_nodes); [xi_docproc] for documents whose document element is not itself an xi:include
      (T20_expansion); [xi_parser] for those that are also [simple] (T20_parser_eq_docproc, T20_expansion_parser)
      -- with all four repairs on and for clean inputs ([clean_fs]: relative references, no xml:base on
      xi:fallback, well-formed documents).  Every document, also with an xi:include as the document element
      (T20_expansion_any_document): the Spec's result, or its error class, or a DOMException -- the code can throw
      HIERARCHY_REQUEST_ERR for an intermediate replacement of the document element although the final result
      would be a document -- or the silent case of finding C20-F5.  With a switch off the expansion theorem is
      refuted (T20_*_refuted below). *)
From Coq Require Import NArith List Bool.
Import ListNotations.
From XV Require Import C20.Spec20 C20.Model20 C20.Hyps20 C20.Proofs20a C20.Proofs20b C20.Proofs20c C20.Proofs20d C20.Proofs20e C20.Proofs20f C20.Proofs20g.
From XV Require Import C20.Examples20 C20.Text20 C20.Uri20.
Local Open Scope N_scope.

Definition spec_ok (s : sres) : bool := match s with inr _ => true | inl _ => false end.

(** ---- T20_terminates ---------------------------------------------------------------------------------
    Processing terminates for every finite file system: the fuel [enough_fuel] = (files + 1) * (largest
    document + 1) + largest document + 1 is never exhausted (measure: files not on the history stack, then
    size of the node).  Cyclic or not, whatever the switches. *)
Theorem T20_terminates : forall fs fixb fixn fixc uri top, ~ In E_Fuel (snd (xi_docproc fs fixb fixn fixc uri top)).
Proof. exact docproc_no_fuel. Qed.
Print Assumptions T20_terminates.

(** the measure behind it: a document is entered only if it is neither on the history stack nor the
    document being processed, and entering it puts it on the stack *)
Theorem T20_no_reentry : forall fs docuri fixb fixn fixc hist base at_ kids nodes h' e,
  inc_resolve fs docuri fixb fixn fixc hist base at_ kids = (IR_repl nodes h', e) ->
  h' = hist \/ exists t, h' = t :: hist /\ path_mem t hist = false /\ path_eqb t docuri = false.
Proof. exact no_reentry. Qed.
Print Assumptions T20_no_reentry.

(** a loop error (XIncludeCircularInclusionLoop / ...DocIncludesSelf) is reported at an xi:include exactly when
    it is a valid parse="xml" include whose target is on the current inclusion path *)
Theorem T20_loop_iff : forall fs docuri fixb fixn fixc hist base at_ kids,
  existsb is_loop_err (snd (inc_resolve fs docuri fixb fixn fixc hist base at_ kids)) =
  loop_condition docuri hist base at_ kids.
Proof. exact loop_iff. Qed.
Print Assumptions T20_loop_iff.

(** ---- T20_expansion ----------------------------------------------------------------------------------
    [agrees bm res sp]: if the Spec yields the items [t], the model reports no fatal error and its nodes,
    annotated with the base URIs that their xml:base attributes give them, are exactly [t] (so no xi:include
    is left, every one is replaced by the recursively processed content it designates, copies of a file
    included twice are independent, and every element has the base URI it had in its own file); if the
    Spec yields an error class, the model reports the corresponding XMLErrs code.  Holds for every node at
    every depth, in particular inside included documents ([hist] = inclusion path). *)
Theorem T20_expansion_nodes : forall fs docuri, clean_fs fs = true ->
  forall fuel hist bm m bs s, sim bm m bs s ->
  agrees bm (walk fs docuri true true true fuel false hist bm m) (xi_spec fs fuel (hist ++ [docuri]) bs s).
Proof. exact sim_walk. Qed.
Print Assumptions T20_expansion_nodes.

(** whole documents through XIncludeDOMDocumentProcessor (document element not itself an xi:include):
    with the fuel proved sufficient, the result is the Spec's, or the Spec's error class is reported
    (never the fuel error, never a DOMException) *)
Theorem T20_expansion : forall fs uri top pre ns nm a k post,
  clean_fs fs = true -> clean_doc top = true -> has_text_node top = false ->
  split_root [] top = Some (pre, Elem ns nm a k, post) -> is_include ns nm = false ->
  match xi_spec_doc fs (enough_fuel fs top) uri top with
  | inr t => exists r e, xi_docproc fs true true true uri top = (D_ok r, e) /\
                         existsb is_fatal e = false /\ map (annot uri) r = t
  | inl x => x <> XE_Fuel /\ x <> XE_RootShape /\ reports x (snd (xi_docproc fs true true true uri top))
  end.
Proof. exact docproc_expansion. Qed.
Print Assumptions T20_expansion.

(** every document -- in particular an xi:include as the document element.  At the document level the DOM
    refuses text and a second element (DOMException), which the Spec calls a fatal error too (4.5.1); a vanished
    document element is accepted silently by the code: known finding C20-F5 (third alternative). *)
Theorem T20_expansion_any_document : forall fs uri top pre ns nm a k post,
  clean_fs fs = true -> clean_doc top = true -> has_text_node top = false ->
  split_root [] top = Some (pre, Elem ns nm a k, post) ->
  let res := xi_docproc fs true true true uri top in
  match xi_spec_doc fs (enough_fuel fs top) uri top with
  | inr t => (exists r e, res = (D_ok r, e) /\ existsb is_fatal e = false /\ map (annot uri) r = t) \/
             fst res = D_hierarchy_exc
  | inl x => x <> XE_Fuel /\
             (reports x (snd res) \/ fst res = D_hierarchy_exc \/
              (x = XE_RootShape /\ exists r e, res = (D_ok r, e) /\ count_elem_nodes r = O))
  end.
Proof. exact docproc_expansion_gen. Qed.
Print Assumptions T20_expansion_any_document.

(** the Document child rule (DOMDocumentImpl::isKidOK / insertBefore: comments, white-space-only text, at most one
    element): merging a legal replacement list at the position of the document element keeps it, and whenever the
    processing hands back a document at all, its child list obeys it -- whatever replaced the document element *)
Theorem T20_merge_at_document_element : forall pre nodes post,
  count_elem_nodes pre = O -> count_elem_nodes post = O -> has_text_node pre = false -> has_text_node post = false ->
  doc_kids_ok nodes = true -> doc_kids_ok (pre ++ nodes ++ post) = true.
Proof. exact merge_at_document_element. Qed.
Print Assumptions T20_merge_at_document_element.

Theorem T20_document_children_ok : forall fs fixb fixn fixc uri top pre ns nm a k post r e,
  split_root [] top = Some (pre, Elem ns nm a k, post) ->
  has_text_node top = false -> (count_elem_nodes top <= 1)%nat ->
  xi_docproc fs fixb fixn fixc uri top = (D_ok r, e) -> doc_kids_ok r = true.
Proof. exact docproc_children_ok. Qed.
Print Assumptions T20_document_children_ok.

(** the Spec itself terminates with the same fuel *)
Theorem T20_spec_terminates : forall fs uri top, clean_fs fs = true -> forallb clean_node top = true ->
  xi_spec_doc fs (enough_fuel fs top) uri top <> inl XE_Fuel.
Proof. exact spec_doc_no_fuel. Qed.
Print Assumptions T20_spec_terminates.

(** non-vacuity: a file tree with nested directories, ../ hrefs, a file included twice, a text inclusion,
    a missing resource with a fallback that itself includes, an unused fallback with a failing include and an
    included root with its own xml:base satisfies the hypotheses, and the computed answers are the ones the
    theorem speaks about *)
Example T20_expansion_nonvacuous :
  clean_fs fs_ok = true /\ clean_doc top_ok = true /\ has_text_node top_ok = false /\
  match xi_docproc fs_ok true true true uri_ok top_ok, xi_spec_doc fs_ok (enough_fuel fs_ok top_ok) uri_ok top_ok with
  | (D_ok r, e), inr t => map (annot uri_ok) r = t /\ e = [E_IncludeFailedResourceError] /\ length t = 2%nat
  | _, _ => False
  end.
Proof. vm_compute. repeat split; reflexivity. Qed.

(** the parsers (XercesDOMParser, DOMLSParser; end-tag driven, with the repaired rule that leaves xi:fallback
    content alone) compute the same as XIncludeDOMDocumentProcessor on [simple] top documents *)
Theorem T20_parser_eq_docproc : forall fs fixb fixn fixc uri top pre ns nm a k post,
  split_root [] top = Some (pre, Elem ns nm a k, post) -> is_include ns nm = false ->
  simple (Elem ns nm a k) = true ->
  xi_parser fs fixb fixn fixc true uri top = xi_docproc fs fixb fixn fixc uri top.
Proof. exact parser_eq_docproc. Qed.
Print Assumptions T20_parser_eq_docproc.

Theorem T20_terminates_parser : forall fs fixb fixn fixc uri top pre ns nm a k post,
  split_root [] top = Some (pre, Elem ns nm a k, post) -> is_include ns nm = false ->
  simple (Elem ns nm a k) = true ->
  ~ In E_Fuel (snd (xi_parser fs fixb fixn fixc true uri top)).
Proof. exact parser_no_fuel. Qed.
Print Assumptions T20_terminates_parser.

Theorem T20_expansion_parser : forall fs uri top pre ns nm a k post,
  clean_fs fs = true -> clean_doc top = true -> has_text_node top = false ->
  split_root [] top = Some (pre, Elem ns nm a k, post) -> is_include ns nm = false ->
  simple (Elem ns nm a k) = true ->
  match xi_spec_doc fs (enough_fuel fs top) uri top with
  | inr t => exists r e, xi_parser fs true true true true uri top = (D_ok r, e) /\
                         existsb is_fatal e = false /\ map (annot uri) r = t
  | inl x => x <> XE_Fuel /\ x <> XE_RootShape /\ reports x (snd (xi_parser fs true true true true uri top))
  end.
Proof. exact parser_expansion. Qed.
Print Assumptions T20_expansion_parser.

(** the lazy-fallback property of the parser-driven route (XInclude 3.1: descendants of the children of xi:include
    have no effect unless the fallback is performed): an xi:fallback is not looked into at all, and an xi:include that
    succeeds gives the same nodes and the same diagnostics whatever its xi:fallback contains, at any depth *)
Theorem T20_fallback_untouched : forall fs docuri fixb fixn fixc F base a k,
  top_walk fs docuri fixb fixn fixc true F NS_XI base (Elem NS_XI s_fallback a k) = ([Elem NS_XI s_fallback a k], []).
Proof. exact top_walk_fallback_untouched. Qed.
Print Assumptions T20_fallback_untouched.

Theorem T20_lazy_fallback : forall fs docuri fixb fixn fixc F pns base a kids kids' fb fb' nodes h',
  forallb fb_or_leaf kids = true -> forallb fb_or_leaf kids' = true ->
  scan_fallback kids None = FS_ok fb -> scan_fallback kids' None = FS_ok fb' ->
  inc_resolve fs docuri fixb fixn fixc [] base a kids = (IR_repl nodes h', []) ->
  top_walk fs docuri fixb fixn fixc true F pns base (Elem NS_XI s_include a kids) =
  top_walk fs docuri fixb fixn fixc true F pns base (Elem NS_XI s_include a kids').
Proof. exact lazy_fallback. Qed.
Print Assumptions T20_lazy_fallback.

(** ... e.g. a failing xi:include two ordinary elements deep in an unused xi:fallback: no diagnostic, neither by the
    Spec nor by the repaired parser route; the old end-tag rule (fixe off) reported a fatal error *)
Example T20_lazy_fallback_example :
  xi_parser fs_f1deep true true true true uri_f1deep top_f1deep = (D_ok [Elem 0 [114] [] [Elem 0 [107] [(2, s_base, [111;107;46;120;109;108])] []]], []) /\
  xi_resource_errors_doc fs_f1deep (enough_fuel fs_f1deep top_f1deep) uri_f1deep top_f1deep = (O, O) /\
  spec_ok (xi_spec_doc fs_f1deep (enough_fuel fs_f1deep top_f1deep) uri_f1deep top_f1deep) = true /\
  snd (xi_parser fs_f1deep true true true false uri_f1deep top_f1deep) = [E_IncludeFailedResourceError; E_IncludeFailedNoFallback].
Proof. vm_compute. repeat split; reflexivity. Qed.

Example T20_parser_nonvacuous :
  match split_root [] top_ok with
  | Some (_, Elem ns nm a k, _) => is_include ns nm = false /\ simple (Elem ns nm a k) = true
  | _ => False
  end.
Proof. vm_compute. split; reflexivity. Qed.

(** ---- T20_base_fixup ---------------------------------------------------------------------------------
    the xml:base fix-ups keep base URIs: the document element of an included document (after the fix-up, seen
    from the including position [bm]) and every child of a used xi:fallback stands for the original node seen
    from its own document resp. position -- [sim] contains [elem_base bm am = elem_base bs as_], hence every
    relative reference below resolves to the same target before and after inclusion *)
Theorem T20_base_fixup_root : forall bm b target ib href top,
  clean_doc top = true -> clean_ref href = true -> target = resolve b (split_slash href) ->
  (ib = None -> b = bm) ->
  (forall v, ib = Some v -> clean_ref v = true /\ b = resolve bm (split_slash v)) ->
  Forall2 (fun m s => sim bm m target s) (fix_root true true true bm b target ib href top) top.
Proof. exact fix_root_sim. Qed.
Print Assumptions T20_base_fixup_root.

Theorem T20_base_fixup_fallback : forall bm b ib fkids,
  forallb clean_node fkids = true -> (ib = None -> b = bm) ->
  (forall v, ib = Some v -> clean_ref v = true /\ b = resolve bm (split_slash v)) ->
  Forall2 (fun m s => sim bm m b s) (map (fix_fb_child true (negb (path_eqb bm b)) ib) fkids) fkids.
Proof. exact fix_fb_sim. Qed.
Print Assumptions T20_base_fixup_fallback.

(** the path algebra under it: what XIncludeLocation::prependPath builds resolves, against the including
    base, to the same target as the reference resolved step by step *)
Theorem T20_prepend_resolves : forall fixn base b ref, endname b ->
  resolve base (pp fixn b ref) = resolve (resolve base b) ref.
Proof. exact resolve_pp. Qed.
Print Assumptions T20_prepend_resolves.

(** ---- T20_errors -------------------------------------------------------------------------------------
    invalid xi:include usage is reported with the specified code and the element is left in place *)
Theorem T20_errors_parse_value : forall fs docuri fixb fixn fixc hist base at_ kids fb h p,
  scan_fallback kids None = FS_ok fb -> get_attr NS_NONE s_href at_ = Some h ->
  get_attr NS_NONE s_xpointer at_ = None -> get_attr NS_NONE s_parse at_ = Some p ->
  str_eqb p s_xml = false -> str_eqb p s_text = false ->
  inc_resolve fs docuri fixb fixn fixc hist base at_ kids = (IR_fail, [E_InvalidParseVal]).
Proof. exact err_badparse. Qed.
Print Assumptions T20_errors_parse_value.

Theorem T20_errors_xpointer : forall fs docuri fixb fixn fixc hist base at_ kids fb h x,
  scan_fallback kids None = FS_ok fb -> get_attr NS_NONE s_href at_ = Some h ->
  get_attr NS_NONE s_xpointer at_ = Some x ->
  inc_resolve fs docuri fixb fixn fixc hist base at_ kids = (IR_fail, [E_XPointerNotSupported]).
Proof. exact err_xpointer. Qed.
Print Assumptions T20_errors_xpointer.

Theorem T20_errors_multiple_fallback : forall fs docuri fixb fixn fixc hist base at_ pre a1 k1 mid a2 k2 post,
  Forall notxi pre -> Forall notxi mid ->
  inc_resolve fs docuri fixb fixn fixc hist base at_
    (pre ++ Elem NS_XI s_fallback a1 k1 :: mid ++ Elem NS_XI s_fallback a2 k2 :: post) = (IR_fail, [E_MultipleFallbackElems]).
Proof. intros. apply err_multi. apply scan_two_fallbacks; assumption. Qed.
Print Assumptions T20_errors_multiple_fallback.

Theorem T20_errors_orphan_fallback : forall fs docuri fixb fixn fixc f atdoc hist base a k,
  walk fs docuri fixb fixn fixc (S f) atdoc hist base (Elem NS_XI s_fallback a k) =
  ([Elem NS_XI s_fallback a k], [E_OrphanFallback]).
Proof. exact err_orphan. Qed.
Print Assumptions T20_errors_orphan_fallback.

Theorem T20_errors_missing_no_fallback : forall fs docuri fixb fixn fixc hist base at_ kids h,
  scan_fallback kids None = FS_ok None -> get_attr NS_NONE s_href at_ = Some h ->
  get_attr NS_NONE s_xpointer at_ = None -> get_attr NS_NONE s_parse at_ = None ->
  path_mem (resolve (elem_base base at_) (split_slash h)) hist = false ->
  path_eqb (resolve (elem_base base at_) (split_slash h)) docuri = false ->
  fetch fs fixn (elem_base base at_) (split_slash h) = None ->
  inc_resolve fs docuri fixb fixn fixc hist base at_ kids =
  (IR_fail, [E_IncludeFailedResourceError; E_IncludeFailedNoFallback]).
Proof. exact err_missing_nofallback. Qed.
Print Assumptions T20_errors_missing_no_fallback.

Theorem T20_errors_no_href : forall fs docuri fixb fixn fixc hist base at_ kids fb,
  scan_fallback kids None = FS_ok fb -> get_attr NS_NONE s_href at_ = None ->
  inc_resolve fs docuri fixb fixn fixc hist base at_ kids = (IR_fail, [E_NoHref]).
Proof. exact err_nohref. Qed.
Print Assumptions T20_errors_no_href.

Theorem T20_failed_include_stays : forall fs docuri fixb fixn fixc f atdoc hist base ns nm a k e,
  is_include ns nm = true -> inc_resolve fs docuri fixb fixn fixc hist base a k = (IR_fail, e) ->
  walk fs docuri fixb fixn fixc (S f) atdoc hist base (Elem ns nm a k) = ([Elem ns nm (attrs_after a k) k], e).
Proof. exact failed_include_stays. Qed.
Print Assumptions T20_failed_include_stays.

(** all of them at once on a concrete document, as the parsers of /repo report them *)
Example T20_errors_example :
  snd (xi_parser fs_bad true true true true uri_bad top_bad) =
  [E_InvalidParseVal; E_XPointerNotSupported; E_OrphanFallback; E_MultipleFallbackElems;
   E_IncludeFailedResourceError; E_IncludeFailedNoFallback; E_NoHref; E_IncludeFailedResourceError;
   E_IncludeFailedNoFallback; E_DisallowedChild].
Proof. vm_compute. reflexivity. Qed.

(** loops: a cycle of length 3 below the top document, and a document that includes itself *)
Example T20_loop_example_cycle3 :
  snd (xi_parser fs_cycle3 true true false true uri_cycle3 top_cycle3) =
  [E_CircularInclusionLoop; E_IncludeFailedResourceError; E_IncludeFailedNoFallback] /\
  xi_spec_doc fs_cycle3 (enough_fuel fs_cycle3 top_cycle3) uri_cycle3 top_cycle3 = inl XE_Loop.
Proof. vm_compute. split; reflexivity. Qed.
Example T20_loop_example_self :
  snd (xi_parser fs_self true true false true uri_self top_self) =
  [E_CircularInclusionDocIncludesSelf; E_IncludeFailedResourceError; E_IncludeFailedNoFallback] /\
  xi_spec_doc fs_self (enough_fuel fs_self top_self) uri_self top_self = inl XE_Loop.
Proof. vm_compute. split; reflexivity. Qed.

(** ---- refutations: the behaviours behind the findings violate the Spec ---------------------------------
    each with the switch of that finding off and the others on; the Spec accepts the document *)
Definition model_matches (r : doc_result * list err) (uri : path) (s : sres) : Prop :=
  match r, s with (D_ok l, e), inr t => existsb is_fatal e = false /\ map (annot uri) l = t | _, _ => False end.

(** C20-F1 (repaired in /repo, 310c4f3): the parser processed an include inside an unused fallback *)
Example T20_eager_fallback_refuted :
  spec_ok (xi_spec_doc fs_f1 (enough_fuel fs_f1 top_f1) uri_f1 top_f1) = true /\
  existsb is_fatal (snd (xi_parser fs_f1 true true true false uri_f1 top_f1)) = true /\
  model_matches (xi_parser fs_f1 true true true true uri_f1 top_f1) uri_f1 (xi_spec_doc fs_f1 (enough_fuel fs_f1 top_f1) uri_f1 top_f1).
Proof. vm_compute. repeat split; reflexivity. Qed.
(** C20-F2 (repaired, 0b3e60b): own xml:base of the included root *)
Example T20_root_base_refuted :
  ~ model_matches (xi_docproc fs_f2 false true true uri_f2 top_f2) uri_f2 (xi_spec_doc fs_f2 (enough_fuel fs_f2 top_f2) uri_f2 top_f2) /\
  model_matches (xi_docproc fs_f2 true true true uri_f2 top_f2) uri_f2 (xi_spec_doc fs_f2 (enough_fuel fs_f2 top_f2) uri_f2 top_f2).
Proof. vm_compute. split; [intros [_ H]; discriminate H|split; reflexivity]. Qed.
(** C20-F4 (repaired, 440f5a3): "nodir/../t.xml" *)
Example T20_prepend_refuted :
  existsb is_fatal (snd (xi_docproc fs_f4 true false true uri_f4 top_f4)) = true /\
  model_matches (xi_docproc fs_f4 true true true uri_f4 top_f4) uri_f4 (xi_spec_doc fs_f4 (enough_fuel fs_f4 top_f4) uri_f4 top_f4).
Proof. vm_compute. repeat split; reflexivity. Qed.
(** C20-F7 (repaired, 7545b06): the include's own xml:base names the target, no fix-up was made *)
Example T20_fixup_compare_refuted :
  ~ model_matches (xi_docproc fs_f7 true true false uri_f7 top_f7) uri_f7 (xi_spec_doc fs_f7 (enough_fuel fs_f7 top_f7) uri_f7 top_f7) /\
  model_matches (xi_docproc fs_f7 true true true uri_f7 top_f7) uri_f7 (xi_spec_doc fs_f7 (enough_fuel fs_f7 top_f7) uri_f7 top_f7).
Proof. vm_compute. split; [intros [_ H]; discriminate H|split; reflexivity]. Qed.
(** C20-F5 (known finding): the document element vanishes and nothing is reported (all repairs on) *)
Example T20_root_vanishes_refuted :
  xi_spec_doc fs_f5 (enough_fuel fs_f5 top_f5) uri_f5 top_f5 = inl XE_RootShape /\
  xi_parser fs_f5 true true true true uri_f5 top_f5 = (D_ok [], [E_IncludeFailedResourceError]).
Proof. vm_compute. split; reflexivity. Qed.

(** ---- XMLUri character tables (regenerated from /repo's XMLUri.cpp on every run) ---------------------------------
    every character that RFC 2396 allows unescaped in a path segment (letters, digits, - _ . ! ~ * ' ( ) : @ & = + $ ,)
    is accepted by XMLUri's path scan: hrefs and xml:base values with such names resolve (the XInclude base fix-up
    puts them through XMLUri) *)
Theorem T20_uri_pchars_accepted : forall c, In c rfc_pchar_unescaped -> xmluri_accepts_in_path c = true.
Proof. exact uri_pchars. Qed.
Print Assumptions T20_uri_pchars_accepted.
(** mark = RFC mark, reserved and scheme tables contain the RFC sets, ';' '/' are path characters, and nothing outside
    reserved + mark is a path character *)
Theorem T20_uri_tables : uri_tables_ok = true.
Proof. exact uri_tables_ok_true. Qed.
Print Assumptions T20_uri_tables.

(** ---- T20_text_rounds (bounded instances only) ---------------------------------------------------------------------
    Text20.text_rounds models the read / transcode loop of doXIncludeTEXTFileDOM on C05's transcoder models.  The
    general statement "for every well-formed file and every read-size schedule the included text is the decoding of
    the whole file" is NOT proved.  These are exhaustive sweeps of small instances: buffer of 8 bytes, every
    schedule of four reads of 1..6 bytes (then full reads), a file with 2-, 3- and 4-byte characters, so that characters
    are split by a read in every possible way, in several rounds; also UTF-16 (both byte orders) and ISO-8859-1. *)
Definition t_file8 : list N :=   (* a e-acute b euro c U+1F600 d e-acute euro U+1F600 U+1F600 e f *)
  [97; 195;169; 98; 226;130;172; 99; 240;159;152;128; 100; 195;169; 226;130;172; 240;159;152;128; 240;159;152;128; 101; 102].
Example T20_text_rounds_utf8_sweep :
  forallb (rounds_ok Enc_utf8 8 t_file8) (schedules 6 4) = true /\ length (schedules 6 4) = 1296%nat.
Proof. vm_compute. split; reflexivity. Qed.
Example T20_text_rounds_utf16_latin1_sweep :
  forallb (rounds_ok (Enc_utf16 false) 8 [97;0; 233;0; 172;32; 61;216; 0;222; 98;0]) (schedules 6 3) = true /\
  forallb (rounds_ok (Enc_utf16 true) 8 [0;97; 0;233; 32;172; 216;61; 222;0; 0;98]) (schedules 6 3) = true /\
  forallb (rounds_ok Enc_latin1 8 [97; 233; 255; 60; 38; 62; 98; 99; 100; 101]) (schedules 6 3) = true.
Proof. vm_compute. repeat split; reflexivity. Qed.
