(** Property C20 -- XInclude processing yields the specified merged tree and detects inclusion loops. *)
From Coq Require Import NArith List Bool.
Import ListNotations.
From XV Require Import C20.Spec20 C20.Model20.
Local Open Scope N_scope.

Example ex_smoke : xi_docproc [] true true false [[1]] [Elem 0 [97] [] []] = (D_ok [Elem 0 [97] [] []], []).
Proof. vm_compute. reflexivity. Qed.
