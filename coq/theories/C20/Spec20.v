(** Specification for property C20: XInclude 1.0 (W3C Recommendation, second edition) section 4
    "Processing Model" as a recursive function over an abstract file system.

    Nothing here refers to the C++ code.  Documents are trees of elements (namespace number, local
    name, attributes, children), text and comments.  Strings are lists of code points.  URIs are
    *paths*: lists of segments (the text between '/' characters) counted from the root of the file
    system; an empty last segment stands for a trailing '/'.

    What [resolve] abstracts (RFC 3986 5.2 restricted to what the property's quantifier generates):
    only relative references consisting of path segments are treated (no scheme, authority, query,
    fragment, no "." segments, no empty reference); ".." segments are removed together with the
    preceding segment; ".." that would climb above the root are kept. *)
From Coq Require Import NArith List Bool.
Import ListNotations.
Local Open Scope N_scope.

Definition str := list N.
Definition path := list str.

Fixpoint str_eqb (a b : str) : bool :=
  match a, b with
  | [], [] => true
  | x :: a', y :: b' => (x =? y) && str_eqb a' b'
  | _, _ => false
  end.
Fixpoint path_eqb (a b : path) : bool :=
  match a, b with
  | [], [] => true
  | x :: a', y :: b' => str_eqb x y && path_eqb a' b'
  | _, _ => false
  end.
Fixpoint path_mem (p : path) (l : list path) : bool :=
  match l with [] => false | q :: r => path_eqb p q || path_mem p r end.

(** namespace numbers: 0 = no namespace, 1 = http://www.w3.org/2001/XInclude,
    2 = http://www.w3.org/XML/1998/namespace, 3.. = any other namespace *)
Definition NS_NONE : N := 0.
Definition NS_XI : N := 1.
Definition NS_XML : N := 2.

Definition attr := (N * str * str)%type.          (* namespace, local name, value *)
Inductive node :=
| Elem (ns : N) (name : str) (attrs : list attr) (kids : list node)
| Text (s : str)
| Comment (s : str).

(** a directory is listed under its path followed by an empty segment ("a/b/") *)
Inductive file := FDoc (top : list node) | FText (s : str) | FDir.
Definition fsys := list (path * file).
Fixpoint lookup (fs : fsys) (p : path) : option file :=
  match fs with
  | [] => None
  | (q, f) :: r => if path_eqb p q then Some f else lookup r p
  end.

(** ASCII names used by XInclude *)
Definition s_include : str := [105;110;99;108;117;100;101].
Definition s_fallback : str := [102;97;108;108;98;97;99;107].
Definition s_href : str := [104;114;101;102].
Definition s_parse : str := [112;97;114;115;101].
Definition s_xpointer : str := [120;112;111;105;110;116;101;114].
Definition s_encoding : str := [101;110;99;111;100;105;110;103].
Definition s_xml : str := [120;109;108].
Definition s_text : str := [116;101;120;116].
Definition s_base : str := [98;97;115;101].
Definition dotdot : str := [46;46].
Definition SLASH : N := 47.

Definition is_include (ns : N) (nm : str) : bool := (ns =? NS_XI) && str_eqb nm s_include.
Definition is_fallback (ns : N) (nm : str) : bool := (ns =? NS_XI) && str_eqb nm s_fallback.

Fixpoint get_attr (ns : N) (nm : str) (l : list attr) : option str :=
  match l with
  | [] => None
  | (n, m, v) :: r => if (n =? ns) && str_eqb m nm then Some v else get_attr ns nm r
  end.
Definition is_base_attr (a : attr) : bool :=
  match a with (n, m, _) => (n =? NS_XML) && str_eqb m s_base end.
Definition get_base_attr (l : list attr) : option str := get_attr NS_XML s_base l.
Definition drop_base_attr (l : list attr) : list attr := filter (fun a => negb (is_base_attr a)) l.

(** ---- paths ------------------------------------------------------------------------------ *)
(** split a string at '/' *)
Fixpoint split_go (cur : str) (s : str) : path :=
  match s with
  | [] => [rev cur]
  | c :: r => if c =? SLASH then rev cur :: split_go [] r else split_go (c :: cur) r
  end.
Definition split_slash (s : str) : path := split_go [] s.
Fixpoint join_slash (p : path) : str :=
  match p with
  | [] => []
  | [s] => s
  | s :: r => s ++ SLASH :: join_slash r
  end.

(** everything up to and including the last '/' *)
Definition dir (p : path) : path := removelast p.

(** remove "seg/.." pairs, left to right, with an explicit stack (top of the stack first) *)
Fixpoint norm_go (stk : list str) (p : path) : path :=
  match p with
  | [] => rev stk
  | s :: r =>
    if str_eqb s dotdot then
      match stk with
      | t :: stk' => if str_eqb t dotdot then norm_go (s :: stk) r else norm_go stk' r
      | [] => norm_go (s :: stk) r
      end
    else norm_go (s :: stk) r
  end.
Definition norm (p : path) : path := norm_go [] p.

(** target of the relative reference [ref] used where the base URI is [base] *)
Definition resolve (base : path) (ref : path) : path := norm (dir base ++ ref).

(** base URI of an element with attributes [at] whose parent has base URI [base] (XML Base) *)
Definition elem_base (base : path) (at_ : list attr) : path :=
  match get_base_attr at_ with
  | Some (c :: v) => resolve base (split_slash (c :: v))
  | _ => base
  end.

(** ---- result infoset: every element carries its base URI; xml:base attributes are not part of
    the compared attribute list ---------------------------------------------------------------- *)
Inductive snode :=
| SElem (ns : N) (name : str) (base : path) (attrs : list attr) (kids : list snode)
| SText (s : str)
| SComment (s : str).

Fixpoint annot (base : path) (n : node) : snode :=
  match n with
  | Elem ns nm at_ kids =>
    let b := elem_base base at_ in
    SElem ns nm b (drop_base_attr at_) (map (annot b) kids)
  | Text s => SText s
  | Comment s => SComment s
  end.

Fixpoint erase_base (n : snode) : snode :=
  match n with
  | SElem ns nm _ at_ kids => SElem ns nm [] at_ (map erase_base kids)
  | o => o
  end.

(** ---- XInclude processing ------------------------------------------------------------------ *)
Inductive xerr :=
| XE_Loop            (* 4.2.7: inclusion loop, incl. a document that includes itself *)
| XE_NoHref          (* 3.1: href absent (and no xpointer): outside what is supported *)
| XE_XPointer        (* 3.1: xpointer must not be present when parse="text"; (xpointer is unsupported otherwise) *)
| XE_BadParse        (* 3.1: values other than "xml" and "text" are a fatal error *)
| XE_MultiFallback   (* 3.1: more than one xi:fallback child *)
| XE_DisallowedChild (* 3.1: xi:include or another XInclude-namespace element as child of xi:include *)
| XE_OrphanFallback  (* 3.2: xi:fallback whose parent is not xi:include *)
| XE_NoFallback      (* 4.4: resource error and no xi:fallback *)
| XE_RootShape       (* 4.5.1: include as document element replaced by something else than one element (+comments) *)
| XE_Fuel.

Inductive fb_scan := FS_ok (fb : option (list attr * list node)) | FS_multi | FS_disallowed.
Fixpoint scan_fallback (kids : list node) (found : option (list attr * list node)) : fb_scan :=
  match kids with
  | [] => FS_ok found
  | Elem ns nm at_ k :: r =>
    if is_fallback ns nm then
      match found with Some _ => FS_multi | None => scan_fallback r (Some (at_, k)) end
    else if ns =? NS_XI then FS_disallowed
    else scan_fallback r found
  | _ :: r => scan_fallback r found
  end.

(** which encoding names of a text inclusion are supported is left open by XInclude (an unsupported one is a
    resource error); here: the attribute is absent or its value does not start with '?' (the convention of
    the property's generator for a name that no implementation knows) *)
Definition encoding_ok (enc : option str) : bool :=
  match enc with Some (63 :: _) => false | _ => true end.

Definition sres := sum xerr (list snode).

Section Spec.
Variable fs : fsys.

(** monadic concat-map over children *)
Fixpoint smap (f : node -> sres) (l : list node) : sres :=
  match l with
  | [] => inr []
  | n :: r =>
    match f n with
    | inl e => inl e
    | inr a => match smap f r with inl e => inl e | inr b => inr (a ++ b) end
    end
  end.

(** [xi_spec fuel onpath base n]: the information items that replace [n].
    [onpath] = URIs of the documents on the current inclusion path (the document being processed first),
    [base] = base URI in force at the parent of [n]. *)
Fixpoint xi_spec (fuel : nat) (onpath : list path) (base : path) (n : node) {struct fuel} : sres :=
  match n with
  | Text s => inr [SText s]
  | Comment s => inr [SComment s]
  | Elem ns nm at_ kids =>
    match fuel with
    | O => inl XE_Fuel
    | S f =>
      let b := elem_base base at_ in
      if is_include ns nm then
        match scan_fallback kids None with
        | FS_multi => inl XE_MultiFallback
        | FS_disallowed => inl XE_DisallowedChild
        | FS_ok fb =>
          match get_attr NS_NONE s_href at_ with
          | None => inl XE_NoHref
          | Some href =>
            match get_attr NS_NONE s_xpointer at_ with
            | Some _ => inl XE_XPointer
            | None =>
              let parse := match get_attr NS_NONE s_parse at_ with Some p => p | None => s_xml end in
              let target := resolve b (split_slash href) in
              let fallback :=
                  match fb with
                  | None => inl XE_NoFallback
                  | Some (fat, fkids) => smap (xi_spec f onpath (elem_base b fat)) fkids
                  end in
              if str_eqb parse s_xml then
                if path_mem target onpath then inl XE_Loop
                else match lookup fs target with
                     | Some (FDoc top) => smap (xi_spec f (target :: onpath) target) top
                     | _ => fallback
                     end
              else if str_eqb parse s_text then
                if negb (encoding_ok (get_attr NS_NONE s_encoding at_)) then fallback else
                match lookup fs target with
                | Some (FText s) => inr [SText s]
                | _ => fallback
                end
              else inl XE_BadParse
            end
          end
        end
      else if is_fallback ns nm then inl XE_OrphanFallback
      else
        match smap (xi_spec f onpath b) kids with
        | inl e => inl e
        | inr ks => inr [SElem ns nm b (drop_base_attr at_) ks]
        end
    end
  end.

(** Diagnostics of an accepted document: the only thing there is to report are the resource errors that are met and
    recovered from through xi:fallback (4.4) -- nothing is reported for content that is never processed, in
    particular not for an xi:fallback that is not used, however deep an xi:include sits in it.
    [xi_resource_errors] = (resource errors, those of them that concern a text inclusion). *)
Definition padd (a b : nat * nat) : nat * nat := (fst a + fst b, snd a + snd b)%nat.
Definition psum (f : node -> nat * nat) (l : list node) : nat * nat := fold_right (fun n a => padd (f n) a) (O, O) l.
Fixpoint xi_resource_errors (fuel : nat) (onpath : list path) (base : path) (n : node) {struct fuel} : nat * nat :=
  match n with
  | Elem ns nm at_ kids =>
    match fuel with
    | O => (O, O)
    | S f =>
      let b := elem_base base at_ in
      if is_include ns nm then
        match scan_fallback kids None, get_attr NS_NONE s_href at_, get_attr NS_NONE s_xpointer at_ with
        | FS_ok fb, Some href, None =>
          let parse := match get_attr NS_NONE s_parse at_ with Some p => p | None => s_xml end in
          let target := resolve b (split_slash href) in
          let fallback := match fb with
                          | Some (fat, fkids) => psum (xi_resource_errors f onpath (elem_base b fat)) fkids
                          | None => (O, O)
                          end in
          if str_eqb parse s_xml then
            if path_mem target onpath then (O, O)
            else match lookup fs target with
                 | Some (FDoc top) => psum (xi_resource_errors f (target :: onpath) target) top
                 | _ => padd (1%nat, O) fallback
                 end
          else if str_eqb parse s_text then
            if negb (encoding_ok (get_attr NS_NONE s_encoding at_)) then padd (1%nat, 1%nat) fallback else
            match lookup fs target with
            | Some (FText _) => (O, O)
            | _ => padd (1%nat, 1%nat) fallback
            end
          else (O, O)
        | _, _, _ => (O, O)
        end
      else if is_fallback ns nm then (O, O)
      else psum (xi_resource_errors f onpath b) kids
    end
  | _ => (O, O)
  end.
Definition xi_resource_errors_doc (fuel : nat) (uri : path) (top : list node) : nat * nat :=
  psum (xi_resource_errors fuel [uri] uri) top.

(** a document is a list of top-level nodes (comments and one element); the result must again have
    exactly the shape of a document *)
Fixpoint count_elems (l : list snode) : nat :=
  match l with [] => O | SElem _ _ _ _ _ :: r => S (count_elems r) | _ :: r => count_elems r end.
(** white space (XML 1.0 production S) between the children of a document is not part of the infoset: character
    data at the top level counts only if it is not white space *)
Definition is_ws (s : str) : bool := forallb (fun c => (c =? 32) || (c =? 9) || (c =? 10) || (c =? 13)) s.
Fixpoint has_text (l : list snode) : bool :=
  match l with [] => false | SText s :: r => negb (is_ws s) || has_text r | _ :: r => has_text r end.

Definition xi_spec_doc (fuel : nat) (uri : path) (top : list node) : sres :=
  match smap (xi_spec fuel [uri] uri) top with
  | inl e => inl e
  | inr l => if has_text l || negb (Nat.eqb (count_elems l) 1) then inl XE_RootShape else inr l
  end.
End Spec.
