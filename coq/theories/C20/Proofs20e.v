(** C20 lemmas, part e: whole documents (XIncludeDOMDocumentProcessor) against [xi_spec_doc]. *)
From Coq Require Import NArith List Bool Lia Arith.
Import ListNotations.
From XV Require Import C20.Spec20 C20.Model20 C20.Hyps20 C20.Proofs20a C20.Proofs20c C20.Proofs20d.
Local Open Scope N_scope.

Lemma count_elem_app : forall a b, count_elem_nodes (a ++ b) = (count_elem_nodes a + count_elem_nodes b)%nat.
Proof. induction a as [|n a IH]; intros b; [reflexivity|]. destruct n; cbn [app count_elem_nodes]; rewrite IH; reflexivity. Qed.
Lemma has_text_app : forall a b, has_text_node (a ++ b) = has_text_node a || has_text_node b.
Proof.
  induction a as [|n a IH]; intros b; [reflexivity|]. destruct n; cbn [app has_text_node]; auto.
  rewrite IH, orb_assoc. reflexivity.
Qed.

Lemma split_root_spec : forall l acc pre root post, split_root acc l = Some (pre, root, post) ->
  rev acc ++ l = pre ++ root :: post /\ (exists ns nm a k, root = Elem ns nm a k) /\
  (count_elem_nodes (rev acc) = O -> count_elem_nodes pre = O).
Proof.
  induction l as [|n l IH]; intros acc pre root post H; cbn [split_root] in H; [discriminate|].
  destruct n as [ns nm a k|t|t].
  - inversion H; subst. split; [reflexivity|]. split; [eauto|]. auto.
  - apply IH in H. cbn [rev] in H. rewrite <- app_assoc in H. destruct H as [H1 [H2 H3]]. split; [exact H1|].
    split; [exact H2|]. intros C. apply H3. rewrite count_elem_app, C. reflexivity.
  - apply IH in H. cbn [rev] in H. rewrite <- app_assoc in H. destruct H as [H1 [H2 H3]]. split; [exact H1|].
    split; [exact H2|]. intros C. apply H3. rewrite count_elem_app, C. reflexivity.
Qed.

(** the errors [inc_resolve] can report *)
Definition inc_errs : list err :=
  [E_MultipleFallbackElems; E_DisallowedChild; E_NoHref; E_XPointerNotSupported; E_InvalidParseVal;
   E_IncludeFailedResourceError; E_IncludeFailedNoFallback; E_CircularInclusionLoop;
   E_CircularInclusionDocIncludesSelf; E_CannotOpenFile].

Lemma inc_resolve_errs : forall fs docuri fixb fixn fixc hist base at_ kids r e x,
  inc_resolve fs docuri fixb fixn fixc hist base at_ kids = (r, e) -> In x e -> In x inc_errs.
Proof.
  intros fs docuri fixb fixn fixc hist base at_ kids r e x H HI. unfold inc_resolve in H.
  assert (S1 : forall y, In x [y] -> In y inc_errs -> In x inc_errs) by (intros y [A|[]] B; subst; exact B).
  destruct (scan_fallback kids None) as [fb| |];
    try (inversion H; subst; eapply S1; [exact HI|cbn; tauto]).
  destruct (get_attr NS_NONE s_href at_) as [href|]; [|inversion H; subst; eapply S1; [exact HI|cbn; tauto]].
  destruct (get_attr NS_NONE s_xpointer at_); [inversion H; subst; eapply S1; [exact HI|cbn; tauto]|].
  assert (FB : forall e0 r0 e1, (forall y, In y e0 -> In y inc_errs) ->
             match fb with
             | Some (fat, fkids) =>
               (IR_repl (map (fix_fb_child fixn (negb (path_eqb base (elem_base (elem_base base at_) fat))) (get_base_attr at_)) fkids) hist,
                e0 ++ [E_IncludeFailedResourceError])
             | None => (IR_fail, e0 ++ [E_IncludeFailedResourceError; E_IncludeFailedNoFallback])
             end = (r0, e1) -> forall y, In y e1 -> In y inc_errs).
  { intros e0 r0 e1 H0 HF y Hy. destruct fb as [[fat fkids]|]; inversion HF; subst;
      apply in_app_or in Hy; destruct Hy as [Hy|Hy]; try (apply H0; exact Hy); cbn [In] in Hy;
      repeat (destruct Hy as [Hy|Hy]; [subst; cbn; tauto|]); destruct Hy. }
  assert (N0 : forall y, In y (@nil err) -> In y inc_errs) by (intros y []).
  assert (N1 : forall y, In y [E_CircularInclusionLoop] -> In y inc_errs) by (intros y [A|[]]; subst; cbn; tauto).
  assert (N2 : forall y, In y [E_CircularInclusionDocIncludesSelf] -> In y inc_errs) by (intros y [A|[]]; subst; cbn; tauto).
  assert (N3 : forall y, In y [E_CannotOpenFile] -> In y inc_errs) by (intros y [A|[]]; subst; cbn; tauto).
  destruct (str_eqb _ s_xml).
  - destruct (path_mem _ hist); [eapply FB; [exact N1|exact H|exact HI]|].
    destruct (path_eqb _ docuri); [eapply FB; [exact N2|exact H|exact HI]|].
    destruct (fetch fs fixn _ _) as [[top|s|]|]; try (eapply FB; [exact N0|exact H|exact HI]).
    inversion H; subst. destruct HI.
  - destruct (str_eqb _ s_text); [|inversion H; subst; eapply S1; [exact HI|cbn; tauto]].
    destruct (negb (encoding_ok _)); [eapply FB; [exact N3|exact H|exact HI]|].
    destruct (fetch fs fixn _ _) as [[top|s|]|]; try (eapply FB; [exact N3|exact H|exact HI]).
    inversion H; subst. destruct HI.
Qed.

Lemma walk_list_in : forall rec l x, In x (snd (walk_list rec l)) -> exists c, In c l /\ In x (snd (rec c)).
Proof.
  intros rec l x. induction l as [|n l IH]; intros H; [destruct H|]. rewrite walk_list_cons in H. cbn [snd] in H.
  apply in_app_or in H. destruct H as [H|H]; [exists n; split; [left; reflexivity|exact H]|].
  destruct (IH H) as [c [C1 C2]]. exists c. split; [right; exact C1|exact C2].
Qed.

(** below the document level no DOMException can arise *)
Lemma walk_no_exc : forall fs docuri fixb fixn fixc fuel hist base n,
  ~ In E_HierarchyExc (snd (walk fs docuri fixb fixn fixc fuel false hist base n)).
Proof.
  intros fs docuri fixb fixn fixc. induction fuel as [|f IH]; intros hist base n HI.
  - destruct n; cbn [walk snd In] in HI; intuition discriminate.
  - destruct n as [ns nm at_ kids|s|s]; cbn [walk] in HI; try (destruct HI; fail).
    destruct (is_include ns nm).
    + destruct (inc_resolve fs docuri fixb fixn fixc hist base at_ kids) as [[|nodes h'] e] eqn:IR.
      * cbn [snd] in HI. pose proof (inc_resolve_errs _ _ _ _ _ _ _ _ _ _ _ _ IR HI) as B. cbn in B. intuition discriminate.
      * cbn [andb] in HI. destruct (walk_list _ nodes) as [r e2] eqn:WL. cbn [snd] in HI. apply in_app_or in HI.
        destruct HI as [HI|HI].
        -- pose proof (inc_resolve_errs _ _ _ _ _ _ _ _ _ _ _ _ IR HI) as B. cbn in B. intuition discriminate.
        -- assert (HI' : In E_HierarchyExc (snd (walk_list (walk fs docuri fixb fixn fixc f false h' base) nodes)))
             by (rewrite WL; exact HI).
           apply walk_list_in in HI'. destruct HI' as [c [_ C]]. exact (IH _ _ _ C).
    + destruct (is_fallback ns nm); [cbn [snd In] in HI; intuition discriminate|].
      destruct (walk_list _ kids) as [r e2] eqn:WL. cbn [snd] in HI.
      assert (HI' : In E_HierarchyExc (snd (walk_list (walk fs docuri fixb fixn fixc f false hist (elem_base base at_)) kids)))
        by (rewrite WL; exact HI).
      apply walk_list_in in HI'. destruct HI' as [c [_ C]]. exact (IH _ _ _ C).
Qed.

Lemma cut_no_exc : forall e, ~ In E_HierarchyExc e -> cut_at_exc e = (e, false).
Proof.
  induction e as [|x e IH]; intros H; [reflexivity|]. cbn [cut_at_exc].
  assert (H' : ~ In E_HierarchyExc e) by (intro A; apply H; right; exact A).
  destruct x; try (rewrite (IH H'); reflexivity). exfalso. apply H. left. reflexivity.
Qed.

Lemma walk_list_nonelem : forall fs docuri fixb fixn fixc fuel atdoc hist base l, count_elem_nodes l = O ->
  walk_list (walk fs docuri fixb fixn fixc fuel atdoc hist base) l = (l, []).
Proof.
  intros fs docuri fixb fixn fixc fuel atdoc hist base. induction l as [|n l IH]; intros H; [reflexivity|].
  rewrite walk_list_cons. destruct n as [ns nm a k|t|t]; cbn [count_elem_nodes] in H; [discriminate| |];
    rewrite (IH H); destruct fuel; reflexivity.
Qed.
Lemma walk_list_app : forall rec a b,
  walk_list rec (a ++ b) = (fst (walk_list rec a) ++ fst (walk_list rec b), snd (walk_list rec a) ++ snd (walk_list rec b)).
Proof.
  intros rec a b. induction a as [|n a IH]; [cbn [app]; destruct (walk_list rec b); reflexivity|].
  cbn [app]. rewrite !walk_list_cons, IH. cbn [fst snd]. rewrite !app_assoc. reflexivity.
Qed.

Lemma annot_counts : forall base l,
  count_elems (map (annot base) l) = count_elem_nodes l /\
  (has_text_node l = false -> has_text (map (annot base) l) = false).
Proof.
  intros base. induction l as [|n l [I1 I2]]; [split; reflexivity|].
  destruct n; cbn [map annot count_elems count_elem_nodes has_text has_text_node]; split; auto.
  intros H. apply orb_false_iff in H. destruct H as [H1 H2]. rewrite (I2 H2).
  apply negb_false_iff in H1. destruct s; [discriminate|]. cbn [doc_text_ok] in H1. rewrite H1. reflexivity.
Qed.

(** documents whose document element is not itself an xi:include *)
Theorem docproc_expansion : forall fs uri top pre ns nm a k post,
  clean_fs fs = true -> clean_doc top = true -> has_text_node top = false ->
  split_root [] top = Some (pre, Elem ns nm a k, post) -> is_include ns nm = false ->
  match xi_spec_doc fs (enough_fuel fs top) uri top with
  | inr t => exists r e, xi_docproc fs true true true uri top = (D_ok r, e) /\
                         existsb is_fatal e = false /\ map (annot uri) r = t
  | inl x => x <> XE_Fuel /\ x <> XE_RootShape /\ reports x (snd (xi_docproc fs true true true uri top))
  end.
Proof.
  intros fs uri top pre ns nm a k post CFS CD HT SR NI.
  pose proof (docproc_no_fuel fs true true true uri top) as NF.
  destruct (split_root_spec _ _ _ _ _ SR) as [ET [_ CP]]. cbn [rev app] in ET. specialize (CP eq_refl).
  unfold clean_doc in CD. apply andb_true_iff in CD. destruct CD as [CN CL]. apply Nat.leb_le in CL.
  assert (CPost : count_elem_nodes post = O).
  { rewrite ET, count_elem_app in CL. cbn [count_elem_nodes] in CL. lia. }
  unfold xi_docproc in *. rewrite SR in *. unfold root_step in *. cbv beta iota in *. rewrite NI in *.
  set (F := enough_fuel fs top) in *.
  assert (WA : walk fs uri true true true F true [] uri (Elem ns nm a k) = walk fs uri true true true F false [] uri (Elem ns nm a k)).
  { destruct F; cbn [walk]; [reflexivity|rewrite NI; reflexivity]. }
  rewrite WA in *.
  (* the model on every top-level node *)
  pose proof (agrees_list (xi_spec fs F ([] ++ [uri]) uri) (walk fs uri true true true F false [] uri) uri top top) as AL.
  assert (F2 : Forall2 (fun m s => agrees uri (walk fs uri true true true F false [] uri m) (xi_spec fs F ([] ++ [uri]) uri s)) top top).
  { eapply Forall2_impl; [|exact (sim_refl_list uri top CN)]. intros m0 s0 Hms. apply sim_walk; assumption. }
  specialize (AL F2). cbn [app] in AL.
  assert (WL : walk_list (walk fs uri true true true F false [] uri) top =
               (pre ++ fst (walk fs uri true true true F false [] uri (Elem ns nm a k)) ++ post,
                snd (walk fs uri true true true F false [] uri (Elem ns nm a k)))).
  { rewrite ET. change (pre ++ Elem ns nm a k :: post) with (pre ++ [Elem ns nm a k] ++ post).
    rewrite !walk_list_app. rewrite (walk_list_nonelem _ _ _ _ _ _ _ _ _ pre CP), (walk_list_nonelem _ _ _ _ _ _ _ _ _ post CPost).
    rewrite walk_list_cons. cbn [fst snd walk_list fold_right]. rewrite !app_nil_r. reflexivity. }
  rewrite WL in AL.
  destruct (walk fs uri true true true F false [] uri (Elem ns nm a k)) as [r e] eqn:W.
  cbn [fst snd] in *.
  assert (NX : ~ In E_HierarchyExc e).
  { intro HI. apply (walk_no_exc fs uri true true true F [] uri (Elem ns nm a k)). rewrite W. exact HI. }
  unfold finish in *. cbn [snd] in *. rewrite (cut_no_exc e NX) in *. cbn [snd] in NF.
  unfold xi_spec_doc. destruct (smap (xi_spec fs F [uri] uri) top) as [x|l].
  - cbn [agrees snd] in AL. split; [intro; subst x; exact (NF AL)|].
    split; [intro; subst x; exact (NX AL)|exact AL].
  - destruct AL as [A1 A2]. cbn [fst snd] in A1, A2.
    (* the result has the shape of a document *)
    assert (RS : exists ks, r = [Elem ns nm a ks]).
    { destruct F; cbn [walk] in W; [inversion W; eauto|]. rewrite NI in W.
      destruct (is_fallback ns nm); [inversion W; eauto|]. destruct (walk_list _ k) as [ks e']. inversion W. eauto. }
    destruct RS as [ks RS]. subst r.
    destruct (annot_counts uri (pre ++ [Elem ns nm a ks] ++ post)) as [C1 C2]. rewrite A2 in C1, C2.
    rewrite ET in HT. change (pre ++ Elem ns nm a k :: post) with (pre ++ [Elem ns nm a k] ++ post) in HT.
    rewrite !has_text_app in HT. cbn [has_text_node] in HT. apply orb_false_iff in HT. destruct HT as [HT1 HT2].
    cbn [orb] in HT2.
    rewrite C2 by (rewrite !has_text_app; cbn [has_text_node]; rewrite HT1, HT2; reflexivity).
    rewrite C1. rewrite !count_elem_app. cbn [count_elem_nodes]. rewrite CP, CPost. cbn.
    exists (pre ++ [Elem ns nm a ks] ++ post), e. split; [reflexivity|]. split; [exact A1|exact A2].
Qed.
