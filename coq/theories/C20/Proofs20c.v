(** C20 lemmas, part c: path algebra ("seg/.." removal, directory, split/join of '/'-separated strings). *)
From Coq Require Import NArith List Bool Lia Arith.
Import ListNotations.
From XV Require Import C20.Spec20 C20.Model20 C20.Hyps20.
Local Open Scope N_scope.


Definition push (stk : list str) (s : str) : list str :=
  if is_dd s then
    match stk with
    | t :: stk' => if is_dd t then s :: stk else stk'
    | [] => s :: stk
    end
  else s :: stk.
Definition run (stk : list str) (p : path) : list str := fold_left push p stk.

Lemma norm_go_run : forall p stk, norm_go stk p = rev (run stk p).
Proof.
  induction p as [|s p IH]; intros stk; cbn [norm_go run fold_left]; [reflexivity|].
  fold (run (push stk s) p). unfold push, is_dd.
  destruct (str_eqb s dotdot); [|apply IH].
  destruct stk as [|t stk']; [apply IH|]. destruct (str_eqb t dotdot); apply IH.
Qed.
Lemma norm_run : forall p, norm p = rev (run [] p).
Proof. intros p. apply norm_go_run. Qed.

Lemma run_app : forall p q stk, run stk (p ++ q) = run (run stk p) q.
Proof. intros. unfold run. apply fold_left_app. Qed.
Lemma run_snoc : forall p s stk, run stk (p ++ [s]) = push (run stk p) s.
Proof. intros. rewrite run_app. reflexivity. Qed.

(** normalising a part first does not change the result *)
Lemma run_norm : forall r stk, run stk (rev (run [] r)) = run stk r.
Proof.
  induction r as [|s r' IH] using rev_ind; intros stk; [reflexivity|].
  rewrite !run_snoc. rewrite <- (IH stk). set (T := run [] r').
  unfold push at 1. destruct (is_dd s) eqn:Ds.
  - destruct T as [|t T'] eqn:ET.
    + cbn [rev app run fold_left]. reflexivity.
    + destruct (is_dd t) eqn:Dt.
      * change (rev (s :: t :: T')) with (rev (t :: T') ++ [s]). rewrite run_snoc. reflexivity.
      * change (rev (t :: T')) with (rev T' ++ [t]). rewrite run_snoc.
        unfold push at 2. rewrite Dt. unfold push. rewrite Ds, Dt. reflexivity.
  - change (rev (s :: T)) with (rev T ++ [s]). rewrite run_snoc. reflexivity.
Qed.

Lemma run_norm_app : forall b c stk, run stk (norm b ++ c) = run stk (b ++ c).
Proof. intros b c stk. rewrite !run_app, norm_run, run_norm. reflexivity. Qed.
Lemma run_norm_pinned_app : forall b c stk, run stk (norm_pinned b ++ c) = run stk (b ++ c).
Proof.
  intros [|b0 br] c stk; [reflexivity|]. cbn [norm_pinned app run fold_left].
  fold (run (push stk b0) (norm br ++ c)). fold (run (push stk b0) (br ++ c)). apply run_norm_app.
Qed.
Lemma norm_norm_pinned_app : forall a b c, norm (a ++ norm_pinned b ++ c) = norm (a ++ b ++ c).
Proof.
  intros a b c. rewrite !norm_run. f_equal. rewrite (run_app a (norm_pinned b ++ c)), (run_app a (b ++ c)).
  apply run_norm_pinned_app.
Qed.
Lemma norm_norm_app : forall b c, norm (norm b ++ c) = norm (b ++ c).
Proof. intros b c. rewrite (norm_run (norm b ++ c)), (norm_run (b ++ c)). f_equal. apply run_norm_app. Qed.

Lemma run_snoc_name : forall p l stk, is_dd l = false -> run stk (p ++ [l]) = l :: run stk p.
Proof. intros p l stk H. rewrite run_snoc. unfold push. rewrite H. reflexivity. Qed.
Lemma norm_snoc_name : forall p l, is_dd l = false -> norm (p ++ [l]) = norm p ++ [l].
Proof. intros p l H. rewrite !norm_run, run_snoc_name by exact H. reflexivity. Qed.
Lemma dir_snoc : forall (p : path) l, dir (p ++ [l]) = p.
Proof. intros. unfold dir. apply removelast_last. Qed.

(** a clean path ends in a segment that is not ".." *)
Definition endname (p : path) : Prop := exists p' l, p = p' ++ [l] /\ is_dd l = false.

(** the key fact: resolving [h] against the result of resolving a clean [ib] = concatenating the directory of [ib] *)
Lemma resolve_resolve : forall base ib h, endname ib ->
  resolve (resolve base ib) h = norm (dir base ++ dir ib ++ h).
Proof.
  intros base ib h [i' [l [E Dl]]]. subst ib. unfold resolve. rewrite dir_snoc.
  rewrite app_assoc, norm_snoc_name by exact Dl. rewrite dir_snoc. rewrite norm_norm_app, app_assoc. reflexivity.
Qed.

Lemma norm_pinned_snoc_name : forall p l, is_dd l = false -> norm_pinned (p ++ [l]) = norm_pinned p ++ [l] \/ p = [].
Proof.
  intros [|p0 pr] l H; [right; reflexivity|left]. cbn [app norm_pinned]. rewrite norm_snoc_name by exact H. reflexivity.
Qed.
Lemma endname_norm_pinned : forall p, endname p -> endname (norm_pinned p).
Proof.
  intros p [p' [l [E D]]]. subst p. destruct (norm_pinned_snoc_name p' l D) as [H|H].
  - rewrite H. exists (norm_pinned p'), l. split; [reflexivity|exact D].
  - subst p'. cbn. exists [], l. split; [reflexivity|exact D].
Qed.
Lemma dir_norm_pinned : forall p, endname p -> dir (norm_pinned p) = norm_pinned (dir p).
Proof.
  intros p [p' [l [E D]]]. subst p. rewrite dir_snoc. destruct (norm_pinned_snoc_name p' l D) as [H|H].
  - rewrite H. apply dir_snoc.
  - subst p'. reflexivity.
Qed.
Lemma endname_app : forall a b, endname b -> endname (a ++ b).
Proof. intros a b [p' [l [E D]]]. subst b. exists (a ++ p'), l. rewrite app_assoc. split; [reflexivity|exact D]. Qed.

(** resolving the normalised form is the same *)
Lemma resolve_norm_pinned : forall base b, resolve base (norm_pinned b) = resolve base b.
Proof.
  intros base b. unfold resolve. pose proof (norm_norm_pinned_app (dir base) b []) as H.
  rewrite !app_nil_r in H. exact H.
Qed.

(** [pp true b ref] resolved against [base] = [ref] resolved against ([b] resolved against [base]) *)
Lemma resolve_pp : forall fixn base b ref, endname b ->
  resolve base (pp fixn b ref) = resolve (resolve base b) ref.
Proof.
  intros fixn base b ref Hb. rewrite (resolve_resolve base b ref Hb). unfold pp.
  assert (E : resolve base (dir (norm_pinned b) ++ ref) = norm (dir base ++ dir b ++ ref)).
  { unfold resolve. rewrite (dir_norm_pinned b Hb). apply norm_norm_pinned_app. }
  destruct fixn; [rewrite resolve_norm_pinned|]; exact E.
Qed.
Lemma endname_pp : forall fixn b ref, endname ref -> endname (pp fixn b ref).
Proof.
  intros fixn b ref H. unfold pp. destruct fixn; [apply endname_norm_pinned|]; apply endname_app; exact H.
Qed.

(** ---- split / join ------------------------------------------------------------------------------- *)
Definition noslash (s : str) : Prop := Forall (fun c => (c =? SLASH) = false) s.

Lemma split_go_noslash : forall s cur, noslash s -> split_go cur s = [rev cur ++ s].
Proof.
  induction s as [|c s IH]; intros cur H; cbn [split_go]; [rewrite app_nil_r; reflexivity|].
  inversion H as [|c' s' Hc Hs]; subst. rewrite Hc. rewrite IH by exact Hs. cbn [rev]. rewrite <- app_assoc. reflexivity.
Qed.
Lemma split_go_app_slash : forall s cur rest, noslash s ->
  split_go cur (s ++ SLASH :: rest) = (rev cur ++ s) :: split_go [] rest.
Proof.
  induction s as [|c s IH]; intros cur rest H; cbn [split_go app].
  - rewrite N.eqb_refl, app_nil_r. reflexivity.
  - inversion H as [|c' s' Hc Hs]; subst. rewrite Hc. rewrite IH by exact Hs. cbn [rev]. rewrite <- app_assoc. reflexivity.
Qed.
Lemma split_join : forall p, p <> [] -> Forall noslash p -> split_slash (join_slash p) = p.
Proof.
  induction p as [|s p IH]; intros NE H; [congruence|]. inversion H as [|s' p' Hs Hp]; subst.
  destruct p as [|t p].
  - cbn [join_slash]. unfold split_slash. rewrite split_go_noslash by exact Hs. reflexivity.
  - change (join_slash (s :: t :: p)) with (s ++ SLASH :: join_slash (t :: p)). unfold split_slash.
    rewrite split_go_app_slash by exact Hs. cbn [rev app]. f_equal. apply IH; [discriminate|exact Hp].
Qed.
Lemma split_go_segs : forall s cur, noslash cur -> Forall noslash (split_go cur s) /\ split_go cur s <> [].
Proof.
  induction s as [|c s IH]; intros cur H; cbn [split_go].
  - split; [|discriminate]. constructor; [|constructor]. unfold noslash in *. apply Forall_rev. exact H.
  - destruct (c =? SLASH) eqn:Ec.
    + destruct (IH [] (Forall_nil _)) as [F N]. split; [|discriminate]. constructor; [|exact F].
      unfold noslash in *. apply Forall_rev. exact H.
    + apply IH. constructor; [exact Ec|exact H].
Qed.
Lemma split_segs : forall s, Forall noslash (split_slash s) /\ split_slash s <> [].
Proof. intros s. apply split_go_segs. constructor. Qed.

(** normalisation only drops or keeps segments *)
Lemma run_forall : forall (P : str -> Prop) p stk, Forall P stk -> Forall P p -> Forall P (run stk p).
Proof.
  intros P p. induction p as [|s p IH]; intros stk Hs Hp; cbn [run fold_left]; [exact Hs|].
  inversion Hp as [|s' p' H1 H2]; subst. apply IH; [|exact H2]. unfold push.
  destruct (is_dd s); [|constructor; assumption].
  destruct stk as [|t stk']; [constructor; assumption|].
  destruct (is_dd t); [constructor; assumption|]. inversion Hs; assumption.
Qed.
Lemma norm_forall : forall (P : str -> Prop) p, Forall P p -> Forall P (norm p).
Proof. intros P p H. rewrite norm_run. apply Forall_rev. apply run_forall; [constructor|exact H]. Qed.
Lemma norm_pinned_forall : forall (P : str -> Prop) p, Forall P p -> Forall P (norm_pinned p).
Proof.
  intros P [|p0 pr] H; [constructor|]. inversion H; subst. cbn [norm_pinned]. constructor; [assumption|].
  apply norm_forall. assumption.
Qed.
Lemma dir_forall : forall (P : str -> Prop) (p : path), Forall P p -> Forall P (dir p).
Proof.
  intros P p H. unfold dir. induction p as [|s p IH]; [constructor|]. inversion H; subst.
  destruct p as [|t p]; [constructor|]. cbn [removelast]. constructor; [assumption|]. apply IH. assumption.
Qed.
Lemma pp_forall : forall (P : str -> Prop) fixn b ref, Forall P b -> Forall P ref -> Forall P (pp fixn b ref).
Proof.
  intros P fixn b ref Hb Hr. unfold pp.
  assert (F : Forall P (dir (norm_pinned b) ++ ref)).
  { apply Forall_app. split; [apply dir_forall, norm_pinned_forall; exact Hb|exact Hr]. }
  destruct fixn; [apply norm_pinned_forall|]; exact F.
Qed.

(** first segment *)
Definition hdne (p : path) : Prop := match p with (_ :: _) :: _ => True | _ => False end.
Lemma hdne_norm_pinned : forall p, hdne p -> hdne (norm_pinned p).
Proof. intros [|[|c s] r] H; try destruct H. exact I. Qed.
Lemma hdne_app : forall a b, hdne b -> (a = [] \/ hdne a) -> hdne (a ++ b).
Proof. intros a b Hb [Ha|Ha]; [subst; exact Hb|]. destruct a as [|[|c s] r]; try destruct Ha. exact I. Qed.
Lemma hdne_dir : forall (p : path), hdne p -> dir p = [] \/ hdne (dir p).
Proof.
  intros [|[|c s] r] H; try destruct H. unfold dir. destruct r as [|t r]; [left; reflexivity|right; exact I].
Qed.
Lemma hdne_pp : forall fixn b ref, hdne b -> hdne ref -> hdne (pp fixn b ref).
Proof.
  intros fixn b ref Hb Hr. unfold pp.
  assert (H : hdne (dir (norm_pinned b) ++ ref)).
  { apply hdne_app; [exact Hr|]. apply hdne_dir, hdne_norm_pinned, Hb. }
  destruct fixn; [apply hdne_norm_pinned|]; exact H.
Qed.
Lemma hdne_join : forall p, hdne p -> exists c v, join_slash p = c :: v.
Proof.
  intros [|[|c s] r] H; try destruct H. destruct r as [|t r]; cbn [join_slash]; eexists; eexists; reflexivity.
Qed.
Lemma hdne_split : forall c s, (c =? SLASH) = false -> hdne (split_slash (c :: s)).
Proof.
  intros c s H. unfold split_slash. cbn [split_go]. rewrite H.
  assert (G : forall s cur, cur <> [] -> hdne (split_go cur s)).
  { clear. induction s as [|d s IH]; intros cur NE; cbn [split_go].
    - destruct (rev cur) eqn:E; [|exact I]. apply (f_equal (@rev N)) in E. rewrite rev_involutive in E. cbn in E. congruence.
    - destruct (d =? SLASH).
      + destruct (rev cur) eqn:E; [|exact I]. apply (f_equal (@rev N)) in E. rewrite rev_involutive in E. cbn in E. congruence.
      + apply IH. discriminate. }
  apply G. discriminate.
Qed.

(** a well-behaved reference path: what [split_slash] gives for a clean string, and what the fix-up builds *)
Definition okp (p : path) : Prop := Forall noslash p /\ hdne p /\ endname p.

Lemma okp_pp : forall fixn b ref, okp b -> okp ref -> okp (pp fixn b ref).
Proof.
  intros fixn b ref [B1 [B2 B3]] [R1 [R2 R3]]. split; [apply pp_forall; assumption|].
  split; [apply hdne_pp; assumption|apply endname_pp; assumption].
Qed.
Lemma okp_norm_pinned : forall p, okp p -> okp (norm_pinned p).
Proof.
  intros p [A [B C]]. split; [apply norm_pinned_forall; exact A|]. split; [apply hdne_norm_pinned; exact B|].
  apply endname_norm_pinned; exact C.
Qed.
Lemma okp_nonempty : forall p, okp p -> p <> [].
Proof. intros p [_ [H _]] E. subst. exact H. Qed.

(** resolving the written-out attribute value *)
Lemma elem_base_set : forall base at_ p, okp p ->
  elem_base base (set_base_attr at_ (join_slash p)) = resolve base p.
Proof.
  intros base at_ p H. unfold elem_base, set_base_attr, get_base_attr. cbn [get_attr].
  rewrite N.eqb_refl. change (str_eqb s_base s_base) with true. cbn [andb].
  destruct (hdne_join p (proj1 (proj2 H))) as [c [v E]]. rewrite E. rewrite <- E.
  rewrite split_join; [reflexivity|apply okp_nonempty; exact H|exact (proj1 H)].
Qed.
