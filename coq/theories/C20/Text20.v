(** C20: the read / transcode loop of XIncludeUtils::doXIncludeTEXTFileDOM (lines 596-610 of the repaired code)
    on top of C05's transcoder models.  No proofs here.

      while ((nRead = stream->readBytes(buffer + nOffset, maxToRead - nOffset)) > 0) {
          nAvail = nOffset + nRead;
          nCount = transcoder->transcodeFrom(buffer, nAvail, xmlChars, maxToRead*2, bytesEaten, charSizes);
          repository.append(xmlChars, nCount);
          nOffset = nAvail - bytesEaten;                       // the undecoded tail (a split multi-byte character)
          if (nOffset > 0) { if (bytesEaten == 0 && nAvail == maxToRead) break; memmove(buffer, buffer + bytesEaten, nOffset); }
      }

    [room] = maxToRead (16384 in the code; a parameter here so that small instances can be swept exhaustively),
    [sched] = the number of bytes each readBytes call is willing to deliver (a file stream delivers
    min(rest of the file, space in the buffer); other streams may deliver less). *)
From Coq Require Import NArith List Bool Arith.
Import ListNotations.
From XV Require Import Base.XDefs C05.Model05.
Local Open Scope N_scope.

Inductive tenc := Enc_utf8 | Enc_utf16 (swapped : bool) | Enc_latin1.

(** transcodeFrom(buffer, n, out, maxChars): decoded UTF-16 units and bytes eaten; None = the transcoder throws *)
Definition decode_block (e : tenc) (maxChars : nat) (buf : list N) : option (list N * nat) :=
  match e with
  | Enc_utf8 => match x8_from buf maxChars with Ok (out, _, eaten) => Some (out, eaten) | Err _ => None end
  | Enc_utf16 sw => let out := u16_from sw buf maxChars in Some (out, (2 * length out)%nat)
  | Enc_latin1 => let out := l1_from buf maxChars in Some (out, length out)
  end.

Fixpoint text_rounds (e : tenc) (room : nat) (sched : list nat) (file carry acc : list N) : option (list N) :=
  match sched with
  | [] => Some acc
  | want :: rest =>
    let n := Nat.min (Nat.min want (room - length carry)) (length file) in
    if Nat.eqb n 0 then Some acc                                (* readBytes returned 0: the loop ends *)
    else
      let buf := carry ++ firstn n file in
      match decode_block e (2 * room) buf with
      | None => None
      | Some (out, eaten) =>
        let carry' := skipn eaten buf in
        if Nat.eqb eaten 0 && Nat.eqb (length buf) room then Some (acc ++ out)
        else text_rounds e room rest (skipn n file) carry' (acc ++ out)
      end
  end.

(** a file stream: every call is willing to fill the buffer *)
Definition file_schedule (room : nat) (len : nat) : list nat := repeat room (S (S (Nat.div len (Nat.max 1 (room - 4))))).
Definition BUF : nat := (128 * 128)%nat.
Definition include_text (e : tenc) (file : list N) : option (list N) :=
  text_rounds e BUF (file_schedule BUF (length file)) file [] [].

(** reference: the whole file decoded in one piece *)
Definition decode_whole (e : tenc) (file : list N) : option (list N) :=
  match decode_block e (2 * S (length file)) file with
  | Some (out, eaten) => if Nat.eqb eaten (length file) then Some out else None
  | None => None
  end.

(** all schedules with reads of 1..k bytes, n reads *)
Fixpoint schedules (k n : nat) : list (list nat) :=
  match n with
  | O => [[]]
  | S m => flat_map (fun s => map (fun w => S w :: s) (seq 0 k)) (schedules k m)
  end.
Fixpoint list_beq (a b : list N) : bool :=
  match a, b with [], [] => true | x :: a', y :: b' => (x =? y) && list_beq a' b' | _, _ => false end.
(** every schedule that is long enough to deliver the whole file gives the whole decoded text *)
Definition rounds_ok (e : tenc) (room : nat) (file : list N) (sched : list nat) : bool :=
  match text_rounds e room (sched ++ repeat room (S (length file))) file [] [], decode_whole e file with
  | Some a, Some b => list_beq a b
  | _, _ => false
  end.
