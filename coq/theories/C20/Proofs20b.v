(** C20 lemmas, part b: what a single xi:include element yields (error classes, loop detection). *)
From Coq Require Import NArith List Bool Lia Arith.
Import ListNotations.
From XV Require Import C20.Spec20 C20.Model20 C20.Proofs20a.
Local Open Scope N_scope.

Section One.
Variable fs : fsys.
Variable docuri : path.
Variables fixb fixn fixc : bool.
Notation IR := (inc_resolve fs docuri fixb fixn fixc).

Lemma err_multi : forall hist base at_ kids, scan_fallback kids None = FS_multi ->
  IR hist base at_ kids = (IR_fail, [E_MultipleFallbackElems]).
Proof. intros. unfold inc_resolve. rewrite H. reflexivity. Qed.
Lemma err_disallowed : forall hist base at_ kids, scan_fallback kids None = FS_disallowed ->
  IR hist base at_ kids = (IR_fail, [E_DisallowedChild]).
Proof. intros. unfold inc_resolve. rewrite H. reflexivity. Qed.
Lemma err_nohref : forall hist base at_ kids fb, scan_fallback kids None = FS_ok fb ->
  get_attr NS_NONE s_href at_ = None -> IR hist base at_ kids = (IR_fail, [E_NoHref]).
Proof. intros. unfold inc_resolve. rewrite H, H0. reflexivity. Qed.
(** xpointer is rejected whatever parse says -- in particular together with parse="text" *)
Lemma err_xpointer : forall hist base at_ kids fb h x, scan_fallback kids None = FS_ok fb ->
  get_attr NS_NONE s_href at_ = Some h -> get_attr NS_NONE s_xpointer at_ = Some x ->
  IR hist base at_ kids = (IR_fail, [E_XPointerNotSupported]).
Proof. intros. unfold inc_resolve. rewrite H, H0, H1. reflexivity. Qed.
Lemma err_badparse : forall hist base at_ kids fb h p, scan_fallback kids None = FS_ok fb ->
  get_attr NS_NONE s_href at_ = Some h -> get_attr NS_NONE s_xpointer at_ = None ->
  get_attr NS_NONE s_parse at_ = Some p -> str_eqb p s_xml = false -> str_eqb p s_text = false ->
  IR hist base at_ kids = (IR_fail, [E_InvalidParseVal]).
Proof. intros. unfold inc_resolve. rewrite H, H0, H1, H2, H3, H4. reflexivity. Qed.

(** two xi:fallback children (nothing from the XInclude namespace before the second one) *)
Definition notxi (n : node) : Prop := match n with Elem ns _ _ _ => (ns =? NS_XI) = false | _ => True end.
Lemma scan_skip : forall pre rest found, Forall notxi pre -> scan_fallback (pre ++ rest) found = scan_fallback rest found.
Proof.
  induction pre as [|n pre IH]; intros rest found H; [reflexivity|]. inversion H as [|n' l Hn Hl]; subst.
  cbn [app scan_fallback]. destruct n as [ns nm a k|t|t]; try (apply IH; exact Hl).
  cbn [notxi] in Hn. unfold is_fallback. rewrite Hn. cbn [andb]. apply IH. exact Hl.
Qed.
Lemma scan_two_fallbacks : forall pre a1 k1 mid a2 k2 post, Forall notxi pre -> Forall notxi mid ->
  scan_fallback (pre ++ Elem NS_XI s_fallback a1 k1 :: mid ++ Elem NS_XI s_fallback a2 k2 :: post) None = FS_multi.
Proof.
  intros. rewrite scan_skip by assumption. cbn [scan_fallback]. change (is_fallback NS_XI s_fallback) with true.
  cbv iota. rewrite scan_skip by assumption. cbn [scan_fallback]. change (is_fallback NS_XI s_fallback) with true. reflexivity.
Qed.

(** a resource that cannot be obtained, no xi:fallback: warning + fatal error, the element stays *)
Lemma err_missing_nofallback : forall hist base at_ kids h, scan_fallback kids None = FS_ok None ->
  get_attr NS_NONE s_href at_ = Some h -> get_attr NS_NONE s_xpointer at_ = None ->
  get_attr NS_NONE s_parse at_ = None ->
  path_mem (resolve (elem_base base at_) (split_slash h)) hist = false ->
  path_eqb (resolve (elem_base base at_) (split_slash h)) docuri = false ->
  fetch fs fixn (elem_base base at_) (split_slash h) = None ->
  IR hist base at_ kids = (IR_fail, [E_IncludeFailedResourceError; E_IncludeFailedNoFallback]).
Proof.
  intros. unfold inc_resolve. rewrite H, H0, H1, H2. change (str_eqb s_xml s_xml) with true. cbv iota.
  rewrite H3, H4, H5. reflexivity.
Qed.

(** loop detection at one xi:include: the loop codes are reported exactly when a valid parse="xml" include
    designates a document that is on the history stack or is the document being processed *)
Definition is_loop_err (e : err) : bool :=
  match e with E_CircularInclusionLoop | E_CircularInclusionDocIncludesSelf => true | _ => false end.
Definition loop_condition (hist : list path) (base : path) (at_ : list attr) (kids : list node) : bool :=
  match scan_fallback kids None, get_attr NS_NONE s_href at_, get_attr NS_NONE s_xpointer at_ with
  | FS_ok _, Some h, None =>
    str_eqb (match get_attr NS_NONE s_parse at_ with Some p => p | None => s_xml end) s_xml &&
    (path_mem (resolve (elem_base base at_) (split_slash h)) hist ||
     path_eqb (resolve (elem_base base at_) (split_slash h)) docuri)
  | _, _, _ => false
  end.
Lemma loop_iff : forall hist base at_ kids,
  existsb is_loop_err (snd (IR hist base at_ kids)) = loop_condition hist base at_ kids.
Proof.
  intros. unfold inc_resolve, loop_condition.
  destruct (scan_fallback kids None) as [fb| |]; try reflexivity.
  destruct (get_attr NS_NONE s_href at_) as [h|]; [|reflexivity].
  destruct (get_attr NS_NONE s_xpointer at_); [reflexivity|].
  destruct (str_eqb _ s_xml).
  - destruct (path_mem _ hist); [destruct fb as [[? ?]|]; reflexivity|].
    destruct (path_eqb _ docuri); [destruct fb as [[? ?]|]; reflexivity|].
    destruct (fetch _ _ _ _) as [[?|?|]|]; try reflexivity; destruct fb as [[? ?]|]; reflexivity.
  - destruct (str_eqb _ s_text); [|reflexivity].
    destruct (negb _); [destruct fb as [[? ?]|]; reflexivity|].
    destruct (fetch _ _ _ _) as [[?|?|]|]; try reflexivity; destruct fb as [[? ?]|]; reflexivity.
Qed.
(** and a document on the stack is never entered again *)
Lemma no_reentry : forall hist base at_ kids nodes h' e,
  IR hist base at_ kids = (IR_repl nodes h', e) -> h' = hist \/ exists t, h' = t :: hist /\ path_mem t hist = false /\ path_eqb t docuri = false.
Proof.
  intros hist base at_ kids nodes h' e H. unfold inc_resolve in H.
  destruct (scan_fallback kids None) as [fb| |]; try discriminate.
  destruct (get_attr NS_NONE s_href at_) as [h|]; [|discriminate].
  destruct (get_attr NS_NONE s_xpointer at_); [discriminate|].
  assert (FB : forall e0, match fb with
             | Some (fat, fkids) =>
               (IR_repl (map (fix_fb_child fixn (negb (path_eqb base (elem_base (elem_base base at_) fat))) (get_base_attr at_)) fkids) hist,
                e0 ++ [E_IncludeFailedResourceError])
             | None => (IR_fail, e0 ++ [E_IncludeFailedResourceError; E_IncludeFailedNoFallback])
             end = (IR_repl nodes h', e) -> h' = hist).
  { intros e0 HF. destruct fb as [[? ?]|]; inversion HF; reflexivity. }
  destruct (str_eqb _ s_xml).
  - destruct (path_mem _ hist) eqn:PM; [left; eapply FB; exact H|].
    destruct (path_eqb _ docuri) eqn:PE; [left; eapply FB; exact H|].
    destruct (fetch _ _ _ _) as [[?|?|]|]; try (left; eapply FB; exact H).
    inversion H; subst. right. eexists. split; [reflexivity|]. split; assumption.
  - destruct (str_eqb _ s_text); [|discriminate].
    destruct (negb _); [left; eapply FB; exact H|].
    destruct (fetch _ _ _ _) as [[?|?|]|]; try (left; eapply FB; exact H).
    inversion H; subst. left. reflexivity.
Qed.
End One.

(** an xi:fallback met by the walk is an orphan: fatal error, nothing below it is touched *)
Lemma err_orphan : forall fs docuri fixb fixn fixc f atdoc hist base a k,
  walk fs docuri fixb fixn fixc (S f) atdoc hist base (Elem NS_XI s_fallback a k) =
  ([Elem NS_XI s_fallback a k], [E_OrphanFallback]).
Proof. reflexivity. Qed.
(** a failed xi:include stays in the tree *)
Lemma failed_include_stays : forall fs docuri fixb fixn fixc f atdoc hist base ns nm a k e,
  is_include ns nm = true -> inc_resolve fs docuri fixb fixn fixc hist base a k = (IR_fail, e) ->
  walk fs docuri fixb fixn fixc (S f) atdoc hist base (Elem ns nm a k) = ([Elem ns nm (attrs_after a k) k], e).
Proof. intros. cbn [walk]. rewrite H, H0. reflexivity. Qed.
