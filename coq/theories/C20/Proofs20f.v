(** C20 lemmas, part f: the parser-driven (end-tag, post-order) processing of the repaired code coincides with
    the pre-order walk on documents whose xi:include elements have only xi:fallback element children. *)
From Coq Require Import NArith List Bool Lia Arith.
Import ListNotations.
From XV Require Import C20.Spec20 C20.Model20 C20.Hyps20 C20.Proofs20a C20.Proofs20d C20.Proofs20e.
Local Open Scope N_scope.

Section NodeInd.
Variable P : node -> Prop.
Hypothesis HE : forall ns nm a k, Forall P k -> P (Elem ns nm a k).
Hypothesis HT : forall s, P (Text s).
Hypothesis HC : forall s, P (Comment s).
Fixpoint node_ind' (n : node) : P n :=
  match n with
  | Elem ns nm a k =>
    HE ns nm a k ((fix go (l : list node) : Forall P l :=
                     match l with [] => Forall_nil P | x :: r => Forall_cons x (node_ind' x) (go r) end) k)
  | Text s => HT s
  | Comment s => HC s
  end.
End NodeInd.

Lemma fallback_not_include : forall ns nm, is_fallback ns nm = true -> is_include ns nm = false.
Proof.
  intros ns nm H. unfold is_fallback, is_include in *. apply andb_true_iff in H. destruct H as [H1 H2].
  apply str_eqb_eq in H2. subst nm. rewrite H1. reflexivity.
Qed.

Section TW.
Variable fs : fsys.
Variable docuri : path.
Variables fixb fixn fixc : bool.
Notation W := (walk fs docuri fixb fixn fixc).
Notation TWK := (top_walk fs docuri fixb fixn fixc true).

Lemma walk_list_ext : forall (g h : node -> list node * list err) l,
  (forall c, In c l -> g c = h c) -> walk_list g l = walk_list h l.
Proof.
  intros g h l. induction l as [|n l IH]; intros H; [reflexivity|]. rewrite !walk_list_cons.
  rewrite (H n (or_introl eq_refl)), IH; [reflexivity|]. intros c Hc. apply H. right. exact Hc.
Qed.
Lemma walk_list_err_in : forall (g : node -> list node * list err) l c x, In c l -> In x (snd (g c)) -> In x (snd (walk_list g l)).
Proof.
  intros g l c x. induction l as [|n l IH]; intros Hc Hx; [destruct Hc|]. rewrite walk_list_cons. cbn [snd].
  apply in_or_app. destruct Hc as [Hc|Hc]; [subst; left; exact Hx|right; apply IH; assumption].
Qed.

Lemma walk_S_elem : forall f atdoc hist base ns nm a k,
  W (S f) atdoc hist base (Elem ns nm a k) =
  (if is_include ns nm then
     match inc_resolve fs docuri fixb fixn fixc hist base a k with
     | (IR_fail, e) => ([Elem ns nm (attrs_after a k) k], e)
     | (IR_repl nodes hist', e) =>
       if atdoc && negb (doc_kids_ok nodes) then ([Elem ns nm a k], e ++ [E_HierarchyExc])
       else let (r, e2) := walk_list (W f atdoc hist' base) nodes in (r, e ++ e2)
     end
   else if is_fallback ns nm then ([Elem ns nm a k], [E_OrphanFallback])
   else let (ks, e) := walk_list (W f false hist (elem_base base a)) k in ([Elem ns nm a ks], e)).
Proof. reflexivity. Qed.

(** more fuel does not change an answer that did not run out of fuel *)
Lemma walk_mono : forall f atdoc hist base n,
  ~ In E_Fuel (snd (W f atdoc hist base n)) -> W (S f) atdoc hist base n = W f atdoc hist base n.
Proof.
  induction f as [|f IH]; intros atdoc hist base n H.
  - destruct n as [ns nm a k|s|s]; [|reflexivity|reflexivity]. exfalso. apply H. cbn. left. reflexivity.
  - destruct n as [ns nm a k|s|s]; [|reflexivity|reflexivity].
    rewrite (walk_S_elem (S f)), (walk_S_elem f). rewrite (walk_S_elem f) in H. destruct (is_include ns nm).
    + destruct (inc_resolve fs docuri fixb fixn fixc hist base a k) as [[|nodes h'] e]; [reflexivity|].
      destruct (atdoc && negb (doc_kids_ok nodes)); [reflexivity|].
      assert (E : walk_list (W (S f) atdoc h' base) nodes = walk_list (W f atdoc h' base) nodes).
      { apply walk_list_ext. intros c Hc. apply IH. intro HI. apply H.
        destruct (walk_list (W f atdoc h' base) nodes) as [r e2] eqn:WL. cbn [snd]. apply in_or_app. right.
        change e2 with (snd (r, e2)). rewrite <- WL. eapply walk_list_err_in; eassumption. }
      rewrite E. reflexivity.
    + destruct (is_fallback ns nm); [reflexivity|].
      assert (E : walk_list (W (S f) false hist (elem_base base a)) k = walk_list (W f false hist (elem_base base a)) k).
      { apply walk_list_ext. intros c Hc. apply IH. intro HI. apply H.
        destruct (walk_list (W f false hist (elem_base base a)) k) as [r e2] eqn:WL. cbn [snd].
        change e2 with (snd (r, e2)). rewrite <- WL. eapply walk_list_err_in; eassumption. }
      rewrite E. reflexivity.
Qed.

(** the children loop of [top_walk] is [walk_list] *)
Lemma go_walk_list : forall (g : node -> list node * list err) l,
  (fix go (l : list node) : list node * list err :=
     match l with
     | [] => ([], [])
     | k :: r => let (a, ea) := g k in let (b, eb) := go r in (a ++ b, ea ++ eb)
     end) l = walk_list g l.
Proof.
  intros g l. induction l as [|n l IH]; [reflexivity|]. rewrite walk_list_cons, IH.
  destruct (g n), (walk_list g l). reflexivity.
Qed.

Lemma top_walk_unfold : forall F pns base ns nm a k,
  TWK F pns base (Elem ns nm a k) =
  (let kr := if true && is_fallback ns nm then (k, []) else walk_list (TWK F ns (elem_base base a)) k in
   if is_include ns nm then
     match inc_resolve fs docuri fixb fixn fixc [] base a (fst kr) with
     | (IR_fail, e) => ([Elem ns nm (attrs_after a (fst kr)) (fst kr)], snd kr ++ e)
     | (IR_repl nodes hist', e) =>
       let (r, e2) := walk_list (W F false hist' base) nodes in (r, snd kr ++ e ++ e2)
     end
   else if is_fallback ns nm && negb (pns =? NS_XI) then ([Elem ns nm a (fst kr)], snd kr ++ [E_OrphanFallback])
   else ([Elem ns nm a (fst kr)], snd kr)).
Proof. intros. cbn [top_walk]. rewrite go_walk_list. reflexivity. Qed.

Lemma top_walk_leafkids : forall F base k, forallb fb_or_leaf k = true ->
  walk_list (TWK F NS_XI base) k = (k, []).
Proof.
  intros F base k. induction k as [|c k IH]; intros H; [reflexivity|]. cbn [forallb] in H.
  apply andb_true_iff in H. destruct H as [Hc Hk]. rewrite walk_list_cons, (IH Hk).
  destruct c as [cns cnm ca ck|s|s]; [|reflexivity|reflexivity]. cbn [fb_or_leaf] in Hc.
  rewrite top_walk_unfold. rewrite Hc, (fallback_not_include _ _ Hc). cbn. reflexivity.
Qed.

Theorem top_walk_eq : forall n, simple n = true -> forall F pns base,
  (match n with Elem ns nm _ _ => is_fallback ns nm = true -> (pns =? NS_XI) = false | _ => True end) ->
  ~ In E_Fuel (snd (W F false [] base n)) ->
  TWK F pns base n = W F false [] base n.
Proof.
  induction n as [ns nm a k IHk|s|s] using node_ind'; intros SI F pns base HP NF;
    [|destruct F; reflexivity|destruct F; reflexivity].
  destruct F as [|f]; [exfalso; apply NF; cbn; left; reflexivity|].
  rewrite top_walk_unfold. cbn [simple] in SI. rewrite walk_S_elem in NF. rewrite walk_S_elem. destruct (is_include ns nm) eqn:II.
  - assert (NFB : is_fallback ns nm = false).
    { destruct (is_fallback ns nm) eqn:E; [|reflexivity]. rewrite (fallback_not_include _ _ E) in II. discriminate. }
    rewrite NFB. cbn [andb].
    assert (XI : ns = NS_XI). { unfold is_include in II. apply andb_true_iff in II. destruct II as [A _]. apply N.eqb_eq in A. exact A. }
    subst ns. rewrite (top_walk_leafkids (S f) (elem_base base a) k SI). cbn [fst snd app].
    destruct (inc_resolve fs docuri fixb fixn fixc [] base a k) as [[|nodes h'] e]; [reflexivity|]. cbn [andb] in NF |- *.
    assert (E : walk_list (W (S f) false h' base) nodes = walk_list (W f false h' base) nodes).
    { apply walk_list_ext. intros c Hc. apply walk_mono. intro HI. apply NF.
      destruct (walk_list (W f false h' base) nodes) as [r e2] eqn:WL. cbn [snd]. apply in_or_app. right.
      change e2 with (snd (r, e2)). rewrite <- WL. eapply walk_list_err_in; eassumption. }
    rewrite E. reflexivity.
  - destruct (is_fallback ns nm) eqn:IF.
    + cbn [andb fst snd app]. rewrite (HP eq_refl). reflexivity.
    + cbn [andb]. apply andb_true_iff in SI. destruct SI as [S1 S2]. apply negb_true_iff in S1.
      assert (E : walk_list (TWK (S f) ns (elem_base base a)) k = walk_list (W f false [] (elem_base base a)) k).
      { apply walk_list_ext. intros c Hc. rewrite Forall_forall in IHk. rewrite forallb_forall in S2.
        assert (NFc : ~ In E_Fuel (snd (W f false [] (elem_base base a) c))).
        { intro HI. apply NF. destruct (walk_list (W f false [] (elem_base base a)) k) as [r e2] eqn:WL. cbn [snd].
          change e2 with (snd (r, e2)). rewrite <- WL. eapply walk_list_err_in; eassumption. }
        rewrite (IHk c Hc (S2 c Hc) (S f) ns (elem_base base a)).
        - apply walk_mono. exact NFc.
        - destruct c; [intros _; exact S1|exact I|exact I].
        - rewrite walk_mono; exact NFc. }
      rewrite E. destruct (walk_list _ k) as [ks e]. reflexivity.
Qed.
(** ---- the lazy-fallback property ------------------------------------------------------------------------------
    With the repaired end-tag rule the parser does not look at anything below an xi:fallback, at whatever depth
    (the model has no ancestor walk at all: it does not descend; the code walks ALL ancestors of an XInclude element
    and skips it when one of them is an xi:fallback -- the correspondence ties the two). *)
Lemma top_walk_fallback_untouched : forall F base a k,
  TWK F NS_XI base (Elem NS_XI s_fallback a k) = ([Elem NS_XI s_fallback a k], []).
Proof. intros. rewrite top_walk_unfold. reflexivity. Qed.

(** an xi:include that succeeds (no diagnostic at all) does not depend on its xi:fallback *)
Lemma inc_resolve_unused_fallback : forall hist base a kids kids' fb fb' r,
  scan_fallback kids None = FS_ok fb -> scan_fallback kids' None = FS_ok fb' ->
  inc_resolve fs docuri fixb fixn fixc hist base a kids = (r, []) ->
  inc_resolve fs docuri fixb fixn fixc hist base a kids' = (r, []).
Proof.
  intros hist base a kids kids' fb fb' r S1 S2 H. unfold inc_resolve in *. rewrite S1 in H. rewrite S2.
  destruct (get_attr NS_NONE s_href a) as [href|]; [|discriminate].
  destruct (get_attr NS_NONE s_xpointer a); [discriminate|].
  assert (FB : forall e0 (x : inc_result * list err),
             match fb with
             | Some (fat, fkids) =>
               (IR_repl (map (fix_fb_child fixn (negb (path_eqb base (elem_base (elem_base base a) fat))) (get_base_attr a)) fkids) hist,
                e0 ++ [E_IncludeFailedResourceError])
             | None => (IR_fail, e0 ++ [E_IncludeFailedResourceError; E_IncludeFailedNoFallback])
             end = (r, []) -> x = (r, [])).
  { intros e0 x HF. exfalso. destruct fb as [[? ?]|]; inversion HF as [[A B]]; destruct e0; discriminate. }
  destruct (str_eqb _ s_xml).
  - destruct (path_mem _ hist); [eapply FB; exact H|].
    destruct (path_eqb _ docuri); [eapply FB; exact H|].
    destruct (fetch fs fixn _ _) as [[?|?|]|]; try (eapply FB; exact H). exact H.
  - destruct (str_eqb _ s_text); [|discriminate].
    destruct (negb _); [eapply FB; exact H|].
    destruct (fetch fs fixn _ _) as [[?|?|]|]; try (eapply FB; exact H). exact H.
Qed.

(** hence: whatever an unused xi:fallback contains -- failing xi:include elements under ordinary elements, at any
    depth -- the parser-driven processing of the xi:include gives the same nodes and the same diagnostics *)
Theorem lazy_fallback : forall F pns base a kids kids' fb fb' nodes h',
  forallb fb_or_leaf kids = true -> forallb fb_or_leaf kids' = true ->
  scan_fallback kids None = FS_ok fb -> scan_fallback kids' None = FS_ok fb' ->
  inc_resolve fs docuri fixb fixn fixc [] base a kids = (IR_repl nodes h', []) ->
  TWK F pns base (Elem NS_XI s_include a kids) = TWK F pns base (Elem NS_XI s_include a kids').
Proof.
  intros F pns base a kids kids' fb fb' nodes h' L1 L2 S1 S2 H.
  pose proof (inc_resolve_unused_fallback [] base a kids kids' fb fb' _ S1 S2 H) as H'.
  rewrite !top_walk_unfold. change (is_fallback NS_XI s_include) with false. change (is_include NS_XI s_include) with true.
  cbn [andb]. rewrite (top_walk_leafkids F (elem_base base a) kids L1), (top_walk_leafkids F (elem_base base a) kids' L2).
  cbn [fst snd app]. rewrite H, H'. reflexivity.
Qed.
End TW.

(** whole documents: XercesDOMParser / DOMLSParser (with the repaired end-tag rule) = XIncludeDOMDocumentProcessor *)
Theorem parser_eq_docproc : forall fs fixb fixn fixc uri top pre ns nm a k post,
  split_root [] top = Some (pre, Elem ns nm a k, post) -> is_include ns nm = false ->
  simple (Elem ns nm a k) = true ->
  xi_parser fs fixb fixn fixc true uri top = xi_docproc fs fixb fixn fixc uri top.
Proof.
  intros fs fixb fixn fixc uri top pre ns nm a k post SR NI SI.
  pose proof (docproc_no_fuel fs fixb fixn fixc uri top) as NF.
  unfold xi_parser, xi_docproc in *. rewrite SR in *. unfold root_step in *. cbv beta iota in *. rewrite NI in *.
  set (F := enough_fuel fs top) in *.
  assert (WA : walk fs uri fixb fixn fixc F true [] uri (Elem ns nm a k) = walk fs uri fixb fixn fixc F false [] uri (Elem ns nm a k)).
  { destruct F; cbn [walk]; [reflexivity|rewrite NI; reflexivity]. }
  rewrite WA in *.
  assert (NF' : ~ In E_Fuel (snd (walk fs uri fixb fixn fixc F false [] uri (Elem ns nm a k)))).
  { intro HI. apply NF. destruct (walk fs uri fixb fixn fixc F false [] uri (Elem ns nm a k)) as [r e] eqn:W.
    cbn [snd] in HI. unfold finish. cbn [snd]. destruct (cut_at_exc e) as [es b] eqn:C.
    assert (NX : ~ In E_HierarchyExc e).
    { intro A. apply (walk_no_exc fs uri fixb fixn fixc F [] uri (Elem ns nm a k)). rewrite W. exact A. }
    rewrite (cut_no_exc e NX) in C. inversion C; subst. cbn [snd]. exact HI. }
  rewrite (top_walk_eq fs uri fixb fixn fixc (Elem ns nm a k) SI F NS_NONE uri); [reflexivity| |exact NF'].
  intros _. reflexivity.
Qed.

(** hence termination and the expansion theorem hold for the parsers too *)
Corollary parser_no_fuel : forall fs fixb fixn fixc uri top pre ns nm a k post,
  split_root [] top = Some (pre, Elem ns nm a k, post) -> is_include ns nm = false ->
  simple (Elem ns nm a k) = true ->
  ~ In E_Fuel (snd (xi_parser fs fixb fixn fixc true uri top)).
Proof.
  intros. rewrite (parser_eq_docproc fs fixb fixn fixc uri top pre ns nm a k post) by assumption.
  apply docproc_no_fuel.
Qed.

Corollary parser_expansion : forall fs uri top pre ns nm a k post,
  clean_fs fs = true -> clean_doc top = true -> has_text_node top = false ->
  split_root [] top = Some (pre, Elem ns nm a k, post) -> is_include ns nm = false ->
  simple (Elem ns nm a k) = true ->
  match xi_spec_doc fs (enough_fuel fs top) uri top with
  | inr t => exists r e, xi_parser fs true true true true uri top = (D_ok r, e) /\
                         existsb is_fatal e = false /\ map (annot uri) r = t
  | inl x => x <> XE_Fuel /\ x <> XE_RootShape /\ reports x (snd (xi_parser fs true true true true uri top))
  end.
Proof.
  intros. rewrite (parser_eq_docproc fs true true true uri top pre ns nm a k post) by assumption.
  apply (docproc_expansion fs uri top pre ns nm a k post); assumption.
Qed.
