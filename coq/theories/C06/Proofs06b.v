(** Lemmas for T06_sax2_balanced: the fPrefixes / fPrefixCounts stacks of SAX2XMLReaderImpl produce a Dyck word of
    prefix-mapping and element events, and are empty at the end of every well-nested document. *)
From XV Require Import Base.XDefs Gen.GenElemStack C06.Spec06 C06.Model06 C06.Proofs06a.
From Coq Require Import Arith Lia.
Local Open Scope nat_scope.

Definition pv (storage : pool) (id : nat) : option name := Some (pool_value storage id).

Fixpoint stack_of (storage : pool) (counts : list nat) (prefixes : list nat) : list (option name) :=
  match counts with
  | [] => []
  | n :: cs => None :: map (pv storage) (firstn n prefixes) ++ stack_of storage cs (skipn n prefixes)
  end.
Fixpoint sum (l : list nat) : nat := match l with [] => 0 | x :: r => x + sum r end.

Definition ids_in (storage : pool) (l : list nat) : Prop := Forall (fun id => 1 <= id <= length storage) l.
Definition SInv (x : sax2) : Prop := sum (sx_counts x) = length (sx_prefixes x) /\ ids_in (sx_storage x) (sx_prefixes x).
Definition sstack (x : sax2) : list (option name) := stack_of (sx_storage x) (sx_counts x) (sx_prefixes x).
Definition brackets (evs : list sev) : list bracket := flat_map bracket_of evs.

Lemma brackets_app : forall a b, brackets (a ++ b) = brackets a ++ brackets b.
Proof. intros. unfold brackets. apply flat_map_app. Qed.

Lemma ids_in_app : forall st q l, ids_in st l -> ids_in (st ++ q) l.
Proof. intros st q l H. unfold ids_in in *. eapply Forall_impl; [|exact H]. intros a Ha. cbn in *. rewrite app_length. lia. Qed.
Lemma map_pv_app : forall st q l, ids_in st l -> map (pv (st ++ q)) l = map (pv st) l.
Proof.
  intros st q l H. apply map_ext_in. intros a Ha. unfold ids_in in H. rewrite Forall_forall in H. unfold pv.
  rewrite pool_value_app by (apply H; exact Ha). reflexivity.
Qed.
Lemma ids_in_firstn : forall st n l, ids_in st l -> ids_in st (firstn n l).
Proof.
  intros st n. induction n as [|n IH]; intros l H; [constructor|]. destruct l as [|a l]; [constructor|].
  inversion H; subst. cbn [firstn]. constructor; [assumption|]. apply IH. assumption.
Qed.
Lemma ids_in_skipn : forall st n l, ids_in st l -> ids_in st (skipn n l).
Proof.
  intros st n. induction n as [|n IH]; intros l H; [exact H|]. destruct l as [|a l]; [constructor|].
  inversion H; subst. cbn [skipn]. apply IH. assumption.
Qed.
Lemma stack_of_app : forall st q cs l, ids_in st l -> stack_of (st ++ q) cs l = stack_of st cs l.
Proof.
  intros st q cs. induction cs as [|n cs IH]; intros l H; cbn [stack_of]; [reflexivity|].
  rewrite map_pv_app by (apply ids_in_firstn; exact H). rewrite IH by (apply ids_in_skipn; exact H). reflexivity.
Qed.

(** pushing the declarations of a start tag *)
Lemma push_dyck : forall attrs x n x' evs n', sax2_push x attrs n = (x', evs, n') -> ids_in (sx_storage x) (sx_prefixes x) ->
  exists newids q, sx_prefixes x' = newids ++ sx_prefixes x /\ sx_counts x' = sx_counts x /\
                   sx_storage x' = sx_storage x ++ q /\ n' = n + length newids /\ ids_in (sx_storage x') (sx_prefixes x') /\
                   forall w st, dyck (brackets evs ++ w) st = dyck w (map (pv (sx_storage x')) newids ++ st).
Proof.
  induction attrs as [|a r IH]; intros x n x' evs n' H V; cbn [sax2_push] in H.
  - injection H as <- <- <-. exists [], []. cbn [app length map]. rewrite app_nil_r. repeat split; try reflexivity; [lia|exact V].
  - destruct (sax2_nsdecl a) as [[p u]|].
    + destruct (pool_addOrFind (sx_storage x) p) as [st1 id] eqn:Ea.
      pose proof (addOrFind_id (sx_storage x) p) as [Hid Hr]. pose proof (addOrFind_ext (sx_storage x) p) as [q1 Hq1].
      rewrite Ea in Hid, Hr, Hq1. cbn [fst snd] in Hid, Hr, Hq1.
      destruct (sax2_push (mkSax2 (id :: sx_prefixes x) (sx_counts x) st1) r (S n)) as [[x1 evs1] n1] eqn:Ep.
      injection H as <- <- <-.
      assert (V1 : ids_in st1 (id :: sx_prefixes x)).
      { constructor; [exact Hr|]. rewrite Hq1. apply ids_in_app. exact V. }
      destruct (IH _ _ _ _ _ Ep V1) as (newids & q & A & B & C & D & E & F). cbn [sx_prefixes sx_counts sx_storage] in *.
      exists (newids ++ [id]), (q1 ++ q). repeat split.
      * rewrite A. rewrite <- app_assoc. reflexivity.
      * exact B.
      * rewrite C, Hq1. rewrite app_assoc. reflexivity.
      * rewrite app_length. cbn. lia.
      * exact E.
      * intros w st. cbn [brackets flat_map bracket_of app]. fold (brackets evs1). cbn [dyck]. rewrite F.
        rewrite map_app. rewrite <- app_assoc. cbn [map app]. f_equal. f_equal. f_equal. unfold pv. f_equal.
        rewrite C. rewrite pool_value_app by exact Hr.
        destruct id as [|i]; [lia|]. destruct (getId_sound st1 p i Hid) as [G _]. unfold pool_value.
        replace (S i - 1) with i by lia. symmetry. exact G.
    + apply IH; assumption.
Qed.

Lemma pop_dyck : forall n x x' evs, sax2_pop x n = (x', evs) -> n <= length (sx_prefixes x) ->
  sx_prefixes x' = skipn n (sx_prefixes x) /\ sx_counts x' = sx_counts x /\ sx_storage x' = sx_storage x /\
  forall w st, dyck (brackets evs ++ w) (map (pv (sx_storage x)) (firstn n (sx_prefixes x)) ++ st) = dyck w st.
Proof.
  induction n as [|n IH]; intros x x' evs H L; cbn [sax2_pop] in H.
  - injection H as <- <-. cbn. repeat split; reflexivity.
  - destruct (sx_prefixes x) as [|id ps] eqn:Ep; [cbn in L; lia|].
    destruct (sax2_pop (mkSax2 ps (sx_counts x) (sx_storage x)) n) as [x1 evs1] eqn:E1.
    injection H as <- <-. cbn [length] in L.
    destruct (IH _ _ _ E1 ltac:(cbn; lia)) as (A & B & C & D). cbn [sx_prefixes sx_counts sx_storage] in *.
    repeat split; try assumption.
    intros w st. cbn [firstn map app brackets flat_map bracket_of]. fold (brackets evs1). unfold pv at 1. cbn [dyck].
    rewrite name_eqb_refl. cbn [andb]. apply D.
Qed.

Lemma end_dyck : forall x uris uri pfx loc x' evs n cs, sax2_end x uris uri pfx loc = (x', evs) -> SInv x ->
  sx_counts x = n :: cs ->
  SInv x' /\ sx_counts x' = cs /\ forall w, dyck (brackets evs ++ w) (sstack x) = dyck w (sstack x').
Proof.
  intros x uris uri pfx loc x' evs n cs H [S1 S2] Ec. unfold sax2_end in H. rewrite Ec in H.
  destruct (sax2_pop (mkSax2 (sx_prefixes x) cs (sx_storage x)) n) as [x1 evs1] eqn:Ep.
  injection H as <- <-. rewrite Ec in S1. cbn [sum] in S1.
  destruct (pop_dyck _ _ _ _ Ep ltac:(cbn; lia)) as (A & B & C & D). cbn [sx_prefixes sx_counts sx_storage] in *.
  split; [|split].
  - unfold SInv. rewrite A, B, C. split.
    + rewrite skipn_length. lia.
    + apply ids_in_skipn. exact S2.
  - exact B.
  - intros w. unfold sstack. rewrite Ec, A, B, C. cbn [stack_of brackets flat_map bracket_of app]. fold (brackets evs1).
    cbn [dyck]. apply D.
Qed.

Definition depth_after (e : dev) (d : nat) : nat :=
  match e with DStart _ _ _ _ false => S d | DEnd _ _ _ => pred d | _ => d end.

Lemma ev_dyck : forall nsp uris x e x' out, sax2_ev nsp uris x e = (x', out) -> SInv x ->
  (match e with DEnd _ _ _ => sx_counts x <> [] | _ => True end) ->
  SInv x' /\ length (sx_counts x') = depth_after e (length (sx_counts x)) /\
  forall w, dyck (brackets out ++ w) (sstack x) = dyck w (sstack x').
Proof.
  intros nsp uris x e x' out H I Hne. destruct e as [uri pfx loc attrs empty|uri pfx loc| |]; cbn [sax2_ev] in H.
  - destruct (sax2_push x attrs 0) as [[x1 spm] n] eqn:Ep. destruct I as [S1 S2].
    destruct (push_dyck _ _ _ _ _ _ Ep S2) as (newids & q & A & B & C & D & E & F). cbn [Nat.add] in D.
    set (x2 := mkSax2 (sx_prefixes x1) (n :: sx_counts x1) (sx_storage x1)) in *.
    assert (I2 : SInv x2).
    { unfold SInv, x2. cbn [sx_prefixes sx_counts sx_storage sum]. split; [|exact E].
      rewrite A, B, app_length. lia. }
    assert (St2 : sstack x2 = None :: map (pv (sx_storage x1)) newids ++ sstack x).
    { unfold sstack, x2. cbn [sx_prefixes sx_counts sx_storage stack_of]. rewrite A, B, D.
      rewrite firstn_app, Nat.sub_diag, firstn_all. cbn [firstn]. rewrite app_nil_r.
      rewrite skipn_app, Nat.sub_diag, skipn_all. cbn [skipn app]. rewrite C. rewrite stack_of_app by exact S2. reflexivity. }
    destruct empty.
    + destruct (sax2_end x2 uris uri pfx loc) as [x3 evs] eqn:Ee. injection H as <- <-.
      destruct (end_dyck _ _ _ _ _ _ _ n (sx_counts x1) Ee I2 eq_refl) as (I3 & Ec & Dk).
      split; [exact I3|]. split; [rewrite Ec, B; reflexivity|].
      intros w. rewrite !brackets_app. rewrite <- !app_assoc. rewrite F. cbn [brackets flat_map bracket_of app dyck].
      rewrite <- St2. apply Dk.
    + injection H as <- <-. split; [exact I2|]. split; [unfold x2; cbn [sx_counts length]; rewrite B; reflexivity|].
      intros w. rewrite brackets_app. rewrite <- app_assoc. rewrite F. cbn [brackets flat_map bracket_of app dyck].
      rewrite St2. reflexivity.
  - destruct (sx_counts x) as [|n cs] eqn:Ec; [contradiction|].
    destruct (end_dyck _ _ _ _ _ _ _ n cs H I Ec) as (I3 & Ec' & Dk).
    split; [exact I3|]. split; [rewrite Ec'; reflexivity|exact Dk].
  - injection H as <- <-. split; [exact I|]. split; [reflexivity|]. intros w. reflexivity.
  - injection H as <- <-. split; [exact I|]. split; [reflexivity|]. intros w. reflexivity.
Qed.

Lemma run_dyck : forall nsp uris devs x x' out, sax2_run nsp uris x devs = (x', out) -> SInv x ->
  well_nested devs (length (sx_counts x)) = true ->
  SInv x' /\ sx_counts x' = [] /\ forall w, dyck (brackets out ++ w) (sstack x) = dyck w (sstack x').
Proof.
  intros nsp uris devs. induction devs as [|e r IH]; intros x x' out H I W; cbn [sax2_run] in H.
  - injection H as <- <-. cbn [well_nested] in W. apply Nat.eqb_eq in W.
    split; [exact I|]. split; [destruct (sx_counts x); [reflexivity|discriminate]|]. intros w. reflexivity.
  - destruct (sax2_ev nsp uris x e) as [x1 o1] eqn:E1. destruct (sax2_run nsp uris x1 r) as [x2 o2] eqn:E2.
    injection H as <- <-.
    assert (Hne : match e with DEnd _ _ _ => sx_counts x <> [] | _ => True end).
    { destruct e; try exact I0; try exact Logic.I. cbn [well_nested] in W. destruct (sx_counts x); [discriminate|discriminate]. }
    destruct (ev_dyck _ _ _ _ _ _ E1 I Hne) as (I1 & Hd & Dk).
    assert (W1 : well_nested r (length (sx_counts x1)) = true).
    { rewrite Hd. destruct e as [? ? ? ? [|]| | |]; cbn [well_nested depth_after] in *; try exact W.
      destruct (length (sx_counts x)); [discriminate|exact W]. }
    destruct (IH _ _ _ E2 I1 W1) as (I2 & C2 & Dk2).
    split; [exact I2|]. split; [exact C2|]. intros w. rewrite brackets_app, <- app_assoc. rewrite Dk. apply Dk2.
Qed.

Lemma sax2_balanced : forall nsp uris devs x out, well_nested devs 0 = true ->
  sax2_run nsp uris sax2_init devs = (x, out) ->
  dyck (brackets out) [] = true /\ sx_prefixes x = [] /\ sx_counts x = [].
Proof.
  intros nsp uris devs x out W H.
  assert (I0 : SInv sax2_init) by (split; [reflexivity|constructor]).
  destruct (run_dyck _ _ _ _ _ _ H I0 W) as ([S1 S2] & C & Dk).
  specialize (Dk []). rewrite app_nil_r in Dk. unfold sstack in Dk. rewrite C in Dk. cbn in Dk.
  split; [exact Dk|]. split; [|exact C]. rewrite C in S1. cbn in S1. destruct (sx_prefixes x); [reflexivity|discriminate].
Qed.
