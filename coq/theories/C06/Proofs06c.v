(** Lemmas for T06_dom_lookup: DOMNodeImpl::lookupNamespaceURI / isDefaultNamespace / lookupPrefix (as modelled,
    with the null check on DOCUMENT_NODE) answer what the declarations in scope imply. *)
From XV Require Import Base.XDefs C06.Spec06 C06.Model06 C06.Proofs06a.
From Coq Require Import Arith Lia.

Lemma oname_eqb_eq : forall a b, oname_eqb a b = true <-> a = b.
Proof.
  intros [a|] [b|]; cbn [oname_eqb]; split; intros H; try discriminate; try reflexivity.
  - apply name_eqb_eq in H. congruence.
  - injection H as ->. apply name_eqb_refl.
Qed.
Lemma qname_prefixed_not_xmlns : forall l, name_eqb (qname_of s_xmlns l) s_xmlns = false.
Proof.
  intros l. apply name_eqb_neq. unfold qname_of, s_xmlns. cbn [app]. intros H. discriminate.
Qed.

Definition qn (p : option name) : name := pfx_or_empty p.

(** the attribute scan of lookupNamespaceURI finds the first declaration of the prefix *)
Lemma lookup_attrs_decl : forall atts p, Forall parsed_attr atts -> p <> Some [] ->
  m_lookup_ns_attrs atts p = find_decl (qn p) (belem_decls atts).
Proof.
  intros atts p H Hp. induction H as [|a r Ha Hr IH]; cbn [m_lookup_ns_attrs belem_decls]; [reflexivity|].
  destruct Ha as (Hns & Hloc & Hpe & Hxx). rewrite Hns. unfold decl_attr.
  destruct (oname_eqb (ba_prefix a) (Some s_xmlns)) eqn:E1; cbn [orb].
  - (* xmlns:l *)
    apply oname_eqb_eq in E1. unfold battr_qname. rewrite E1. rewrite qname_prefixed_not_xmlns.
    rewrite andb_false_r. cbn [andb find_decl].
    destruct p as [p'|]; cbn [oname_eqb qn pfx_or_empty].
    + destruct (name_eqb (ba_local a) p'); [reflexivity|exact IH].
    + destruct (ba_local a) as [|c l] eqn:El; [contradiction|]. cbn [name_eqb]. exact IH.
  - destruct (oname_eqb (ba_prefix a) None && name_eqb (ba_local a) s_xmlns) eqn:E2.
    + (* xmlns *)
      apply andb_true_iff in E2. destruct E2 as [E2 E3]. apply oname_eqb_eq in E2. apply name_eqb_eq in E3.
      unfold battr_qname. rewrite E2, E3. cbn [qname_of]. rewrite name_eqb_refl. rewrite andb_true_r.
      cbn [oname_eqb find_decl].
      destruct p as [p'|]; cbn [oname_eqb qn pfx_or_empty andb].
      * destruct p' as [|c l]; [congruence|]. cbn [name_eqb]. exact IH.
      * reflexivity.
    + exact IH.
Qed.

Lemma find_decl_in_c : forall p (m : list decl) u, find_decl p m = Some u -> In (p, u) m.
Proof.
  intros p m u. induction m as [|[q v] m IH]; cbn [find_decl]; intros H; [discriminate|].
  destruct (name_eqb q p) eqn:E.
  - injection H as <-. apply name_eqb_eq in E. subst q. left. reflexivity.
  - right. apply IH. exact H.
Qed.
Lemma nearest_in_rows : forall p (rows : list (list decl)) u, nearest rows p = Some u -> exists m, In m rows /\ In (p, u) m.
Proof.
  intros p rows u. induction rows as [|m r IH]; cbn [nearest]; intros H; [discriminate|].
  destruct (find_decl p m) eqn:E.
  - injection H as <-. exists m. split; [left; reflexivity|]. apply find_decl_in_c. exact E.
  - destruct (IH H) as (m' & A & B). exists m'. split; [right; exact A|exact B].
Qed.

Lemma inscope_plain : forall rows q, name_eqb q s_xml = false -> name_eqb q s_xmlns = false ->
  inscope rows q = canon (nearest rows q).
Proof.
  intros rows q H1 H2. unfold inscope. rewrite H1, H2. destruct (nearest rows q) as [[|c l]|]; reflexivity.
Qed.

Lemma canon_nonempty : forall ns, ns <> [] -> canon (Some ns) = Some ns.
Proof. intros [|c l] H; [contradiction|reflexivity]. Qed.

Lemma lookup_ns_inscope : forall chain p, Forall parsed_elem chain -> consistent chain -> p <> Some [] ->
  name_eqb (qn p) s_xml = false -> name_eqb (qn p) s_xmlns = false ->
  canon (m_lookup_ns chain p) = inscope (chain_rows chain) (qn p).
Proof.
  intros chain p HP HC Hp N1 N2. rewrite (inscope_plain _ _ N1 N2).
  induction chain as [|e up IH]; [reflexivity|].
  inversion HP as [|x l He Hup]; subst. destruct HC as (Hc & Hpe & Hcu).
  cbn [m_lookup_ns chain_rows map nearest]. fold (chain_rows up).
  assert (Rest : canon (match m_lookup_ns_attrs (be_attrs e) p with Some v => Some v | None => m_lookup_ns up p end) =
                 canon (match find_decl (qn p) (belem_decls (be_attrs e)) with Some u => Some u | None => nearest (chain_rows up) (qn p) end)).
  { rewrite (lookup_attrs_decl _ p He Hp). destruct (find_decl (qn p) (belem_decls (be_attrs e))); [reflexivity|].
    apply IH; assumption. }
  destruct (be_ns e) as [ns|] eqn:Ens; [|exact Rest].
  destruct Hc as [Hne Hin].
  assert (Short : forall (E : qn p = pfx_or_empty (be_prefix e)),
            canon (Some ns) = canon (match find_decl (qn p) (belem_decls (be_attrs e)) with
                                     | Some u => Some u | None => nearest (chain_rows up) (qn p) end)).
  { intros E. rewrite E. rewrite <- E in Hin. rewrite (inscope_plain _ _ N1 N2) in Hin.
    cbn [chain_rows map nearest] in Hin. fold (chain_rows up) in Hin. rewrite <- E. rewrite Hin. apply canon_nonempty. exact Hne. }
  destruct p as [p'|]; destruct (be_prefix e) as [q'|] eqn:Epf; cbn [oname_eqb andb].
  - destruct (name_eqb q' p') eqn:E; [|exact Rest]. apply name_eqb_eq in E. subst q'. apply Short. reflexivity.
  - exact Rest.
  - exact Rest.
  - apply Short. reflexivity.
Qed.

(** isDefaultNamespace *)
Lemma default_attr_decl : forall atts, Forall parsed_attr atts -> m_default_attr atts = find_decl [] (belem_decls atts).
Proof.
  intros atts H. induction H as [|a r Ha Hr IH]; cbn [m_default_attr belem_decls]; [reflexivity|].
  destruct Ha as (Hns & Hloc & Hpe & Hxx). rewrite Hns. unfold decl_attr.
  destruct (oname_eqb (ba_prefix a) (Some s_xmlns)) eqn:E1; cbn [orb].
  - apply oname_eqb_eq in E1. cbn [andb find_decl].
    destruct (name_eqb (ba_local a) s_xmlns) eqn:E3.
    + exfalso. apply Hxx. apply name_eqb_eq in E3. split; assumption.
    + destruct (ba_local a) as [|c l]; [contradiction|]. cbn [name_eqb]. exact IH.
  - destruct (oname_eqb (ba_prefix a) None) eqn:E2; cbn [andb].
    + destruct (name_eqb (ba_local a) s_xmlns) eqn:E3; cbn [andb find_decl name_eqb]; [reflexivity|exact IH].
    + exact IH.
Qed.
Lemma inscope_default : forall rows, inscope rows [] = canon (nearest rows []).
Proof. intros rows. apply inscope_plain; reflexivity. Qed.

Lemma is_default_inscope : forall chain u, Forall parsed_elem chain -> consistent chain -> u <> [] ->
  m_is_default chain (Some u) = oname_eqb (inscope (chain_rows chain) []) (Some u).
Proof.
  intros chain u HP HC Hu. induction chain as [|e up IH]; [reflexivity|].
  inversion HP as [|x l He Hup]; subst. destruct HC as (Hc & Hpe & Hcu).
  cbn [m_is_default].
  destruct (be_prefix e) as [q|] eqn:Epf.
  - rewrite (default_attr_decl _ He). rewrite inscope_default. cbn [chain_rows map nearest]. fold (chain_rows up).
    destruct (find_decl [] (belem_decls (be_attrs e))) as [v|].
    + unfold xeq. destruct v as [|c l]; cbn [canon oname_eqb].
      * apply name_eqb_neq. exact Hu.
      * apply name_eqb_sym.
    + rewrite <- inscope_default. apply IH; assumption.
  - destruct (be_ns e) as [ns|] eqn:Ens.
    + destruct Hc as [Hne Hin]. cbn [pfx_or_empty] in Hin. rewrite Hin. unfold xeq. cbn [oname_eqb]. apply name_eqb_sym.
    + destruct Hc as [_ Hin]. rewrite Hin. unfold xeq. cbn [oname_eqb]. apply name_eqb_neq. exact Hu.
Qed.

(** lookupPrefix: whatever it answers is bound to the namespace name in scope of the original element *)
Lemma lookup_prefix_attrs_sound : forall orig atts u p, m_lookup_prefix_attrs orig atts u = Some p ->
  exists a, In a atts /\ ba_local a = p /\ exists f, m_lookup_ns orig (Some p) = Some f /\ name_eqb f u = true.
Proof.
  intros orig atts u p. induction atts as [|a r IH]; cbn [m_lookup_prefix_attrs]; intros H; [discriminate|].
  destruct (oname_eqb (ba_ns a) (Some uri_xmlns) && oname_eqb (ba_prefix a) (Some s_xmlns) && name_eqb (ba_value a) u).
  - destruct (m_lookup_ns orig (Some (ba_local a))) as [f|] eqn:El.
    + destruct (name_eqb f u) eqn:Ef.
      * injection H as <-. exists a. split; [left; reflexivity|]. split; [reflexivity|]. exists f. split; assumption.
      * destruct (IH H) as (b & Hb & R). exists b. split; [right; exact Hb|exact R].
    + destruct (IH H) as (b & Hb & R). exists b. split; [right; exact Hb|exact R].
  - destruct (IH H) as (b & Hb & R). exists b. split; [right; exact Hb|exact R].
Qed.
Lemma lookup_prefix_from_sound : forall orig chain u p, m_lookup_prefix_from orig chain u = Some p ->
  exists f, m_lookup_ns orig (Some p) = Some f /\ name_eqb f u = true.
Proof.
  intros orig chain u p. induction chain as [|e up IH]; cbn [m_lookup_prefix_from]; intros H; [discriminate|].
  destruct (match be_ns e, be_prefix e with
            | Some ens, Some pfx => if name_eqb ens u then match m_lookup_ns orig (Some pfx) with
                                                          | Some f => if name_eqb f u then Some pfx else None
                                                          | None => None end else None
            | _, _ => None end) as [p0|] eqn:E0.
  - injection H as <-. destruct (be_ns e) as [ens|]; [|discriminate]. destruct (be_prefix e) as [pfx|]; [|discriminate].
    destruct (name_eqb ens u); [|discriminate]. destruct (m_lookup_ns orig (Some pfx)) as [f|] eqn:El; [|discriminate].
    destruct (name_eqb f u) eqn:Ef; [|discriminate]. injection E0 as <-. exists f. split; [exact El|exact Ef].
  - destruct (m_lookup_prefix_attrs orig (be_attrs e) u) as [p1|] eqn:E1.
    + injection H as <-. destruct (lookup_prefix_attrs_sound _ _ _ _ E1) as (a & _ & _ & R). exact R.
    + apply IH. exact H.
Qed.
Lemma lookup_prefix_sound : forall chain u p, Forall parsed_elem chain -> consistent chain -> u <> [] ->
  m_lookup_prefix chain u = Some p -> p <> [] -> name_eqb p s_xml = false -> name_eqb p s_xmlns = false ->
  inscope (chain_rows chain) p = Some u.
Proof.
  intros chain u p HP HC Hu H Hp N1 N2. unfold m_lookup_prefix in H.
  destruct (lookup_prefix_from_sound _ _ _ _ H) as (f & Hf & Ef). apply name_eqb_eq in Ef. subst f.
  assert (Hne : Some p <> Some []) by congruence.
  pose proof (lookup_ns_inscope chain (Some p) HP HC Hne N1 N2) as L. cbn [qn pfx_or_empty] in L.
  rewrite Hf in L. rewrite canon_nonempty in L by exact Hu. symmetry. exact L.
Qed.

(** the DOCUMENT_NODE entry points with the null check: a document without document element answers null / false *)
Lemma doc_lookup_empty : forall roots p u, root_chain roots = [] ->
  doc_lookup_ns roots p = None /\ doc_lookup_prefix roots u = None /\ doc_is_default roots (Some u) = false.
Proof. intros roots p u H. unfold doc_lookup_ns, doc_lookup_prefix, doc_is_default. rewrite H. repeat split. Qed.

(** lookupPrefix is complete: when some non-reserved prefix is bound to the namespace name in scope, it answers one *)
Lemma lookup_prefix_attrs_hit : forall orig atts u q a, In a atts ->
  oname_eqb (ba_ns a) (Some uri_xmlns) = true -> ba_prefix a = Some s_xmlns -> ba_local a = q -> ba_value a = u ->
  m_lookup_ns orig (Some q) = Some u -> m_lookup_prefix_attrs orig atts u <> None.
Proof.
  intros orig atts u q a Hin Hns Hp Hl Hv Hlk. induction atts as [|x r IH]; [destruct Hin|].
  cbn [m_lookup_prefix_attrs]. destruct Hin as [->|Hin].
  - rewrite Hns, Hp, Hv, Hl. cbn [oname_eqb]. rewrite !name_eqb_refl. cbn [andb]. rewrite Hlk, name_eqb_refl. discriminate.
  - destruct (oname_eqb (ba_ns x) (Some uri_xmlns) && oname_eqb (ba_prefix x) (Some s_xmlns) && name_eqb (ba_value x) u).
    + destruct (m_lookup_ns orig (Some (ba_local x))) as [f|]; [|apply IH; exact Hin].
      destruct (name_eqb f u); [discriminate|apply IH; exact Hin].
    + apply IH. exact Hin.
Qed.
Lemma lookup_prefix_from_hit : forall orig chain u q e a, In e chain -> In a (be_attrs e) ->
  oname_eqb (ba_ns a) (Some uri_xmlns) = true -> ba_prefix a = Some s_xmlns -> ba_local a = q -> ba_value a = u ->
  m_lookup_ns orig (Some q) = Some u -> m_lookup_prefix_from orig chain u <> None.
Proof.
  intros orig chain u q e a He Ha Hns Hp Hl Hv Hlk. induction chain as [|x up IH]; [destruct He|].
  cbn [m_lookup_prefix_from].
  destruct (match be_ns x, be_prefix x with
            | Some ens, Some pfx => if name_eqb ens u then match m_lookup_ns orig (Some pfx) with
                                                          | Some f => if name_eqb f u then Some pfx else None
                                                          | None => None end else None
            | _, _ => None end); [discriminate|].
  destruct He as [->|He].
  - pose proof (lookup_prefix_attrs_hit orig (be_attrs e) u q a Ha Hns Hp Hl Hv Hlk) as K.
    destruct (m_lookup_prefix_attrs orig (be_attrs e) u); [discriminate|contradiction].
  - destruct (m_lookup_prefix_attrs orig (be_attrs x) u); [discriminate|]. apply IH. exact He.
Qed.
Lemma belem_decls_in : forall atts q u, Forall parsed_attr atts -> q <> [] -> In (q, u) (belem_decls atts) ->
  exists a, In a atts /\ oname_eqb (ba_ns a) (Some uri_xmlns) = true /\ ba_prefix a = Some s_xmlns /\ ba_local a = q /\ ba_value a = u.
Proof.
  intros atts q u H Hq. induction H as [|a r Ha Hr IH]; cbn [belem_decls]; intros Hin; [destruct Hin|].
  destruct Ha as (Hns & _ & _ & _). unfold decl_attr in Hns.
  destruct (oname_eqb (ba_prefix a) (Some s_xmlns)) eqn:E1.
  - destruct Hin as [E|Hin].
    + injection E as <- <-. exists a. split; [left; reflexivity|]. cbn [orb] in Hns. split; [exact Hns|].
      apply oname_eqb_eq in E1. repeat split; assumption.
    + destruct (IH Hin) as (b & Hb & R). exists b. split; [right; exact Hb|exact R].
  - destruct (oname_eqb (ba_prefix a) None && name_eqb (ba_local a) s_xmlns).
    + destruct Hin as [E|Hin]; [injection E as E _; congruence|].
      destruct (IH Hin) as (b & Hb & R). exists b. split; [right; exact Hb|exact R].
    + destruct (IH Hin) as (b & Hb & R). exists b. split; [right; exact Hb|exact R].
Qed.
Lemma lookup_prefix_complete : forall chain u q, Forall parsed_elem chain -> consistent chain -> u <> [] -> q <> [] ->
  name_eqb q s_xml = false -> name_eqb q s_xmlns = false -> inscope (chain_rows chain) q = Some u ->
  m_lookup_prefix chain u <> None.
Proof.
  intros chain u q HP HC Hu Hq N1 N2 Hin.
  assert (Hne : Some q <> Some []) by congruence.
  pose proof (lookup_ns_inscope chain (Some q) HP HC Hne N1 N2) as L. cbn [qn pfx_or_empty] in L. rewrite Hin in L.
  assert (Hlk : m_lookup_ns chain (Some q) = Some u).
  { destruct (m_lookup_ns chain (Some q)) as [[|c l]|]; cbn [canon] in L; try discriminate. exact L. }
  rewrite (inscope_plain _ _ N1 N2) in Hin.
  destruct (nearest (chain_rows chain) q) as [v|] eqn:En; [|discriminate].
  assert (Hv : v = u) by (destruct v; cbn [canon] in Hin; [discriminate|congruence]). subst v.
  destruct (nearest_in_rows _ _ _ En) as (m & Hm & Hmu).
  unfold chain_rows in Hm. apply in_map_iff in Hm. destruct Hm as (e & <- & He).
  rewrite Forall_forall in HP. specialize (HP e He).
  destruct (belem_decls_in _ q u HP Hq Hmu) as (a & Ha & Hns & Hp & Hl & Hval).
  unfold m_lookup_prefix. exact (lookup_prefix_from_hit chain chain u q e a He Ha Hns Hp Hl Hval Hlk).
Qed.
