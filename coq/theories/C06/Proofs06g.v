(** Lemmas for T06_wfmap: WFElemStack (one flat prefix map shared by all levels, each level remembers fTopPrefix).
    Refinement to the declarations in scope for every history of addLevel / popTop / addPrefix: the rows of the
    abstraction are kept in LOOKUP order (innermost level first, within a level the latest declaration first), because
    WFElemStack::mapPrefixToURI searches the flat map from fTopPrefix downwards. *)
From XV Require Import Base.XDefs Gen.GenElemStack C06.Spec06 C06.Model06 C06.Proofs06a C06.Proofs06d.
From Coq Require Import Arith ZArith ZifyBool ZifyNat Lia.
Ltac Zify.zify_post_hook ::= Z.div_mod_to_equations.
Local Open Scope nat_scope.

Definition wtop_of (live : list wfrow) : nat := match live with [] => 0 | r :: _ => w_top r end.
Definition wtop (w : wfstack) : nat := wtop_of (ws_live w).

(** fTopPrefix + 1 of every level = number of entries of that level and of all the outer ones *)
Fixpoint tops_ok (live : list wfrow) (rows : list (list (name * nat))) : Prop :=
  match live, rows with
  | [], [] => True
  | r :: l, ds :: up => w_top r = length (concat (ds :: up)) /\ tops_ok l up
  | _, _ => False
  end.
Definition wcap_ok (c : nat) : Prop := c = 0 \/ wf_map_init <= c.

Record WInv (w : wfstack) (rows : list (list (name * nat))) : Prop := mkWInv {
  wi_pool : pool_ok (ws_pool w);
  wi_pre : exists q, ws_pool w = pfx_pool0 ++ q;
  wi_tops : tops_ok (ws_live w) rows;
  wi_ids : ids_ok (ws_pool w) (firstn (wtop w) (ws_map w));
  wi_abs : abs (ws_pool w) (firstn (wtop w) (ws_map w)) = rev (concat rows);
  wi_mapcap : wtop w <= ws_mapcap w /\ wcap_ok (ws_mapcap w);
  wi_top : length (ws_live w) <= ws_cap w;
  wi_cap : wf_stack_init <= ws_cap w }.

Lemma tops_len : forall live rows, tops_ok live rows -> wtop_of live = length (concat rows).
Proof.
  intros [|r l] [|ds up] H; cbn [tops_ok wtop_of] in *; try contradiction; [reflexivity|]. destruct H as [H _]. exact H.
Qed.
Lemma tops_length : forall live rows, tops_ok live rows -> length live = length rows.
Proof.
  induction live as [|r l IH]; intros [|ds up] H; cbn [tops_ok] in H; try contradiction; [reflexivity|].
  destruct H as [_ H]. cbn [length]. rewrite (IH up H). reflexivity.
Qed.

Lemma winv_init : WInv wfs_init [].
Proof.
  constructor; cbn.
  - intros i Hi. cbn in Hi. destruct i as [|[|[|i]]]; try lia; vm_compute; reflexivity.
  - exists []. reflexivity.
  - exact I.
  - constructor.
  - reflexivity.
  - split; [lia|left; reflexivity].
  - lia.
  - lia.
Qed.

Lemma wf_grow_stack_gt : forall c, wf_stack_init <= c -> c < c * wf_stack_num / wf_stack_den.
Proof. intros c H. unfold wf_stack_init, wf_stack_num, wf_stack_den in *. lia. Qed.
Lemma wf_grow_map_gt : forall c, wcap_ok c -> c < wf_grow_map c /\ wcap_ok (wf_grow_map c).
Proof.
  intros c [H|H]; unfold wf_grow_map, wcap_ok, wf_map_init, wf_map_num, wf_map_den in *.
  - subst c. cbn. lia.
  - destruct (c =? 0) eqn:E; [apply Nat.eqb_eq in E; lia|]. lia.
Qed.

Lemma winv_addLevel : forall w rows, WInv w rows -> exists w', wfs_addLevel w = Ok w' /\ WInv w' ([] :: rows).
Proof.
  intros w rows [P Pre T Ids A M Tp C]. unfold wfs_addLevel.
  set (cap := if length (ws_live w) =? ws_cap w then ws_cap w * wf_stack_num / wf_stack_den else ws_cap w).
  assert (Hc : length (ws_live w) < cap /\ wf_stack_init <= cap).
  { unfold cap. destruct (length (ws_live w) =? ws_cap w) eqn:E.
    - apply Nat.eqb_eq in E. pose proof (wf_grow_stack_gt (ws_cap w) C). lia.
    - apply Nat.eqb_neq in E. lia. }
  destruct Hc as [Hc1 Hc2]. assert (Hl : (length (ws_live w) <? cap) = true) by (apply Nat.ltb_lt; exact Hc1).
  rewrite Hl. eexists. split; [reflexivity|].
  fold (wtop_of (ws_live w)). fold (wtop w).
  constructor; cbn [ws_pool ws_live ws_map ws_mapcap ws_cap]; unfold wtop; cbn [ws_live wtop_of w_top]; fold (wtop w);
    try assumption.
  cbn [tops_ok concat app]. split; [|exact T]. unfold wtop. apply tops_len. exact T.
Qed.

Lemma ids_ok_firstn : forall pl n m, ids_ok pl m -> ids_ok pl (firstn n m).
Proof.
  intros pl n. induction n as [|n IH]; intros m H; [constructor|]. destruct m as [|x m]; [constructor|].
  inversion H; subst. cbn [firstn]. constructor; [assumption|]. apply IH. assumption.
Qed.
Lemma abs_length : forall pl m, length (abs pl m) = length m.
Proof. intros. unfold abs. apply map_length. Qed.
Lemma abs_firstn : forall pl n m, abs pl (firstn n m) = firstn n (abs pl m).
Proof. intros. unfold abs. symmetry. apply firstn_map. Qed.

Lemma winv_popTop : forall w ds rows, WInv w (ds :: rows) -> exists r w', wfs_popTop w = Ok (r, w') /\ WInv w' rows.
Proof.
  intros w ds rows [P Pre T Ids A M Tp C]. unfold wfs_popTop.
  destruct (ws_live w) as [|r l] eqn:El; [cbn [tops_ok] in T; contradiction|].
  cbn [tops_ok] in T. destruct T as [T1 T2].
  exists r. eexists. split; [reflexivity|].
  unfold wtop in *. rewrite El in *. cbn [wtop_of] in *.
  pose proof (tops_len l rows T2) as Hn'.
  assert (Hle : wtop_of l <= w_top r).
  { rewrite Hn', T1. cbn [concat]. rewrite app_length. lia. }
  assert (Hf : firstn (wtop_of l) (ws_map w) = firstn (wtop_of l) (firstn (w_top r) (ws_map w))).
  { rewrite firstn_firstn. rewrite Nat.min_l by exact Hle. reflexivity. }
  constructor; cbn [ws_pool ws_live ws_map ws_mapcap ws_cap]; unfold wtop; cbn [ws_live]; try assumption.
  - rewrite Hf. apply ids_ok_firstn. exact Ids.
  - rewrite Hf. rewrite abs_firstn, A. cbn [concat]. rewrite rev_app_distr.
    rewrite Hn'. rewrite <- (rev_length (concat rows)). rewrite firstn_app, Nat.sub_diag. cbn [firstn].
    rewrite app_nil_r. apply firstn_all.
  - destruct M as [M1 M2]. split; [lia|exact M2].
  - cbn [length] in Tp. lia.
Qed.
Lemma wfs_popTop_empty : forall w, WInv w [] -> wfs_popTop w = Err E_StackUnderflow.
Proof. intros w [_ _ T _ _ _ _ _]. unfold wfs_popTop. destruct (ws_live w); [reflexivity|cbn in T; contradiction]. Qed.

Lemma winv_addPrefix : forall w ds rows p u, WInv w (ds :: rows) ->
  exists w', wfs_addPrefix w p u = Ok w' /\ WInv w' (((p, u) :: ds) :: rows).
Proof.
  intros w ds rows p u [P Pre T Ids A M Tp C]. unfold wfs_addPrefix.
  destruct (ws_live w) as [|r l] eqn:El; [cbn [tops_ok] in T; contradiction|].
  cbn [tops_ok] in T. destruct T as [T1 T2].
  unfold wtop in *. rewrite El in *. cbn [wtop_of] in *.
  destruct (addOrFind_id (ws_pool w) p) as [Hid Hrange].
  destruct (addOrFind_ext (ws_pool w) p) as [q Hq].
  pose proof (pool_ok_add (ws_pool w) p P) as P'.
  destruct (pool_addOrFind (ws_pool w) p) as [pl prefId] eqn:Ea. cbn [fst snd] in *.
  set (n := w_top r) in *.
  set (uu := if (prefId =? globalPoolId) && (u =? emptyId) then emptyId else u).
  assert (Hu : uu = u).
  { unfold uu. destruct ((prefId =? globalPoolId) && (u =? emptyId)) eqn:E; [|reflexivity].
    apply andb_true_iff in E. destruct E as [_ E]. apply Nat.eqb_eq in E. congruence. }
  clearbody uu. subst uu.
  destruct M as [M1 M2].
  set (mcap := if n =? ws_mapcap w then wf_grow_map (ws_mapcap w) else ws_mapcap w).
  set (m := if n =? ws_mapcap w then firstn (ws_mapcap w) (ws_map w) else ws_map w).
  assert (Hm : n < mcap /\ wcap_ok mcap /\ firstn n m = firstn n (ws_map w)).
  { unfold mcap, m. destruct (n =? ws_mapcap w) eqn:E.
    - apply Nat.eqb_eq in E. destruct (wf_grow_map_gt _ M2) as [G1 G2]. split; [lia|]. split; [exact G2|].
      rewrite firstn_firstn. rewrite Nat.min_l by lia. reflexivity.
    - apply Nat.eqb_neq in E. split; [lia|]. split; [exact M2|reflexivity]. }
  destruct Hm as (Hm1 & Hm2 & Hm3).
  assert (Hl : (n <? mcap) = true) by (apply Nat.ltb_lt; exact Hm1). rewrite Hl.
  eexists. split; [reflexivity|].
  assert (Hlen : length (firstn n (ws_map w)) = n).
  { rewrite <- (abs_length (ws_pool w)). rewrite A. rewrite rev_length. symmetry. exact T1. }
  assert (Hv : pool_value pl prefId = p).
  { destruct prefId as [|i]; [lia|]. destruct (getId_sound pl p i Hid) as [A0 _]. unfold pool_value.
    replace (S i - 1) with i by lia. exact A0. }
  assert (Hfull : firstn (S n) (firstn n m ++ [(prefId, u)]) = firstn n (ws_map w) ++ [(prefId, u)]).
  { rewrite Hm3. apply firstn_all2. rewrite app_length, Hlen. cbn. lia. }
  constructor; cbn [ws_pool ws_live ws_map ws_mapcap ws_cap]; unfold wtop; cbn [ws_live wtop_of w_top].
  - exact P'.
  - destruct Pre as [q0 Hq0]. exists (q0 ++ q). rewrite Hq, Hq0. rewrite app_assoc. reflexivity.
  - cbn [tops_ok]. split; [|exact T2]. cbn [concat app length]. cbn [concat] in T1. rewrite T1. reflexivity.
  - rewrite Hfull. apply ids_ok_snoc; [|exact Hrange]. rewrite Hq. apply ids_ok_app. exact Ids.
  - rewrite Hfull. rewrite abs_snoc, Hv. rewrite Hq. rewrite abs_app by exact Ids. rewrite A.
    cbn [concat app rev]. reflexivity.
  - split; [lia|exact Hm2].
  - exact Tp.
  - exact C.
Qed.
Lemma wfs_addPrefix_empty : forall w p u, WInv w [] -> wfs_addPrefix w p u = Err E_EmptyStack.
Proof. intros w p u [_ _ T _ _ _ _ _]. unfold wfs_addPrefix. destruct (ws_live w); [reflexivity|cbn in T; contradiction]. Qed.

Lemma winv_setTop : forall w rows uri pfx loc, WInv w rows -> WInv (wfs_setTop w uri pfx loc) rows.
Proof.
  intros w rows uri pfx loc [P Pre T Ids A M Tp C]. unfold wfs_setTop.
  destruct (ws_live w) as [|r l] eqn:El.
  - constructor; try assumption; unfold wtop in *; rewrite El in *; assumption.
  - unfold wtop in *. rewrite El in *. cbn [wtop_of] in *.
    constructor; cbn [ws_pool ws_live ws_map ws_mapcap ws_cap]; unfold wtop; cbn [ws_live wtop_of w_top]; try assumption.
Qed.

(** ** lookups: from fTopPrefix downwards = the latest entry wins *)
Lemma find_id_app : forall id a b, find_id id (a ++ b) = match find_id id a with Some u => Some u | None => find_id id b end.
Proof.
  intros id a b. induction a as [|[p u] a IH]; cbn [app find_id]; [reflexivity|]. destruct (p =? id); [reflexivity|exact IH].
Qed.
Lemma find_last_rev : forall id m acc, find_last id m acc = match find_id id (rev m) with Some u => Some u | None => acc end.
Proof.
  intros id m. induction m as [|[p u] m IH]; intros acc; cbn [find_last rev]; [reflexivity|].
  rewrite IH, find_id_app. cbn [find_id]. destruct (find_id id (rev m)); [reflexivity|]. destruct (p =? id); reflexivity.
Qed.
Lemma nearest_concat : forall (U : Type) (rows : list (list (name * U))) p, find_decl p (concat rows) = nearest rows p.
Proof.
  intros U rows p. induction rows as [|ds r IH]; cbn [concat nearest]; [reflexivity|]. rewrite find_decl_app, IH. reflexivity.
Qed.
Lemma ids_ok_rev : forall pl m, ids_ok pl m -> ids_ok pl (rev m).
Proof. intros pl m H. unfold ids_ok in *. apply Forall_rev. exact H. Qed.
Lemma abs_rev : forall pl m, abs pl (rev m) = rev (abs pl m).
Proof. intros. unfold abs. apply map_rev. Qed.

Lemma wfs_map_correct : forall w rows p, WInv w rows -> wfs_mapPrefixToURI w p = map_answer (map_spec rows p).
Proof.
  intros w rows p [P Pre T Ids A M Tp C]. destruct Pre as [q Hq].
  destruct (pool_pre_ids q) as (I1 & I2 & I3). rewrite <- Hq in I1, I2, I3.
  unfold wfs_mapPrefixToURI, map_spec. fold (wtop_of (ws_live w)). fold (wtop w).
  set (M0 := firstn (wtop w) (ws_map w)) in *.
  rewrite find_last_rev.
  assert (Hfd : forall (Hnz : pool_getId (ws_pool w) p <> 0), find_id (pool_getId (ws_pool w) p) (rev M0) = nearest rows p).
  { intros Hnz. rewrite (find_id_abs _ p _ P (ids_ok_rev _ _ Ids) Hnz). rewrite abs_rev, A, rev_involutive. apply nearest_concat. }
  assert (Hfz : pool_getId (ws_pool w) p = 0 -> nearest rows p = None).
  { intros Hz. rewrite <- nearest_concat. rewrite <- (rev_involutive (concat rows)). rewrite <- A, <- abs_rev.
    apply find_decl_absent; [apply ids_ok_rev; exact Ids|exact Hz]. }
  destruct (pool_getId (ws_pool w) p =? 0) eqn:Ez.
  - apply Nat.eqb_eq in Ez.
    assert (N1 : name_eqb p s_xml = false).
    { apply name_eqb_neq. intros ->. rewrite I2 in Ez. discriminate. }
    assert (N2 : name_eqb p s_xmlns = false).
    { apply name_eqb_neq. intros ->. rewrite I3 in Ez. discriminate. }
    rewrite N1, N2. rewrite (Hfz Ez). destruct p; [rewrite I1 in Ez; discriminate|reflexivity].
  - apply Nat.eqb_neq in Ez.
    destruct (pool_getId (ws_pool w) p =? xmlPoolId) eqn:E2.
    + apply Nat.eqb_eq in E2. destruct (getId_sound _ p 1 E2) as [A1 _].
      destruct (getId_sound _ s_xml 1 I2) as [B _]. assert (Hp : p = s_xml) by congruence. rewrite Hp. rewrite name_eqb_refl. reflexivity.
    + assert (N1 : name_eqb p s_xml = false).
      { apply name_eqb_neq. intros ->. rewrite I2 in E2. cbn in E2. discriminate. }
      rewrite N1.
      destruct (pool_getId (ws_pool w) p =? xmlnsPoolId) eqn:E3.
      * apply Nat.eqb_eq in E3. destruct (getId_sound _ p 2 E3) as [A1 _].
        destruct (getId_sound _ s_xmlns 2 I3) as [B _]. assert (Hp : p = s_xmlns) by congruence. rewrite Hp. rewrite name_eqb_refl. reflexivity.
      * assert (N2 : name_eqb p s_xmlns = false).
        { apply name_eqb_neq. intros ->. rewrite I3 in E3. cbn in E3. discriminate. }
        rewrite N2. rewrite (Hfd Ez). destruct (nearest rows p); [reflexivity|]. destruct p; reflexivity.
Qed.

(** ** all histories of the public operations (WFElemStack has no global declarations) *)
Definition wfs_step (w : wfstack) (op : sop nat) : res wfstack xerr :=
  match op with
  | SPush => wfs_addLevel w
  | SPop => do r <- wfs_popTop w; Ok (snd r)
  | SDecl p u => wfs_addPrefix w p u
  | SGlobal _ _ => Ok w
  end.
Fixpoint wfs_run (ops : list (sop nat)) (w : wfstack) : res wfstack xerr :=
  match ops with
  | [] => Ok w
  | op :: r => do w' <- wfs_step w op; wfs_run r w'
  end.
Definition no_global (op : sop nat) : Prop := match op with SGlobal _ _ => False | _ => True end.
(** lookup order of the rows the Spec collects in declaration order *)
Definition latest_first (rows : list (list (name * nat))) : list (list (name * nat)) := map (@rev _) rows.

Lemma wfs_run_refines : forall ops w rows, Forall no_global ops -> WInv w (latest_first rows) ->
  match wfs_run ops w with
  | Ok w' => exists rows', sop_run ops rows [] = Some (rows', []) /\ WInv w' (latest_first rows')
  | Err e => (e = E_StackUnderflow \/ e = E_EmptyStack) /\ sop_run ops rows [] = None
  end.
Proof.
  induction ops as [|op ops IH]; intros w rows Hg I; cbn [wfs_run sop_run].
  - exists rows. split; [reflexivity|exact I].
  - inversion Hg as [|x l Hop Hr]; subst x l.
    destruct op as [| |p u|p u]; cbn [wfs_step]; unfold bind; [| | |destruct Hop].
    + destruct (winv_addLevel w _ I) as (w' & E & I'). rewrite E. apply (IH w' ([] :: rows) Hr). exact I'.
    + destruct rows as [|ds rows]; cbn [latest_first map] in I.
      * rewrite (wfs_popTop_empty w I). split; [left; reflexivity|reflexivity].
      * destruct (winv_popTop w _ _ I) as (r & w' & E & I'). rewrite E. cbn [snd]. apply (IH w' rows Hr). exact I'.
    + destruct rows as [|ds rows]; cbn [latest_first map] in I.
      * rewrite (wfs_addPrefix_empty w p u I). split; [right; reflexivity|reflexivity].
      * destruct (winv_addPrefix w _ _ p u I) as (w' & E & I'). rewrite E.
        apply (IH w' ((ds ++ [(p, u)]) :: rows) Hr). cbn [latest_first map]. rewrite rev_app_distr. exact I'.
Qed.

Lemma wfs_map_all_histories : forall ops w, Forall no_global ops -> wfs_run ops wfs_init = Ok w ->
  exists rows, sop_run ops [] [] = Some (rows, []) /\
               forall p, wfs_mapPrefixToURI w p = map_answer (map_spec (latest_first rows) p).
Proof.
  intros ops w Hg H. pose proof (wfs_run_refines ops wfs_init [] Hg winv_init) as R. rewrite H in R.
  destruct R as (rows & E & I). exists rows. split; [exact E|]. intros p. apply wfs_map_correct. exact I.
Qed.
Lemma wfs_no_fault : forall ops e, Forall no_global ops -> wfs_run ops wfs_init = Err e ->
  (e = E_StackUnderflow \/ e = E_EmptyStack) /\ sop_run ops ([] : list (list (name * nat))) [] = None.
Proof. intros ops e Hg H. pose proof (wfs_run_refines ops wfs_init [] Hg winv_init) as R. rewrite H in R. exact R. Qed.

(** when no level declares a prefix twice (what the scanner guarantees: a second [xmlns:p] in one tag is a duplicate
    attribute) the order inside a level is immaterial: the answer is the Spec's for the rows as declared *)
Lemma find_decl_rev_nodup : forall (U : Type) (ds : list (name * U)) p, NoDup (map fst ds) -> find_decl p (rev ds) = find_decl p ds.
Proof.
  intros U ds p. induction ds as [|[q u] r IH]; intros H; [reflexivity|]. cbn [map fst] in H. inversion H as [|x l Hq Hr]; subst.
  cbn [rev]. rewrite find_decl_app. rewrite (IH Hr). cbn [find_decl].
  destruct (find_decl p r) as [v|] eqn:E; [|reflexivity].
  destruct (name_eqb q p) eqn:Eq; [|reflexivity]. exfalso. apply name_eqb_eq in Eq. subst q. apply Hq.
  apply find_decl_in in E. change p with (fst (p, v)). apply in_map. exact E.
Qed.
Lemma nearest_latest_nodup : forall rows p, Forall (fun ds => NoDup (map fst ds)) rows -> nearest (latest_first rows) p = nearest rows p.
Proof.
  intros rows p H. induction H as [|ds r Hd Hr IH]; [reflexivity|]. cbn [latest_first map nearest].
  rewrite (find_decl_rev_nodup _ ds p Hd). fold (latest_first r). rewrite IH. reflexivity.
Qed.
Lemma wfs_map_nodup : forall ops w, Forall no_global ops -> wfs_run ops wfs_init = Ok w ->
  exists rows, sop_run ops [] [] = Some (rows, []) /\
    (Forall (fun ds => NoDup (map fst ds)) rows -> forall p, wfs_mapPrefixToURI w p = map_answer (map_spec rows p)).
Proof.
  intros ops w Hg H. destruct (wfs_map_all_histories ops w Hg H) as (rows & E & K). exists rows. split; [exact E|].
  intros Hn p. rewrite K. unfold map_spec. rewrite (nearest_latest_nodup rows p Hn). reflexivity.
Qed.
