(** T06_resolve at document level: for every well-nested token sequence the start-tag events the scanner delivers are,
    in order, exactly what the Spec ([sp_doc]) demands -- namespace of every element and attribute -- up to the first
    tag that violates a namespace constraint, where (and only where) the scan ends with a namespace error. *)
From XV Require Import Base.XDefs Gen.GenElemStack C06.Spec06 C06.Model06 C06.Proofs06a C06.Proofs06d.
From Coq Require Import Arith Lia.
Local Open Scope nat_scope.

Lemma res_ok_ext : forall uris q u r, res_ok uris u r -> res_ok (uris ++ q) u r.
Proof.
  intros uris q u r [H K]. split; [rewrite app_length; lia|]. rewrite pool_value_app by exact H. exact K.
Qed.
Lemma start_ok_ext : forall uris q d r, start_ok uris d r -> start_ok (uris ++ q) d r.
Proof.
  intros uris q d r [A B]. split; [apply res_ok_ext; exact A|].
  induction B; constructor; [apply res_ok_ext; assumption|assumption].
Qed.
Lemma starts_ext : forall uris q l l', Forall2 (start_ok uris) l l' -> Forall2 (start_ok (uris ++ q)) l l'.
Proof. intros uris q l l' H. induction H; constructor; [apply start_ok_ext; assumption|assumption]. Qed.

Lemma dev_starts_app : forall a b, dev_starts (a ++ b) = dev_starts a ++ dev_starts b.
Proof.
  induction a as [|e a IH]; intros b; [reflexivity|]. cbn [app dev_starts]. destruct e; cbn [app]; rewrite IH; reflexivity.
Qed.

Lemma doc_resolve : forall c ts s rows, nonwf c -> SInvR (c_v11 c) s rows -> toks_nc ts ->
  toks_nested ts (length rows) = true ->
  forall s' devs err, scan_toks c s ts = (s', devs, err) ->
  (exists q, sc_uris s' = sc_uris s ++ q) /\
  Forall2 (start_ok (sc_uris s')) (dev_starts devs) (fst (sp_doc (c_v11 c) (map sp_tok_of ts) rows)) /\
  (snd (sp_doc (c_v11 c) (map sp_tok_of ts) rows) = true <-> err <> None) /\
  (forall e, err = Some e -> ns_error e = true).
Proof.
  intros c ts. induction ts as [|t r IH]; intros s rows Hc HS Hnc Hnest s' devs err H.
  - cbn in H. injection H as <- <- <-. cbn. split; [exists []; symmetry; apply app_nil_r|]. split; [constructor|].
    split; [split; [discriminate|congruence]|discriminate].
  - inversion Hnc as [|x l Ht Hr]; subst x l. cbn [scan_toks] in H. cbn [map].
    destruct t as [pfx loc attrs empty| | | |p0 l0 a0 d0 e0]; [| | | |contradiction].
    + (* start tag *)
      cbn [sp_tok_of sp_doc]. cbn [scan_tok] in H. unfold bind in H.
      pose proof (ncname_wf _ Ht) as Hwf.
      destruct (startTag c s pfx loc attrs) as [[[s1 uri] xs]|e0] eqn:Est.
      * destruct (startTag_sound c s rows pfx loc attrs s1 uri xs Hc HS Hwf Est) as (en & ans & Hsp & Re & Ra & _ & I1).
        destruct (startTag_uris_ext c s rows pfx loc attrs s1 uri xs Hc HS Hwf Est) as [q1 Q1].
        rewrite Hsp.
        destruct empty.
        -- destruct (st_pop_inv c s1 _ rows Hc I1) as (u0 & p0 & l0 & s2 & Ep & I2 & U2). rewrite Ep in H.
           destruct (scan_toks c s2 r) as [[s3 evs3] e3] eqn:Er. injection H as <- <- <-.
           cbn [toks_nested] in Hnest.
           destruct (IH s2 rows Hc I2 Hr Hnest s3 evs3 e3 Er) as ([q3 Q3] & F & B & E).
           destruct (sp_doc (c_v11 c) (map sp_tok_of r) rows) as [l bad] eqn:Ed. cbn [fst snd] in *.
           split; [exists (q1 ++ q3); rewrite Q3, U2, Q1, app_assoc; reflexivity|].
           split; [|split; [exact B|exact E]].
           cbn [app dev_starts]. constructor; [|exact F].
           rewrite Q3, U2. apply start_ok_ext. split; [exact Re|exact Ra].
        -- destruct (scan_toks c s1 r) as [[s3 evs3] e3] eqn:Er. injection H as <- <- <-.
           cbn [toks_nested] in Hnest.
           destruct (IH s1 (sp_decls (map sp_of attrs) :: rows) Hc I1 Hr Hnest s3 evs3 e3 Er) as ([q3 Q3] & F & B & E).
           destruct (sp_doc (c_v11 c) (map sp_tok_of r) (sp_decls (map sp_of attrs) :: rows)) as [l bad] eqn:Ed. cbn [fst snd] in *.
           split; [exists (q1 ++ q3); rewrite Q3, Q1, app_assoc; reflexivity|].
           split; [|split; [exact B|exact E]].
           cbn [app dev_starts]. constructor; [|exact F].
           rewrite Q3. apply start_ok_ext. split; [exact Re|exact Ra].
      * injection H as <- <- <-.
        destruct (sp_tag (c_v11 c) rows pfx (map sp_of attrs)) as [[en ans]|] eqn:Hsp.
        -- exfalso. destruct (startTag_complete c s rows pfx loc attrs en ans Hc HS Ht Hsp) as (a & b & d & K). congruence.
        -- destruct (startTag_rejects c s rows pfx loc attrs Hc HS Hwf Hsp) as (e1 & K1 & K2). rewrite Est in K1. injection K1 as <-.
           cbn [fst snd dev_starts]. split; [exists []; symmetry; apply app_nil_r|]. split; [constructor|].
           split; [split; [discriminate|reflexivity]|]. intros e Ee. injection Ee as <-. exact K2.
    + (* end tag *)
      cbn [sp_tok_of sp_doc]. cbn [scan_tok] in H. unfold bind in H. cbn [toks_nested] in Hnest.
      destruct rows as [|ds rows]; [discriminate|]. cbn [length tl] in *.
      destruct (st_pop_inv c s ds rows Hc HS) as (u0 & p0 & l0 & s1 & Ep & I1 & U1). rewrite Ep in H.
      destruct (scan_toks c s1 r) as [[s3 evs3] e3] eqn:Er. injection H as <- <- <-.
      destruct (IH s1 rows Hc I1 Hr Hnest s3 evs3 e3 Er) as ([q3 Q3] & F & B & E).
      split; [exists q3; rewrite Q3, U1; reflexivity|]. split; [exact F|]. split; [exact B|exact E].
    + cbn [sp_tok_of sp_doc]. cbn [scan_tok] in H. cbn [toks_nested] in Hnest.
      destruct (scan_toks c s r) as [[s3 evs3] e3] eqn:Er. injection H as <- <- <-.
      destruct (IH s rows Hc HS Hr Hnest s3 evs3 e3 Er) as (Q & F & B & E).
      split; [exact Q|]. split; [exact F|]. split; [exact B|exact E].
    + cbn [sp_tok_of sp_doc]. cbn [scan_tok] in H. cbn [toks_nested] in Hnest.
      destruct (scan_toks c s r) as [[s3 evs3] e3] eqn:Er. injection H as <- <- <-.
      destruct (IH s rows Hc HS Hr Hnest s3 evs3 e3 Er) as (Q & F & B & E).
      split; [exact Q|]. split; [exact F|]. split; [exact B|exact E].
Qed.

Lemma doc_resolve_init : forall c ts s' devs err, nonwf c -> toks_nc ts -> toks_nested ts 0 = true ->
  scan_toks c scan_init ts = (s', devs, err) ->
  Forall2 (start_ok (sc_uris s')) (dev_starts devs) (fst (sp_doc (c_v11 c) (map sp_tok_of ts) [])) /\
  (snd (sp_doc (c_v11 c) (map sp_tok_of ts) []) = true <-> err <> None) /\
  (forall e, err = Some e -> ns_error e = true).
Proof.
  intros c ts s' devs err Hc Hnc Hn H.
  destruct (doc_resolve c ts scan_init [] Hc (sinvr_init (c_v11 c)) Hnc Hn s' devs err H) as (_ & A & B & C).
  split; [exact A|]. split; [exact B|exact C].
Qed.
