(** Specification for C06 -- namespace processing.  Nothing here mentions the C++.
    - [inscope]: Namespaces in XML 1.0 sections 3-6: the binding of a prefix at a point of the document is given by
      the nearest enclosing declaration; [xml] and [xmlns] are bound by definition; [xmlns=""] un-declares the
      default namespace (and, in Namespaces 1.1, [xmlns:p=""] un-declares p); the default namespace applies to
      element names only.
    - [stream_ok]: SAX2 prefix-mapping events form a Dyck word nested around the element events, each
      endPrefixMapping closes the latest open startPrefixMapping, mappings are started immediately before their
      startElement and ended immediately after its endElement, every reported element / attribute URI is the one
      [inscope] assigns under the open mappings, and nothing is left open at the end.
    - [b_lookup_ns], [b_lookup_prefix], [b_is_default]: DOM Level 3 Core Appendix B.2-B.4 over a rose tree, phrased
      on the ancestor-or-self chain of a node. *)
From XV Require Import Base.XDefs.
Local Open Scope N_scope.

Definition name := list N.     (* a string of UTF-16 code units; [] is the empty string *)

Fixpoint name_eqb (a b : name) : bool :=
  match a, b with
  | [], [] => true
  | x :: a', y :: b' => N.eqb x y && name_eqb a' b'
  | _, _ => false
  end.

Definition s_xml : name := [120; 109; 108]. (* xml *)
Definition s_xmlns : name := [120; 109; 108; 110; 115]. (* xmlns *)
Definition uri_xml : name := [104; 116; 116; 112; 58; 47; 47; 119; 119; 119; 46; 119; 51; 46; 111; 114; 103; 47; 88; 77; 76; 47; 49; 57; 57; 56; 47; 110; 97; 109; 101; 115; 112; 97; 99; 101]. (* http://www.w3.org/XML/1998/namespace *)
Definition uri_xmlns : name := [104; 116; 116; 112; 58; 47; 47; 119; 119; 119; 46; 119; 51; 46; 111; 114; 103; 47; 50; 48; 48; 48; 47; 120; 109; 108; 110; 115; 47]. (* http://www.w3.org/2000/xmlns/ *)

(** ** Attribute-value normalisation (XML 1.0 section 3.3.3, CDATA attributes -- namespace declarations are CDATA unless
    a DTD says otherwise): the value as written is a sequence of literal characters (after end-of-line handling, 2.11) and
    of characters that came from a character reference or a predefined entity reference; a literal white space character
    (#x20, #xD, #xA, #x9) becomes #x20, a referenced character is taken as it is (text of an internal entity counts as
    literal).  The namespace name a declaration binds is this normalised value. *)
Inductive avitem := AvLit (c : N) | AvRef (c : N).
Definition is_ws (c : N) : bool := N.eqb c 32 || N.eqb c 9 || N.eqb c 10 || N.eqb c 13.
Fixpoint spec_norm (l : list avitem) : name :=
  match l with
  | [] => []
  | AvLit c :: r => (if is_ws c then 32 else c) :: spec_norm r
  | AvRef c :: r => c :: spec_norm r
  end.

(** ** In-scope namespaces *)
(** a declaration: prefix ([] = the default namespace) and namespace name ([] = un-declaration) *)
Definition decl := (name * name)%type.

Fixpoint find_decl {U : Type} (p : name) (ds : list (name * U)) : option U :=
  match ds with
  | [] => None
  | (q, u) :: r => if name_eqb q p then Some u else find_decl p r
  end.

(** [rows]: the declarations of the enclosing elements, innermost first *)
Fixpoint nearest {U : Type} (rows : list (list (name * U))) (p : name) : option U :=
  match rows with
  | [] => None
  | ds :: r => match find_decl p ds with Some u => Some u | None => nearest r p end
  end.

(** the namespace name bound to prefix [p] ([] = default namespace); [None] = no binding *)
Definition inscope (rows : list (list decl)) (p : name) : option name :=
  if name_eqb p s_xml then Some uri_xml
  else if name_eqb p s_xmlns then Some uri_xmlns
  else match nearest rows p with
       | Some [] => None           (* un-declared *)
       | Some u => Some u
       | None => None
       end.

(** the same, for a prefix map whose values are of any type [U] (the code keeps ids of pooled strings): what a lookup
    must answer after a history of scope openings / closings / declarations *)
Inductive mapres (U : Type) := MBound (u : U) | MXml | MXmlns | MNoDefault | MUnknown.
Arguments MBound {U} u. Arguments MXml {U}. Arguments MXmlns {U}. Arguments MNoDefault {U}. Arguments MUnknown {U}.
Definition map_spec {U : Type} (rows : list (list (name * U))) (p : name) : mapres U :=
  if name_eqb p s_xml then MXml
  else if name_eqb p s_xmlns then MXmlns
  else match nearest rows p with
       | Some u => MBound u
       | None => match p with [] => MNoDefault | _ => MUnknown end
       end.
Inductive sop (U : Type) := SPush | SPop | SDecl (p : name) (u : U) | SGlobal (p : name) (u : U).
Arguments SPush {U}. Arguments SPop {U}. Arguments SDecl {U} p u. Arguments SGlobal {U} p u.
(** the declarations in scope after a history ([None]: the history closes a scope that is not open, or declares
    outside any scope); [g] = declarations made globally (outermost) *)
Fixpoint sop_run {U : Type} (ops : list (sop U)) (rows : list (list (name * U))) (g : list (name * U))
  : option (list (list (name * U)) * list (name * U)) :=
  match ops with
  | [] => Some (rows, g)
  | SPush :: r => sop_run r ([] :: rows) g
  | SPop :: r => match rows with [] => None | _ :: up => sop_run r up g end
  | SDecl p u :: r => match rows with [] => None | ds :: up => sop_run r ((ds ++ [(p, u)]) :: up) g end
  | SGlobal p u :: r => sop_run r rows (g ++ [(p, u)])
  end.

Inductive nsres := NsIn (u : name) | NsNone | NsUnbound.

(** expanded name of an element: an unprefixed element is in the default namespace (if any) *)
Definition elem_ns (rows : list (list decl)) (pfx : name) : nsres :=
  match inscope rows pfx with
  | Some u => NsIn u
  | None => match pfx with [] => NsNone | _ => NsUnbound end
  end.
(** expanded name of an attribute: the default namespace does not apply *)
Definition attr_ns (rows : list (list decl)) (pfx : name) : nsres :=
  match pfx with
  | [] => NsNone
  | _ => match inscope rows pfx with Some u => NsIn u | None => NsUnbound end
  end.

(** which declarations are illegal (Namespaces in XML 1.0 section 3 "Reserved Prefixes and Namespace Names",
    section 5 / 6.1): [v11] = Namespaces 1.1 (prefix un-declaration allowed) *)
Definition decl_legal (v11 : bool) (d : decl) : bool :=
  let (p, u) := d in
  if name_eqb p s_xmlns then false                         (* xmlns:xmlns *)
  else if name_eqb u uri_xmlns then false                  (* nothing may be bound to the xmlns namespace name *)
  else if name_eqb p s_xml then name_eqb u uri_xml         (* xml only to its own name *)
  else if name_eqb u uri_xml then false                    (* ... and nothing else to that name *)
  else match p, u with
       | _ :: _, [] => v11                                 (* xmlns:p="" *)
       | _, _ => true
       end.

(** two attributes of one tag may not have the same expanded name *)
Definition key_eqb (a b : nsres * name) : bool :=
  match fst a, fst b with
  | NsIn x, NsIn y => name_eqb x y && name_eqb (snd a) (snd b)
  | NsNone, NsNone => name_eqb (snd a) (snd b)
  | _, _ => false
  end.
Fixpoint has_dup (l : list (nsres * name)) : bool :=
  match l with
  | [] => false
  | k :: r => existsb (key_eqb k) r || has_dup r
  end.

(** ** What a namespace-aware parser must report for a start tag, given the declarations of the enclosing
    elements: [None] = the tag violates a namespace constraint (illegal declaration, unbound prefix, two attributes
    with one expanded name); otherwise the namespace of the element and of each attribute, in order *)
Record sp_attr := mkSpAttr { spa_pfx : name; spa_loc : name; spa_val : name }.
Definition sp_decl_of (a : sp_attr) : list decl :=
  if name_eqb (spa_pfx a) s_xmlns then [(spa_loc a, spa_val a)]
  else match spa_pfx a with
       | [] => if name_eqb (spa_loc a) s_xmlns then [([], spa_val a)] else []
       | _ => []
       end.
Definition sp_decls (atts : list sp_attr) : list decl := flat_map sp_decl_of atts.
Definition is_unbound (r : nsres) : bool := match r with NsUnbound => true | _ => false end.
Definition sp_tag (v11 : bool) (rows : list (list decl)) (pfx : name) (atts : list sp_attr) : option (nsres * list nsres) :=
  let ds := sp_decls atts in
  let rows' := ds :: rows in
  let e := elem_ns rows' pfx in
  let ans := map (fun a => attr_ns rows' (spa_pfx a)) atts in
  if forallb (decl_legal v11) ds && negb (is_unbound e) && negb (existsb is_unbound ans) &&
     negb (has_dup (combine ans (map spa_loc atts)))
  then Some (e, ans) else None.

(** a whole document as a sequence of tags: what must be reported for each start tag, in order, up to the first tag that
    violates a namespace constraint ([true] = there is one) *)
Inductive sp_tok := SpStart (pfx : name) (atts : list sp_attr) (empty : bool) | SpEnd | SpOther.
Fixpoint sp_doc (v11 : bool) (ts : list sp_tok) (rows : list (list decl)) : list (nsres * list nsres) * bool :=
  match ts with
  | [] => ([], false)
  | SpStart pfx atts empty :: r =>
    match sp_tag v11 rows pfx atts with
    | None => ([], true)
    | Some res => let (l, bad) := sp_doc v11 r (if empty then rows else sp_decls atts :: rows) in (res :: l, bad)
    end
  | SpEnd :: r => sp_doc v11 r (tl rows)
  | SpOther :: r => sp_doc v11 r rows
  end.

(** answers the DOM lookups must give on a node whose enclosing declarations are [rows] *)
Definition sp_lookup_ns (rows : list (list decl)) (p : option name) : option name :=
  match p with None => inscope rows [] | Some q => inscope rows q end.
Definition sp_is_default (rows : list (list decl)) (u : option name) : bool := 
  match inscope rows [], u with Some a, Some b => name_eqb a b | None, None => true | _, _ => false end.
Definition sp_prefixes (rows : list (list decl)) (u : name) : list name :=
  filter (fun q => match q with [] => false | _ => match inscope rows q with Some v => name_eqb v u | None => false end end)
         (map fst (concat rows)).

(** ** SAX2 event streams *)
Definition colon : N := 58.
Fixpoint split_colon (q : name) (acc : name) : name * name :=   (* (prefix, local part) of a QName *)
  match q with
  | [] => ([], rev acc)
  | c :: r => if N.eqb c colon then (rev acc, r) else split_colon r (c :: acc)
  end.
Definition qprefix (q : name) : name := fst (split_colon q []).
Definition qlocal (q : name) : name := snd (split_colon q []).

Record sattr := mkSAttr { sa_uri : name; sa_local : name; sa_qname : name; sa_value : name }.
Inductive sev :=
| SPM (p u : name)                                   (* startPrefixMapping *)
| EPM (p : name)                                     (* endPrefixMapping *)
| SE (uri loc qn : name) (atts : list sattr)         (* startElement *)
| EE (uri loc qn : name)                             (* endElement *)
| CH.                                                (* characters *)

Inductive frame := FPfx (p u : name) | FElem (uri loc qn : name).

(** the open mappings as declaration rows (one row per mapping; innermost first) *)
Fixpoint frame_rows (st : list frame) : list (list decl) :=
  match st with
  | [] => []
  | FPfx p u :: r => [(p, u)] :: frame_rows r
  | FElem _ _ _ :: r => frame_rows r
  end.

Definition nsres_is (r : nsres) (uri : name) : bool :=
  match r with NsIn u => name_eqb u uri | NsNone => name_eqb uri [] | NsUnbound => false end.

(** attribute of a startElement agrees with the open mappings.  Declarations themselves (when reported:
    namespace-prefixes on) are [xmlns] in no namespace and [xmlns:p] in the xmlns namespace. *)
Definition sattr_ok (st : list frame) (a : sattr) : bool :=
  name_eqb (sa_local a) (qlocal (sa_qname a)) &&
  (if name_eqb (sa_qname a) s_xmlns then name_eqb (sa_uri a) []
   else nsres_is (attr_ns (frame_rows st) (qprefix (sa_qname a))) (sa_uri a)).

Definition sattr_key (st : list frame) (a : sattr) : nsres * name :=
  (match sa_uri a with [] => NsNone | u => NsIn u end, sa_local a).

(** [pend]: mappings started and still waiting for their startElement; [closing]: the last event was an
    endElement / endPrefixMapping (so that an endPrefixMapping may follow) *)
Fixpoint stream_ok_aux (evs : list sev) (st : list frame) (pend : nat) (closing : bool) : bool :=
  match evs with
  | [] => match st with [] => Nat.eqb pend 0 | _ => false end
  | SPM p u :: r => stream_ok_aux r (FPfx p u :: st) (S pend) false
  | SE uri loc qn atts :: r =>
      name_eqb loc (qlocal qn) &&
      nsres_is (elem_ns (frame_rows st) (qprefix qn)) uri &&
      forallb (sattr_ok st) atts &&
      negb (has_dup (map (sattr_key st) atts)) &&
      stream_ok_aux r (FElem uri loc qn :: st) 0 false
  | CH :: r => Nat.eqb pend 0 && stream_ok_aux r st 0 false
  | EE uri loc qn :: r =>
      Nat.eqb pend 0 &&
      match st with
      | FElem u l q :: st' => name_eqb u uri && name_eqb l loc && name_eqb q qn && stream_ok_aux r st' 0 true
      | _ => false
      end
  | EPM p :: r =>
      Nat.eqb pend 0 && closing &&
      match st with
      | FPfx q _ :: st' => name_eqb q p && stream_ok_aux r st' 0 true
      | _ => false
      end
  end.
Definition stream_ok (evs : list sev) : bool := stream_ok_aux evs [] 0 false.

(** the bare bracket structure (used in the statement of T06_sax2_balanced) *)
Inductive bracket := BOpenP (p : name) | BCloseP (p : name) | BOpenE | BCloseE.
Fixpoint dyck (w : list bracket) (st : list (option name)) : bool :=
  match w with
  | [] => match st with [] => true | _ => false end
  | BOpenP p :: r => dyck r (Some p :: st)
  | BOpenE :: r => dyck r (None :: st)
  | BCloseP p :: r => match st with Some q :: st' => name_eqb q p && dyck r st' | _ => false end
  | BCloseE :: r => match st with None :: st' => dyck r st' | _ => false end
  end.
Definition bracket_of (e : sev) : list bracket :=
  match e with SPM p _ => [BOpenP p] | EPM p => [BCloseP p] | SE _ _ _ _ => [BOpenE] | EE _ _ _ => [BCloseE] | CH => [] end.

(** ** DOM Level 3 Core, Appendix B, on the ancestor-or-self element chain of a node (innermost first) *)
Record battr := mkBAttr { ba_ns : option name; ba_prefix : option name; ba_local : name; ba_value : name }.
Record belem := mkBElem { be_ns : option name; be_prefix : option name; be_local : name; be_attrs : list battr }.

Definition oname_eqb (a b : option name) : bool :=
  match a, b with Some x, Some y => name_eqb x y | None, None => true | _, _ => false end.
Definition nonempty (v : name) : option name := match v with [] => None | _ => Some v end.

(** B.4 lookupNamespaceURI(prefix); [None] as prefix = the default namespace *)
Fixpoint b_lookup_ns_attrs (atts : list battr) (p : option name) : option (option name) :=
  match atts with
  | [] => None
  | a :: r =>
    if oname_eqb (ba_prefix a) (Some s_xmlns) && oname_eqb (Some (ba_local a)) p then Some (nonempty (ba_value a))
    else if name_eqb (ba_local a) s_xmlns && oname_eqb (ba_prefix a) None && oname_eqb p None then Some (nonempty (ba_value a))
    else b_lookup_ns_attrs r p
  end.
Fixpoint b_lookup_ns (chain : list belem) (p : option name) : option name :=
  match chain with
  | [] => None
  | e :: up =>
    match be_ns e with
    | Some ns => if oname_eqb (be_prefix e) p then Some ns else
                 match b_lookup_ns_attrs (be_attrs e) p with Some r => r | None => b_lookup_ns up p end
    | None => match b_lookup_ns_attrs (be_attrs e) p with Some r => r | None => b_lookup_ns up p end
    end
  end.

(** B.2 lookupPrefix(namespaceURI) *)
Fixpoint b_lookup_prefix_attrs (orig : list belem) (atts : list battr) (ns : name) : option name :=
  match atts with
  | [] => None
  | a :: r =>
    if oname_eqb (ba_prefix a) (Some s_xmlns) && name_eqb (ba_value a) ns &&
       oname_eqb (b_lookup_ns orig (Some (ba_local a))) (Some ns) then Some (ba_local a)
    else b_lookup_prefix_attrs orig r ns
  end.
Fixpoint b_lookup_prefix_from (orig chain : list belem) (ns : name) : option name :=
  match chain with
  | [] => None
  | e :: up =>
    match be_ns e, be_prefix e with
    | Some ens, Some pfx =>
      if name_eqb ens ns && oname_eqb (b_lookup_ns orig (Some pfx)) (Some ns) then Some pfx
      else match b_lookup_prefix_attrs orig (be_attrs e) ns with Some p => Some p | None => b_lookup_prefix_from orig up ns end
    | _, _ => match b_lookup_prefix_attrs orig (be_attrs e) ns with Some p => Some p | None => b_lookup_prefix_from orig up ns end
    end
  end.
Definition b_lookup_prefix (chain : list belem) (ns : name) : option name := b_lookup_prefix_from chain chain ns.

(** B.3 isDefaultNamespace(namespaceURI) *)
Fixpoint b_default_attr (atts : list battr) : option name :=
  match atts with
  | [] => None
  | a :: r => if oname_eqb (ba_prefix a) None && name_eqb (ba_local a) s_xmlns then Some (ba_value a) else b_default_attr r
  end.
Fixpoint b_is_default (chain : list belem) (ns : option name) : bool :=
  match chain with
  | [] => false
  | e :: up =>
    match be_prefix e with
    | None => oname_eqb (be_ns e) ns
    | Some _ => match b_default_attr (be_attrs e) with
                | Some v => oname_eqb (nonempty v) ns
                | None => b_is_default up ns
                end
    end
  end.

(** the declarations an element carries, read off its attributes *)
Fixpoint belem_decls (atts : list battr) : list decl :=
  match atts with
  | [] => []
  | a :: r =>
    if oname_eqb (ba_prefix a) (Some s_xmlns) then (ba_local a, ba_value a) :: belem_decls r
    else if oname_eqb (ba_prefix a) None && name_eqb (ba_local a) s_xmlns then ([], ba_value a) :: belem_decls r
    else belem_decls r
  end.
Definition chain_rows (chain : list belem) : list (list decl) := map (fun e => belem_decls (be_attrs e)) chain.

(** ** DOM trees as a namespace-aware parser builds them (DOM Level 2 "namespace well-formed"):
    an attribute is in the xmlns namespace exactly when it is a declaration ([xmlns] or [xmlns:p], p not xmlns), local
    names are not empty ... *)
Definition decl_attr (a : battr) : bool :=
  oname_eqb (ba_prefix a) (Some s_xmlns) || (oname_eqb (ba_prefix a) None && name_eqb (ba_local a) s_xmlns).
Definition parsed_attr (a : battr) : Prop :=
  oname_eqb (ba_ns a) (Some uri_xmlns) = decl_attr a /\ ba_local a <> [] /\ ba_prefix a <> Some [] /\
  ~ (ba_prefix a = Some s_xmlns /\ ba_local a = s_xmlns).
Definition parsed_elem (e : belem) : Prop := Forall parsed_attr (be_attrs e).
(** ... and every element's namespaceURI / prefix agree with the declarations in scope at that element *)
Definition pfx_or_empty (o : option name) : name := match o with Some p => p | None => [] end.
Fixpoint consistent (chain : list belem) : Prop :=
  match chain with
  | [] => True
  | e :: up =>
    match be_ns e with
    | Some ns => ns <> [] /\ inscope (chain_rows (e :: up)) (pfx_or_empty (be_prefix e)) = Some ns
    | None => be_prefix e = None /\ inscope (chain_rows (e :: up)) [] = None
    end /\ be_prefix e <> Some [] /\ consistent up
  end.
(** null and the empty string are the same answer *)
Definition canon (o : option name) : option name := match o with Some [] => None | _ => o end.
