(** Executable model of the namespace machinery of xerces-c, following the C++ function by function.  No proofs here.
      src/xercesc/util/StringPool.cpp            pool_getId / pool_addOrFind / pool_value (ids start at 1, 0 = absent)
      src/xercesc/internal/ElemStack.cpp         es_addLevel / es_popTop / es_addPrefix / es_addGlobalPrefix /
                                                 es_mapPrefixToURI / expandMap / expandStack (capacities from Gen)
                                                 wfs_* = WFElemStack (one flat map + fTopPrefix per level)
      src/xercesc/internal/IGXMLScanner{,2}.cpp  scanStartTagNS: scanRawAttrListforNameSpaces / updateNSMap,
                                                 resolvePrefix (XMLScanner.cpp), buildAttList (duplicate detection)
      src/xercesc/internal/WFXMLScanner.cpp      scanStartTagNS (its own order of checks)
      src/xercesc/parsers/SAX2XMLReaderImpl.cpp  startElement / endElement (fPrefixes, fPrefixCounts)
      src/xercesc/parsers/AbstractDOMParser.cpp  startElement (createElementNS / createAttrNS, sorted attribute map)
      src/xercesc/dom/impl/DOMNodeImpl.cpp       lookupNamespaceURI / lookupPrefix / isDefaultNamespace
                                                 (with the null check of fixes/C06-lookup-null.patch on DOCUMENT_NODE)
    Strings are [list N] (UTF-16 code units); ids, capacities and indices are [nat]. *)
From XV Require Import Base.XDefs Gen.GenElemStack C06.Spec06.
From Coq Require Import Arith.
Local Open Scope nat_scope.

Inductive xerr :=
| E_UnknownPrefix | E_NoUseOfxmlnsAsPrefix | E_PrefixXMLNotMatchXMLURI | E_NoEmptyStrNamespace
| E_NoUseOfxmlnsURI | E_XMLURINotMatchXMLPrefix | E_AttrAlreadyUsedInSTag
| E_StackUnderflow | E_EmptyStack      (* EmptyStackException *)
| E_Fault.                             (* the model wrote outside an allocated array: memory error *)

Definition bind {A B} (r : res A xerr) (f : A -> res B xerr) : res B xerr :=
  match r with Ok a => f a | Err e => Err e end.
Notation "'do' x <- r ; k" := (bind r (fun x => k)) (at level 200, x pattern, r at level 100, k at level 200).

(** ** XMLStringPool *)
Definition pool := list name.
Fixpoint pool_getId (pl : pool) (s : name) : nat :=
  match pl with
  | [] => 0
  | x :: r => if name_eqb x s then 1 else match pool_getId r s with 0 => 0 | S k => S (S k) end
  end.
Definition pool_addOrFind (pl : pool) (s : name) : pool * nat :=
  match pool_getId pl s with
  | 0 => (pl ++ [s], S (length pl))
  | id => (pl, id)
  end.
Definition pool_value (pl : pool) (id : nat) : name := nth (id - 1) pl [].

Definition uri_unknown : name := [104; 116; 116; 112; 58; 47; 47; 97; 112; 97; 99; 104; 101; 46; 111; 114; 103; 47; 120; 109; 108; 47; 85; 110; 107; 110; 111; 119; 110; 78; 83]%N. (* http://apache.org/xml/UnknownNS *)
Definition uri_xsi : name := [104; 116; 116; 112; 58; 47; 47; 119; 119; 119; 46; 119; 51; 46; 111; 114; 103; 47; 50; 48; 48; 49; 47; 88; 77; 76; 83; 99; 104; 101; 109; 97; 45; 105; 110; 115; 116; 97; 110; 99; 101]%N.

(** XMLScanner::commonInit / scanReset: the URI pool starts with these, in this order *)
Definition uri_pool0 : pool := [[]; uri_unknown; uri_xml; uri_xmlns; uri_xsi].
Definition emptyId := 1.      (* fEmptyNamespaceId *)
Definition unknownId := 2.    (* fUnknownNamespaceId *)
Definition xmlId := 3.        (* fXMLNamespaceId *)
Definition xmlnsId := 4.      (* fXMLNSNamespaceId *)
(** ElemStack::reset: the prefix pool starts with "", "xml", "xmlns" *)
Definition pfx_pool0 : pool := [[]; s_xml; s_xmlns].
Definition globalPoolId := 1.
Definition xmlPoolId := 2.
Definition xmlnsPoolId := 3.

(** ** ElemStack *)
Record row := mkRow {
  r_map : list (nat * nat);    (* fMap[0..fMapCount): (fPrefId, fURIId) in insertion order *)
  r_cap : nat;                 (* fMapCapacity *)
  r_uri : nat;                 (* fCurrentURI *)
  r_pfx : name;                (* the element's prefix and local part (fThisElement / fPrefixColonPos) *)
  r_loc : name }.

(** fStack[0..fStackTop) = [rev es_live]; the slots above the top that were initialised earlier (and keep their
    map allocation) = [es_dead], nearest first *)
Record estack := mkES {
  es_live : list row;
  es_dead : list row;
  es_cap : nat;                (* fStackCapacity *)
  es_pool : pool;              (* fPrefixPool *)
  es_global : option row }.    (* fGlobalNamespaces *)

Definition es_init : estack := mkES [] [] es_stack_init pfx_pool0 None.

Definition grow_map (cap : nat) : nat := if cap =? 0 then es_map_init else cap * es_map_num / es_map_den.
Definition grow_stack (cap : nat) : nat := cap * es_stack_num / es_stack_den.

(** expandMap: allocate [newCapacity], memcpy [oldCap] elements *)
Definition expandMap (r : row) : row :=
  mkRow (firstn (r_cap r) (r_map r)) (grow_map (r_cap r)) (r_uri r) (r_pfx r) (r_loc r).

Definition es_addLevel (st : estack) : res estack xerr :=
  let top := length (es_live st) in
  let cap := if top =? es_cap st then grow_stack (es_cap st) else es_cap st in
  if top <? cap then
    match es_dead st with
    | d :: ds => Ok (mkES (mkRow [] (r_cap d) unknownId [] [] :: es_live st) ds cap (es_pool st) (es_global st))
    | [] => Ok (mkES (mkRow [] 0 unknownId [] [] :: es_live st) [] cap (es_pool st) (es_global st))
    end
  else Err E_Fault.

Definition es_popTop (st : estack) : res (row * estack) xerr :=
  match es_live st with
  | [] => Err E_StackUnderflow
  | r :: l => Ok (r, mkES l (r :: es_dead st) (es_cap st) (es_pool st) (es_global st))
  end.

(** the write fMap[fMapCount] = (prefId, uriId); fMapCount++ (with expandMap when full) *)
Definition row_add (r : row) (prefId uriId : nat) : res row xerr :=
  let r1 := if length (r_map r) =? r_cap r then expandMap r else r in
  if length (r_map r1) <? r_cap r1 then
    let u := if (prefId =? globalPoolId) && (uriId =? emptyId) then emptyId else uriId in
    Ok (mkRow (r_map r1 ++ [(prefId, u)]) (r_cap r1) (r_uri r1) (r_pfx r1) (r_loc r1))
  else Err E_Fault.

Definition es_addPrefix (st : estack) (prefix : name) (uriId : nat) : res estack xerr :=
  match es_live st with
  | [] => Err E_EmptyStack
  | r :: l =>
    let (pl, prefId) := pool_addOrFind (es_pool st) prefix in
    do r' <- row_add r prefId uriId;
    Ok (mkES (r' :: l) (es_dead st) (es_cap st) pl (es_global st))
  end.

Definition es_addGlobalPrefix (st : estack) (prefix : name) (uriId : nat) : res estack xerr :=
  let g := match es_global st with Some g => g | None => mkRow [] 0 unknownId [] [] end in
  let (pl, prefId) := pool_addOrFind (es_pool st) prefix in
  do g' <- row_add g prefId uriId;
  Ok (mkES (es_live st) (es_dead st) (es_cap st) pl (Some g')).

Fixpoint find_id (id : nat) (m : list (nat * nat)) : option nat :=
  match m with
  | [] => None
  | (p, u) :: r => if p =? id then Some u else find_id id r
  end.
Fixpoint find_rows (id : nat) (rows : list row) : option nat :=
  match rows with
  | [] => None
  | r :: up => match find_id id (r_map r) with Some u => Some u | None => find_rows id up end
  end.

(** returns (uriId, unknown) *)
Definition es_mapPrefixToURI (st : estack) (prefix : name) : nat * bool :=
  let prefixId := match prefix with [] => globalPoolId | _ => pool_getId (es_pool st) prefix end in
  if prefixId =? 0 then (unknownId, true)
  else if prefixId =? xmlPoolId then (xmlId, false)
  else if prefixId =? xmlnsPoolId then (xmlnsId, false)
  else match find_rows prefixId (es_live st) with
       | Some u => (u, false)
       | None =>
         match match es_global st with Some g => find_id prefixId (r_map g) | None => None end with
         | Some u => (u, false)
         | None => match prefix with [] => (emptyId, false) | _ => (unknownId, true) end
         end
       end.

Definition es_setTop (st : estack) (uri : nat) (pfx loc : name) : estack :=
  match es_live st with
  | [] => st
  | r :: l => mkES (mkRow (r_map r) (r_cap r) uri pfx loc :: l) (es_dead st) (es_cap st) (es_pool st) (es_global st)
  end.

(** arbitrary histories of the public operations *)
Definition es_step (st : estack) (op : sop nat) : res estack xerr :=
  match op with
  | SPush => es_addLevel st
  | SPop => do r <- es_popTop st; Ok (snd r)
  | SDecl p u => es_addPrefix st p u
  | SGlobal p u => es_addGlobalPrefix st p u
  end.
Fixpoint es_run (ops : list (sop nat)) (st : estack) : res estack xerr :=
  match ops with
  | [] => Ok st
  | op :: r => do st' <- es_step st op; es_run r st'
  end.

(** ** WFElemStack: one flat map shared by all levels, each level remembers fTopPrefix (here: the number of
    valid entries = fTopPrefix + 1) *)
Record wfrow := mkWRow { w_top : nat; w_uri : nat; w_pfx : name; w_loc : name }.
Record wfstack := mkWS {
  ws_live : list wfrow;
  ws_cap : nat;                 (* fStackCapacity *)
  ws_map : list (nat * nat);    (* fMap[0 .. ), as far as ever written *)
  ws_mapcap : nat;              (* fMapCapacity *)
  ws_pool : pool }.
Definition wfs_init : wfstack := mkWS [] wf_stack_init [] 0 pfx_pool0.
Definition wf_grow_map (cap : nat) : nat := if cap =? 0 then wf_map_init else cap * wf_map_num / wf_map_den.

Definition wfs_addLevel (st : wfstack) : res wfstack xerr :=
  let top := length (ws_live st) in
  let cap := if top =? ws_cap st then ws_cap st * wf_stack_num / wf_stack_den else ws_cap st in
  if top <? cap then
    let tp := match ws_live st with [] => 0 | r :: _ => w_top r end in
    Ok (mkWS (mkWRow tp unknownId [] [] :: ws_live st) cap (ws_map st) (ws_mapcap st) (ws_pool st))
  else Err E_Fault.
Definition wfs_popTop (st : wfstack) : res (wfrow * wfstack) xerr :=
  match ws_live st with
  | [] => Err E_StackUnderflow
  | r :: l => Ok (r, mkWS l (ws_cap st) (ws_map st) (ws_mapcap st) (ws_pool st))
  end.
Definition wfs_addPrefix (st : wfstack) (prefix : name) (uriId : nat) : res wfstack xerr :=
  match ws_live st with
  | [] => Err E_EmptyStack
  | r :: l =>
    let (pl, prefId) := pool_addOrFind (ws_pool st) prefix in
    let full := w_top r =? ws_mapcap st in
    let mcap := if full then wf_grow_map (ws_mapcap st) else ws_mapcap st in
    let m := if full then firstn (ws_mapcap st) (ws_map st) else ws_map st in
    if w_top r <? mcap then
      let u := if (prefId =? globalPoolId) && (uriId =? emptyId) then emptyId else uriId in
      (* fMap[fTopPrefix + 1] = ...: overwrite what a popped sibling may have left there *)
      Ok (mkWS (mkWRow (S (w_top r)) (w_uri r) (w_pfx r) (w_loc r) :: l) (ws_cap st)
               (firstn (w_top r) m ++ [(prefId, u)]) mcap pl)
    else Err E_Fault
  end.
(** search from fTopPrefix downwards: the latest entry wins *)
Fixpoint find_last (id : nat) (m : list (nat * nat)) (acc : option nat) : option nat :=
  match m with
  | [] => acc
  | (p, u) :: r => find_last id r (if p =? id then Some u else acc)
  end.
Definition wfs_mapPrefixToURI (st : wfstack) (prefix : name) : nat * bool :=
  let prefixId := pool_getId (ws_pool st) prefix in
  if prefixId =? 0 then (unknownId, true)
  else if prefixId =? xmlPoolId then (xmlId, false)
  else if prefixId =? xmlnsPoolId then (xmlnsId, false)
  else
    let tp := match ws_live st with [] => 0 | r :: _ => w_top r end in
    match find_last prefixId (firstn tp (ws_map st)) None with
    | Some u => (u, false)
    | None => match prefix with [] => (emptyId, false) | _ => (unknownId, true) end
    end.
Definition wfs_setTop (st : wfstack) (uri : nat) (pfx loc : name) : wfstack :=
  match ws_live st with
  | [] => st
  | r :: l => mkWS (mkWRow (w_top r) uri pfx loc :: l) (ws_cap st) (ws_map st) (ws_mapcap st) (ws_pool st)
  end.

(** ** The scanners *)
Inductive scanner := IG | WF | SG.
Record cfg := mkCfg { c_scanner : scanner; c_v11 : bool }.

(** raw attribute as rawAttrScan delivers it: the QName split at its colon (fRawAttrColonList; no colon = empty
    prefix) and the value *)
Record rattr := mkRAttr { ra_pfx : name; ra_loc : name; ra_val : name }.
(** [ra_val] is the RAW value as rawAttrScan leaves it: a character that came from a character reference or a predefined
    entity is preceded by the escape mark 0xFFFF, literal white space is still TAB / LF.
    normalizeAttRawValue (IGXMLScanner2.cpp / SGXMLScanner.cpp; WFXMLScanner::scanAttValue and DGXMLScanner::scanAttValue
    do the same while scanning): drop the mark and keep the escaped character, turn unescaped white space into a space.
    updateNSMap binds the prefix to THIS value, and the attribute is reported with it. *)
Definition esc_mark : N := 65535%N.
Fixpoint norm_raw (v : name) : name :=
  match v with
  | [] => []
  | c :: r =>
    if N.eqb c esc_mark then match r with [] => [] | d :: r' => d :: norm_raw r' end
    else (if is_ws c then 32%N else c) :: norm_raw r
  end.
Definition ra_nval (a : rattr) : name := norm_raw (ra_val a).
(** the raw buffer of a value written as [l] *)
Definition raw_of (l : list avitem) : name :=
  flat_map (fun i => match i with AvLit c => [c] | AvRef c => [esc_mark; c] end) l.
Definition qname_of (pfx loc : name) : name := match pfx with [] => loc | _ => pfx ++ [58%N] ++ loc end.

Inductive tok :=
| TStart (pfx loc : name) (attrs : list rattr) (empty : bool)
| TEnd
| TText
| TComment
(** start tag of an element for which the internal DTD subset declares attributes with a default / #FIXED value:
    [defs] = all those declarations of the element, in declaration order (qualified name split at the colon, value) *)
| TStartD (pfx loc : name) (attrs defs : list rattr) (empty : bool).

Record xattr := mkXAttr { xa_uri : nat; xa_pfx : name; xa_loc : name; xa_val : name }.
(** the XMLDocumentHandler callbacks of the scanner *)
Inductive dev :=
| DStart (uri : nat) (pfx loc : name) (attrs : list xattr) (empty : bool)
| DEnd (uri : nat) (pfx loc : name)
| DChars
| DComment.

Record scan := mkScan { sc_es : estack; sc_wf : wfstack; sc_uris : pool }.
Definition scan_init : scan := mkScan es_init wfs_init uri_pool0.

(** the element stack operations, dispatched on the scanner (WFXMLScanner uses WFElemStack) *)
Definition st_addLevel (c : cfg) (s : scan) : res scan xerr :=
  match c_scanner c with
  | WF => do w <- wfs_addLevel (sc_wf s); Ok (mkScan (sc_es s) w (sc_uris s))
  | _ => do e <- es_addLevel (sc_es s); Ok (mkScan e (sc_wf s) (sc_uris s))
  end.
Definition st_addPrefix (c : cfg) (s : scan) (prefix value : name) : res scan xerr :=
  let (up, uid) := pool_addOrFind (sc_uris s) value in
  match c_scanner c with
  | WF => do w <- wfs_addPrefix (sc_wf s) prefix uid; Ok (mkScan (sc_es s) w up)
  | _ => do e <- es_addPrefix (sc_es s) prefix uid; Ok (mkScan e (sc_wf s) up)
  end.
Definition st_map (c : cfg) (s : scan) (prefix : name) : nat * bool :=
  match c_scanner c with
  | WF => wfs_mapPrefixToURI (sc_wf s) prefix
  | _ => es_mapPrefixToURI (sc_es s) prefix
  end.
Definition st_setTop (c : cfg) (s : scan) (uri : nat) (pfx loc : name) : scan :=
  match c_scanner c with
  | WF => mkScan (sc_es s) (wfs_setTop (sc_wf s) uri pfx loc) (sc_uris s)
  | _ => mkScan (es_setTop (sc_es s) uri pfx loc) (sc_wf s) (sc_uris s)
  end.
Definition st_pop (c : cfg) (s : scan) : res (nat * name * name * scan) xerr :=
  match c_scanner c with
  | WF => do rw <- wfs_popTop (sc_wf s); let (r, w) := rw in Ok (w_uri r, w_pfx r, w_loc r, mkScan (sc_es s) w (sc_uris s))
  | _ => do re <- es_popTop (sc_es s); let (r, e) := re in Ok (r_uri r, r_pfx r, r_loc r, mkScan e (sc_wf s) (sc_uris s))
  end.

(** XMLScanner::resolvePrefix *)
Definition resolvePrefix (c : cfg) (s : scan) (prefix : name) (attrMode : bool) : res nat xerr :=
  match prefix with
  | [] => if attrMode then Ok emptyId else
          let (u, unknown) := st_map c s prefix in
          if unknown then Err E_UnknownPrefix else Ok u
  | _ =>
    if name_eqb prefix s_xmlns then Ok xmlnsId
    else if name_eqb prefix s_xml then Ok xmlId
    else
      let (u, unknown) := st_map c s prefix in
      if unknown then Err E_UnknownPrefix
      else if c_v11 c && (u =? emptyId) then Err E_UnknownPrefix     (* fixes/C06-ns11-attr-undeclared.patch: both modes *)
      else Ok u
  end.

(** IGXMLScanner::updateNSMap (SGXMLScanner's is the same text): the checks, then the addPrefix *)
Definition nsmap_check (v11 colon : bool) (prefPtr v : name) : res unit xerr :=
  do _ <- (if colon then
             if name_eqb prefPtr s_xmlns then Err E_NoUseOfxmlnsAsPrefix
             else if name_eqb prefPtr s_xml && negb (name_eqb v uri_xml) then Err E_PrefixXMLNotMatchXMLURI
             else match v with
                  | [] => if v11 then Ok tt else Err E_NoEmptyStrNamespace
                  | _ => Ok tt
                  end
           else Ok tt);
  if name_eqb v uri_xmlns then Err E_NoUseOfxmlnsURI
  else if name_eqb v uri_xml && negb (name_eqb prefPtr s_xml) then Err E_XMLURINotMatchXMLPrefix
  else Ok tt.
Definition updateNSMap (c : cfg) (s : scan) (a : rattr) : res scan xerr :=
  let colon := match ra_pfx a with [] => false | _ => true end in
  let prefPtr := if colon then ra_loc a else [] in
  do _ <- nsmap_check (c_v11 c) colon prefPtr (ra_nval a);
  st_addPrefix c s prefPtr (ra_nval a).

(** the test of scanRawAttrListforNameSpaces: the raw name starts with "xmlns:" or is "xmlns" *)
Definition is_nsdecl (a : rattr) : bool :=
  match ra_pfx a with
  | [] => name_eqb (ra_loc a) s_xmlns
  | p => name_eqb p s_xmlns
  end.

Fixpoint scanRawAttrListforNameSpaces (c : cfg) (s : scan) (attrs : list rattr) : res scan xerr :=
  match attrs with
  | [] => Ok s
  | a :: r => do s' <- (if is_nsdecl a then updateNSMap c s a else Ok s); scanRawAttrListforNameSpaces c s' r
  end.

(** IGXMLScanner::buildAttList on the DTD-grammar path (SGXMLScanner: the registry is keyed by (local, uriId)):
    per attribute: resolve the prefix, raw-name registry (fUndeclaredAttrRegistry), then the expanded-name check
    against the attributes already built (linear, or fAttrDupChkRegistry above the threshold: the same predicate) *)
Definition same_expanded (uri : nat) (loc : name) (x : xattr) : bool := (xa_uri x =? uri) && name_eqb (xa_loc x) loc.
(** no colon: "an empty prefix is always the empty namespace, when dealing with attributes" *)
Definition attr_uri (c : cfg) (s : scan) (p : name) : res nat xerr :=
  match p with [] => Ok emptyId | _ => resolvePrefix c s p true end.
Fixpoint buildAttList (c : cfg) (s : scan) (attrs : list rattr) (done : list xattr) : res (list xattr) xerr :=
  match attrs with
  | [] => Ok (rev done)
  | a :: r =>
    do uri <- attr_uri c s (ra_pfx a);
    if existsb (fun x => name_eqb (qname_of (xa_pfx x) (xa_loc x)) (qname_of (ra_pfx a) (ra_loc a))) done
    then Err E_AttrAlreadyUsedInSTag
    else if existsb (same_expanded uri (ra_loc a)) done then Err E_AttrAlreadyUsedInSTag
    else buildAttList c s r (mkXAttr uri (ra_pfx a) (ra_loc a) (ra_nval a) :: done)
  end.

Definition ig_startTag (c : cfg) (s : scan) (pfx loc : name) (attrs : list rattr) : res (scan * nat * list xattr) xerr :=
  do s1 <- st_addLevel c s;
  do s2 <- scanRawAttrListforNameSpaces c s1 attrs;
  do uri <- resolvePrefix c s2 pfx false;
  do xs <- buildAttList c s2 attrs [];
  Ok (st_setTop c s2 uri pfx loc, uri, xs).

(** the same with attribute defaults from the DTD (IGXMLScanner::scanStartTagNS / buildAttList, DTD grammar):
    every defaulted / fixed xmlns declaration of the element updates the map after the written ones (whether or not
    the instance writes it too: the written one was pushed first and wins), and after the written attributes have been
    built every defaulted attribute the tag does not provide is faulted in with
    resolvePrefix(prefix, Mode_Attribute) -- for the empty prefix: no namespace.  No duplicate check on those. *)
Fixpoint dtdDefaultsNS (c : cfg) (s : scan) (defs : list rattr) : res scan xerr :=
  match defs with
  | [] => Ok s
  | d :: r => do s' <- (if is_nsdecl d then updateNSMap c s d else Ok s); dtdDefaultsNS c s' r
  end.
Definition provided (attrs : list rattr) (d : rattr) : bool :=
  existsb (fun a => name_eqb (qname_of (ra_pfx a) (ra_loc a)) (qname_of (ra_pfx d) (ra_loc d))) attrs.
Fixpoint faultIn (c : cfg) (s : scan) (attrs defs : list rattr) : res (list xattr) xerr :=
  match defs with
  | [] => Ok []
  | d :: r =>
    if provided attrs d then faultIn c s attrs r
    else do u <- resolvePrefix c s (ra_pfx d) true;
         do xs <- faultIn c s attrs r;
         Ok (mkXAttr u (ra_pfx d) (ra_loc d) (ra_nval d) :: xs)
  end.
Definition ig_startTagD (c : cfg) (s : scan) (pfx loc : name) (attrs defs : list rattr)
  : res (scan * nat * list xattr) xerr :=
  do s1 <- st_addLevel c s;
  do s2 <- scanRawAttrListforNameSpaces c s1 attrs;
  do s3 <- dtdDefaultsNS c s2 defs;
  do uri <- resolvePrefix c s3 pfx false;
  do xs <- buildAttList c s3 attrs [];
  do ds <- faultIn c s3 attrs defs;
  Ok (st_setTop c s3 uri pfx loc, uri, xs ++ ds).

(** WFXMLScanner::scanStartTagNS: attributes are handled as they are scanned *)
Fixpoint wf_scanAttrs (c : cfg) (s : scan) (attrs : list rattr) (done : list (option nat * rattr))
  : res (scan * list (option nat * rattr)) xerr :=
  match attrs with
  | [] => Ok (s, rev done)
  | a :: r =>
    if existsb (fun x => name_eqb (qname_of (ra_pfx (snd x)) (ra_loc (snd x))) (qname_of (ra_pfx a) (ra_loc a))) done
    then Err E_AttrAlreadyUsedInSTag
    else
      let v := ra_nval a in
      match ra_pfx a with
      | [] =>
        if name_eqb (ra_loc a) s_xmlns then
          do _ <- (if name_eqb v uri_xmlns then Err E_NoUseOfxmlnsURI
                   else if name_eqb v uri_xml then Err E_XMLURINotMatchXMLPrefix else Ok tt);
          do s' <- st_addPrefix c s [] v;
          wf_scanAttrs c s' r ((Some emptyId, a) :: done)
        else wf_scanAttrs c s r ((Some emptyId, a) :: done)
      | p =>
        if name_eqb p s_xml then wf_scanAttrs c s r ((Some xmlId, a) :: done)
        else if name_eqb p s_xmlns then
          do _ <- (if name_eqb (ra_loc a) s_xmlns then Err E_NoUseOfxmlnsAsPrefix
                   else if name_eqb (ra_loc a) s_xml && negb (name_eqb v uri_xml) then Err E_PrefixXMLNotMatchXMLURI
                   else match v with
                        | [] => if c_v11 c then Ok tt else Err E_NoEmptyStrNamespace
                        | _ => Ok tt
                        end);
          (* fixes/C06-wf-reserved-uri.patch: the reserved namespace names are checked for prefixed declarations too *)
          do _ <- (if name_eqb v uri_xmlns then Err E_NoUseOfxmlnsURI
                   else if name_eqb v uri_xml && negb (name_eqb (ra_loc a) s_xml) then Err E_XMLURINotMatchXMLPrefix
                   else Ok tt);
          do s' <- st_addPrefix c s (ra_loc a) v;
          wf_scanAttrs c s' r ((Some xmlnsId, a) :: done)
        else wf_scanAttrs c s r ((None, a) :: done)     (* fAttrNSList: resolved after the whole tag *)
      end
  end.
Fixpoint wf_resolveDeferred (c : cfg) (s : scan) (l : list (option nat * rattr)) : res (list xattr) xerr :=
  match l with
  | [] => Ok []
  | (Some u, a) :: r => do xs <- wf_resolveDeferred c s r; Ok (mkXAttr u (ra_pfx a) (ra_loc a) (ra_nval a) :: xs)
  | (None, a) :: r =>
    do u <- resolvePrefix c s (ra_pfx a) true;
    do xs <- wf_resolveDeferred c s r; Ok (mkXAttr u (ra_pfx a) (ra_loc a) (ra_nval a) :: xs)
  end.
(** the duplicate check after the tag: all pairs below the threshold; above it every attribute is looked up in the
    registry of the earlier ones (fixes/C06-wf-dup-last.patch: the last attribute included) *)
Fixpoint wf_dup_pairs (l : list xattr) : bool :=
  match l with
  | [] => false
  | x :: r => existsb (same_expanded (xa_uri x) (xa_loc x)) r || wf_dup_pairs r
  end.
Fixpoint wf_dup_hashed (l : list xattr) (seen : list xattr) : bool :=
  match l with
  | [] => false
  | x :: r => existsb (same_expanded (xa_uri x) (xa_loc x)) seen || wf_dup_hashed r (x :: seen)
  end.
Definition wf_startTag (c : cfg) (s : scan) (pfx loc : name) (attrs : list rattr) : res (scan * nat * list xattr) xerr :=
  do s1 <- st_addLevel c s;
  do sl <- wf_scanAttrs c s1 attrs [];
  let (s2, l) := sl in
  do xs <- wf_resolveDeferred c s2 l;
  if (if attr_hash_threshold <? length xs then wf_dup_hashed xs [] else wf_dup_pairs xs)
  then Err E_AttrAlreadyUsedInSTag
  else
    do uri <- resolvePrefix c s2 pfx false;
    Ok (st_setTop c s2 uri pfx loc, uri, xs).

Definition startTag (c : cfg) (s : scan) (pfx loc : name) (attrs : list rattr) : res (scan * nat * list xattr) xerr :=
  match c_scanner c with
  | WF => wf_startTag c s pfx loc attrs
  | _ => ig_startTag c s pfx loc attrs
  end.

(** one token; a fatal error ends the scan (all namespace errors are fatal: GenElemStack.ns_err_codes) *)
Definition scan_tok (c : cfg) (s : scan) (t : tok) : res (scan * list dev) xerr :=
  match t with
  | TStart pfx loc attrs empty =>
    do r <- startTag c s pfx loc attrs;
    let '(s1, uri, xs) := r in
    if empty then
      do p <- st_pop c s1;
      let '(_, _, _, s2) := p in Ok (s2, [DStart uri pfx loc xs true])
    else Ok (s1, [DStart uri pfx loc xs false])
  | TEnd =>
    do p <- st_pop c s;
    let '(uri, pfx, loc, s1) := p in Ok (s1, [DEnd uri pfx loc])
  | TText => Ok (s, [DChars])
  | TComment => Ok (s, [DComment])
  | TStartD pfx loc attrs defs empty =>
    do r <- ig_startTagD c s pfx loc attrs defs;
    let '(s1, uri, xs) := r in
    if empty then
      do p <- st_pop c s1;
      let '(_, _, _, s2) := p in Ok (s2, [DStart uri pfx loc xs true])
    else Ok (s1, [DStart uri pfx loc xs false])
  end.

Fixpoint scan_toks (c : cfg) (s : scan) (ts : list tok) : scan * list dev * option xerr :=
  match ts with
  | [] => (s, [], None)
  | t :: r =>
    match scan_tok c s t with
    | Err e => (s, [], Some e)
    | Ok (s1, evs) => let '(s2, evs2, e) := scan_toks c s1 r in (s2, evs ++ evs2, e)
    end
  end.

(** ** SAX2XMLReaderImpl *)
Record sax2 := mkSax2 { sx_prefixes : list nat; sx_counts : list nat; sx_storage : pool }.
Definition sax2_init : sax2 := mkSax2 [] [] [].

(** is this attribute a namespace declaration, as SAX2XMLReaderImpl::startElement decides: (prefix, uri) *)
Definition sax2_nsdecl (a : xattr) : option (name * name) :=
  match xa_pfx a with
  | [] => if name_eqb (xa_loc a) s_xmlns then Some ([], xa_val a) else None
  | p => if name_eqb p s_xmlns then Some (xa_loc a, xa_val a) else None
  end.
Definition sattr_of (uris : pool) (a : xattr) : sattr :=
  mkSAttr (pool_value uris (xa_uri a)) (xa_loc a) (qname_of (xa_pfx a) (xa_loc a)) (xa_val a).

Fixpoint sax2_push (x : sax2) (attrs : list xattr) (n : nat) : sax2 * list sev * nat :=
  match attrs with
  | [] => (x, [], n)
  | a :: r =>
    match sax2_nsdecl a with
    | Some (p, u) =>
      let (st, id) := pool_addOrFind (sx_storage x) p in
      let '(x', evs, n') := sax2_push (mkSax2 (id :: sx_prefixes x) (sx_counts x) st) r (S n) in
      (x', SPM p u :: evs, n')
    | None => sax2_push x r n
    end
  end.
Fixpoint sax2_pop (x : sax2) (n : nat) : sax2 * list sev :=
  match n with
  | 0 => (x, [])
  | S k =>
    match sx_prefixes x with
    | [] => (x, [])            (* EmptyStackException in the code; unreachable (T06_sax2_balanced) *)
    | id :: ps =>
      let (x', evs) := sax2_pop (mkSax2 ps (sx_counts x) (sx_storage x)) k in
      (x', EPM (pool_value (sx_storage x) id) :: evs)
    end
  end.
Definition sax2_end (x : sax2) (uris : pool) (uri : nat) (pfx loc : name) : sax2 * list sev :=
  match sx_counts x with
  | [] => (x, [EE (pool_value uris uri) loc (qname_of pfx loc)])
  | n :: cs =>
    let (x', evs) := sax2_pop (mkSax2 (sx_prefixes x) cs (sx_storage x)) n in
    (x', EE (pool_value uris uri) loc (qname_of pfx loc) :: evs)
  end.

(** [nsp]: the namespace-prefixes feature *)
Definition sax2_ev (nsp : bool) (uris : pool) (x : sax2) (e : dev) : sax2 * list sev :=
  match e with
  | DStart uri pfx loc attrs empty =>
    let '(x1, spm, n) := sax2_push x attrs 0 in
    let x2 := mkSax2 (sx_prefixes x1) (n :: sx_counts x1) (sx_storage x1) in
    let shown := if nsp then attrs else filter (fun a => match sax2_nsdecl a with Some _ => false | None => true end) attrs in
    let se := SE (pool_value uris uri) loc (qname_of pfx loc) (map (sattr_of uris) shown) in
    if empty then
      let (x3, evs) := sax2_end x2 uris uri pfx loc in (x3, spm ++ [se] ++ evs)
    else (x2, spm ++ [se])
  | DEnd uri pfx loc => sax2_end x uris uri pfx loc
  | DChars => (x, [CH])
  | DComment => (x, [])
  end.
Fixpoint sax2_run (nsp : bool) (uris : pool) (x : sax2) (evs : list dev) : sax2 * list sev :=
  match evs with
  | [] => (x, [])
  | e :: r => let (x1, o1) := sax2_ev nsp uris x e in let (x2, o2) := sax2_run nsp uris x1 r in (x2, o1 ++ o2)
  end.

Definition parse_sax2 (c : cfg) (nsp : bool) (ts : list tok) : list sev * option xerr * sax2 :=
  let '(s, devs, e) := scan_toks c scan_init ts in
  let (x, out) := sax2_run nsp (sc_uris s) sax2_init devs in (out, e, x).

(** element events are well nested (depth = number of open elements) *)
Fixpoint well_nested (evs : list dev) (depth : nat) : bool :=
  match evs with
  | [] => depth =? 0
  | DStart _ _ _ _ true :: r => well_nested r depth
  | DStart _ _ _ _ false :: r => well_nested r (S depth)
  | DEnd _ _ _ :: r => match depth with 0 => false | S d => well_nested r d end
  | _ :: r => well_nested r depth
  end.

(** SAX1 (SAXParser with namespaces on): qualified names only *)
Inductive s1ev := S1Start (qn : name) (atts : list (name * name)) | S1End (qn : name) | S1Chars.
Fixpoint sax1_run (evs : list dev) : list s1ev :=
  match evs with
  | [] => []
  | DStart _ pfx loc attrs empty :: r =>
    S1Start (qname_of pfx loc) (map (fun a => (qname_of (xa_pfx a) (xa_loc a), xa_val a)) attrs)
      :: (if empty then [S1End (qname_of pfx loc)] else []) ++ sax1_run r
  | DEnd _ pfx loc :: r => S1End (qname_of pfx loc) :: sax1_run r
  | DChars :: r => S1Chars :: sax1_run r
  | DComment :: r => sax1_run r
  end.
Definition parse_sax1 (c : cfg) (ts : list tok) : list s1ev * option xerr :=
  let '(_, devs, e) := scan_toks c scan_init ts in (sax1_run devs, e).

(** ** DOM *)
Fixpoint name_ltb (a b : name) : bool :=      (* XMLString::compareString < 0 *)
  match a, b with
  | _, [] => false
  | [], _ :: _ => true
  | x :: a', y :: b' => if N.ltb x y then true else if N.ltb y x then false else name_ltb a' b'
  end.
Definition opt_name (n : name) : option name := match n with [] => None | _ => Some n end.
Definition battr_qname (a : battr) : name := qname_of (match ba_prefix a with Some p => p | None => [] end) (ba_local a).
(** DOMAttrMapImpl::setNamedItemNSFast: the map is kept sorted by node name *)
Fixpoint attr_insert (a : battr) (l : list battr) : list battr :=
  match l with
  | [] => [a]
  | x :: r => if name_ltb (battr_qname a) (battr_qname x) then a :: l else x :: attr_insert a r
  end.
(** AbstractDOMParser::startElement *)
Definition dom_attr (uris : pool) (a : xattr) : battr :=
  let uriId := match xa_pfx a with [] => if name_eqb (xa_loc a) s_xmlns then xmlnsId else xa_uri a | _ => xa_uri a end in
  mkBAttr (if uriId =? emptyId then None else opt_name (pool_value uris uriId)) (opt_name (xa_pfx a)) (xa_loc a) (xa_val a).
Definition dom_elem (uris : pool) (uri : nat) (pfx loc : name) (attrs : list xattr) : belem :=
  if uri =? emptyId then mkBElem None None loc (fold_left (fun m a => attr_insert (dom_attr uris a) m) attrs [])
  else mkBElem (Some (pool_value uris uri)) (opt_name pfx) loc
               (fold_left (fun m a => attr_insert (dom_attr uris a) m) attrs []).

Inductive dnode :=
| NElem (e : belem) (kids : list dnode)
| NText
| NComment.

(** the builder: stack of open elements with the children collected so far (latest first) *)
Definition dstack := list (belem * list dnode).
Definition dom_close (top : belem * list dnode) (st : dstack) (roots : list dnode) : dstack * list dnode :=
  let n := NElem (fst top) (rev (snd top)) in
  match st with
  | [] => ([], n :: roots)
  | (pe, pk) :: up => ((pe, n :: pk) :: up, roots)
  end.
Definition dom_leaf (n : dnode) (st : dstack) (roots : list dnode) : dstack * list dnode :=
  match st with
  | [] => ([], n :: roots)
  | (pe, pk) :: up => ((pe, n :: pk) :: up, roots)
  end.
Fixpoint dom_build (uris : pool) (evs : list dev) (st : dstack) (roots : list dnode) : dstack * list dnode :=
  match evs with
  | [] => (st, roots)
  | DStart uri pfx loc attrs empty :: r =>
    let e := dom_elem uris uri pfx loc attrs in
    if empty then let (st', roots') := dom_close (e, []) st roots in dom_build uris r st' roots'
    else dom_build uris r ((e, []) :: st) roots
  | DEnd _ _ _ :: r =>
    match st with
    | [] => dom_build uris r st roots
    | top :: up => let (st', roots') := dom_close top up roots in dom_build uris r st' roots'
    end
  | DChars :: r => let (st', roots') := dom_leaf NText st roots in dom_build uris r st' roots'
  | DComment :: r => let (st', roots') := dom_leaf NComment st roots in dom_build uris r st' roots'
  end.
(** after a fatal error the document keeps what was built: the open elements are attached as they are *)
Fixpoint dom_flush (st : dstack) (child : list dnode) (roots : list dnode) : list dnode :=
  match st with
  | [] => rev (child ++ roots)
  | (e, kids) :: up => dom_flush up [NElem e (rev (child ++ kids))] roots
  end.
Definition parse_dom (c : cfg) (ts : list tok) : list dnode * option xerr :=
  let '(s, devs, e) := scan_toks c scan_init ts in
  let (st, roots) := dom_build (sc_uris s) devs [] [] in (dom_flush st [] roots, e).

(** DOMNodeImpl::lookupNamespaceURI on an element with ancestor-or-self chain [chain] (innermost first).
    [p = None] is the null prefix. *)
Fixpoint m_lookup_ns_attrs (atts : list battr) (p : option name) : option name :=
  match atts with
  | [] => None
  | a :: r =>
    if oname_eqb (ba_ns a) (Some uri_xmlns) then
      if oname_eqb p None && name_eqb (battr_qname a) s_xmlns then Some (ba_value a)
      else if oname_eqb (ba_prefix a) (Some s_xmlns) && oname_eqb (Some (ba_local a)) p then Some (ba_value a)
      else m_lookup_ns_attrs r p
    else m_lookup_ns_attrs r p
  end.
Fixpoint m_lookup_ns (chain : list belem) (p : option name) : option name :=
  match chain with
  | [] => None
  | e :: up =>
    match (match be_ns e with
           | Some ns =>
             if oname_eqb p None && oname_eqb (be_prefix e) None then Some ns
             else match be_prefix e, p with
                  | Some q, Some p' => if name_eqb q p' then Some ns else None
                  | _, _ => None
                  end
           | None => None
           end) with
    | Some ns => Some ns
    | None => match m_lookup_ns_attrs (be_attrs e) p with
              | Some v => Some v
              | None => m_lookup_ns up p
              end
    end
  end.
(** DOMNodeImpl::lookupPrefix(namespaceURI, originalElement) *)
Fixpoint m_lookup_prefix_attrs (orig : list belem) (atts : list battr) (ns : name) : option name :=
  match atts with
  | [] => None
  | a :: r =>
    if oname_eqb (ba_ns a) (Some uri_xmlns) && oname_eqb (ba_prefix a) (Some s_xmlns) && name_eqb (ba_value a) ns then
      match m_lookup_ns orig (Some (ba_local a)) with
      | Some f => if name_eqb f ns then Some (ba_local a) else m_lookup_prefix_attrs orig r ns
      | None => m_lookup_prefix_attrs orig r ns
      end
    else m_lookup_prefix_attrs orig r ns
  end.
Fixpoint m_lookup_prefix_from (orig chain : list belem) (ns : name) : option name :=
  match chain with
  | [] => None
  | e :: up =>
    match (match be_ns e, be_prefix e with
           | Some ens, Some pfx =>
             if name_eqb ens ns then
               match m_lookup_ns orig (Some pfx) with
               | Some f => if name_eqb f ns then Some pfx else None
               | None => None
               end
             else None
           | _, _ => None
           end) with
    | Some p => Some p
    | None => match m_lookup_prefix_attrs orig (be_attrs e) ns with
              | Some p => Some p
              | None => m_lookup_prefix_from orig up ns
              end
    end
  end.
Definition m_lookup_prefix (chain : list belem) (ns : name) : option name := m_lookup_prefix_from chain chain ns.
(** DOMNodeImpl::isDefaultNamespace; XMLString::equals treats null and "" alike *)
Definition xeq (a : option name) (b : option name) : bool :=
  name_eqb (match a with Some x => x | None => [] end) (match b with Some x => x | None => [] end).
Fixpoint m_default_attr (atts : list battr) : option name :=      (* getAttributeNodeNS(xmlnsURI, "xmlns") *)
  match atts with
  | [] => None
  | a :: r => if oname_eqb (ba_ns a) (Some uri_xmlns) && name_eqb (ba_local a) s_xmlns then Some (ba_value a) else m_default_attr r
  end.
Fixpoint m_is_default (chain : list belem) (ns : option name) : bool :=
  match chain with
  | [] => false
  | e :: up =>
    match be_prefix e with
    | None => xeq ns (be_ns e)
    | Some _ => match m_default_attr (be_attrs e) with
                | Some v => xeq ns (Some v)
                | None => m_is_default up ns
                end
    end
  end.

(** the three entry points on a DOCUMENT_NODE: delegate to the document element; with the null check of
    fixes/C06-lookup-null.patch a document without root element answers null / false *)
Definition root_chain (roots : list dnode) : list belem :=
  match filter (fun n => match n with NElem _ _ => true | _ => false end) roots with
  | NElem e _ :: _ => [e]
  | _ => []
  end.
Definition doc_lookup_ns (roots : list dnode) (p : option name) : option name := m_lookup_ns (root_chain roots) p.
Definition doc_lookup_prefix (roots : list dnode) (ns : name) : option name := m_lookup_prefix (root_chain roots) ns.
Definition doc_is_default (roots : list dnode) (ns : option name) : bool := m_is_default (root_chain roots) ns.

(** every node of the tree in document order with its ancestor-or-self element chain (for text / comment: the
    chain of the parent: DOMNodeImpl's default case goes to the element ancestor) *)
Inductive nkind := KElem | KText | KComment.
Fixpoint dom_walk (n : dnode) (up : list belem) {struct n} : list (nkind * list belem) :=
  match n with
  | NElem e kids => (KElem, e :: up) :: flat_map (fun k => dom_walk k (e :: up)) kids
  | NText => [(KText, up)]
  | NComment => [(KComment, up)]
  end.
Definition dom_nodes (roots : list dnode) : list (nkind * list belem) := flat_map (fun n => dom_walk n []) roots.

(** ** vocabulary of the theorems that relate the scanner model to the Spec *)
Definition nonwf (c : cfg) : Prop := match c_scanner c with WF => False | _ => True end.
Definition sp_of (a : rattr) : sp_attr := mkSpAttr (ra_pfx a) (ra_loc a) (ra_nval a).
Definition ns_error (e : xerr) : bool :=
  match e with E_StackUnderflow | E_EmptyStack | E_Fault => false | _ => true end.
(** the id [u] (of the URI pool) denotes the namespace the Spec assigns *)
Definition res_ok (uris : pool) (u : nat) (r : nsres) : Prop :=
  1 <= u <= length uris /\
  match r with
  | NsIn t => pool_value uris u = t /\ t <> []
  | NsNone => pool_value uris u = []
  | NsUnbound => False
  end.
Definition ncname (n : name) : Prop := ~ In 58%N n.
Definition ncname_attr (a : rattr) : Prop := ncname (ra_pfx a) /\ ncname (ra_loc a) /\ ra_loc a <> [].
Definition wf_attr (a : rattr) : Prop := ra_loc a <> [].
Definition sp_tok_of (t : tok) : sp_tok :=
  match t with TStart p _ a e => SpStart p (map sp_of a) e | TEnd => SpEnd | _ => SpOther end.
Fixpoint dev_starts (evs : list dev) : list (nat * list xattr) :=
  match evs with
  | [] => []
  | DStart u _ _ xs _ :: r => (u, xs) :: dev_starts r
  | _ :: r => dev_starts r
  end.
Fixpoint toks_nested (ts : list tok) (depth : nat) : bool :=
  match ts with
  | [] => true
  | TStart _ _ _ true :: r => toks_nested r depth
  | TStart _ _ _ false :: r => toks_nested r (S depth)
  | TEnd :: r => match depth with 0 => false | S d => toks_nested r d end
  | _ :: r => toks_nested r depth
  end.
(** names are NCNames, and (for T06_resolve) the document has no DTD attribute defaults *)
Definition toks_nc (ts : list tok) : Prop :=
  Forall (fun t => match t with TStart _ _ a _ => Forall ncname_attr a | TStartD _ _ _ _ _ => False | _ => True end) ts.
Definition start_ok (uris : pool) (d : nat * list xattr) (r : nsres * list nsres) : Prop :=
  res_ok uris (fst d) (fst r) /\ Forall2 (fun x k => res_ok uris (xa_uri x) k) (snd d) (snd r).
