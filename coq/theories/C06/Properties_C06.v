(** Property C06 -- Namespace processing binds every name to the URI the declarations in scope imply.
    This file contains only the property theorems; each is closed by [exact] of a lemma proved in Proofs06*.v and
    followed by [Print Assumptions].  Specification: Spec06.v (inscope, sp_tag, dyck / stream_ok, Appendix B).
    Models: Model06.v (capacities, duplicate-check threshold and error classes: Gen/GenElemStack.v, regenerated from
    /repo on every run). *)
From XV Require Import Base.XDefs Gen.GenElemStack C06.Spec06 C06.Model06 C06.Proofs06a C06.Proofs06b C06.Proofs06c C06.Proofs06d C06.Proofs06e C06.Proofs06f C06.Proofs06g C06.Proofs06h.
From Coq Require Import Arith.
Local Open Scope nat_scope.

(** *** T06_map: ElemStack.  For EVERY history of addLevel / popTop / addPrefix / addGlobalPrefix from the reset
    state, mapPrefixToURI answers exactly what the declarations pushed by that history imply (innermost level first,
    first entry of a level, global declarations last, [xml] / [xmlns] fixed, empty prefix = default) ... *)
Theorem T06_map : forall ops st, es_run ops es_init = Ok st ->
  exists rows g, sop_run ops [] [] = Some (rows, g) /\
                 forall p, es_mapPrefixToURI st p = map_answer (map_spec (rows ++ [g]) p).
Proof. exact es_map_all_histories. Qed.
Print Assumptions T06_map.

(** ... the only failures are the caller's (popTop / addPrefix on an empty stack: exactly the histories the
    specification rejects), never a write outside an allocated array, whatever the depth or the number of prefixes
    (capacities 32 and 16 growing by 5/4: read from the source) ... *)
Theorem T06_map_no_fault : forall ops e, es_run ops es_init = Err e ->
  (e = E_StackUnderflow \/ e = E_EmptyStack) /\ sop_run ops ([] : list (list (name * nat))) [] = None.
Proof. exact es_no_fault. Qed.
Print Assumptions T06_map_no_fault.

Theorem T06_map_total : forall ops rows g, sop_run ops ([] : list (list (name * nat))) [] = Some (rows, g) ->
  exists st, es_run ops es_init = Ok st.
Proof. exact es_complete. Qed.
Print Assumptions T06_map_total.

(** ... and capacity growth never loses an entry: expandMap copies the old capacity, which always covers the map *)
Theorem T06_map_growth : forall r, length (r_map r) <= r_cap r -> r_map (expandMap r) = r_map r.
Proof. exact expandMap_keeps. Qed.
Print Assumptions T06_map_growth.
Theorem T06_map_growth_strict : forall c, cap_ok c -> c < grow_map c /\ cap_ok (grow_map c).
Proof. exact grow_map_gt. Qed.
Print Assumptions T06_map_growth_strict.

(** *** T06_resolve: the two-pass start-tag processing (IGXMLScanner / SGXMLScanner path).  In a scanner state that
    represents the declarations [rows] of the open elements: the tag is accepted exactly when the Spec accepts it
    ([sp_tag]: all declarations legal, no unbound prefix, no two attributes with one expanded name), the element and
    every attribute get the namespace [inscope] assigns -- the declarations of the tag itself included, wherever
    they stand among the attributes -- and the new state represents the extended scope.
    ([wf_attr]: the local part of an attribute name is not empty; [triple_x] / [triple_a]: prefix, local part, value) *)
Theorem T06_resolve_sound : forall c s rows pfx loc attrs s' uri xs,
  nonwf c -> SInvR (c_v11 c) s rows -> Forall wf_attr attrs -> startTag c s pfx loc attrs = Ok (s', uri, xs) ->
  exists e ans, sp_tag (c_v11 c) rows pfx (map sp_of attrs) = Some (e, ans) /\
                res_ok (sc_uris s') uri e /\ Forall2 (fun x r => res_ok (sc_uris s') (xa_uri x) r) xs ans /\
                map triple_x xs = map triple_a attrs /\
                SInvR (c_v11 c) s' (sp_decls (map sp_of attrs) :: rows).
Proof. exact startTag_sound. Qed.
Print Assumptions T06_resolve_sound.

(** every tag that violates a namespace constraint (unbound prefix, xmlns:xmlns, re-binding xml, binding the xml /
    xmlns namespace names, xmlns:p="" in 1.0, colliding expanded names) is rejected with one of the namespace errors *)
Theorem T06_resolve_errors : forall c s rows pfx loc attrs,
  nonwf c -> SInvR (c_v11 c) s rows -> Forall wf_attr attrs -> sp_tag (c_v11 c) rows pfx (map sp_of attrs) = None ->
  exists e, startTag c s pfx loc attrs = Err e /\ ns_error e = true.
Proof. exact startTag_rejects. Qed.
Print Assumptions T06_resolve_errors.

(** no false alarm: a tag the Spec accepts is accepted (names are NCNames: no colon inside prefix / local part) *)
Theorem T06_resolve_complete : forall c s rows pfx loc attrs e ans,
  nonwf c -> SInvR (c_v11 c) s rows -> Forall ncname_attr attrs ->
  sp_tag (c_v11 c) rows pfx (map sp_of attrs) = Some (e, ans) ->
  exists s' uri xs, startTag c s pfx loc attrs = Ok (s', uri, xs).
Proof. exact startTag_complete. Qed.
Print Assumptions T06_resolve_complete.

(** the invariant holds initially and is restored by the end tag, so the above applies to every tag of a document *)
Theorem T06_resolve_init : forall v11, SInvR v11 scan_init [].
Proof. exact sinvr_init. Qed.
Print Assumptions T06_resolve_init.
Theorem T06_resolve_endtag : forall c s ds rows, nonwf c -> SInvR (c_v11 c) s (ds :: rows) ->
  exists uri pfx loc s', st_pop c s = Ok (uri, pfx, loc, s') /\ SInvR (c_v11 c) s' rows /\ sc_uris s' = sc_uris s.
Proof. exact st_pop_inv. Qed.
Print Assumptions T06_resolve_endtag.

(** ... which gives the property for whole documents: for EVERY well-nested token sequence (names are NCNames), parsed
    from the initial scanner state, the start-tag events delivered are -- in order, namespace of the element and of every
    attribute -- exactly what the Spec demands ([sp_doc]: [inscope] of the declarations of the open elements and of the
    tag itself), up to the first tag that violates a namespace constraint; the scan ends with an error exactly when
    there is such a tag, and the error is a namespace error *)
Theorem T06_resolve : forall c ts s' devs err, nonwf c -> toks_nc ts -> toks_nested ts 0 = true ->
  scan_toks c scan_init ts = (s', devs, err) ->
  Forall2 (start_ok (sc_uris s')) (dev_starts devs) (fst (sp_doc (c_v11 c) (map sp_tok_of ts) [])) /\
  (snd (sp_doc (c_v11 c) (map sp_tok_of ts) []) = true <-> err <> None) /\
  (forall e, err = Some e -> ns_error e = true).
Proof. exact doc_resolve_init. Qed.
Print Assumptions T06_resolve.

(** the individual error cases of the property text, as literal consequences *)
Theorem T06_resolve_error_cases : forall c s (p u : name), nonwf c -> p <> [] ->
  updateNSMap c s (mkRAttr s_xmlns s_xmlns u) = Err E_NoUseOfxmlnsAsPrefix /\
  (norm_raw u <> uri_xml -> updateNSMap c s (mkRAttr s_xmlns s_xml u) = Err E_PrefixXMLNotMatchXMLURI) /\
  (c_v11 c = false -> p <> s_xmlns -> p <> s_xml -> updateNSMap c s (mkRAttr s_xmlns p []) = Err E_NoEmptyStrNamespace) /\
  (p <> s_xmlns -> p <> s_xml -> updateNSMap c s (mkRAttr s_xmlns p uri_xmlns) = Err E_NoUseOfxmlnsURI) /\
  (p <> s_xmlns -> p <> s_xml -> updateNSMap c s (mkRAttr s_xmlns p uri_xml) = Err E_XMLURINotMatchXMLPrefix) /\
  updateNSMap c s (mkRAttr [] s_xmlns uri_xmlns) = Err E_NoUseOfxmlnsURI /\
  updateNSMap c s (mkRAttr [] s_xmlns uri_xml) = Err E_XMLURINotMatchXMLPrefix.
Proof. exact updateNSMap_error_cases. Qed.
Print Assumptions T06_resolve_error_cases.

(** attribute-value normalisation: the raw value the scanner keeps (escape mark 0xFFFF before referenced characters,
    literal TAB / LF) is normalised by [norm_raw] exactly as XML 1.0 section 3.3.3 prescribes for the value as written;
    updateNSMap binds the prefix to that value ([ra_nval]), and T06_resolve* above are stated over it ([sp_of]): the
    declaration, the element names and the attribute names all see the NORMALISED namespace name *)
Theorem T06_norm : forall l, Forall (fun i => match i with AvLit c => c <> esc_mark | AvRef _ => True end) l ->
  norm_raw (raw_of l) = spec_norm l.
Proof. exact norm_raw_spec. Qed.
Print Assumptions T06_norm.
Example T06_nonvacuous_norm :   (* urn:a&amp;b&#x3A;<TAB>c  ->  "urn:a&b: c" *)
  norm_raw (raw_of [AvLit 117; AvRef 38; AvLit 98; AvRef 58; AvLit 9; AvLit 99]) = [117; 38; 98; 58; 32; 99]%N.
Proof. vm_compute. reflexivity. Qed.

(** *** T06_wfmap: WFElemStack (WFXMLScanner's element stack: ONE flat prefix map shared by all levels, every level
    remembers fTopPrefix, mapPrefixToURI searches from fTopPrefix downwards).  For EVERY history of addLevel / popTop /
    addPrefix from the reset state the lookup answers what the declarations pushed by that history imply, with the
    LATEST declaration of a level winning ([latest_first]: WFElemStack searches backwards, ElemStack forwards) ... *)
Theorem T06_wfmap : forall ops w, Forall no_global ops -> wfs_run ops wfs_init = Ok w ->
  exists rows, sop_run ops [] [] = Some (rows, []) /\
               forall p, wfs_mapPrefixToURI w p = map_answer (map_spec (latest_first rows) p).
Proof. exact wfs_map_all_histories. Qed.
Print Assumptions T06_wfmap.
(** ... which is the Spec's answer for the rows as declared whenever no level declares a prefix twice (the scanner
    rejects such a tag: T06_resolve_wf) ... *)
Theorem T06_wfmap_nodup : forall ops w, Forall no_global ops -> wfs_run ops wfs_init = Ok w ->
  exists rows, sop_run ops [] [] = Some (rows, []) /\
    (Forall (fun ds => NoDup (map fst ds)) rows -> forall p, wfs_mapPrefixToURI w p = map_answer (map_spec rows p)).
Proof. exact wfs_map_nodup. Qed.
Print Assumptions T06_wfmap_nodup.
(** ... and the only failures are the caller's; no write leaves the flat map or the stack array whatever the depth or
    the number of prefixes (capacities 32 / 16 growing by 5/4, read from the source; a popped sibling's entries above
    fTopPrefix are overwritten, expandMap copies the old capacity which covers every live entry) *)
Theorem T06_wfmap_no_fault : forall ops e, Forall no_global ops -> wfs_run ops wfs_init = Err e ->
  (e = E_StackUnderflow \/ e = E_EmptyStack) /\ sop_run ops ([] : list (list (name * nat))) [] = None.
Proof. exact wfs_no_fault. Qed.
Print Assumptions T06_wfmap_no_fault.

(** *** T06_resolve_wf: WFXMLScanner::scanStartTagNS (attributes handled while they are scanned: declarations pushed at
    once, [xml:] / [xmlns:] / unprefixed attributes resolved at once, the others deferred to the end of the tag, then
    the duplicate check on expanded names, then the element prefix) delivers exactly what the Spec demands, as
    T06_resolve_sound / _errors / _complete / T06_resolve do for the IGXMLScanner path.  [SInvW]: the scanner state
    represents the declarations of the open elements, row by row up to the order inside a row. *)
Theorem T06_resolve_wf_sound : forall c s rows pfx loc attrs s' uri xs,
  iswf c -> SInvW (c_v11 c) s rows -> Forall wf_attr attrs -> startTag c s pfx loc attrs = Ok (s', uri, xs) ->
  exists e ans, sp_tag (c_v11 c) rows pfx (map sp_of attrs) = Some (e, ans) /\
                res_ok (sc_uris s') uri e /\ Forall2 (fun x r => res_ok (sc_uris s') (xa_uri x) r) xs ans /\
                map triple_x xs = map triple_a attrs /\
                SInvW (c_v11 c) s' (sp_decls (map sp_of attrs) :: rows).
Proof. exact startTag_sound_wf. Qed.
Print Assumptions T06_resolve_wf_sound.
Theorem T06_resolve_wf_errors : forall c s rows pfx loc attrs,
  iswf c -> SInvW (c_v11 c) s rows -> Forall wf_attr attrs -> sp_tag (c_v11 c) rows pfx (map sp_of attrs) = None ->
  exists e, startTag c s pfx loc attrs = Err e /\ ns_error e = true.
Proof. exact startTag_rejects_wf. Qed.
Print Assumptions T06_resolve_wf_errors.
Theorem T06_resolve_wf_complete : forall c s rows pfx loc attrs e ans,
  iswf c -> SInvW (c_v11 c) s rows -> Forall ncname_attr attrs ->
  sp_tag (c_v11 c) rows pfx (map sp_of attrs) = Some (e, ans) ->
  exists s' uri xs, startTag c s pfx loc attrs = Ok (s', uri, xs).
Proof. exact startTag_complete_wf. Qed.
Print Assumptions T06_resolve_wf_complete.
Theorem T06_resolve_wf_init : forall v11, SInvW v11 scan_init [].
Proof. exact sinvw_init. Qed.
Print Assumptions T06_resolve_wf_init.
Theorem T06_resolve_wf_endtag : forall c s ds rows, iswf c -> SInvW (c_v11 c) s (ds :: rows) ->
  exists uri pfx loc s', st_pop c s = Ok (uri, pfx, loc, s') /\ SInvW (c_v11 c) s' rows /\ sc_uris s' = sc_uris s.
Proof. exact st_pop_wf. Qed.
Print Assumptions T06_resolve_wf_endtag.
(** whole documents through WFXMLScanner: the statement of T06_resolve, for [c_scanner c = WF] *)
Theorem T06_resolve_wf : forall c ts s' devs err, iswf c -> toks_nc ts -> toks_nested ts 0 = true ->
  scan_toks c scan_init ts = (s', devs, err) ->
  Forall2 (start_ok (sc_uris s')) (dev_starts devs) (fst (sp_doc (c_v11 c) (map sp_tok_of ts) [])) /\
  (snd (sp_doc (c_v11 c) (map sp_tok_of ts) []) = true <-> err <> None) /\
  (forall e, err = Some e -> ns_error e = true).
Proof. exact doc_resolve_wf_init. Qed.
Print Assumptions T06_resolve_wf.

(** all these errors are fatal in the code (codes and the F_LowBounds..F_HighBounds range are read from
    XMLErrorCodes.hpp): the model's "the first error ends the scan" is the code's behaviour *)
Theorem T06_errors_fatal : forallb (fun c => (err_F_low <=? c) && (c <=? err_F_high)) ns_err_codes = true.
Proof. vm_compute. reflexivity. Qed.
Print Assumptions T06_errors_fatal.

(** *** T06_sax2_balanced: for every well-nested sequence of element events the prefix-mapping and element events
    SAX2XMLReaderImpl emits form a Dyck word (each endPrefixMapping p closes the latest open startPrefixMapping p,
    element brackets and mapping brackets nest), and fPrefixes / fPrefixCounts are empty at the end *)
Theorem T06_sax2_balanced : forall nsp uris devs x out, well_nested devs 0 = true ->
  sax2_run nsp uris sax2_init devs = (x, out) ->
  dyck (flat_map bracket_of out) [] = true /\ sx_prefixes x = [] /\ sx_counts x = [].
Proof. exact sax2_balanced. Qed.
Print Assumptions T06_sax2_balanced.

(** the invariant over the event fold: one event moves the bracket stack represented by (fPrefixes, fPrefixCounts)
    exactly as its own brackets do *)
Theorem T06_sax2_step : forall nsp uris x e x' out, sax2_ev nsp uris x e = (x', out) -> SInv x ->
  (match e with DEnd _ _ _ => sx_counts x <> [] | _ => True end) ->
  SInv x' /\ length (sx_counts x') = depth_after e (length (sx_counts x)) /\
  forall w, dyck (flat_map bracket_of out ++ w) (sstack x) = dyck w (sstack x').
Proof. exact ev_dyck. Qed.
Print Assumptions T06_sax2_step.

(** *** T06_dom_lookup: on a namespace-well-formed tree (what the parser builds) lookupNamespaceURI answers the
    in-scope binding, for the null prefix and for every prefix other than the reserved ones (which Appendix B does
    not special-case); isDefaultNamespace and lookupPrefix likewise.  [chain] is the ancestor-or-self element chain
    of the node: elements use their own, attributes their owner's, text / comments their parent's, the document its
    document element's. *)
Theorem T06_dom_lookup : forall chain p, Forall parsed_elem chain -> consistent chain -> p <> Some [] ->
  name_eqb (pfx_or_empty p) s_xml = false -> name_eqb (pfx_or_empty p) s_xmlns = false ->
  canon (m_lookup_ns chain p) = inscope (chain_rows chain) (pfx_or_empty p).
Proof. exact lookup_ns_inscope. Qed.
Print Assumptions T06_dom_lookup.

Theorem T06_dom_is_default : forall chain u, Forall parsed_elem chain -> consistent chain -> u <> [] ->
  m_is_default chain (Some u) = oname_eqb (inscope (chain_rows chain) []) (Some u).
Proof. exact is_default_inscope. Qed.
Print Assumptions T06_dom_is_default.

(** lookupPrefix is sound (the prefix it answers is bound to the namespace name in scope of the node) and complete
    (it answers a prefix whenever a non-reserved one is bound to that name in scope) *)
Theorem T06_dom_lookup_prefix : forall chain u p, Forall parsed_elem chain -> consistent chain -> u <> [] ->
  m_lookup_prefix chain u = Some p -> p <> [] -> name_eqb p s_xml = false -> name_eqb p s_xmlns = false ->
  inscope (chain_rows chain) p = Some u.
Proof. exact lookup_prefix_sound. Qed.
Print Assumptions T06_dom_lookup_prefix.
Theorem T06_dom_lookup_prefix_complete : forall chain u q, Forall parsed_elem chain -> consistent chain -> u <> [] -> q <> [] ->
  name_eqb q s_xml = false -> name_eqb q s_xmlns = false -> inscope (chain_rows chain) q = Some u ->
  m_lookup_prefix chain u <> None.
Proof. exact lookup_prefix_complete. Qed.
Print Assumptions T06_dom_lookup_prefix_complete.

(** the trees the DOM parser builds satisfy these hypotheses: the element AbstractDOMParser::startElement creates from
    a resolved start tag (T06_resolve_sound) is namespace-well-formed and consistent, and its ancestor chain carries
    the same bindings as the scanner's scope (the attribute map is sorted by name, so the declarations are read off
    in another order -- immaterial, because a tag cannot declare a prefix twice).  By induction over the document:
    on the DOM built from a parsed document lookupNamespaceURI n p = inscope (declarations of the open elements) p. *)
Theorem T06_dom_built : forall c s rows pfx loc attrs s' uri xs up,
  nonwf c -> SInvR (c_v11 c) s rows -> Forall wf_attr attrs -> startTag c s pfx loc attrs = Ok (s', uri, xs) ->
  rows_equiv (chain_rows up) rows -> consistent up ->
  let e := dom_elem (sc_uris s') uri pfx loc xs in
  parsed_elem e /\ consistent (e :: up) /\ rows_equiv (chain_rows (e :: up)) (sp_decls (map sp_of attrs) :: rows).
Proof. exact dom_elem_built. Qed.
Print Assumptions T06_dom_built.

Theorem T06_dom_lookup_parsed : forall chain rows p, Forall parsed_elem chain -> consistent chain ->
  rows_equiv (chain_rows chain) rows -> p <> Some [] ->
  name_eqb (pfx_or_empty p) s_xml = false -> name_eqb (pfx_or_empty p) s_xmlns = false ->
  canon (m_lookup_ns chain p) = inscope rows (pfx_or_empty p).
Proof.
  intros chain rows p H1 H2 H3 H4 H5 H6. rewrite (lookup_ns_inscope chain p H1 H2 H4 H5 H6). apply inscope_equiv. exact H3.
Qed.
Print Assumptions T06_dom_lookup_parsed.

(** F8 (fixes/C06-lookup-null.patch): a document without document element answers null / false instead of
    dereferencing a null pointer *)
Theorem T06_lookup_emptydoc : forall roots p u, root_chain roots = [] ->
  doc_lookup_ns roots p = None /\ doc_lookup_prefix roots u = None /\ doc_is_default roots (Some u) = false.
Proof. exact doc_lookup_empty. Qed.
Print Assumptions T06_lookup_emptydoc.

(** *** non-vacuity *)
Definition nm (l : list N) : name := l.
Definition ex_p : name := [112%N].  Definition ex_q : name := [113%N].  Definition ex_a : name := [97%N].
Definition ex_u : name := [117%N]. Definition ex_v : name := [118%N].
(** a prefix used by the element and by an attribute BEFORE the attribute that declares it *)
Example T06_nonvacuous_later_decl :
  fst (fst (parse_sax2 (mkCfg IG false) true
     [TStart ex_p ex_a [mkRAttr ex_p ex_a ex_v; mkRAttr s_xmlns ex_p ex_u] true])) =
  [SPM ex_p ex_u;
   SE ex_u ex_a (ex_p ++ [58%N] ++ ex_a) [mkSAttr ex_u ex_a (ex_p ++ [58%N] ++ ex_a) ex_v;
                                          mkSAttr uri_xmlns ex_p (s_xmlns ++ [58%N] ++ ex_p) ex_u];
   EE ex_u ex_a (ex_p ++ [58%N] ++ ex_a); EPM ex_p].
Proof. vm_compute. reflexivity. Qed.
Example T06_nonvacuous_errors :
  map (fun t => snd (fst (parse_sax2 (mkCfg IG false) true [t])))
    [TStart ex_q ex_a [] true;
     TStart [] ex_a [mkRAttr s_xmlns s_xmlns ex_u] true;
     TStart [] ex_a [mkRAttr s_xmlns s_xml ex_u] true;
     TStart [] ex_a [mkRAttr s_xmlns ex_p []] true;
     TStart [] ex_a [mkRAttr s_xmlns ex_p ex_u; mkRAttr s_xmlns ex_q ex_u; mkRAttr ex_p ex_a ex_v; mkRAttr ex_q ex_a ex_v] true] =
  [Some E_UnknownPrefix; Some E_NoUseOfxmlnsAsPrefix; Some E_PrefixXMLNotMatchXMLURI; Some E_NoEmptyStrNamespace;
   Some E_AttrAlreadyUsedInSTag].
Proof. vm_compute. reflexivity. Qed.
(** 41 levels and 40 prefixes on one level: both capacities are crossed (32 -> 40 -> 50; 16 -> 20 -> 25 -> 31 -> 38 -> 47) *)
Example T06_nonvacuous_growth :
  match es_run (repeat SPush 41 ++ map (fun i => SDecl [N.of_nat i] (5 + i)) (seq 100 40)) es_init with
  | Ok st => (es_cap st, r_cap (hd (mkRow [] 0 0 [] []) (es_live st)), es_mapPrefixToURI st [100%N], es_mapPrefixToURI st [139%N])
  | Err _ => (0, 0, (0, true), (0, true))
  end = (50, 47, (105, false), (144, false)).
Proof. vm_compute. reflexivity. Qed.
Example T06_nonvacuous_dom :
  let chain := [mkBElem (Some ex_u) (Some ex_p) ex_a [mkBAttr (Some uri_xmlns) (Some s_xmlns) ex_p ex_u]] in
  (m_lookup_ns chain (Some ex_p), m_lookup_prefix chain ex_u, m_is_default chain (Some ex_u), m_lookup_ns chain None) =
  (Some ex_u, Some ex_p, false, None).
Proof. vm_compute. reflexivity. Qed.
(** the hypotheses of T06_resolve are satisfiable by a document with shadowing and un-declaration *)
Definition ex_doc : list tok :=
  [TStart ex_p ex_a [mkRAttr s_xmlns ex_p ex_u; mkRAttr [] s_xmlns ex_v] false;
   TStart [] ex_a [mkRAttr [] s_xmlns []; mkRAttr s_xmlns ex_p ex_v; mkRAttr ex_p ex_q ex_u] true; TText; TEnd].
Example T06_nonvacuous_doc_hyps : toks_nested ex_doc 0 = true /\ toks_nc ex_doc.
Proof.
  split; [vm_compute; reflexivity|].
  unfold toks_nc, ex_doc, ncname_attr, ncname, ex_p, ex_q, ex_a, ex_u, ex_v, s_xmlns. cbn [ra_pfx ra_loc In].
  repeat constructor; try (intros H; repeat (destruct H as [H|H]; [discriminate H|]); exact H); discriminate.
Qed.
Example T06_nonvacuous_doc :
  sp_doc false (map sp_tok_of ex_doc) [] =
  ([(NsIn ex_u, [NsIn uri_xmlns; NsNone]); (NsNone, [NsNone; NsIn uri_xmlns; NsIn ex_v])], false).
Proof. vm_compute. reflexivity. Qed.
(** the WF path: the document of T06_nonvacuous_doc through WFXMLScanner (same events as through IGXMLScanner), and a
    40-level, 40-declarations-per-level history crossing both WFElemStack capacities *)
Example T06_nonvacuous_wf :
  fst (fst (parse_sax2 (mkCfg WF false) true ex_doc)) = fst (fst (parse_sax2 (mkCfg IG false) true ex_doc)) /\
  snd (fst (parse_sax2 (mkCfg WF false) true ex_doc)) = None /\
  map (fun t => snd (fst (parse_sax2 (mkCfg WF false) true [t])))
    [TStart ex_q ex_a [] true;
     TStart [] ex_a [mkRAttr s_xmlns ex_p ex_u; mkRAttr s_xmlns ex_p ex_v] true;
     TStart [] ex_a [mkRAttr s_xmlns ex_p ex_u; mkRAttr s_xmlns ex_q ex_u; mkRAttr ex_p ex_a ex_v; mkRAttr ex_q ex_a ex_v] true] =
  [Some E_UnknownPrefix; Some E_AttrAlreadyUsedInSTag; Some E_AttrAlreadyUsedInSTag].
Proof. vm_compute. repeat split; reflexivity. Qed.
Example T06_nonvacuous_wf_growth :
  match wfs_run (repeat SPush 41 ++ map (fun i => SDecl [N.of_nat i] (5 + i)) (seq 100 40)) wfs_init with
  | Ok w => (ws_cap w, ws_mapcap w, wfs_mapPrefixToURI w [100%N], wfs_mapPrefixToURI w [139%N])
  | Err _ => (0, 0, (0, true), (0, true))
  end = (50, 47, (105, false), (144, false)).
Proof. vm_compute. reflexivity. Qed.
