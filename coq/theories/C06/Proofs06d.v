(** Lemmas for T06_resolve: the start-tag processing of IGXMLScanner / SGXMLScanner (updateNSMap, resolvePrefix,
    buildAttList) against the Spec ([decl_legal], [elem_ns] / [attr_ns], [has_dup], assembled in [sp_tag]). *)
From XV Require Import Base.XDefs Gen.GenElemStack C06.Spec06 C06.Model06 C06.Proofs06a.
From Coq Require Import Arith Lia.
Local Open Scope nat_scope.

(** ** the scanner state represents the declarations [rows] of the open elements *)
Definition uid_ok (uris : pool) (m : list (name * nat)) : Prop := Forall (fun d => 1 <= snd d <= length uris) m.
Definition txt (uris : pool) (m : list (name * nat)) : list decl := map (fun d => (fst d, pool_value uris (snd d))) m.
Definition all_legal (v11 : bool) (rows : list (list decl)) : Prop := Forall (Forall (fun d => decl_legal v11 d = true)) rows.
Definition SInvR (v11 : bool) (s : scan) (rows : list (list decl)) : Prop :=
  exists rid, Inv (sc_es s) rid [] /\ pool_ok (sc_uris s) /\ (exists q, sc_uris s = uri_pool0 ++ q) /\
              Forall (uid_ok (sc_uris s)) rid /\ map (txt (sc_uris s)) rid = rows /\ all_legal v11 rows.

Lemma uid_ok_app : forall uris q m, uid_ok uris m -> uid_ok (uris ++ q) m.
Proof. intros uris q m H. unfold uid_ok in *. eapply Forall_impl; [|exact H]. intros d Hd. cbn in *. rewrite app_length. lia. Qed.
Lemma txt_app : forall uris q m, uid_ok uris m -> txt (uris ++ q) m = txt uris m.
Proof.
  intros uris q m H. unfold txt. apply map_ext_in. intros d Hd. unfold uid_ok in H. rewrite Forall_forall in H.
  rewrite pool_value_app by (apply H; exact Hd). reflexivity.
Qed.
Lemma rows_app : forall uris q rid, Forall (uid_ok uris) rid ->
  Forall (uid_ok (uris ++ q)) rid /\ map (txt (uris ++ q)) rid = map (txt uris) rid.
Proof.
  intros uris q rid H. induction H as [|m r Hm Hr [IH1 IH2]]; [split; [constructor|reflexivity]|].
  split; [constructor; [apply uid_ok_app; exact Hm|exact IH1]|]. cbn [map]. rewrite txt_app by exact Hm. rewrite IH2. reflexivity.
Qed.

Lemma find_decl_txt : forall uris p m, find_decl p (txt uris m) = option_map (pool_value uris) (find_decl p m).
Proof.
  intros uris p m. induction m as [|[q u] m IH]; cbn [txt map find_decl fst snd option_map]; [reflexivity|].
  destruct (name_eqb q p); [reflexivity|exact IH].
Qed.
Lemma nearest_txt : forall uris p rid, nearest (map (txt uris) rid) p = option_map (pool_value uris) (nearest rid p).
Proof.
  intros uris p rid. induction rid as [|m r IH]; cbn [map nearest option_map]; [reflexivity|].
  rewrite find_decl_txt. destruct (find_decl p m); [reflexivity|exact IH].
Qed.
Lemma find_decl_in : forall (U : Type) p (m : list (name * U)) u, find_decl p m = Some u -> In (p, u) m.
Proof.
  intros U p m u. induction m as [|[q v] m IH]; cbn [find_decl]; intros H; [discriminate|].
  destruct (name_eqb q p) eqn:E.
  - injection H as <-. apply name_eqb_eq in E. subst q. left. reflexivity.
  - right. apply IH. exact H.
Qed.
Lemma nearest_in : forall (U : Type) p (rows : list (list (name * U))) u, nearest rows p = Some u ->
  exists m, In m rows /\ In (p, u) m.
Proof.
  intros U p rows u. induction rows as [|m r IH]; cbn [nearest]; intros H; [discriminate|].
  destruct (find_decl p m) eqn:E.
  - injection H as <-. exists m. split; [left; reflexivity|]. apply find_decl_in. exact E.
  - destruct (IH H) as (m' & A & B). exists m'. split; [right; exact A|exact B].
Qed.
Lemma nearest_nil_row : forall (U : Type) (rows : list (list (name * U))) p, nearest (rows ++ [[]]) p = nearest rows p.
Proof. intros U rows p. rewrite nearest_app. cbn. destruct (nearest rows p); reflexivity. Qed.

(** the URI pool starts with "", unknown, xml, xmlns, xsi *)
Lemma uri_pool_facts : forall q, let uris := uri_pool0 ++ q in
  pool_value uris emptyId = [] /\ pool_value uris xmlId = uri_xml /\ pool_value uris xmlnsId = uri_xmlns /\
  5 <= length uris /\ pool_getId uris [] = emptyId.
Proof.
  intros q uris. unfold uris. split; [reflexivity|]. split; [reflexivity|]. split; [reflexivity|].
  split; [rewrite app_length; cbn; lia|]. apply getId_app_l. vm_compute. reflexivity.
Qed.
Lemma empty_id_text : forall uris u, pool_ok uris -> (exists q, uris = uri_pool0 ++ q) -> 1 <= u <= length uris ->
  (u =? emptyId) = name_eqb (pool_value uris u) [].
Proof.
  intros uris u Hok [q Hq] Hu. destruct (uri_pool_facts q) as (_ & _ & _ & _ & G). rewrite <- Hq in G.
  rewrite <- G. apply id_eqb_name; assumption.
Qed.

Lemma st_map_nonwf : forall c s p, nonwf c -> st_map c s p = es_mapPrefixToURI (sc_es s) p.
Proof. intros c s p H. unfold st_map, nonwf in *. destruct (c_scanner c); [reflexivity|contradiction|reflexivity]. Qed.

Definition ns_of (attrMode : bool) (rows : list (list decl)) (p : name) : nsres :=
  if attrMode then attr_ns rows p else elem_ns rows p.

Lemma s_xml_neq_xmlns : name_eqb s_xmlns s_xml = false.
Proof. vm_compute. reflexivity. Qed.

(** ** XMLScanner::resolvePrefix *)
Lemma resolvePrefix_spec : forall c s rows p mode, nonwf c -> SInvR (c_v11 c) s rows ->
  match resolvePrefix c s p mode with
  | Ok u => res_ok (sc_uris s) u (ns_of mode rows p)
  | Err e => e = E_UnknownPrefix /\ ns_of mode rows p = NsUnbound
  end.
Proof.
  intros c s rows p mode Hc (rid & HI & Hok & Hpre & Hids & Htxt & Hleg).
  pose proof Hpre as [q Hq]. destruct (uri_pool_facts q) as (F1 & F3 & F4 & F5 & F6). rewrite <- Hq in F1, F3, F4, F5, F6.
  unfold resolvePrefix. destruct p as [|ch p'].
  - destruct mode; cbn [ns_of].
    + cbn [attr_ns]. unfold res_ok. split; [unfold emptyId; lia|exact F1].
    + rewrite (st_map_nonwf c s [] Hc). rewrite (mapPrefix_correct _ rid [] [] HI). unfold map_spec.
      cbn [name_eqb]. rewrite nearest_nil_row. unfold elem_ns, inscope. cbn [name_eqb]. rewrite <- Htxt, nearest_txt.
      destruct (nearest rid []) as [u|] eqn:En; cbn [map_answer option_map].
      * destruct (nearest_in _ _ _ _ En) as (m & Hm & Hin). unfold uid_ok in Hids. rewrite Forall_forall in Hids.
        specialize (Hids m Hm). rewrite Forall_forall in Hids. specialize (Hids _ Hin). cbn [snd] in Hids.
        unfold res_ok. destruct (pool_value (sc_uris s) u) as [|c0 l] eqn:Ev; (split; [exact Hids|]).
        -- exact Ev.
        -- split; [exact Ev|discriminate].
      * unfold res_ok. split; [unfold emptyId; lia|exact F1].
  - set (p := ch :: p') in *.
    assert (Hmode : ns_of mode rows p = match inscope rows p with Some u => NsIn u | None => NsUnbound end).
    { unfold ns_of, attr_ns, elem_ns, p. destruct mode; reflexivity. }
    rewrite Hmode. clear Hmode.
    destruct (name_eqb p s_xmlns) eqn:N2.
    + apply name_eqb_eq in N2. rewrite N2. unfold inscope. rewrite s_xml_neq_xmlns, name_eqb_refl.
      unfold res_ok. split; [unfold xmlnsId; lia|]. split; [exact F4|discriminate].
    + destruct (name_eqb p s_xml) eqn:N1.
      * apply name_eqb_eq in N1. rewrite N1. unfold inscope. rewrite name_eqb_refl.
        unfold res_ok. split; [unfold xmlId; lia|]. split; [exact F3|discriminate].
      * rewrite (st_map_nonwf c s p Hc). rewrite (mapPrefix_correct _ rid [] p HI). unfold map_spec. rewrite N1, N2.
        rewrite nearest_nil_row. unfold inscope. rewrite N1, N2. rewrite <- Htxt, nearest_txt.
        destruct (nearest rid p) as [u|] eqn:En; cbn [map_answer option_map].
        -- destruct (nearest_in _ _ _ _ En) as (m & Hm & Hin).
           assert (Hu : 1 <= u <= length (sc_uris s)).
           { unfold uid_ok in Hids. rewrite Forall_forall in Hids. specialize (Hids m Hm). rewrite Forall_forall in Hids.
             exact (Hids _ Hin). }
           rewrite (empty_id_text _ u Hok Hpre Hu).
           destruct (pool_value (sc_uris s) u) as [|c0 l] eqn:Ev; cbn [name_eqb].
           ++ destruct (c_v11 c) eqn:Ev11; cbn [andb].
              ** split; reflexivity.
              ** exfalso. (* a prefix bound to "" cannot be in a 1.0 scope: such a declaration is illegal *)
                 unfold all_legal in Hleg. rewrite <- Htxt in Hleg. rewrite Forall_forall in Hleg.
                 specialize (Hleg (txt (sc_uris s) m) (in_map _ _ _ Hm)). rewrite Forall_forall in Hleg.
                 assert (Hin' : In (p, []) (txt (sc_uris s) m)).
                 { unfold txt. rewrite <- Ev. change (p, pool_value (sc_uris s) u) with
                     ((fun d : name * nat => (fst d, pool_value (sc_uris s) (snd d))) (p, u)). apply in_map. exact Hin. }
                 specialize (Hleg _ Hin'). unfold decl_legal in Hleg. rewrite N2, N1 in Hleg. cbn in Hleg. discriminate.
           ++ rewrite andb_false_r. unfold res_ok. split; [exact Hu|]. split; [exact Ev|discriminate].
        -- split; reflexivity.
Qed.

(** ** updateNSMap *)
Lemma nsmap_check_legal : forall v11 colon p v, (colon = true -> p <> []) -> (colon = false -> p = []) ->
  match nsmap_check v11 colon p v with
  | Ok _ => decl_legal v11 (p, v) = true
  | Err e => ns_error e = true /\ decl_legal v11 (p, v) = false
  end.
Proof.
  intros v11 colon p v H1 H2. unfold nsmap_check, decl_legal, bind.
  destruct colon.
  - specialize (H1 eq_refl). destruct p as [|c0 p0]; [contradiction|]. set (p := c0 :: p0) in *.
    destruct (name_eqb p s_xmlns) eqn:B1; [split; reflexivity|].
    destruct (name_eqb p s_xml) eqn:B2; destruct (name_eqb v uri_xml) eqn:B3; destruct (name_eqb v uri_xmlns) eqn:B4;
      cbn [andb negb]; try (split; reflexivity);
      destruct v as [|d v0]; destruct v11; cbn [andb negb]; try discriminate; try reflexivity; try (split; reflexivity).
  - specialize (H2 eq_refl). subst p. cbn [name_eqb negb andb].
    destruct (name_eqb v uri_xmlns) eqn:B4; [split; reflexivity|].
    rewrite andb_true_r. destruct (name_eqb v uri_xml) eqn:B3; [split; reflexivity|]. destruct v; reflexivity.
Qed.

Lemma inv_setTop : forall st rows g uri pfx loc, Inv st rows g -> Inv (es_setTop st uri pfx loc) rows g.
Proof.
  intros st rows g uri pfx loc I. destruct I as [P Pre L D G T C]. unfold es_setTop.
  destruct (es_live st) as [|r l] eqn:El.
  - constructor; try assumption. rewrite El. exact L. rewrite El. exact T.
  - constructor; cbn [es_pool es_live es_dead es_global es_cap]; try assumption.
    + inversion L as [|x ds l' rows' Hr Hl]; subst. constructor; [|exact Hl]. exact Hr.
Qed.

Lemma st_addPrefix_inv : forall c s ds rows p v, nonwf c -> SInvR (c_v11 c) s (ds :: rows) ->
  decl_legal (c_v11 c) (p, v) = true ->
  exists s', st_addPrefix c s p v = Ok s' /\ SInvR (c_v11 c) s' ((ds ++ [(p, v)]) :: rows) /\
             exists q, sc_uris s' = sc_uris s ++ q.
Proof.
  intros c s ds rows p v Hc (rid & HI & Hok & Hpre & Hids & Htxt & Hleg) Hl.
  destruct rid as [|rd rr]; [discriminate|]. cbn [map] in Htxt. injection Htxt as Ht1 Ht2.
  unfold st_addPrefix.
  destruct (addOrFind_id (sc_uris s) v) as [Hid Hrange]. destruct (addOrFind_ext (sc_uris s) v) as [q Hq].
  pose proof (pool_ok_add (sc_uris s) v Hok) as Hok'.
  destruct (pool_addOrFind (sc_uris s) v) as [up uid] eqn:Ea. cbn [fst snd] in Hid, Hrange, Hq, Hok'. subst up.
  set (up := sc_uris s ++ q) in *.
  destruct (inv_addPrefix (sc_es s) rd rr [] p uid HI) as (e' & He & HI').
  assert (Hv : pool_value up uid = v).
  { destruct uid as [|i]; [lia|]. destruct (getId_sound up v i Hid) as [A _]. unfold pool_value.
    replace (S i - 1) with i by lia. exact A. }
  exists (mkScan e' (sc_wf s) up). split.
  { unfold nonwf, bind in *. destruct (c_scanner c); [rewrite He; reflexivity|contradiction|rewrite He; reflexivity]. }
  split; [|exists q; reflexivity].
  inversion Hids as [|x l Hrd Hrr]; subst x l.
  destruct (rows_app (sc_uris s) q rr Hrr) as [Hrr' Hrrt]. fold up in Hrr', Hrrt.
  exists ((rd ++ [(p, uid)]) :: rr). cbn [sc_es sc_uris].
  split; [exact HI'|]. split; [exact Hok'|].
  split; [destruct Hpre as [q0 Hq0]; exists (q0 ++ q); unfold up; rewrite Hq0, app_assoc; reflexivity|].
  split.
  { constructor; [|exact Hrr']. unfold uid_ok. apply Forall_app. split; [apply uid_ok_app; exact Hrd|].
    constructor; [cbn [snd]; exact Hrange|constructor]. }
  split.
  { cbn [map]. rewrite Hrrt, Ht2. f_equal. unfold txt at 1. rewrite map_app. cbn [map fst snd]. rewrite Hv.
    fold (txt up rd). unfold up. rewrite txt_app by exact Hrd. rewrite Ht1. reflexivity. }
  unfold all_legal in *. inversion Hleg as [|x l Hd Hr]; subst x l. constructor; [|exact Hr].
  apply Forall_app. split; [exact Hd|]. constructor; [exact Hl|constructor].
Qed.

Lemma is_nsdecl_spec : forall a, ra_loc a <> [] ->
  sp_decl_of (sp_of a) = if is_nsdecl a then [(match ra_pfx a with [] => [] | _ => ra_loc a end, ra_nval a)] else [].
Proof.
  intros a Hl. unfold sp_decl_of, sp_of, is_nsdecl. cbn [spa_pfx spa_loc spa_val].
  destruct (ra_pfx a) as [|c0 p0] eqn:Ep.
  - cbn [name_eqb]. destruct (name_eqb (ra_loc a) s_xmlns); reflexivity.
  - destruct (name_eqb (c0 :: p0) s_xmlns); reflexivity.
Qed.

Lemma updateNSMap_spec : forall c s ds rows a, nonwf c -> SInvR (c_v11 c) s (ds :: rows) -> ra_loc a <> [] ->
  is_nsdecl a = true ->
  match updateNSMap c s a with
  | Ok s' => forallb (decl_legal (c_v11 c)) (sp_decl_of (sp_of a)) = true /\
             SInvR (c_v11 c) s' ((ds ++ sp_decl_of (sp_of a)) :: rows) /\ exists q, sc_uris s' = sc_uris s ++ q
  | Err e => ns_error e = true /\ forallb (decl_legal (c_v11 c)) (sp_decl_of (sp_of a)) = false
  end.
Proof.
  intros c s ds rows a Hc HS Hl Hd. rewrite (is_nsdecl_spec a Hl), Hd. unfold updateNSMap.
  set (colon := match ra_pfx a with [] => false | _ => true end).
  set (pp := if colon then ra_loc a else []).
  assert (Epp : match ra_pfx a with [] => [] | _ => ra_loc a end = pp).
  { unfold pp, colon. destruct (ra_pfx a); reflexivity. }
  rewrite Epp.
  assert (H1 : colon = true -> pp <> []) by (unfold pp; intros ->; exact Hl).
  assert (H2 : colon = false -> pp = []) by (unfold pp; intros ->; reflexivity).
  pose proof (nsmap_check_legal (c_v11 c) colon pp (ra_nval a) H1 H2) as K. unfold bind at 1.
  destruct (nsmap_check (c_v11 c) colon pp (ra_nval a)) as [[]|e].
  - destruct (st_addPrefix_inv c s ds rows pp (ra_nval a) Hc HS K) as (s' & E & I' & Q). rewrite E.
    cbn [forallb]. rewrite K. split; [reflexivity|]. split; [exact I'|exact Q].
  - destruct K as [K1 K2]. cbn [forallb]. rewrite K2. split; [exact K1|reflexivity].
Qed.


Lemma sinvr_uris_ext : forall v s rows, SInvR v s rows -> True.
Proof. intros. exact I. Qed.

Lemma scanRaw_spec : forall c rows attrs s ds, nonwf c -> SInvR (c_v11 c) s (ds :: rows) -> Forall wf_attr attrs ->
  match scanRawAttrListforNameSpaces c s attrs with
  | Ok s' => forallb (decl_legal (c_v11 c)) (sp_decls (map sp_of attrs)) = true /\
             SInvR (c_v11 c) s' ((ds ++ sp_decls (map sp_of attrs)) :: rows) /\ exists q, sc_uris s' = sc_uris s ++ q
  | Err e => ns_error e = true /\ forallb (decl_legal (c_v11 c)) (sp_decls (map sp_of attrs)) = false
  end.
Proof.
  intros c rows attrs. induction attrs as [|a r IH]; intros s ds Hc HS Hwf; cbn [scanRawAttrListforNameSpaces map].
  - unfold sp_decls. cbn [flat_map forallb]. rewrite app_nil_r. split; [reflexivity|]. split; [exact HS|].
    exists []. symmetry. apply app_nil_r.
  - inversion Hwf as [|x l Ha Hr]; subst x l. unfold sp_decls. cbn [flat_map]. fold (sp_decls (map sp_of r)).
    rewrite forallb_app. unfold bind at 1.
    destruct (is_nsdecl a) eqn:Ed.
    + pose proof (updateNSMap_spec c s ds rows a Hc HS Ha Ed) as U.
      destruct (updateNSMap c s a) as [s1|e].
      * destruct U as (L1 & I1 & [q1 Q1]). specialize (IH s1 (ds ++ sp_decl_of (sp_of a)) Hc I1 Hr).
        destruct (scanRawAttrListforNameSpaces c s1 r) as [s2|e2].
        -- destruct IH as (L2 & I2 & [q2 Q2]). rewrite L1, L2. split; [reflexivity|].
           rewrite <- app_assoc in I2. split; [exact I2|]. exists (q1 ++ q2). rewrite Q2, Q1. rewrite app_assoc. reflexivity.
        -- destruct IH as [E1 E2]. rewrite E2. rewrite andb_false_r. split; [exact E1|reflexivity].
      * destruct U as [E1 E2]. rewrite E2. split; [exact E1|reflexivity].
    + assert (Hnil : sp_decl_of (sp_of a) = []) by (rewrite (is_nsdecl_spec a Ha), Ed; reflexivity).
      rewrite Hnil. cbn [forallb andb app]. specialize (IH s ds Hc HS Hr). exact IH.
Qed.

(** ** addLevel / popTop / setTop at scanner level *)
Lemma st_addLevel_inv : forall c s rows, nonwf c -> SInvR (c_v11 c) s rows ->
  exists s', st_addLevel c s = Ok s' /\ SInvR (c_v11 c) s' ([] :: rows) /\ sc_uris s' = sc_uris s.
Proof.
  intros c s rows Hc (rid & HI & Hok & Hpre & Hids & Htxt & Hleg).
  destruct (inv_addLevel (sc_es s) rid [] HI) as (e' & He & HI').
  exists (mkScan e' (sc_wf s) (sc_uris s)). split.
  - unfold st_addLevel, nonwf, bind in *. destruct (c_scanner c); [rewrite He; reflexivity|contradiction|rewrite He; reflexivity].
  - split; [|reflexivity]. exists ([] :: rid). cbn [sc_es sc_uris].
    split; [exact HI'|]. split; [exact Hok|]. split; [exact Hpre|].
    split; [constructor; [constructor|exact Hids]|].
    split; [cbn [map txt]; rewrite Htxt; reflexivity|]. constructor; [constructor|exact Hleg].
Qed.
Lemma st_pop_inv : forall c s ds rows, nonwf c -> SInvR (c_v11 c) s (ds :: rows) ->
  exists uri pfx loc s', st_pop c s = Ok (uri, pfx, loc, s') /\ SInvR (c_v11 c) s' rows /\ sc_uris s' = sc_uris s.
Proof.
  intros c s ds rows Hc (rid & HI & Hok & Hpre & Hids & Htxt & Hleg).
  destruct rid as [|rd rr]; [discriminate|]. cbn [map] in Htxt. injection Htxt as Ht1 Ht2.
  destruct (inv_popTop (sc_es s) rd rr [] HI) as (r & e' & He & HI').
  exists (r_uri r), (r_pfx r), (r_loc r), (mkScan e' (sc_wf s) (sc_uris s)). split.
  - unfold st_pop, nonwf, bind in *. destruct (c_scanner c); [rewrite He; reflexivity|contradiction|rewrite He; reflexivity].
  - cbn [sc_uris]. split; [|reflexivity]. exists rr. cbn [sc_es sc_uris]. inversion Hids; subst. inversion Hleg; subst.
    split; [exact HI'|]. split; [exact Hok|]. split; [exact Hpre|]. split; [assumption|]. split; [reflexivity|assumption].
Qed.
Lemma st_setTop_inv : forall c s rows uri pfx loc, nonwf c -> SInvR (c_v11 c) s rows ->
  SInvR (c_v11 c) (st_setTop c s uri pfx loc) rows /\ sc_uris (st_setTop c s uri pfx loc) = sc_uris s.
Proof.
  intros c s rows uri pfx loc Hc (rid & HI & Hok & Hpre & Hids & Htxt & Hleg).
  assert (E : st_setTop c s uri pfx loc = mkScan (es_setTop (sc_es s) uri pfx loc) (sc_wf s) (sc_uris s)).
  { unfold st_setTop, nonwf in *. destruct (c_scanner c); [reflexivity|contradiction|reflexivity]. }
  rewrite E. split; [|reflexivity]. exists rid. cbn [sc_es sc_uris].
  split; [apply inv_setTop; exact HI|]. split; [exact Hok|]. split; [exact Hpre|]. split; [exact Hids|]. split; assumption.
Qed.
Lemma sinvr_init : forall v11, SInvR v11 scan_init [].
Proof.
  intros v11. exists []. cbn [scan_init sc_es sc_uris].
  split; [exact inv_init|].
  split; [intros i Hi; cbn in Hi; destruct i as [|[|[|[|[|i]]]]]; try lia; vm_compute; reflexivity|].
  split; [exists []; reflexivity|]. split; [constructor|]. split; [reflexivity|constructor].
Qed.

(** ** duplicate detection *)
Lemma key_eqb_sym : forall a b, key_eqb a b = key_eqb b a.
Proof.
  intros [[x| |] n] [[y| |] m]; unfold key_eqb; cbn [fst snd]; try reflexivity.
  - rewrite (name_eqb_sym x y), (name_eqb_sym n m). reflexivity.
  - apply name_eqb_sym.
Qed.
Fixpoint dup_lr (seen l : list (nsres * name)) : bool :=
  match l with
  | [] => false
  | k :: r => existsb (key_eqb k) seen || dup_lr (k :: seen) r
  end.
Lemma existsb_cons_seen : forall k seen r,
  existsb (fun k' => key_eqb k' k || existsb (key_eqb k') seen) r =
  existsb (key_eqb k) r || existsb (fun k' => existsb (key_eqb k') seen) r.
Proof.
  intros k seen r. induction r as [|x r IH]; cbn [existsb]; [reflexivity|].
  rewrite IH. rewrite (key_eqb_sym x k).
  destruct (key_eqb k x), (existsb (key_eqb x) seen), (existsb (key_eqb k) r),
           (existsb (fun k' => existsb (key_eqb k') seen) r); reflexivity.
Qed.
Lemma dup_lr_spec : forall l seen, dup_lr seen l = existsb (fun k => existsb (key_eqb k) seen) l || has_dup l.
Proof.
  induction l as [|k r IH]; intros seen; cbn [dup_lr has_dup]; [reflexivity|].
  rewrite IH.
  change (existsb (fun k0 => existsb (key_eqb k0) (k :: seen)) r)
    with (existsb (fun k0 => key_eqb k0 k || existsb (key_eqb k0) seen) r).
  rewrite existsb_cons_seen.
  change (existsb (fun k0 => existsb (key_eqb k0) seen) (k :: r))
    with (existsb (key_eqb k) seen || existsb (fun k0 => existsb (key_eqb k0) seen) r).
  destruct (existsb (key_eqb k) seen), (existsb (key_eqb k) r), (existsb (fun k' => existsb (key_eqb k') seen) r),
           (has_dup r); reflexivity.
Qed.
Lemma dup_lr_nil : forall l, dup_lr [] l = has_dup l.
Proof.
  intros l. rewrite dup_lr_spec. replace (existsb (fun k => existsb (key_eqb k) []) l) with false; [reflexivity|].
  induction l as [|k r IH]; cbn [existsb]; [reflexivity|]. exact IH.
Qed.

(** two ids of the URI pool are equal exactly when they denote the same namespace *)
Lemma res_ok_same : forall uris u1 r1 u2 r2 n1 n2, pool_ok uris -> res_ok uris u1 r1 -> res_ok uris u2 r2 ->
  (u1 =? u2) && name_eqb n1 n2 = key_eqb (r2, n2) (r1, n1).
Proof.
  intros uris u1 r1 u2 r2 n1 n2 Hok [H1 K1] [H2 K2].
  assert (Inj : (u1 =? u2) = name_eqb (pool_value uris u2) (pool_value uris u1)).
  { assert (G : pool_getId uris (pool_value uris u1) = u1).
    { unfold pool_value. rewrite (Hok (u1 - 1)) by lia. lia. }
    rewrite <- G at 1. rewrite Nat.eqb_sym. apply id_eqb_name; assumption. }
  unfold key_eqb. cbn [fst snd]. rewrite Inj. rewrite (name_eqb_sym n1 n2).
  destruct r1 as [t1| |]; destruct r2 as [t2| |]; try contradiction.
  - destruct K1 as [-> _], K2 as [-> _]. reflexivity.
  - destruct K1 as [-> N]. rewrite K2. destruct t1; [contradiction|reflexivity].
  - destruct K2 as [-> N]. rewrite K1. destruct t2; [contradiction|]. reflexivity.
  - rewrite K1, K2. reflexivity.
Qed.

Definition xkey_rel (uris : pool) (x : xattr) (k : nsres * name) : Prop := res_ok uris (xa_uri x) (fst k) /\ xa_loc x = snd k.

Lemma same_expanded_keys : forall uris done seen u r loc, pool_ok uris -> Forall2 (xkey_rel uris) done seen ->
  res_ok uris u r -> existsb (same_expanded u loc) done = existsb (key_eqb (r, loc)) seen.
Proof.
  intros uris done seen u r loc Hok H Hr. induction H as [|x k done seen [Hx Hl] Hrest IH]; [reflexivity|].
  cbn [existsb]. rewrite IH. f_equal. unfold same_expanded. rewrite Hl.
  destruct k as [rk nk]. cbn [fst snd] in *. rewrite (res_ok_same uris (xa_uri x) rk u r nk loc Hok Hx Hr). reflexivity.
Qed.

Lemma SInvR_pool_ok : forall v s rows, SInvR v s rows -> pool_ok (sc_uris s).
Proof. intros v s rows (rid & _ & Hok & _). exact Hok. Qed.
Lemma attr_uri_spec : forall c s rows p, nonwf c -> SInvR (c_v11 c) s rows ->
  match attr_uri c s p with
  | Ok u => res_ok (sc_uris s) u (attr_ns rows p)
  | Err e => e = E_UnknownPrefix /\ attr_ns rows p = NsUnbound
  end.
Proof.
  intros c s rows p Hc HS. pose proof (resolvePrefix_spec c s rows p true Hc HS) as R. unfold attr_uri.
  destruct p; [|exact R]. cbn [resolvePrefix] in R. exact R.
Qed.

(** buildAttList, generalised over the attributes already built *)
Lemma build_spec : forall c s rows attrs done seen, nonwf c -> SInvR (c_v11 c) s rows ->
  Forall2 (xkey_rel (sc_uris s)) done seen ->
  match buildAttList c s attrs done with
  | Ok xs => exists new, xs = rev done ++ new /\
             Forall2 (fun x a => xa_pfx x = ra_pfx a /\ xa_loc x = ra_loc a /\ xa_val x = ra_nval a /\
                                 res_ok (sc_uris s) (xa_uri x) (attr_ns rows (ra_pfx a))) new attrs /\
             dup_lr seen (map (fun a => (attr_ns rows (ra_pfx a), ra_loc a)) attrs) = false
  | Err e => ns_error e = true
  end.
Proof.
  intros c s rows attrs. induction attrs as [|a r IH]; intros done seen Hc HS Hrel; cbn [buildAttList].
  - exists []. rewrite app_nil_r. split; [reflexivity|]. split; [constructor|reflexivity].
  - pose proof (attr_uri_spec c s rows (ra_pfx a) Hc HS) as U. unfold bind.
    destruct (attr_uri c s (ra_pfx a)) as [u|e]; [|destruct U as [-> _]; reflexivity].
    destruct (existsb _ done); [reflexivity|].
    pose proof (SInvR_pool_ok _ _ _ HS) as Hok.
    rewrite (same_expanded_keys _ done seen u (attr_ns rows (ra_pfx a)) (ra_loc a) Hok Hrel U).
    destruct (existsb (key_eqb (attr_ns rows (ra_pfx a), ra_loc a)) seen) eqn:Ed; [reflexivity|].
    specialize (IH (mkXAttr u (ra_pfx a) (ra_loc a) (ra_nval a) :: done) ((attr_ns rows (ra_pfx a), ra_loc a) :: seen) Hc HS).
    assert (Hrel' : Forall2 (xkey_rel (sc_uris s)) (mkXAttr u (ra_pfx a) (ra_loc a) (ra_nval a) :: done)
                            ((attr_ns rows (ra_pfx a), ra_loc a) :: seen)).
    { constructor; [|exact Hrel]. split; [exact U|reflexivity]. }
    specialize (IH Hrel').
    destruct (buildAttList c s r (mkXAttr u (ra_pfx a) (ra_loc a) (ra_nval a) :: done)) as [xs|e]; [|exact IH].
    destruct IH as (new & E & F & D). exists (mkXAttr u (ra_pfx a) (ra_loc a) (ra_nval a) :: new).
    split; [rewrite E; cbn [rev]; rewrite <- app_assoc; reflexivity|].
    split; [constructor; [cbn [xa_pfx xa_loc xa_val xa_uri]; split; [reflexivity|]; split; [reflexivity|]; split; [reflexivity|exact U]|exact F]|].
    cbn [map dup_lr]. rewrite Ed. exact D.
Qed.

(** ** the start tag as a whole *)
Lemma combine_map : forall (A B C : Type) (f : A -> B) (g : A -> C) l, combine (map f l) (map g l) = map (fun a => (f a, g a)) l.
Proof. intros. induction l as [|a l IH]; cbn; [reflexivity|]. rewrite IH. reflexivity. Qed.
Lemma res_ok_not_unbound : forall uris u r, res_ok uris u r -> is_unbound r = false.
Proof. intros uris u [t| |] [_ H]; [reflexivity|reflexivity|contradiction]. Qed.
Lemma startTag_nonwf : forall c s pfx loc attrs, nonwf c -> startTag c s pfx loc attrs = ig_startTag c s pfx loc attrs.
Proof. intros c s pfx loc attrs H. unfold startTag, nonwf in *. destruct (c_scanner c); [reflexivity|contradiction|reflexivity]. Qed.

Definition triple_x (x : xattr) := (xa_pfx x, xa_loc x, xa_val x).
Definition triple_a (a : rattr) := (ra_pfx a, ra_loc a, ra_nval a).

Definition built_rel (uris : pool) (rows : list (list decl)) (x : xattr) (a : rattr) : Prop :=
  xa_pfx x = ra_pfx a /\ xa_loc x = ra_loc a /\ xa_val x = ra_nval a /\ res_ok uris (xa_uri x) (attr_ns rows (ra_pfx a)).
Lemma built_unbound : forall uris rows xs attrs, Forall2 (built_rel uris rows) xs attrs ->
  existsb is_unbound (map (fun a => attr_ns rows (ra_pfx a)) attrs) = false.
Proof.
  intros uris rows xs attrs F. induction F as [|x a xs0 as0 (_ & _ & _ & Hr) _ IH]; [reflexivity|]. cbn [map existsb].
  rewrite (res_ok_not_unbound _ _ _ Hr). exact IH.
Qed.
Lemma built_resok : forall uris rows xs attrs, Forall2 (built_rel uris rows) xs attrs ->
  Forall2 (fun x r => res_ok uris (xa_uri x) r) xs (map (fun a => attr_ns rows (ra_pfx a)) attrs).
Proof.
  intros uris rows xs attrs F. induction F as [|x a xs0 as0 (_ & _ & _ & Hr) _ IH]; [constructor|]. cbn [map].
  constructor; [exact Hr|exact IH].
Qed.
Lemma built_triples : forall uris rows xs attrs, Forall2 (built_rel uris rows) xs attrs -> map triple_x xs = map triple_a attrs.
Proof.
  intros uris rows xs attrs F. induction F as [|x a xs0 as0 (A & B & C & _) _ IH]; [reflexivity|]. cbn [map]. rewrite IH.
  unfold triple_x, triple_a. rewrite A, B, C. reflexivity.
Qed.

Lemma ig_startTag_spec : forall c s rows pfx loc attrs, nonwf c -> SInvR (c_v11 c) s rows -> Forall wf_attr attrs ->
  match ig_startTag c s pfx loc attrs with
  | Ok (s', uri, xs) =>
    exists e ans, sp_tag (c_v11 c) rows pfx (map sp_of attrs) = Some (e, ans) /\
                  res_ok (sc_uris s') uri e /\ Forall2 (fun x r => res_ok (sc_uris s') (xa_uri x) r) xs ans /\
                  map triple_x xs = map triple_a attrs /\
                  SInvR (c_v11 c) s' (sp_decls (map sp_of attrs) :: rows) /\ exists q, sc_uris s' = sc_uris s ++ q
  | Err e => ns_error e = true
  end.
Proof.
  intros c s rows pfx loc attrs Hc HS Hwf. unfold ig_startTag, bind.
  destruct (st_addLevel_inv c s rows Hc HS) as (s1 & E1 & I1 & U1). rewrite E1.
  pose proof (scanRaw_spec c rows attrs s1 [] Hc I1 Hwf) as R.
  destruct (scanRawAttrListforNameSpaces c s1 attrs) as [s2|e]; [|destruct R as [R _]; exact R].
  destruct R as (L & I2 & Q2). cbn [app] in I2. rewrite U1 in Q2.
  set (ds := sp_decls (map sp_of attrs)) in *. set (rows' := ds :: rows) in *.
  pose proof (resolvePrefix_spec c s2 rows' pfx false Hc I2) as P.
  destruct (resolvePrefix c s2 pfx false) as [uri|e]; [|destruct P as [-> _]; reflexivity].
  cbn [ns_of] in P.
  pose proof (build_spec c s2 rows' attrs [] [] Hc I2 (Forall2_nil _)) as B.
  destruct (buildAttList c s2 attrs []) as [xs|e]; [|exact B].
  destruct B as (new & En & F & D). cbn [rev app] in En. subst new. rewrite dup_lr_nil in D.
  destruct (st_setTop_inv c s2 rows' uri pfx loc Hc I2) as [I3 U3]. rewrite U3.
  exists (elem_ns rows' pfx), (map (fun a => attr_ns rows' (ra_pfx a)) attrs).
  split.
  { unfold sp_tag. fold ds. fold rows'. rewrite L. rewrite (res_ok_not_unbound _ _ _ P).
    rewrite !map_map. cbn [sp_of spa_pfx spa_loc].
    pose proof (built_unbound _ _ _ _ F) as Hu.
    rewrite Hu. change (map (fun x : rattr => ra_loc x) attrs) with (map ra_loc attrs).
    rewrite (combine_map _ _ _ (fun a => attr_ns rows' (ra_pfx a)) ra_loc attrs). rewrite D. reflexivity. }
  split; [exact P|].
  split; [exact (built_resok _ _ _ _ F)|].
  split; [exact (built_triples _ _ _ _ F)|].
  split; [exact I3|exact Q2].
Qed.

Lemma startTag_sound : forall c s rows pfx loc attrs s' uri xs,
  nonwf c -> SInvR (c_v11 c) s rows -> Forall wf_attr attrs -> startTag c s pfx loc attrs = Ok (s', uri, xs) ->
  exists e ans, sp_tag (c_v11 c) rows pfx (map sp_of attrs) = Some (e, ans) /\
                res_ok (sc_uris s') uri e /\ Forall2 (fun x r => res_ok (sc_uris s') (xa_uri x) r) xs ans /\
                map triple_x xs = map triple_a attrs /\
                SInvR (c_v11 c) s' (sp_decls (map sp_of attrs) :: rows).
Proof.
  intros c s rows pfx loc attrs s' uri xs Hc HS Hwf H. rewrite (startTag_nonwf _ _ _ _ _ Hc) in H.
  pose proof (ig_startTag_spec c s rows pfx loc attrs Hc HS Hwf) as K. rewrite H in K.
  destruct K as (e & ans & K1 & K2 & K3 & K4 & K5 & _). exists e, ans.
  split; [exact K1|]. split; [exact K2|]. split; [exact K3|]. split; [exact K4|exact K5].
Qed.
Lemma startTag_uris_ext : forall c s rows pfx loc attrs s' uri xs,
  nonwf c -> SInvR (c_v11 c) s rows -> Forall wf_attr attrs -> startTag c s pfx loc attrs = Ok (s', uri, xs) ->
  exists q, sc_uris s' = sc_uris s ++ q.
Proof.
  intros c s rows pfx loc attrs s' uri xs Hc HS Hwf H. rewrite (startTag_nonwf _ _ _ _ _ Hc) in H.
  pose proof (ig_startTag_spec c s rows pfx loc attrs Hc HS Hwf) as K. rewrite H in K.
  destruct K as (e & ans & _ & _ & _ & _ & _ & K). exact K.
Qed.
Lemma startTag_rejects : forall c s rows pfx loc attrs,
  nonwf c -> SInvR (c_v11 c) s rows -> Forall wf_attr attrs -> sp_tag (c_v11 c) rows pfx (map sp_of attrs) = None ->
  exists e, startTag c s pfx loc attrs = Err e /\ ns_error e = true.
Proof.
  intros c s rows pfx loc attrs Hc HS Hwf H. rewrite (startTag_nonwf _ _ _ _ _ Hc).
  pose proof (ig_startTag_spec c s rows pfx loc attrs Hc HS Hwf) as K.
  destruct (ig_startTag c s pfx loc attrs) as [[[s' uri] xs]|e].
  - destruct K as (e & ans & K & _). congruence.
  - exists e. split; [reflexivity|exact K].
Qed.

(** ** no false alarm *)
Lemma colon_split_inj : forall p1 l1 p2 l2, ncname p1 -> ncname p2 ->
  p1 ++ 58%N :: l1 = p2 ++ 58%N :: l2 -> p1 = p2 /\ l1 = l2.
Proof.
  induction p1 as [|a p1 IH]; intros l1 p2 l2 H1 H2 E.
  - destruct p2 as [|b p2]; cbn [app] in E.
    + injection E as ->. split; reflexivity.
    + injection E as <- _. exfalso. apply H2. left. reflexivity.
  - destruct p2 as [|b p2]; cbn [app] in E.
    + injection E as -> _. exfalso. apply H1. left. reflexivity.
    + injection E as -> E. destruct (IH l1 p2 l2) as [-> ->]; [| |exact E|split; reflexivity].
      * intros K. apply H1. right. exact K.
      * intros K. apply H2. right. exact K.
Qed.
Lemma qname_of_inj : forall p1 l1 p2 l2, ncname p1 -> ncname p2 -> ncname l1 -> ncname l2 ->
  qname_of p1 l1 = qname_of p2 l2 -> p1 = p2 /\ l1 = l2.
Proof.
  intros p1 l1 p2 l2 H1 H2 H3 H4 E. unfold qname_of in E.
  destruct p1 as [|a p1]; destruct p2 as [|b p2].
  - split; [reflexivity|exact E].
  - exfalso. apply H3. rewrite E. apply in_or_app. right. left. reflexivity.
  - exfalso. apply H4. rewrite <- E. apply in_or_app. right. left. reflexivity.
  - cbn [app] in E. apply (colon_split_inj (a :: p1) l1 (b :: p2) l2 H1 H2). exact E.
Qed.

Definition done_ok (c : cfg) (s : scan) (x : xattr) : Prop :=
  attr_uri c s (xa_pfx x) = Ok (xa_uri x) /\ ncname (xa_pfx x) /\ ncname (xa_loc x).

Lemma build_complete : forall c s rows attrs done seen, nonwf c -> SInvR (c_v11 c) s rows ->
  Forall2 (xkey_rel (sc_uris s)) done seen -> Forall (done_ok c s) done -> Forall ncname_attr attrs ->
  forall e, buildAttList c s attrs done = Err e ->
  existsb is_unbound (map (fun a => attr_ns rows (ra_pfx a)) attrs) = true \/
  dup_lr seen (map (fun a => (attr_ns rows (ra_pfx a), ra_loc a)) attrs) = true.
Proof.
  intros c s rows attrs. induction attrs as [|a r IH]; intros done seen Hc HS Hrel Hdone Hnc e H; cbn [buildAttList] in H; [discriminate|].
  inversion Hnc as [|x l (Na1 & Na2 & _) Hncr]; subst x l.
  pose proof (attr_uri_spec c s rows (ra_pfx a) Hc HS) as U. unfold bind in H. cbn [map existsb dup_lr].
  destruct (attr_uri c s (ra_pfx a)) as [u|e0] eqn:Eu.
  2:{ destruct U as [_ U]. left. rewrite U. reflexivity. }
  pose proof (SInvR_pool_ok _ _ _ HS) as Hok.
  pose proof (same_expanded_keys _ done seen u (attr_ns rows (ra_pfx a)) (ra_loc a) Hok Hrel U) as SE.
  destruct (existsb (fun x => name_eqb (qname_of (xa_pfx x) (xa_loc x)) (qname_of (ra_pfx a) (ra_loc a))) done) eqn:Eq.
  - (* the raw-name registry fired: the same (prefix, local part) was seen, hence the same expanded name *)
    right. rewrite <- SE. apply existsb_exists in Eq. destruct Eq as (x & Hx & Ex). apply name_eqb_eq in Ex.
    rewrite Forall_forall in Hdone. destruct (Hdone x Hx) as (D1 & D2 & D3).
    destruct (qname_of_inj _ _ _ _ D2 Na1 D3 Na2 Ex) as [P1 P2].
    assert (Hsame : same_expanded u (ra_loc a) x = true).
    { unfold same_expanded. rewrite P1, Eu in D1. injection D1 as <-. rewrite Nat.eqb_refl, P2, name_eqb_refl. reflexivity. }
    assert (Hex : existsb (same_expanded u (ra_loc a)) done = true) by (apply existsb_exists; exists x; split; assumption).
    rewrite Hex. reflexivity.
  - rewrite SE in H. destruct (existsb (key_eqb (attr_ns rows (ra_pfx a), ra_loc a)) seen) eqn:Ed; [right; reflexivity|].
    cbn [orb].
    assert (Hrel' : Forall2 (xkey_rel (sc_uris s)) (mkXAttr u (ra_pfx a) (ra_loc a) (ra_nval a) :: done)
                            ((attr_ns rows (ra_pfx a), ra_loc a) :: seen)).
    { constructor; [|exact Hrel]. split; [exact U|reflexivity]. }
    assert (Hdone' : Forall (done_ok c s) (mkXAttr u (ra_pfx a) (ra_loc a) (ra_nval a) :: done)).
    { constructor; [|exact Hdone]. split; [exact Eu|]. split; assumption. }
    destruct (IH _ _ Hc HS Hrel' Hdone' Hncr e H) as [K|K].
    + left. rewrite K. apply orb_true_r.
    + right. exact K.
Qed.

Lemma ncname_wf : forall attrs, Forall ncname_attr attrs -> Forall wf_attr attrs.
Proof. intros attrs H. eapply Forall_impl; [|exact H]. intros a (_ & _ & K). exact K. Qed.

Lemma startTag_complete : forall c s rows pfx loc attrs e ans,
  nonwf c -> SInvR (c_v11 c) s rows -> Forall ncname_attr attrs ->
  sp_tag (c_v11 c) rows pfx (map sp_of attrs) = Some (e, ans) ->
  exists s' uri xs, startTag c s pfx loc attrs = Ok (s', uri, xs).
Proof.
  intros c s rows pfx loc attrs e ans Hc HS Hnc Hsp. rewrite (startTag_nonwf _ _ _ _ _ Hc).
  pose proof (ncname_wf _ Hnc) as Hwf.
  unfold sp_tag in Hsp.
  set (ds := sp_decls (map sp_of attrs)) in *. set (rows' := ds :: rows) in *.
  destruct (forallb (decl_legal (c_v11 c)) ds) eqn:C1; [|discriminate].
  destruct (is_unbound (elem_ns rows' pfx)) eqn:C2; [discriminate|].
  destruct (existsb is_unbound (map (fun a => attr_ns rows' (spa_pfx a)) (map sp_of attrs))) eqn:C3; [discriminate|].
  destruct (has_dup (combine (map (fun a => attr_ns rows' (spa_pfx a)) (map sp_of attrs)) (map spa_loc (map sp_of attrs)))) eqn:C4;
    [discriminate|].
  assert (M1 : map (fun a => attr_ns rows' (spa_pfx a)) (map sp_of attrs) = map (fun a => attr_ns rows' (ra_pfx a)) attrs)
    by (rewrite map_map; reflexivity).
  assert (M2 : map spa_loc (map sp_of attrs) = map ra_loc attrs) by (rewrite map_map; reflexivity).
  rewrite M1 in C3, C4. rewrite M2 in C4.
  rewrite (combine_map _ _ _ (fun a => attr_ns rows' (ra_pfx a)) ra_loc attrs) in C4.
  unfold ig_startTag, bind.
  destruct (st_addLevel_inv c s rows Hc HS) as (s1 & E1 & I1 & U1). rewrite E1.
  pose proof (scanRaw_spec c rows attrs s1 [] Hc I1 Hwf) as R. fold ds in R.
  destruct (scanRawAttrListforNameSpaces c s1 attrs) as [s2|e2]; [|destruct R as [_ R]; congruence].
  destruct R as (_ & I2 & _). cbn [app] in I2. fold rows' in I2.
  pose proof (resolvePrefix_spec c s2 rows' pfx false Hc I2) as P. cbn [ns_of] in P.
  destruct (resolvePrefix c s2 pfx false) as [uri|e2]; [|destruct P as [_ P]; rewrite P in C2; discriminate].
  destruct (buildAttList c s2 attrs []) as [xs|e2] eqn:Eb.
  - eexists _, _, _. reflexivity.
  - exfalso. destruct (build_complete c s2 rows' attrs [] [] Hc I2 (Forall2_nil _) (Forall_nil _) Hnc e2 Eb) as [K|K].
    + congruence.
    + rewrite dup_lr_nil in K. congruence.
Qed.

(** ** the individual error cases *)
Lemma norm_raw_uri_xml : norm_raw uri_xml = uri_xml.
Proof. vm_compute. reflexivity. Qed.
Lemma norm_raw_uri_xmlns : norm_raw uri_xmlns = uri_xmlns.
Proof. vm_compute. reflexivity. Qed.
Lemma updateNSMap_error_cases : forall c s (p u : name), nonwf c -> p <> [] ->
  updateNSMap c s (mkRAttr s_xmlns s_xmlns u) = Err E_NoUseOfxmlnsAsPrefix /\
  (norm_raw u <> uri_xml -> updateNSMap c s (mkRAttr s_xmlns s_xml u) = Err E_PrefixXMLNotMatchXMLURI) /\
  (c_v11 c = false -> p <> s_xmlns -> p <> s_xml -> updateNSMap c s (mkRAttr s_xmlns p []) = Err E_NoEmptyStrNamespace) /\
  (p <> s_xmlns -> p <> s_xml -> updateNSMap c s (mkRAttr s_xmlns p uri_xmlns) = Err E_NoUseOfxmlnsURI) /\
  (p <> s_xmlns -> p <> s_xml -> updateNSMap c s (mkRAttr s_xmlns p uri_xml) = Err E_XMLURINotMatchXMLPrefix) /\
  updateNSMap c s (mkRAttr [] s_xmlns uri_xmlns) = Err E_NoUseOfxmlnsURI /\
  updateNSMap c s (mkRAttr [] s_xmlns uri_xml) = Err E_XMLURINotMatchXMLPrefix.
Proof.
  intros c s p u Hc Hp. unfold updateNSMap, nsmap_check, bind, ra_nval. cbn [ra_pfx ra_loc ra_val].
  rewrite norm_raw_uri_xml, norm_raw_uri_xmlns. change (norm_raw []) with (@nil N).
  set (nu := norm_raw u).
  change (match s_xmlns with [] => false | _ :: _ => true end) with true. cbn iota.
  split; [rewrite name_eqb_refl; reflexivity|].
  split.
  { intros Hu. apply name_eqb_neq in Hu. change (name_eqb s_xml s_xmlns) with false. cbn iota.
    rewrite name_eqb_refl, Hu. reflexivity. }
  split.
  { intros Hv N1 N2. apply name_eqb_neq in N1, N2. rewrite N1, N2, Hv. reflexivity. }
  split.
  { intros N1 N2. apply name_eqb_neq in N1, N2. rewrite N1, N2. cbn [andb]. rewrite name_eqb_refl.
    change uri_xmlns with (104%N :: tl uri_xmlns) at 1. reflexivity. }
  split.
  { intros N1 N2. apply name_eqb_neq in N1, N2. rewrite N1, N2. cbn [andb negb].
    change (name_eqb uri_xml uri_xmlns) with false. rewrite name_eqb_refl. cbn [andb negb].
    change uri_xml with (104%N :: tl uri_xml) at 1. reflexivity. }
  split.
  { rewrite name_eqb_refl. reflexivity. }
  change (name_eqb uri_xml uri_xmlns) with false. rewrite name_eqb_refl. reflexivity.
Qed.

(** the model's normalisation of the raw buffer is the normalisation of XML 1.0 section 3.3.3 *)
Lemma norm_raw_spec : forall l, Forall (fun i => match i with AvLit c => c <> esc_mark | AvRef _ => True end) l ->
  norm_raw (raw_of l) = spec_norm l.
Proof.
  intros l H. induction H as [|i r Hi Hr IH]; [reflexivity|]. destruct i as [c|c]; cbn [raw_of flat_map app spec_norm].
  - fold (raw_of r). cbn [norm_raw]. apply N.eqb_neq in Hi. rewrite Hi. rewrite IH. reflexivity.
  - fold (raw_of r). cbn [norm_raw app]. change (N.eqb esc_mark esc_mark) with true. cbn iota. rewrite IH. reflexivity.
Qed.
