(** Lemmas for T06_map: the string pool, and the refinement ElemStack -> declarations in scope for every history
    of addLevel / popTop / addPrefix / addGlobalPrefix, including the capacity arithmetic. *)
From XV Require Import Base.XDefs Gen.GenElemStack C06.Spec06 C06.Model06.
From Coq Require Import Arith ZArith ZifyBool ZifyNat Lia.
Ltac Zify.zify_post_hook ::= Z.div_mod_to_equations.
Local Open Scope nat_scope.

(** ** names *)
Lemma name_eqb_eq : forall a b, name_eqb a b = true <-> a = b.
Proof.
  induction a as [|x a IH]; destruct b as [|y b]; cbn [name_eqb]; split; intros H; try reflexivity; try discriminate.
  - apply andb_true_iff in H. destruct H as [H1 H2]. apply N.eqb_eq in H1. apply IH in H2. subst. reflexivity.
  - injection H as -> ->. rewrite N.eqb_refl. cbn. apply IH. reflexivity.
Qed.
Lemma name_eqb_refl : forall a, name_eqb a a = true.
Proof. intros a. apply name_eqb_eq. reflexivity. Qed.
Lemma name_eqb_neq : forall a b, name_eqb a b = false <-> a <> b.
Proof.
  intros a b. split.
  - intros H E. apply name_eqb_eq in E. congruence.
  - intros H. destruct (name_eqb a b) eqn:E; [|reflexivity]. apply name_eqb_eq in E. contradiction.
Qed.
Lemma name_eqb_sym : forall a b, name_eqb a b = name_eqb b a.
Proof.
  intros a b. destruct (name_eqb a b) eqn:E.
  - apply name_eqb_eq in E. subst. symmetry. apply name_eqb_refl.
  - symmetry. apply name_eqb_neq. apply name_eqb_neq in E. congruence.
Qed.

(** ** XMLStringPool *)
Lemma getId_bound : forall pl s, pool_getId pl s <= length pl.
Proof.
  induction pl as [|x pl IH]; intros s; cbn [pool_getId length]; [lia|].
  destruct (name_eqb x s); [lia|]. specialize (IH s). destruct (pool_getId pl s); lia.
Qed.
Lemma getId_sound : forall pl s i, pool_getId pl s = S i -> nth i pl [] = s /\ i < length pl.
Proof.
  induction pl as [|x pl IH]; intros s i H; cbn [pool_getId] in H; [discriminate|].
  destruct (name_eqb x s) eqn:E.
  - injection H as <-. apply name_eqb_eq in E. cbn. split; [exact E|lia].
  - destruct (pool_getId pl s) eqn:G; [discriminate|]. injection H as <-.
    destruct (IH s n G) as [A B]. cbn [nth length]. split; [exact A|lia].
Qed.
Lemma getId_zero : forall pl s, pool_getId pl s = 0 -> ~ In s pl.
Proof.
  induction pl as [|x pl IH]; intros s H; cbn [pool_getId] in H; [intros []|].
  destruct (name_eqb x s) eqn:E; [discriminate|].
  destruct (pool_getId pl s) eqn:G; [|discriminate].
  intros [A|A]; [apply name_eqb_neq in E; contradiction|]. exact (IH s G A).
Qed.
Lemma getId_app_l : forall pl q s i, pool_getId pl s = S i -> pool_getId (pl ++ q) s = S i.
Proof.
  induction pl as [|x pl IH]; intros q s i H; cbn [pool_getId app] in *; [discriminate|].
  destruct (name_eqb x s); [exact H|].
  destruct (pool_getId pl s) eqn:G; [discriminate|]. rewrite (IH q s n G). exact H.
Qed.
Lemma getId_app_new : forall pl s, pool_getId pl s = 0 -> pool_getId (pl ++ [s]) s = S (length pl).
Proof.
  induction pl as [|x pl IH]; intros s H; cbn [pool_getId app length] in *.
  - rewrite name_eqb_refl. reflexivity.
  - destruct (name_eqb x s); [discriminate|].
    destruct (pool_getId pl s) eqn:G; [|discriminate]. rewrite (IH s G). reflexivity.
Qed.

Definition pool_ok (pl : pool) : Prop := forall i, i < length pl -> pool_getId pl (nth i pl []) = S i.

Lemma pool_ok_add : forall pl s, pool_ok pl -> pool_ok (fst (pool_addOrFind pl s)).
Proof.
  intros pl s H. unfold pool_addOrFind. destruct (pool_getId pl s) eqn:G; cbn [fst]; [|exact H].
  intros i Hi. rewrite app_length in Hi. cbn in Hi.
  destruct (Nat.lt_ge_cases i (length pl)) as [L|L].
  - rewrite app_nth1 by exact L. apply getId_app_l. apply H. exact L.
  - assert (i = length pl) by lia. subst i. rewrite app_nth2 by lia. rewrite Nat.sub_diag. cbn [nth].
    apply getId_app_new. exact G.
Qed.
Lemma addOrFind_id : forall pl s, pool_getId (fst (pool_addOrFind pl s)) s = snd (pool_addOrFind pl s) /\
                                  1 <= snd (pool_addOrFind pl s) <= length (fst (pool_addOrFind pl s)).
Proof.
  intros pl s. unfold pool_addOrFind. destruct (pool_getId pl s) eqn:G; cbn [fst snd].
  - rewrite (getId_app_new pl s G). rewrite app_length. cbn. lia.
  - split; [exact G|]. pose proof (getId_bound pl s). lia.
Qed.
Lemma addOrFind_ext : forall pl s, exists q, fst (pool_addOrFind pl s) = pl ++ q.
Proof.
  intros pl s. unfold pool_addOrFind. destruct (pool_getId pl s); cbn [fst].
  - exists [s]. reflexivity.
  - exists []. symmetry. apply app_nil_r.
Qed.
Lemma pool_value_app : forall pl q id, 1 <= id <= length pl -> pool_value (pl ++ q) id = pool_value pl id.
Proof. intros pl q id H. unfold pool_value. apply app_nth1. lia. Qed.

(** the key fact: comparing ids is comparing strings *)
Lemma id_eqb_name : forall pl p id, pool_ok pl -> 1 <= id <= length pl ->
  (id =? pool_getId pl p) = name_eqb (pool_value pl id) p.
Proof.
  intros pl p id Hok Hid. unfold pool_value.
  destruct (name_eqb (nth (id - 1) pl []) p) eqn:E.
  - apply name_eqb_eq in E. subst p. rewrite (Hok (id - 1)) by lia. apply Nat.eqb_eq. lia.
  - apply Nat.eqb_neq. intros C. destruct id as [|i]; [lia|].
    symmetry in C. destruct (getId_sound pl p i C) as [A _]. replace (S i - 1) with i in E by lia.
    rewrite A in E. rewrite name_eqb_refl in E. discriminate.
Qed.

(** ** abstraction of a prefix map *)
Definition ids_ok (pl : pool) (m : list (nat * nat)) : Prop := Forall (fun e => 1 <= fst e <= length pl) m.
Definition abs (pl : pool) (m : list (nat * nat)) : list (name * nat) := map (fun e => (pool_value pl (fst e), snd e)) m.

Lemma ids_ok_app : forall pl q m, ids_ok pl m -> ids_ok (pl ++ q) m.
Proof.
  intros pl q m H. unfold ids_ok in *. eapply Forall_impl; [|exact H]. intros e He. cbn in *. rewrite app_length. lia.
Qed.
Lemma abs_app : forall pl q m, ids_ok pl m -> abs (pl ++ q) m = abs pl m.
Proof.
  intros pl q m H. unfold abs. apply map_ext_in. intros e He. unfold ids_ok in H. rewrite Forall_forall in H.
  rewrite pool_value_app by (apply H; exact He). reflexivity.
Qed.
Lemma find_id_abs : forall pl p m, pool_ok pl -> ids_ok pl m -> pool_getId pl p <> 0 ->
  find_id (pool_getId pl p) m = find_decl p (abs pl m).
Proof.
  intros pl p m Hok Hids Hnz. induction m as [|[pid u] m IH]; cbn [find_id abs map find_decl fst snd]; [reflexivity|].
  inversion Hids as [|e l He Hl]; subst. cbn [fst] in He.
  rewrite (id_eqb_name pl p pid Hok He). destruct (name_eqb (pool_value pl pid) p); [reflexivity|]. apply IH. exact Hl.
Qed.
Lemma find_decl_absent : forall pl p m, ids_ok pl m -> pool_getId pl p = 0 -> find_decl p (abs pl m) = None.
Proof.
  intros pl p m Hids Hz. induction m as [|[pid u] m IH]; cbn [abs map find_decl fst snd]; [reflexivity|].
  inversion Hids as [|e l He Hl]; subst. cbn [fst] in He.
  destruct (name_eqb (pool_value pl pid) p) eqn:E.
  - exfalso. apply name_eqb_eq in E. apply (getId_zero pl p Hz). subst p. unfold pool_value. apply nth_In. lia.
  - apply IH. exact Hl.
Qed.
Lemma find_decl_app : forall (U : Type) p (a b : list (name * U)),
  find_decl p (a ++ b) = match find_decl p a with Some u => Some u | None => find_decl p b end.
Proof.
  intros U p a b. induction a as [|[q u] a IH]; cbn [app find_decl]; [reflexivity|].
  destruct (name_eqb q p); [reflexivity|exact IH].
Qed.

(** ** capacities *)
Definition cap_ok (c : nat) : Prop := c = 0 \/ es_map_init <= c.

(** "capacity growth never loses an entry": expandMap copies oldCap elements, and the map never holds more *)
Lemma expandMap_keeps : forall r, length (r_map r) <= r_cap r -> r_map (expandMap r) = r_map r.
Proof. intros r H. unfold expandMap. cbn [r_map]. apply firstn_all2. exact H. Qed.
Lemma grow_map_gt : forall c, cap_ok c -> c < grow_map c /\ cap_ok (grow_map c).
Proof.
  intros c [H|H]; unfold grow_map, cap_ok, es_map_init, es_map_num, es_map_den in *.
  - subst c. cbn. lia.
  - destruct (c =? 0) eqn:E; [apply Nat.eqb_eq in E; lia|]. lia.
Qed.
Lemma grow_stack_gt : forall c, es_stack_init <= c -> c < grow_stack c.
Proof. intros c H. unfold grow_stack, es_stack_init, es_stack_num, es_stack_den in *. lia. Qed.

Definition row_inv (pl : pool) (r : row) (ds : list (name * nat)) : Prop :=
  ids_ok pl (r_map r) /\ abs pl (r_map r) = ds /\ length (r_map r) <= r_cap r /\ cap_ok (r_cap r).

Lemma row_inv_app : forall pl q r ds, row_inv pl r ds -> row_inv (pl ++ q) r ds.
Proof.
  intros pl q r ds (A & B & C & D). repeat split; try assumption.
  - apply ids_ok_app. exact A.
  - rewrite abs_app by exact A. exact B.
Qed.

Lemma abs_snoc : forall pl m i u, abs pl (m ++ [(i, u)]) = abs pl m ++ [(pool_value pl i, u)].
Proof. intros. unfold abs. rewrite map_app. reflexivity. Qed.
Lemma ids_ok_snoc : forall pl m i u, ids_ok pl m -> 1 <= i <= length pl -> ids_ok pl (m ++ [(i, u)]).
Proof. intros pl m i u H Hi. unfold ids_ok. apply Forall_app. split; [exact H|]. constructor; [cbn; lia|constructor]. Qed.

Lemma row_inv_snoc : forall pl m c x y z ds i u, row_inv pl (mkRow m c x y z) ds -> 1 <= i <= length pl -> length m < c ->
  row_inv pl (mkRow (m ++ [(i, u)]) c x y z) (ds ++ [(pool_value pl i, u)]).
Proof.
  intros pl m c x y z ds i u (A & B & C & D) Hi Hl. cbn [r_map r_cap] in *. unfold row_inv. cbn [r_map r_cap].
  split; [apply ids_ok_snoc; assumption|]. split; [rewrite abs_snoc, B; reflexivity|].
  split; [rewrite app_length; cbn; lia|exact D].
Qed.

Lemma row_add_ok : forall pl r ds prefId uriId, row_inv pl r ds -> 1 <= prefId <= length pl ->
  exists r', row_add r prefId uriId = Ok r' /\ row_inv pl r' (ds ++ [(pool_value pl prefId, uriId)]) /\
             r_uri r' = r_uri r /\ r_pfx r' = r_pfx r /\ r_loc r' = r_loc r.
Proof.
  intros pl r ds prefId uriId HR Hid. pose proof HR as (A & B & C & D). unfold row_add.
  set (u := if (prefId =? globalPoolId) && (uriId =? emptyId) then emptyId else uriId).
  assert (Hu : u = uriId).
  { unfold u. destruct ((prefId =? globalPoolId) && (uriId =? emptyId)) eqn:E; [|reflexivity].
    apply andb_true_iff in E. destruct E as [_ E]. apply Nat.eqb_eq in E. congruence. }
  clearbody u. subst u.
  destruct (length (r_map r) =? r_cap r) eqn:E.
  - apply Nat.eqb_eq in E. destruct (grow_map_gt (r_cap r) D) as [G1 G2].
    rewrite (expandMap_keeps r C). cbn [expandMap r_cap r_uri r_pfx r_loc].
    assert (L : (length (r_map r) <? grow_map (r_cap r)) = true) by (apply Nat.ltb_lt; lia).
    rewrite L. eexists. split; [reflexivity|]. cbn [r_uri r_pfx r_loc].
    split; [|repeat split].
    apply row_inv_snoc; [|exact Hid|lia].
    unfold row_inv. cbn [r_map r_cap]. repeat split; try assumption. lia.
  - apply Nat.eqb_neq in E.
    assert (L : (length (r_map r) <? r_cap r) = true) by (apply Nat.ltb_lt; lia).
    rewrite L. eexists. split; [reflexivity|]. cbn [r_uri r_pfx r_loc].
    split; [|repeat split].
    apply row_inv_snoc; [|exact Hid|lia].
    unfold row_inv. cbn [r_map r_cap]. repeat split; assumption.
Qed.

(** ** the state invariant *)
Definition glob_inv (pl : pool) (go : option row) (g : list (name * nat)) : Prop :=
  match go with None => g = [] | Some gr => row_inv pl gr g end.

Record Inv (st : estack) (rows : list (list (name * nat))) (g : list (name * nat)) : Prop := mkInv {
  inv_pool : pool_ok (es_pool st);
  inv_pre : exists q, es_pool st = pfx_pool0 ++ q;
  inv_live : Forall2 (row_inv (es_pool st)) (es_live st) rows;
  inv_dead : Forall (fun r => cap_ok (r_cap r)) (es_dead st);
  inv_glob : glob_inv (es_pool st) (es_global st) g;
  inv_top : length (es_live st) <= es_cap st;
  inv_cap : es_stack_init <= es_cap st }.

Lemma inv_init : Inv es_init [] [].
Proof.
  constructor; cbn.
  - intros i Hi. cbn in Hi. destruct i as [|[|[|i]]]; try lia; vm_compute; reflexivity.
  - exists []. reflexivity.
  - constructor.
  - constructor.
  - reflexivity.
  - lia.
  - lia.
Qed.

Lemma Forall2_row_app : forall pl q l rows, Forall2 (row_inv pl) l rows -> Forall2 (row_inv (pl ++ q)) l rows.
Proof. intros pl q l rows H. induction H; constructor; [apply row_inv_app; assumption|assumption]. Qed.

Lemma inv_addLevel : forall st rows g, Inv st rows g -> exists st', es_addLevel st = Ok st' /\ Inv st' ([] :: rows) g.
Proof.
  intros st rows g I. destruct I as [P Pre L D G T C]. unfold es_addLevel.
  set (cap := if length (es_live st) =? es_cap st then grow_stack (es_cap st) else es_cap st).
  assert (Hc : length (es_live st) < cap /\ es_stack_init <= cap).
  { unfold cap. destruct (length (es_live st) =? es_cap st) eqn:E.
    - apply Nat.eqb_eq in E. pose proof (grow_stack_gt (es_cap st) C). lia.
    - apply Nat.eqb_neq in E. lia. }
  destruct Hc as [Hc1 Hc2]. assert (Hl : (length (es_live st) <? cap) = true) by (apply Nat.ltb_lt; exact Hc1).
  rewrite Hl. destruct (es_dead st) as [|d ds] eqn:Ed.
  - eexists. split; [reflexivity|]. constructor; cbn [es_pool es_live es_dead es_global es_cap].
    + exact P.
    + exact Pre.
    + constructor; [|exact L]. unfold row_inv. cbn [r_map r_cap]. repeat split; [constructor|cbn; lia|left; reflexivity].
    + constructor.
    + exact G.
    + cbn [length]. lia.
    + exact Hc2.
  - inversion D as [|x l Hd Hds]; subst.
    eexists. split; [reflexivity|]. constructor; cbn [es_pool es_live es_dead es_global es_cap].
    + exact P.
    + exact Pre.
    + constructor; [|exact L]. unfold row_inv. cbn [r_map r_cap]. repeat split; [constructor|cbn; lia|exact Hd].
    + exact Hds.
    + exact G.
    + cbn [length]. lia.
    + exact Hc2.
Qed.

Lemma inv_popTop : forall st ds rows g, Inv st (ds :: rows) g ->
  exists r st', es_popTop st = Ok (r, st') /\ Inv st' rows g.
Proof.
  intros st ds rows g I. destruct I as [P Pre L D G T C]. unfold es_popTop.
  inversion L as [|r ds' l rows' Hr Hl E1 E2]; subst.
  exists r. eexists. split; [reflexivity|]. constructor; cbn [es_pool es_live es_dead es_global es_cap].
  - exact P.
  - exact Pre.
  - exact Hl.
  - constructor; [|exact D]. destruct Hr as (_ & _ & _ & K). exact K.
  - exact G.
  - rewrite <- E1 in T. cbn [length] in T. lia.
  - exact C.
Qed.
Lemma popTop_empty : forall st g, Inv st [] g -> es_popTop st = Err E_StackUnderflow.
Proof. intros st g I. destruct I as [_ _ L _ _ _ _]. unfold es_popTop. destruct (es_live st); [reflexivity|inversion L]. Qed.

Lemma inv_addPrefix : forall st ds rows g p u, Inv st (ds :: rows) g ->
  exists st', es_addPrefix st p u = Ok st' /\ Inv st' ((ds ++ [(p, u)]) :: rows) g.
Proof.
  intros st ds rows g p u I. destruct I as [P Pre L D G T C]. unfold es_addPrefix.
  inversion L as [|r ds' l rows' Hr Hl E1 E2]; subst.
  destruct (addOrFind_id (es_pool st) p) as [Hid Hrange].
  destruct (addOrFind_ext (es_pool st) p) as [q Hq].
  pose proof (pool_ok_add (es_pool st) p P) as P'.
  destruct (pool_addOrFind (es_pool st) p) as [pl prefId] eqn:Ea. cbn [fst snd] in *.
  assert (Hr' : row_inv pl r ds) by (rewrite Hq; apply row_inv_app; exact Hr).
  destruct (row_add_ok pl r ds prefId u Hr' Hrange) as (r' & Ha & Hi & _).
  unfold bind. rewrite Ha. eexists. split; [reflexivity|].
  assert (Hv : pool_value pl prefId = p).
  { destruct prefId as [|i]; [lia|]. destruct (getId_sound pl p i Hid) as [A _]. unfold pool_value.
    replace (S i - 1) with i by lia. exact A. }
  rewrite Hv in Hi.
  constructor; cbn [es_pool es_live es_dead es_global es_cap].
  - exact P'.
  - destruct Pre as [q0 Hq0]. exists (q0 ++ q). rewrite Hq, Hq0. rewrite app_assoc. reflexivity.
  - constructor; [exact Hi|]. rewrite Hq. apply Forall2_row_app. exact Hl.
  - exact D.
  - unfold glob_inv in *. destruct (es_global st); [|exact G]. rewrite Hq. apply row_inv_app. exact G.
  - rewrite <- E1 in T. cbn [length] in *. exact T.
  - exact C.
Qed.
Lemma addPrefix_empty : forall st g p u, Inv st [] g -> es_addPrefix st p u = Err E_EmptyStack.
Proof. intros st g p u I. destruct I as [_ _ L _ _ _ _]. unfold es_addPrefix. destruct (es_live st); [reflexivity|inversion L]. Qed.

Lemma inv_addGlobal : forall st rows g p u, Inv st rows g ->
  exists st', es_addGlobalPrefix st p u = Ok st' /\ Inv st' rows (g ++ [(p, u)]).
Proof.
  intros st rows g p u I. destruct I as [P Pre L D G T C]. unfold es_addGlobalPrefix.
  destruct (addOrFind_id (es_pool st) p) as [Hid Hrange].
  destruct (addOrFind_ext (es_pool st) p) as [q Hq].
  pose proof (pool_ok_add (es_pool st) p P) as P'.
  destruct (pool_addOrFind (es_pool st) p) as [pl prefId] eqn:Ea. cbn [fst snd] in *.
  set (g0 := match es_global st with Some g1 => g1 | None => mkRow [] 0 unknownId [] [] end).
  assert (Hg : row_inv pl g0 g).
  { unfold g0, glob_inv in *. destruct (es_global st).
    - rewrite Hq. apply row_inv_app. exact G.
    - subst g. repeat split; cbn; [constructor|lia|left; reflexivity]. }
  destruct (row_add_ok pl g0 g prefId u Hg Hrange) as (r' & Ha & Hi & _).
  unfold bind. rewrite Ha. eexists. split; [reflexivity|].
  assert (Hv : pool_value pl prefId = p).
  { destruct prefId as [|i]; [lia|]. destruct (getId_sound pl p i Hid) as [A _]. unfold pool_value.
    replace (S i - 1) with i by lia. exact A. }
  rewrite Hv in Hi.
  constructor; cbn [es_pool es_live es_dead es_global es_cap].
  - exact P'.
  - destruct Pre as [q0 Hq0]. exists (q0 ++ q). rewrite Hq, Hq0. rewrite app_assoc. reflexivity.
  - rewrite Hq. apply Forall2_row_app. exact L.
  - exact D.
  - unfold glob_inv. exact Hi.
  - exact T.
  - exact C.
Qed.

(** ** lookups *)
Lemma find_rows_abs : forall pl p l rows, pool_ok pl -> Forall2 (row_inv pl) l rows -> pool_getId pl p <> 0 ->
  find_rows (pool_getId pl p) l = nearest rows p.
Proof.
  intros pl p l rows Hok H Hnz. induction H as [|r ds l rows Hr Hl IH]; cbn [find_rows nearest]; [reflexivity|].
  destruct Hr as (A & B & _ & _). rewrite (find_id_abs pl p (r_map r) Hok A Hnz). rewrite B.
  destruct (find_decl p ds); [reflexivity|exact IH].
Qed.
Lemma nearest_absent : forall pl p l rows, Forall2 (row_inv pl) l rows -> pool_getId pl p = 0 -> nearest rows p = None.
Proof.
  intros pl p l rows H Hz. induction H as [|r ds l rows Hr Hl IH]; cbn [nearest]; [reflexivity|].
  destruct Hr as (A & B & _ & _). rewrite <- B. rewrite (find_decl_absent pl p (r_map r) A Hz). exact IH.
Qed.
Lemma nearest_app : forall (U : Type) p (a b : list (list (name * U))),
  nearest (a ++ b) p = match nearest a p with Some u => Some u | None => nearest b p end.
Proof.
  intros U p a b. induction a as [|ds a IH]; cbn [app nearest]; [reflexivity|].
  destruct (find_decl p ds); [reflexivity|exact IH].
Qed.

Definition map_answer (r : mapres nat) : nat * bool :=
  match r with
  | MBound u => (u, false) | MXml => (xmlId, false) | MXmlns => (xmlnsId, false)
  | MNoDefault => (emptyId, false) | MUnknown => (unknownId, true)
  end.

Lemma pool_pre_ids : forall q,
  pool_getId (pfx_pool0 ++ q) [] = globalPoolId /\ pool_getId (pfx_pool0 ++ q) s_xml = xmlPoolId /\
  pool_getId (pfx_pool0 ++ q) s_xmlns = xmlnsPoolId.
Proof. intros q. repeat split; apply getId_app_l; vm_compute; reflexivity. Qed.

Lemma mapPrefix_correct : forall st rows g p, Inv st rows g ->
  es_mapPrefixToURI st p = map_answer (map_spec (rows ++ [g]) p).
Proof.
  intros st rows g p I. destruct I as [P Pre L D G T C]. destruct Pre as [q Hq].
  destruct (pool_pre_ids q) as (I1 & I2 & I3). rewrite <- Hq in I1, I2, I3.
  unfold es_mapPrefixToURI, map_spec.
  set (pid := match p with [] => globalPoolId | _ => pool_getId (es_pool st) p end).
  assert (Hpid : pid = pool_getId (es_pool st) p).
  { unfold pid. destruct p; [symmetry; exact I1|reflexivity]. }
  clearbody pid. subst pid.
  (* the global row as an abstract row *)
  assert (HG : forall (Hnz : pool_getId (es_pool st) p <> 0),
             match es_global st with Some g0 => find_id (pool_getId (es_pool st) p) (r_map g0) | None => None end
             = find_decl p g).
  { intros Hnz. unfold glob_inv in G. destruct (es_global st) as [g0|].
    - destruct G as (A & B & _ & _). rewrite (find_id_abs _ p _ P A Hnz). rewrite B. reflexivity.
    - subst g. reflexivity. }
  assert (HGz : pool_getId (es_pool st) p = 0 -> find_decl p g = None).
  { intros Hz. unfold glob_inv in G. destruct (es_global st) as [g0|].
    - destruct G as (A & B & _ & _). rewrite <- B. apply find_decl_absent; assumption.
    - subst g. reflexivity. }
  rewrite nearest_app. cbn [nearest].
  destruct (pool_getId (es_pool st) p =? 0) eqn:Ez.
  - apply Nat.eqb_eq in Ez.
    assert (N1 : name_eqb p s_xml = false).
    { apply name_eqb_neq. intros ->. rewrite I2 in Ez. discriminate. }
    assert (N2 : name_eqb p s_xmlns = false).
    { apply name_eqb_neq. intros ->. rewrite I3 in Ez. discriminate. }
    rewrite N1, N2. rewrite (nearest_absent _ p _ _ L Ez). rewrite (HGz Ez).
    destruct p; [rewrite I1 in Ez; discriminate|reflexivity].
  - apply Nat.eqb_neq in Ez.
    destruct (pool_getId (es_pool st) p =? xmlPoolId) eqn:E2.
    + apply Nat.eqb_eq in E2. destruct (getId_sound _ p 1 E2) as [A _].
      destruct (getId_sound _ s_xml 1 I2) as [B _]. assert (Hp : p = s_xml) by congruence. rewrite Hp. rewrite name_eqb_refl. reflexivity.
    + assert (N1 : name_eqb p s_xml = false).
      { apply name_eqb_neq. intros ->. rewrite I2 in E2. cbn in E2. discriminate. }
      rewrite N1.
      destruct (pool_getId (es_pool st) p =? xmlnsPoolId) eqn:E3.
      * apply Nat.eqb_eq in E3. destruct (getId_sound _ p 2 E3) as [A _].
        destruct (getId_sound _ s_xmlns 2 I3) as [B _]. assert (Hp : p = s_xmlns) by congruence. rewrite Hp. rewrite name_eqb_refl. reflexivity.
      * assert (N2 : name_eqb p s_xmlns = false).
        { apply name_eqb_neq. intros ->. rewrite I3 in E3. cbn in E3. discriminate. }
        rewrite N2. rewrite (find_rows_abs _ p _ _ P L Ez).
        destruct (nearest rows p); [reflexivity|]. rewrite (HG Ez).
        destruct (find_decl p g); [reflexivity|]. destruct p; reflexivity.
Qed.

(** ** all histories *)
Lemma es_run_refines : forall ops st rows g, Inv st rows g ->
  match es_run ops st with
  | Ok st' => exists rows' g', sop_run ops rows g = Some (rows', g') /\ Inv st' rows' g'
  | Err e => (e = E_StackUnderflow \/ e = E_EmptyStack) /\ sop_run ops rows g = None
  end.
Proof.
  induction ops as [|op ops IH]; intros st rows g I; cbn [es_run sop_run].
  - exists rows, g. split; [reflexivity|exact I].
  - destruct op as [| |p u|p u]; cbn [es_step]; unfold bind.
    + destruct (inv_addLevel st rows g I) as (st' & E & I'). rewrite E. apply IH. exact I'.
    + destruct rows as [|ds rows].
      * rewrite (popTop_empty st g I). split; [left; reflexivity|reflexivity].
      * destruct (inv_popTop st ds rows g I) as (r & st' & E & I'). rewrite E. cbn [snd]. apply IH. exact I'.
    + destruct rows as [|ds rows].
      * rewrite (addPrefix_empty st g p u I). split; [right; reflexivity|reflexivity].
      * destruct (inv_addPrefix st ds rows g p u I) as (st' & E & I'). rewrite E. apply IH. exact I'.
    + destruct (inv_addGlobal st rows g p u I) as (st' & E & I'). rewrite E. apply IH. exact I'.
Qed.

Lemma es_map_all_histories : forall ops st, es_run ops es_init = Ok st ->
  exists rows g, sop_run ops [] [] = Some (rows, g) /\
                 forall p, es_mapPrefixToURI st p = map_answer (map_spec (rows ++ [g]) p).
Proof.
  intros ops st H. pose proof (es_run_refines ops es_init [] [] inv_init) as R. rewrite H in R.
  destruct R as (rows & g & E & I). exists rows, g. split; [exact E|]. intros p. apply mapPrefix_correct. exact I.
Qed.
Lemma es_no_fault : forall ops e, es_run ops es_init = Err e ->
  (e = E_StackUnderflow \/ e = E_EmptyStack) /\ sop_run ops ([] : list (list (name * nat))) [] = None.
Proof. intros ops e H. pose proof (es_run_refines ops es_init [] [] inv_init) as R. rewrite H in R. exact R. Qed.
Lemma es_complete : forall ops rows g, sop_run ops ([] : list (list (name * nat))) [] = Some (rows, g) ->
  exists st, es_run ops es_init = Ok st.
Proof.
  intros ops rows g H. pose proof (es_run_refines ops es_init [] [] inv_init) as R.
  destruct (es_run ops es_init) as [st|e]; [exists st; reflexivity|]. destruct R as [_ R]. congruence.
Qed.
