(** Lemmas for T06_dom_built: the element AbstractDOMParser::startElement creates from a resolved start tag is
    namespace-well-formed ([parsed_elem]) and consistent with the declarations in scope, so that the hypotheses of
    T06_dom_lookup hold on the trees the parser builds.  The attribute map is sorted by name: declarations are read
    off it in another order than they were written, which does not matter because a tag cannot declare a prefix twice. *)
From XV Require Import Base.XDefs Gen.GenElemStack C06.Spec06 C06.Model06 C06.Proofs06a C06.Proofs06c C06.Proofs06d.
From Coq Require Import Arith Lia Permutation.
Local Open Scope nat_scope.

Definition rows_equiv (r1 r2 : list (list decl)) : Prop := forall p, nearest r1 p = nearest r2 p.

Lemma inscope_equiv : forall r1 r2 p, rows_equiv r1 r2 -> inscope r1 p = inscope r2 p.
Proof. intros r1 r2 p H. unfold inscope. rewrite (H p). reflexivity. Qed.

(** ** sorted insertion is a permutation *)
Lemma insert_perm : forall a l, Permutation (attr_insert a l) (a :: l).
Proof.
  intros a l. induction l as [|x r IH]; cbn [attr_insert]; [apply Permutation_refl|].
  destruct (name_ltb (battr_qname a) (battr_qname x)); [apply Permutation_refl|].
  eapply Permutation_trans; [apply perm_skip; exact IH|]. apply perm_swap.
Qed.
Lemma fold_insert_perm : forall (f : xattr -> battr) l acc,
  Permutation (fold_left (fun m a => attr_insert (f a) m) l acc) (map f l ++ acc).
Proof.
  intros f l. induction l as [|a r IH]; intros acc; cbn [fold_left map app]; [apply Permutation_refl|].
  eapply Permutation_trans; [apply IH|].
  eapply Permutation_trans; [apply Permutation_app_head; apply insert_perm|].
  apply Permutation_sym. apply Permutation_middle.
Qed.

(** ** declarations read off an attribute list *)
Definition decl_of (a : battr) : list decl :=
  if oname_eqb (ba_prefix a) (Some s_xmlns) then [(ba_local a, ba_value a)]
  else if oname_eqb (ba_prefix a) None && name_eqb (ba_local a) s_xmlns then [([], ba_value a)] else [].
Lemma belem_decls_flat : forall l, belem_decls l = flat_map decl_of l.
Proof.
  induction l as [|a r IH]; cbn [belem_decls flat_map]; [reflexivity|]. unfold decl_of at 1.
  destruct (oname_eqb (ba_prefix a) (Some s_xmlns)); [cbn [app]; rewrite IH; reflexivity|].
  destruct (oname_eqb (ba_prefix a) None && name_eqb (ba_local a) s_xmlns); cbn [app]; rewrite IH; reflexivity.
Qed.
Lemma flat_map_perm : forall (A B : Type) (f : A -> list B) l l', Permutation l l' -> Permutation (flat_map f l) (flat_map f l').
Proof.
  intros A B f l l' H. induction H; cbn [flat_map].
  - apply Permutation_refl.
  - apply Permutation_app_head. exact IHPermutation.
  - rewrite !app_assoc. apply Permutation_app_tail. apply Permutation_app_comm.
  - eapply Permutation_trans; eassumption.
Qed.

Lemma opt_name_xmlns : forall p, oname_eqb (opt_name p) (Some s_xmlns) = name_eqb p s_xmlns.
Proof. intros [|c l]; reflexivity. Qed.
Lemma opt_name_none : forall p, oname_eqb (opt_name p) None = match p with [] => true | _ => false end.
Proof. intros [|c l]; reflexivity. Qed.

Lemma dom_decls_unsorted : forall uris xs attrs, map triple_x xs = map triple_a attrs ->
  flat_map decl_of (map (dom_attr uris) xs) = sp_decls (map sp_of attrs).
Proof.
  intros uris xs. induction xs as [|x xs IH]; intros attrs H; destruct attrs as [|a attrs]; try discriminate; [reflexivity|].
  cbn [map] in H. unfold triple_x, triple_a in H. injection H as P L V H2.
  cbn [map flat_map]. unfold sp_decls. cbn [flat_map]. fold (sp_decls (map sp_of attrs)). rewrite (IH attrs H2). f_equal.
  unfold decl_of, dom_attr, sp_decl_of, sp_of. cbn [ba_prefix ba_local ba_value spa_pfx spa_loc spa_val].
  rewrite opt_name_xmlns, opt_name_none. rewrite P, L, V.
  destruct (name_eqb (ra_pfx a) s_xmlns); [reflexivity|]. destruct (ra_pfx a); [|reflexivity].
  cbn [andb]. destruct (name_eqb (ra_loc a) s_xmlns); reflexivity.
Qed.

(** ** unique keys: the order of the declarations does not matter *)
Lemma find_decl_iff : forall (D : list decl) p u, NoDup (map fst D) -> (find_decl p D = Some u <-> In (p, u) D).
Proof.
  intros D p u H. split; [apply find_decl_in|]. induction D as [|[q v] r IH]; intros Hin; [destruct Hin|].
  cbn [map fst] in H. inversion H as [|x l Hq Hr]; subst. cbn [find_decl]. destruct Hin as [E|Hin].
  - injection E as -> ->. rewrite name_eqb_refl. reflexivity.
  - destruct (name_eqb q p) eqn:E.
    + exfalso. apply name_eqb_eq in E. subst q. apply Hq. change p with (fst (p, u)). apply in_map. exact Hin.
    + apply IH; assumption.
Qed.
Lemma find_decl_perm : forall (D D' : list decl) p, NoDup (map fst D) -> Permutation D D' -> find_decl p D = find_decl p D'.
Proof.
  intros D D' p H P.
  assert (H' : NoDup (map fst D')) by (eapply Permutation_NoDup; [apply Permutation_map; exact P|exact H]).
  destruct (find_decl p D') as [u'|] eqn:E'.
  - apply (find_decl_iff D' p u' H') in E'. apply (find_decl_iff D p u' H). eapply Permutation_in; [apply Permutation_sym; exact P|exact E'].
  - destruct (find_decl p D) as [u|] eqn:E; [|reflexivity].
    apply (find_decl_iff D p u H) in E. assert (E2 : In (p, u) D') by (eapply Permutation_in; eassumption).
    apply (find_decl_iff D' p u H') in E2. congruence.
Qed.

Definition akey (rows : list (list decl)) (a : rattr) : nsres * name := (attr_ns rows (ra_pfx a), ra_loc a).

Lemma attr_ns_xmlns : forall rows, attr_ns rows s_xmlns = NsIn uri_xmlns.
Proof. intros rows. unfold attr_ns, inscope. reflexivity. Qed.

(** a tag without two attributes of one expanded name declares no prefix twice *)
Lemma decls_nodup : forall rows attrs, Forall wf_attr attrs -> has_dup (map (akey rows) attrs) = false ->
  NoDup (map fst (sp_decls (map sp_of attrs))).
Proof.
  intros rows attrs Hwf. induction attrs as [|a r IH]; intros H; [constructor|].
  inversion Hwf as [|x l Ha Hr]; subst x l. cbn [map has_dup] in H. apply orb_false_iff in H. destruct H as [H1 H2].
  unfold sp_decls. cbn [map flat_map]. fold (sp_decls (map sp_of r)). specialize (IH Hr H2).
  rewrite (is_nsdecl_spec a Ha). destruct (is_nsdecl a) eqn:Ed; [|exact IH].
  cbn [app map fst]. constructor; [|exact IH].
  intros Hin. apply in_map_iff in Hin. destruct Hin as ([q v] & Eq & Hin). cbn [fst] in Eq. subst q.
  unfold sp_decls in Hin. apply in_flat_map in Hin. destruct Hin as (sb & Hsb & Hd).
  apply in_map_iff in Hsb. destruct Hsb as (b & <- & Hb).
  rewrite Forall_forall in Hr. pose proof (Hr b Hb) as Hbl. rewrite (is_nsdecl_spec b Hbl) in Hd.
  destruct (is_nsdecl b) eqn:Edb; [|destruct Hd]. destruct Hd as [Hd|[]]. injection Hd as Hp _.
  (* a and b are declarations of the same prefix: their expanded names coincide *)
  assert (K : key_eqb (akey rows a) (akey rows b) = true).
  { unfold is_nsdecl in Ed, Edb. unfold akey, key_eqb. cbn [fst snd].
    destruct (ra_pfx a) as [|ca pa] eqn:Epa; destruct (ra_pfx b) as [|cb pb] eqn:Epb.
    - apply name_eqb_eq in Ed, Edb. rewrite Ed, Edb. cbn [attr_ns]. apply name_eqb_refl.
    - exfalso. unfold wf_attr in Hbl. congruence.
    - exfalso. unfold wf_attr in Ha. congruence.
    - apply name_eqb_eq in Ed, Edb. rewrite Ed, Edb. rewrite attr_ns_xmlns. rewrite name_eqb_refl. cbn [andb].
      rewrite Hp. apply name_eqb_refl. }
  assert (Hex : existsb (key_eqb (akey rows a)) (map (akey rows) r) = true).
  { apply existsb_exists. exists (akey rows b). split; [apply in_map; exact Hb|exact K]. }
  congruence.
Qed.

(** ** legal scopes never bind an ordinary prefix to the xmlns namespace name *)
Lemma inscope_not_xmlns_uri : forall v rows p, all_legal v rows -> name_eqb p s_xmlns = false ->
  inscope rows p <> Some uri_xmlns.
Proof.
  intros v rows p Hleg N2 H. unfold inscope in H. rewrite N2 in H.
  destruct (name_eqb p s_xml); [discriminate|].
  destruct (nearest rows p) as [u|] eqn:En; [|discriminate].
  assert (Hu : u = uri_xmlns) by (destruct u; [discriminate|congruence]). subst u.
  destruct (nearest_in _ _ _ _ En) as (m & Hm & Hin). unfold all_legal in Hleg. rewrite Forall_forall in Hleg.
  specialize (Hleg m Hm). rewrite Forall_forall in Hleg. specialize (Hleg _ Hin).
  unfold decl_legal in Hleg. rewrite N2 in Hleg. rewrite name_eqb_refl in Hleg. discriminate.
Qed.

Lemma dom_attr_ns : forall uris a, pool_value uris emptyId = [] ->
  ba_ns (dom_attr uris a) =
  opt_name (pool_value uris (match xa_pfx a with [] => if name_eqb (xa_loc a) s_xmlns then xmlnsId else xa_uri a | _ => xa_uri a end)).
Proof.
  intros uris a He. unfold dom_attr. cbn [ba_ns].
  set (u := match xa_pfx a with [] => if name_eqb (xa_loc a) s_xmlns then xmlnsId else xa_uri a | _ => xa_uri a end).
  destruct (u =? emptyId) eqn:E; [|reflexivity]. apply Nat.eqb_eq in E. rewrite E, He. reflexivity.
Qed.

Lemma dom_attr_parsed : forall v uris rows x a,
  pool_value uris emptyId = [] -> pool_value uris xmlnsId = uri_xmlns -> all_legal v rows ->
  built_rel uris rows x a -> wf_attr a -> ~ (ra_pfx a = s_xmlns /\ ra_loc a = s_xmlns) ->
  parsed_attr (dom_attr uris x).
Proof.
  intros v uris rows x a He Hx Hleg (P & L & V & R) Hwf Hxx. unfold parsed_attr.
  rewrite (dom_attr_ns uris x He). unfold decl_attr, dom_attr. cbn [ba_prefix ba_local].
  rewrite opt_name_xmlns, opt_name_none. rewrite P, L.
  split; [|split; [exact Hwf|split]].
  - destruct (ra_pfx a) as [|c0 p0] eqn:Ep.
    + cbn [name_eqb orb andb]. destruct (name_eqb (ra_loc a) s_xmlns).
      * rewrite Hx. reflexivity.
      * destruct R as [_ R]. cbn [attr_ns] in R. rewrite R. reflexivity.
    + rewrite orb_false_r. destruct R as [_ R]. unfold attr_ns in R.
      destruct (inscope rows (c0 :: p0)) as [t|] eqn:Ei; [|contradiction]. destruct R as [R Rn]. rewrite R.
      assert (Ho : opt_name t = Some t) by (destruct t; [contradiction|reflexivity]). rewrite Ho. cbn [oname_eqb].
      destruct (name_eqb (c0 :: p0) s_xmlns) eqn:N2.
      * apply name_eqb_eq in N2. rewrite N2 in Ei. unfold inscope in Ei. rewrite s_xml_neq_xmlns, name_eqb_refl in Ei.
        injection Ei as <-. apply name_eqb_refl.
      * apply name_eqb_neq. intros E. apply (inscope_not_xmlns_uri v rows (c0 :: p0) Hleg N2). rewrite Ei, E. reflexivity.
  - destruct (ra_pfx a); cbn [opt_name]; discriminate.
  - intros [A B]. apply Hxx. split; [|exact B]. destruct (ra_pfx a); cbn [opt_name] in A; [discriminate|congruence].
Qed.

Lemma xmlns_xmlns_illegal : forall v attrs a, forallb (decl_legal v) (sp_decls (map sp_of attrs)) = true -> In a attrs ->
  ~ (ra_pfx a = s_xmlns /\ ra_loc a = s_xmlns).
Proof.
  intros v attrs a H Hin [A B]. rewrite forallb_forall in H.
  assert (Hd : In (s_xmlns, ra_nval a) (sp_decls (map sp_of attrs))).
  { unfold sp_decls. apply in_flat_map. exists (sp_of a). split; [apply in_map; exact Hin|].
    unfold sp_decl_of, sp_of. cbn [spa_pfx spa_loc spa_val]. rewrite A, B. left. reflexivity. }
  specialize (H _ Hd). unfold decl_legal in H. cbn in H. discriminate.
Qed.

Lemma built_from : forall uris rows xs attrs,
  Forall2 (fun x r => res_ok uris (xa_uri x) r) xs (map (fun a => attr_ns rows (ra_pfx a)) attrs) ->
  map triple_x xs = map triple_a attrs -> Forall2 (built_rel uris rows) xs attrs.
Proof.
  intros uris rows xs. induction xs as [|x xs IH]; intros attrs Ra Tr; destruct attrs as [|a attrs]; try discriminate; [constructor|].
  cbn [map] in Ra, Tr. inversion Ra as [|? ? ? ? R1 R2]; subst. unfold triple_x, triple_a in Tr. injection Tr as P L V T2.
  constructor; [split; [exact P|split; [exact L|split; [exact V|exact R1]]]|]. apply IH; assumption.
Qed.
Lemma parsed_from : forall v uris rows xs attrs,
  pool_value uris emptyId = [] -> pool_value uris xmlnsId = uri_xmlns -> all_legal v rows ->
  Forall2 (built_rel uris rows) xs attrs -> Forall wf_attr attrs ->
  (forall a, In a attrs -> ~ (ra_pfx a = s_xmlns /\ ra_loc a = s_xmlns)) ->
  Forall parsed_attr (map (dom_attr uris) xs).
Proof.
  intros v uris rows xs attrs F1 F4 Hleg Hbuilt. induction Hbuilt as [|x a xs0 as0 Hb _ IH]; intros Hwf Hxx; [constructor|].
  inversion Hwf; subst. cbn [map]. constructor.
  - eapply (dom_attr_parsed v uris rows x a); try eassumption. apply Hxx. left. reflexivity.
  - apply IH; [assumption|]. intros b Hb'. apply Hxx. right. exact Hb'.
Qed.

(** ** the element built from a resolved tag *)
Lemma dom_elem_built : forall c s rows pfx loc attrs s' uri xs up,
  nonwf c -> SInvR (c_v11 c) s rows -> Forall wf_attr attrs -> startTag c s pfx loc attrs = Ok (s', uri, xs) ->
  rows_equiv (chain_rows up) rows -> consistent up ->
  let e := dom_elem (sc_uris s') uri pfx loc xs in
  parsed_elem e /\ consistent (e :: up) /\ rows_equiv (chain_rows (e :: up)) (sp_decls (map sp_of attrs) :: rows).
Proof.
  intros c s rows pfx loc attrs s' uri xs up Hc HS Hwf Hst Heq Hcons e.
  destruct (startTag_sound c s rows pfx loc attrs s' uri xs Hc HS Hwf Hst) as (en & ans & Hsp & Re & Ra & Tr & HS').
  set (ds := sp_decls (map sp_of attrs)) in *. set (rows' := ds :: rows) in *. set (uris := sc_uris s') in *.
  (* what sp_tag = Some says *)
  unfold sp_tag in Hsp. fold ds in Hsp. fold rows' in Hsp.
  destruct (forallb (decl_legal (c_v11 c)) ds) eqn:C1; [|discriminate].
  destruct (is_unbound (elem_ns rows' pfx)) eqn:C2; [discriminate|].
  destruct (existsb is_unbound (map (fun a => attr_ns rows' (spa_pfx a)) (map sp_of attrs))) eqn:C3; [discriminate|].
  destruct (has_dup (combine (map (fun a => attr_ns rows' (spa_pfx a)) (map sp_of attrs)) (map spa_loc (map sp_of attrs)))) eqn:C4;
    [discriminate|].
  cbn [andb negb] in Hsp. injection Hsp as <- <-.
  assert (M1 : map (fun a => attr_ns rows' (spa_pfx a)) (map sp_of attrs) = map (fun a => attr_ns rows' (ra_pfx a)) attrs)
    by (rewrite map_map; reflexivity).
  assert (M2 : map spa_loc (map sp_of attrs) = map ra_loc attrs) by (rewrite map_map; reflexivity).
  rewrite M1 in C4, Ra. rewrite M2 in C4. rewrite (combine_map _ _ _ (fun a => attr_ns rows' (ra_pfx a)) ra_loc attrs) in C4.
  change (map (fun a : rattr => (attr_ns rows' (ra_pfx a), ra_loc a)) attrs) with (map (akey rows') attrs) in C4.
  (* pool facts *)
  destruct HS' as (rid & HI & Hok & Hpre & Hids & Htxt & Hleg). fold uris in Hok, Hpre, Hids, Htxt.
  pose proof Hpre as [q Hq]. destruct (uri_pool_facts q) as (F1 & _ & F4 & F5 & _). rewrite <- Hq in F1, F4, F5.
  (* the attribute map *)
  set (atts := fold_left (fun m a => attr_insert (dom_attr uris a) m) xs []).
  assert (Hperm : Permutation atts (map (dom_attr uris) xs)).
  { unfold atts. eapply Permutation_trans; [apply fold_insert_perm|]. rewrite app_nil_r. apply Permutation_refl. }
  assert (Hattrs : be_attrs e = atts).
  { unfold e, dom_elem. destruct (uri =? emptyId); reflexivity. }
  (* built_rel for every attribute *)
  pose proof (built_from uris rows' xs attrs Ra Tr) as Hbuilt.
  pose proof (parsed_from (c_v11 c) uris rows' xs attrs F1 F4 Hleg Hbuilt Hwf (fun a => xmlns_xmlns_illegal (c_v11 c) attrs a C1)) as Hparsed.
  split.
  { unfold parsed_elem. rewrite Hattrs. rewrite Forall_forall in *. intros a Ha. apply Hparsed.
    eapply Permutation_in; eassumption. }
  (* declarations read off the sorted map vs. the tag *)
  assert (Hfind : forall p, find_decl p (belem_decls (be_attrs e)) = find_decl p ds).
  { intros p. rewrite Hattrs. rewrite belem_decls_flat. symmetry. unfold ds.
    rewrite <- (dom_decls_unsorted uris xs attrs Tr). apply find_decl_perm.
    - rewrite (dom_decls_unsorted uris xs attrs Tr). apply (decls_nodup rows'); assumption.
    - apply flat_map_perm. apply Permutation_sym. exact Hperm. }
  assert (Hequiv : rows_equiv (chain_rows (e :: up)) rows').
  { intros p. cbn [chain_rows map nearest]. fold (chain_rows up). unfold rows'. cbn [nearest]. rewrite Hfind.
    destruct (find_decl p ds); [reflexivity|apply Heq]. }
  split; [|exact Hequiv].
  assert (Hns : be_ns e = if uri =? emptyId then None else Some (pool_value uris uri))
    by (unfold e, dom_elem; destruct (uri =? emptyId); reflexivity).
  assert (Hpf : be_prefix e = if uri =? emptyId then None else opt_name pfx)
    by (unfold e, dom_elem; destruct (uri =? emptyId); reflexivity).
  cbn [consistent]. split; [|split; [|exact Hcons]].
  - assert (Hem : (uri =? emptyId) = name_eqb (pool_value uris uri) []).
    { apply empty_id_text; [exact Hok|exact Hpre|]. destruct Re as [Re _]. exact Re. }
    rewrite Hns, Hpf, Hem. destruct Re as [_ Re]. unfold elem_ns in Re.
    rewrite <- (inscope_equiv _ _ _ Hequiv) in Re.
    destruct (inscope (chain_rows (e :: up)) pfx) as [t|] eqn:Ei.
    + destruct Re as [Rt Rn]. rewrite Rt. destruct t as [|d t']; [contradiction|]. cbn [name_eqb].
      split; [discriminate|]. replace (pfx_or_empty (opt_name pfx)) with pfx by (destruct pfx; reflexivity). exact Ei.
    + destruct pfx as [|c0 p0]; [|contradiction]. rewrite Re. cbn [name_eqb]. split; [reflexivity|exact Ei].
  - rewrite Hpf. destruct (uri =? emptyId); [discriminate|]. destruct pfx; cbn [opt_name]; discriminate.
Qed.
