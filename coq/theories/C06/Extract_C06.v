(** Extraction of the executable C06 models and of the specification functions used as oracle.
    Only ExtrOcamlBasic: N / positive / nat stay the extracted inductive types. *)
From Coq Require Import Extraction ExtrOcamlBasic.
From XV Require Import C06.Spec06 C06.Model06.
Extraction Language OCaml.
Extraction "../ocaml/C06/gen_c06.ml"
  name_eqb spec_norm norm_raw sop_run map_spec inscope elem_ns attr_ns decl_legal has_dup sp_tag sp_decls sp_lookup_ns sp_is_default sp_prefixes
  stream_ok dyck bracket_of b_lookup_ns b_lookup_prefix b_is_default chain_rows
  parse_sax2 parse_sax1 parse_dom dom_nodes doc_lookup_ns doc_lookup_prefix doc_is_default
  m_lookup_ns m_lookup_prefix m_is_default scan_toks scan_init
  wfs_init wfs_addLevel wfs_popTop wfs_addPrefix wfs_mapPrefixToURI
  es_init es_addLevel es_popTop es_addPrefix es_addGlobalPrefix es_mapPrefixToURI pool_value.
