(** Lemmas for T06_resolve_wf: WFXMLScanner::scanStartTagNS over WFElemStack against the Spec.  The attributes are
    handled while they are scanned (declarations are pushed at once, [xml:] / [xmlns:] / unprefixed attributes get their
    namespace at once, the others are deferred to the end of the tag), the duplicate check on expanded names and the
    element prefix come last.  The scanner state represents the declarations of the open elements in LOOKUP order
    (latest declaration of a level first, Proofs06g); a tag that passes the duplicate check declares no prefix twice,
    so that order is immaterial and the state is equivalent, row by row, to the Spec's rows. *)
From XV Require Import Base.XDefs Gen.GenElemStack C06.Spec06 C06.Model06 C06.Proofs06a C06.Proofs06d C06.Proofs06e C06.Proofs06f C06.Proofs06g.
From Coq Require Import Arith Lia.
Local Open Scope nat_scope.

Definition iswf (c : cfg) : Prop := c_scanner c = WF.
Definition row_eqv (a b : list decl) : Prop := forall p, find_decl p a = find_decl p b.
Definition rows_eqv (R rows : list (list decl)) : Prop := Forall2 row_eqv R rows.

Definition SInvW0 (v11 : bool) (s : scan) (R : list (list decl)) : Prop :=
  exists rid, WInv (sc_wf s) rid /\ pool_ok (sc_uris s) /\ (exists q, sc_uris s = uri_pool0 ++ q) /\
              Forall (uid_ok (sc_uris s)) rid /\ map (txt (sc_uris s)) rid = R /\ all_legal v11 R.
Definition SInvW (v11 : bool) (s : scan) (rows : list (list decl)) : Prop := exists R, SInvW0 v11 s R /\ rows_eqv R rows.

Lemma st_map_wf : forall c s p, iswf c -> st_map c s p = wfs_mapPrefixToURI (sc_wf s) p.
Proof. intros c s p H. unfold st_map. rewrite H. reflexivity. Qed.

(** ** XMLScanner::resolvePrefix over WFElemStack *)
Lemma resolvePrefix_wf0 : forall c s rows p mode, iswf c -> SInvW0 (c_v11 c) s rows ->
  match resolvePrefix c s p mode with
  | Ok u => res_ok (sc_uris s) u (ns_of mode rows p)
  | Err e => e = E_UnknownPrefix /\ ns_of mode rows p = NsUnbound
  end.
Proof.
  intros c s rows p mode Hc (rid & HI & Hok & Hpre & Hids & Htxt & Hleg).
  pose proof Hpre as [q Hq]. destruct (uri_pool_facts q) as (F1 & F3 & F4 & F5 & F6). rewrite <- Hq in F1, F3, F4, F5, F6.
  unfold resolvePrefix. destruct p as [|ch p'].
  - destruct mode; cbn [ns_of].
    + cbn [attr_ns]. unfold res_ok. split; [unfold emptyId; lia|exact F1].
    + rewrite (st_map_wf c s [] Hc). rewrite (wfs_map_correct _ rid [] HI). unfold map_spec.
      cbn [name_eqb]. unfold elem_ns, inscope. cbn [name_eqb]. rewrite <- Htxt, nearest_txt.
      destruct (nearest rid []) as [u|] eqn:En; cbn [map_answer option_map].
      * destruct (nearest_in _ _ _ _ En) as (m & Hm & Hin). unfold uid_ok in Hids. rewrite Forall_forall in Hids.
        specialize (Hids m Hm). rewrite Forall_forall in Hids. specialize (Hids _ Hin). cbn [snd] in Hids.
        unfold res_ok. destruct (pool_value (sc_uris s) u) as [|c0 l] eqn:Ev; (split; [exact Hids|]).
        -- exact Ev.
        -- split; [exact Ev|discriminate].
      * unfold res_ok. split; [unfold emptyId; lia|exact F1].
  - set (p := ch :: p') in *.
    assert (Hmode : ns_of mode rows p = match inscope rows p with Some u => NsIn u | None => NsUnbound end).
    { unfold ns_of, attr_ns, elem_ns, p. destruct mode; reflexivity. }
    rewrite Hmode. clear Hmode.
    destruct (name_eqb p s_xmlns) eqn:N2.
    + apply name_eqb_eq in N2. rewrite N2. unfold inscope. rewrite s_xml_neq_xmlns, name_eqb_refl.
      unfold res_ok. split; [unfold xmlnsId; lia|]. split; [exact F4|discriminate].
    + destruct (name_eqb p s_xml) eqn:N1.
      * apply name_eqb_eq in N1. rewrite N1. unfold inscope. rewrite name_eqb_refl.
        unfold res_ok. split; [unfold xmlId; lia|]. split; [exact F3|discriminate].
      * rewrite (st_map_wf c s p Hc). rewrite (wfs_map_correct _ rid p HI). unfold map_spec. rewrite N1, N2.
        unfold inscope. rewrite N1, N2. rewrite <- Htxt, nearest_txt.
        destruct (nearest rid p) as [u|] eqn:En; cbn [map_answer option_map].
        -- destruct (nearest_in _ _ _ _ En) as (m & Hm & Hin).
           assert (Hu : 1 <= u <= length (sc_uris s)).
           { unfold uid_ok in Hids. rewrite Forall_forall in Hids. specialize (Hids m Hm). rewrite Forall_forall in Hids.
             exact (Hids _ Hin). }
           rewrite (empty_id_text _ u Hok Hpre Hu).
           destruct (pool_value (sc_uris s) u) as [|c0 l] eqn:Ev; cbn [name_eqb].
           ++ destruct (c_v11 c) eqn:Ev11; cbn [andb].
              ** split; reflexivity.
              ** exfalso.
                 unfold all_legal in Hleg. rewrite <- Htxt in Hleg. rewrite Forall_forall in Hleg.
                 specialize (Hleg (txt (sc_uris s) m) (in_map _ _ _ Hm)). rewrite Forall_forall in Hleg.
                 assert (Hin' : In (p, []) (txt (sc_uris s) m)).
                 { unfold txt. rewrite <- Ev. change (p, pool_value (sc_uris s) u) with
                     ((fun d : name * nat => (fst d, pool_value (sc_uris s) (snd d))) (p, u)). apply in_map. exact Hin. }
                 specialize (Hleg _ Hin'). unfold decl_legal in Hleg. rewrite N2, N1 in Hleg. cbn in Hleg. discriminate.
           ++ rewrite andb_false_r. unfold res_ok. split; [exact Hu|]. split; [exact Ev|discriminate].
        -- split; reflexivity.
Qed.

(** ** the element stack operations at scanner level *)
Lemma st_addPrefix_wf : forall c s ds rows p v, iswf c -> SInvW0 (c_v11 c) s (ds :: rows) ->
  decl_legal (c_v11 c) (p, v) = true ->
  exists s', st_addPrefix c s p v = Ok s' /\ SInvW0 (c_v11 c) s' (((p, v) :: ds) :: rows) /\
             exists q, sc_uris s' = sc_uris s ++ q.
Proof.
  intros c s ds rows p v Hc (rid & HI & Hok & Hpre & Hids & Htxt & Hleg) Hl.
  destruct rid as [|rd rr]; [discriminate|]. cbn [map] in Htxt. injection Htxt as Ht1 Ht2.
  unfold st_addPrefix.
  destruct (addOrFind_id (sc_uris s) v) as [Hid Hrange]. destruct (addOrFind_ext (sc_uris s) v) as [q Hq].
  pose proof (pool_ok_add (sc_uris s) v Hok) as Hok'.
  destruct (pool_addOrFind (sc_uris s) v) as [up uid] eqn:Ea. cbn [fst snd] in Hid, Hrange, Hq, Hok'. subst up.
  set (up := sc_uris s ++ q) in *.
  destruct (winv_addPrefix (sc_wf s) rd rr p uid HI) as (e' & He & HI').
  assert (Hv : pool_value up uid = v).
  { destruct uid as [|i]; [lia|]. destruct (getId_sound up v i Hid) as [A _]. unfold pool_value.
    replace (S i - 1) with i by lia. exact A. }
  exists (mkScan (sc_es s) e' up). split.
  { rewrite Hc. unfold bind. rewrite He. reflexivity. }
  split; [|exists q; reflexivity].
  inversion Hids as [|x l Hrd Hrr]; subst x l.
  destruct (rows_app (sc_uris s) q rr Hrr) as [Hrr' Hrrt]. fold up in Hrr', Hrrt.
  exists (((p, uid) :: rd) :: rr). cbn [sc_wf sc_uris].
  split; [exact HI'|]. split; [exact Hok'|].
  split; [destruct Hpre as [q0 Hq0]; exists (q0 ++ q); unfold up; rewrite Hq0, app_assoc; reflexivity|].
  split.
  { constructor; [|exact Hrr']. unfold uid_ok. constructor; [cbn [snd]; exact Hrange|]. apply uid_ok_app. exact Hrd. }
  split.
  { cbn [map]. rewrite Hrrt, Ht2. f_equal. unfold txt at 1. cbn [map fst snd]. rewrite Hv.
    fold (txt up rd). unfold up. rewrite txt_app by exact Hrd. rewrite Ht1. reflexivity. }
  unfold all_legal in *. inversion Hleg as [|x l Hd Hr]; subst x l. constructor; [|exact Hr].
  constructor; [exact Hl|exact Hd].
Qed.

Lemma st_addLevel_wf : forall c s rows, iswf c -> SInvW0 (c_v11 c) s rows ->
  exists s', st_addLevel c s = Ok s' /\ SInvW0 (c_v11 c) s' ([] :: rows) /\ sc_uris s' = sc_uris s.
Proof.
  intros c s rows Hc (rid & HI & Hok & Hpre & Hids & Htxt & Hleg).
  destruct (winv_addLevel (sc_wf s) rid HI) as (e' & He & HI').
  exists (mkScan (sc_es s) e' (sc_uris s)). split.
  - unfold st_addLevel, bind. rewrite Hc, He. reflexivity.
  - split; [|reflexivity]. exists ([] :: rid). cbn [sc_wf sc_uris].
    split; [exact HI'|]. split; [exact Hok|]. split; [exact Hpre|].
    split; [constructor; [constructor|exact Hids]|].
    split; [cbn [map txt]; rewrite Htxt; reflexivity|]. constructor; [constructor|exact Hleg].
Qed.
Lemma st_pop_wf0 : forall c s ds rows, iswf c -> SInvW0 (c_v11 c) s (ds :: rows) ->
  exists uri pfx loc s', st_pop c s = Ok (uri, pfx, loc, s') /\ SInvW0 (c_v11 c) s' rows /\ sc_uris s' = sc_uris s.
Proof.
  intros c s ds rows Hc (rid & HI & Hok & Hpre & Hids & Htxt & Hleg).
  destruct rid as [|rd rr]; [discriminate|]. cbn [map] in Htxt. injection Htxt as Ht1 Ht2.
  destruct (winv_popTop (sc_wf s) rd rr HI) as (r & e' & He & HI').
  exists (w_uri r), (w_pfx r), (w_loc r), (mkScan (sc_es s) e' (sc_uris s)). split.
  - unfold st_pop, bind. rewrite Hc, He. reflexivity.
  - cbn [sc_uris]. split; [|reflexivity]. exists rr. cbn [sc_wf sc_uris]. inversion Hids; subst. inversion Hleg; subst.
    split; [exact HI'|]. split; [exact Hok|]. split; [exact Hpre|]. split; [assumption|]. split; [reflexivity|assumption].
Qed.
Lemma st_setTop_wf : forall c s rows uri pfx loc, iswf c -> SInvW0 (c_v11 c) s rows ->
  SInvW0 (c_v11 c) (st_setTop c s uri pfx loc) rows /\ sc_uris (st_setTop c s uri pfx loc) = sc_uris s.
Proof.
  intros c s rows uri pfx loc Hc (rid & HI & Hok & Hpre & Hids & Htxt & Hleg).
  assert (E : st_setTop c s uri pfx loc = mkScan (sc_es s) (wfs_setTop (sc_wf s) uri pfx loc) (sc_uris s)).
  { unfold st_setTop. rewrite Hc. reflexivity. }
  rewrite E. split; [|reflexivity]. exists rid. cbn [sc_wf sc_uris].
  split; [apply winv_setTop; exact HI|]. split; [exact Hok|]. split; [exact Hpre|]. split; [exact Hids|]. split; assumption.
Qed.
Lemma sinvw0_init : forall v11, SInvW0 v11 scan_init [].
Proof.
  intros v11. exists []. cbn [scan_init sc_wf sc_uris].
  split; [exact winv_init|].
  split; [intros i Hi; cbn in Hi; destruct i as [|[|[|[|[|i]]]]]; try lia; vm_compute; reflexivity|].
  split; [exists []; reflexivity|]. split; [constructor|]. split; [reflexivity|constructor].
Qed.

(** ** the attribute loop *)
Definition rqn (a : rattr) : name := qname_of (ra_pfx a) (ra_loc a).
Fixpoint rawdup (seen attrs : list rattr) : bool :=
  match attrs with
  | [] => false
  | a :: r => existsb (fun x => name_eqb (rqn x) (rqn a)) seen || rawdup (a :: seen) r
  end.
Definition entry_rel (e : option nat * rattr) (a : rattr) : Prop :=
  snd e = a /\
  match fst e with
  | Some u => (ra_pfx a = [] /\ u = emptyId) \/ (ra_pfx a = s_xml /\ u = xmlId) \/ (ra_pfx a = s_xmlns /\ u = xmlnsId)
  | None => True
  end.
Definition scan_post (c : cfg) (R : list (list decl)) (s : scan) (D : list decl) (done : list (option nat * rattr))
    (attrs : list rattr) (x : res (scan * list (option nat * rattr)) xerr) : Prop :=
  match x with
  | Ok (s', l) => exists new, l = rev done ++ new /\ Forall2 entry_rel new attrs /\
        forallb (decl_legal (c_v11 c)) (sp_decls (map sp_of attrs)) = true /\
        SInvW0 (c_v11 c) s' (rev (D ++ sp_decls (map sp_of attrs)) :: R) /\ exists q, sc_uris s' = sc_uris s ++ q
  | Err e => ns_error e = true /\
        (rawdup (map snd done) attrs = true \/ forallb (decl_legal (c_v11 c)) (sp_decls (map sp_of attrs)) = false)
  end.

Lemma existsb_map_snd : forall (f : rattr -> bool) (done : list (option nat * rattr)),
  existsb (fun x => f (snd x)) done = existsb f (map snd done).
Proof. intros f done. induction done as [|x r IH]; cbn [existsb map]; [reflexivity|]. rewrite IH. reflexivity. Qed.

Lemma existsb_done : forall a (done : list (option nat * rattr)),
  existsb (fun x => name_eqb (qname_of (ra_pfx (snd x)) (ra_loc (snd x))) (qname_of (ra_pfx a) (ra_loc a))) done =
  existsb (fun y => name_eqb (rqn y) (rqn a)) (map snd done).
Proof. intros a done. induction done as [|x r IH]; cbn [existsb map]; [reflexivity|]. rewrite IH. reflexivity. Qed.

Lemma sp_decls_cons : forall a r, sp_decls (map sp_of (a :: r)) = sp_decl_of (sp_of a) ++ sp_decls (map sp_of r).
Proof. intros. reflexivity. Qed.

Lemma scan_wrap : forall c R r a o s s1 D da done x,
  sp_decl_of (sp_of a) = da -> forallb (decl_legal (c_v11 c)) da = true ->
  (exists q, sc_uris s1 = sc_uris s ++ q) -> entry_rel (o, a) a ->
  existsb (fun x => name_eqb (rqn x) (rqn a)) (map snd done) = false ->
  scan_post c R s1 (D ++ da) ((o, a) :: done) r x -> scan_post c R s D done (a :: r) x.
Proof.
  intros c R r a o s s1 D da done x Hda Hleg [q1 Q1] Hent Hex H. unfold scan_post in *.
  destruct x as [[s' l]|e].
  - destruct H as (new & El & F & L & I & [q2 Q2]). exists ((o, a) :: new).
    split; [rewrite El; cbn [rev]; rewrite <- app_assoc; reflexivity|].
    split; [constructor; [exact Hent|exact F]|].
    rewrite sp_decls_cons, Hda. split; [rewrite forallb_app, Hleg, L; reflexivity|].
    split; [rewrite app_assoc; exact I|]. exists (q1 ++ q2). rewrite Q2, Q1, app_assoc. reflexivity.
  - destruct H as [H1 H2]. split; [exact H1|]. cbn [rawdup]. rewrite Hex. cbn [orb]. change (map snd ((o, a) :: done)) with (a :: map snd done) in H2.
    destruct H2 as [H2|H2]; [left; exact H2|right]. rewrite sp_decls_cons, Hda, forallb_app, H2. apply andb_false_r.
Qed.

(** the checks WFXMLScanner makes on a declaration are those of updateNSMap *)
Lemma wf_scan_spec : forall c R attrs s D done, iswf c -> SInvW0 (c_v11 c) s (rev D :: R) -> Forall wf_attr attrs ->
  scan_post c R s D done attrs (wf_scanAttrs c s attrs done).
Proof.
  intros c R attrs. induction attrs as [|a r IH]; intros s D done Hc HS Hwf.
  - cbn [wf_scanAttrs scan_post]. exists []. rewrite !app_nil_r. split; [reflexivity|]. split; [constructor|].
    split; [reflexivity|]. split; [exact HS|]. exists []. symmetry. apply app_nil_r.
  - inversion Hwf as [|x l Ha Hr]; subst x l. cbn [wf_scanAttrs].
    rewrite (existsb_done a done).
    destruct (existsb (fun y => name_eqb (rqn y) (rqn a)) (map snd done)) eqn:Ex.
    { cbn [scan_post]. split; [reflexivity|]. left. cbn [rawdup]. rewrite Ex. reflexivity. }
    assert (Hext0 : exists q, sc_uris s = sc_uris s ++ q) by (exists []; symmetry; apply app_nil_r).
    pose proof (is_nsdecl_spec a Ha) as Hsd. unfold is_nsdecl in Hsd.
    destruct (ra_pfx a) as [|c0 p0] eqn:Ep.
    + destruct (name_eqb (ra_loc a) s_xmlns) eqn:El.
      * (* xmlns="..." *)
        pose proof (nsmap_check_legal (c_v11 c) false [] (ra_nval a) (fun H => match Bool.diff_false_true H with end) (fun _ => eq_refl)) as K.
        unfold nsmap_check, bind in K. cbn [name_eqb negb andb] in K. rewrite andb_true_r in K.
        unfold bind at 1.
        destruct (name_eqb (ra_nval a) uri_xmlns) eqn:B4.
        { cbn [scan_post]. destruct K as [K1 K2]. split; [reflexivity|]. right. rewrite sp_decls_cons, Hsd. cbn [app forallb].
          rewrite K2. reflexivity. }
        destruct (name_eqb (ra_nval a) uri_xml) eqn:B3.
        { cbn [scan_post]. destruct K as [K1 K2]. split; [reflexivity|]. right. rewrite sp_decls_cons, Hsd. cbn [app forallb].
          rewrite K2. reflexivity. }
        unfold bind at 1.
        destruct (st_addPrefix_wf c s (rev D) R [] (ra_nval a) Hc HS K) as (s1 & E1 & I1 & Q1). rewrite E1.
        apply (scan_wrap c R r a (Some emptyId) s s1 D [([], ra_nval a)] done); try assumption.
        -- cbn [forallb]. rewrite K. reflexivity.
        -- split; [reflexivity|]. cbn [fst]. left. split; [exact Ep|reflexivity].
        -- apply IH; try assumption. rewrite rev_app_distr. exact I1.
      * apply (scan_wrap c R r a (Some emptyId) s s D [] done); try assumption; try reflexivity.
        -- split; [reflexivity|]. cbn [fst]. left. split; [exact Ep|reflexivity].
        -- apply IH; try assumption. rewrite app_nil_r. exact HS.
    + set (p := c0 :: p0) in *.
      destruct (name_eqb p s_xml) eqn:N1.
      * assert (N2 : name_eqb p s_xmlns = false).
        { apply name_eqb_eq in N1. rewrite N1. reflexivity. }
        rewrite N2 in Hsd.
        apply (scan_wrap c R r a (Some xmlId) s s D [] done); try assumption; try reflexivity.
        -- split; [reflexivity|]. cbn [fst]. right. left. split; [apply name_eqb_eq in N1; rewrite <- N1; exact Ep|reflexivity].
        -- apply IH; try assumption. rewrite app_nil_r. exact HS.
      * destruct (name_eqb p s_xmlns) eqn:N2.
        -- (* xmlns:loc="..." *)
           pose proof (nsmap_check_legal (c_v11 c) true (ra_loc a) (ra_nval a) (fun _ => Ha) (fun H => match Bool.diff_true_false H with end)) as K.
           unfold nsmap_check, bind in K.
           unfold bind at 1.
           destruct (if name_eqb (ra_loc a) s_xmlns then Err E_NoUseOfxmlnsAsPrefix
                     else if name_eqb (ra_loc a) s_xml && negb (name_eqb (ra_nval a) uri_xml) then Err E_PrefixXMLNotMatchXMLURI
                     else match ra_nval a with [] => if c_v11 c then Ok tt else Err E_NoEmptyStrNamespace | _ :: _ => Ok tt end)
             as [[]|e1] eqn:C1.
           2:{ cbn [scan_post]. destruct K as [K1 K2]. split; [exact K1|]. right. rewrite sp_decls_cons, Hsd. cbn [app forallb].
               rewrite K2. reflexivity. }
           unfold bind at 1.
           destruct (if name_eqb (ra_nval a) uri_xmlns then Err E_NoUseOfxmlnsURI
                     else if name_eqb (ra_nval a) uri_xml && negb (name_eqb (ra_loc a) s_xml) then Err E_XMLURINotMatchXMLPrefix
                     else Ok tt) as [[]|e2] eqn:C2.
           2:{ cbn [scan_post]. destruct K as [K1 K2]. split; [exact K1|]. right. rewrite sp_decls_cons, Hsd. cbn [app forallb].
               rewrite K2. reflexivity. }
           unfold bind at 1.
           destruct (st_addPrefix_wf c s (rev D) R (ra_loc a) (ra_nval a) Hc HS K) as (s1 & E1 & I1 & Q1). rewrite E1.
           apply (scan_wrap c R r a (Some xmlnsId) s s1 D [(ra_loc a, ra_nval a)] done); try assumption.
           ++ unfold forallb. rewrite andb_true_r. exact K.
           ++ split; [reflexivity|]. cbn [fst]. right. right. split; [apply name_eqb_eq in N2; rewrite <- N2; exact Ep|reflexivity].
           ++ apply IH; try assumption. rewrite rev_app_distr. exact I1.
        -- apply (scan_wrap c R r a None s s D [] done); try assumption; try reflexivity.
           ++ split; [reflexivity|exact I].
           ++ apply IH; try assumption. rewrite app_nil_r. exact HS.
Qed.

(** ** the deferred attributes, resolved against the state at the end of the tag *)
Lemma wf_deferred_spec : forall c s L l attrs, iswf c -> SInvW0 (c_v11 c) s L -> Forall2 entry_rel l attrs ->
  match wf_resolveDeferred c s l with
  | Ok xs => Forall2 (built_rel (sc_uris s) L) xs attrs
  | Err e => ns_error e = true /\ existsb is_unbound (map (fun a => attr_ns L (ra_pfx a)) attrs) = true
  end.
Proof.
  intros c s L l attrs Hc HS F. induction F as [|[o a0] a l0 as0 [Hs Ho] _ IH]; cbn [wf_resolveDeferred]; [constructor|].
  cbn [fst snd] in Hs, Ho. subst a0.
  pose proof (resolvePrefix_wf0 c s L (ra_pfx a) true Hc HS) as P. cbn [ns_of] in P.
  assert (Hstep : forall u, resolvePrefix c s (ra_pfx a) true = Ok u ->
            match (do xs <- wf_resolveDeferred c s l0; Ok (mkXAttr u (ra_pfx a) (ra_loc a) (ra_nval a) :: xs)) with
            | Ok xs => Forall2 (built_rel (sc_uris s) L) xs (a :: as0)
            | Err e => ns_error e = true /\ existsb is_unbound (map (fun a => attr_ns L (ra_pfx a)) (a :: as0)) = true
            end).
  { intros u Eu. rewrite Eu in P. unfold bind. destruct (wf_resolveDeferred c s l0) as [xs|e].
    - constructor; [|exact IH]. split; [reflexivity|]. split; [reflexivity|]. split; [reflexivity|exact P].
    - destruct IH as [I1 I2]. split; [exact I1|]. cbn [map existsb]. rewrite I2. apply orb_true_r. }
  destruct o as [u|].
  - apply Hstep. destruct Ho as [[E1 E2]|[[E1 E2]|[E1 E2]]]; rewrite E1, E2; reflexivity.
  - unfold bind at 1. destruct (resolvePrefix c s (ra_pfx a) true) as [u|e] eqn:Eu.
    + apply Hstep. reflexivity.
    + destruct P as [-> P]. split; [reflexivity|]. cbn [map existsb]. rewrite P. reflexivity.
Qed.

(** ** the duplicate check after the tag *)
Lemma key_of_rel : forall uris x k, xkey_rel uris x k -> k = (fst k, xa_loc x).
Proof. intros uris x [r n] [_ H]. cbn [fst snd] in *. rewrite H. reflexivity. Qed.
Lemma wf_dup_pairs_spec : forall uris xs keys, pool_ok uris -> Forall2 (xkey_rel uris) xs keys -> wf_dup_pairs xs = has_dup keys.
Proof.
  intros uris xs keys Hok F. induction F as [|x k xs0 ks0 Hx Hr IH]; [reflexivity|]. cbn [wf_dup_pairs has_dup]. rewrite IH. f_equal.
  rewrite (key_of_rel _ _ _ Hx) at 1. destruct Hx as [Hx _]. apply (same_expanded_keys uris xs0 ks0 _ _ _ Hok Hr Hx).
Qed.
Lemma wf_dup_hashed_spec : forall uris xs keys seen seenk, pool_ok uris -> Forall2 (xkey_rel uris) xs keys ->
  Forall2 (xkey_rel uris) seen seenk -> wf_dup_hashed xs seen = dup_lr seenk keys.
Proof.
  intros uris xs keys seen seenk Hok F. revert seen seenk. induction F as [|x k xs0 ks0 Hx Hr IH]; intros seen seenk Hs; [reflexivity|].
  cbn [wf_dup_hashed dup_lr]. rewrite (IH (x :: seen) (k :: seenk)) by (constructor; assumption). f_equal.
  rewrite (key_of_rel _ _ _ Hx) at 1. destruct Hx as [Hx _]. apply (same_expanded_keys uris seen seenk _ _ _ Hok Hs Hx).
Qed.
Lemma built_keys : forall uris L xs attrs, Forall2 (built_rel uris L) xs attrs -> Forall2 (xkey_rel uris) xs (map (akey L) attrs).
Proof.
  intros uris L xs attrs F. induction F as [|x a xs0 as0 (_ & Hl & _ & Hr) _ IH]; [constructor|]. cbn [map].
  constructor; [|exact IH]. split; [exact Hr|exact Hl].
Qed.

(** ** the Spec does not see the order of the declarations inside a row *)
Lemma nearest_eqv : forall R rows p, rows_eqv R rows -> nearest R p = nearest rows p.
Proof. intros R rows p H. induction H as [|a b R0 r0 Hab _ IH]; [reflexivity|]. cbn [nearest]. rewrite (Hab p), IH. reflexivity. Qed.
Lemma inscope_eqv : forall R rows p, rows_eqv R rows -> inscope R p = inscope rows p.
Proof. intros R rows p H. unfold inscope. rewrite (nearest_eqv R rows p H). reflexivity. Qed.
Lemma attr_ns_ext : forall A B p, (forall q, inscope A q = inscope B q) -> attr_ns A p = attr_ns B p.
Proof. intros A B p H. unfold attr_ns. destruct p; [reflexivity|]. rewrite H. reflexivity. Qed.
Lemma elem_ns_ext : forall A B p, (forall q, inscope A q = inscope B q) -> elem_ns A p = elem_ns B p.
Proof. intros A B p H. unfold elem_ns. rewrite H. reflexivity. Qed.
Lemma sp_tag_ext : forall v A B pfx atts, (forall q, inscope (sp_decls atts :: A) q = inscope (sp_decls atts :: B) q) ->
  sp_tag v A pfx atts = sp_tag v B pfx atts.
Proof.
  intros v A B pfx atts H. unfold sp_tag. rewrite (elem_ns_ext _ _ pfx H).
  rewrite (map_ext _ _ (fun a => attr_ns_ext _ _ (spa_pfx a) H)). reflexivity.
Qed.
Lemma row_eqv_refl : forall a, row_eqv a a.
Proof. intros a p. reflexivity. Qed.
Lemma sp_tag_eqv : forall v R rows pfx atts, rows_eqv R rows -> sp_tag v R pfx atts = sp_tag v rows pfx atts.
Proof.
  intros v R rows pfx atts H. apply sp_tag_ext. intros q. apply inscope_eqv. constructor; [apply row_eqv_refl|exact H].
Qed.

(** a raw-name duplicate is a duplicate of the expanded name (or the name is unbound) *)
Lemma key_eqb_refl : forall r n, is_unbound r = false -> key_eqb (r, n) (r, n) = true.
Proof. intros [u| |] n H; unfold key_eqb; cbn [fst snd]; try discriminate; rewrite !name_eqb_refl; reflexivity. Qed.
Lemma rawdup_dup : forall rows attrs seen, Forall ncname_attr seen -> Forall ncname_attr attrs -> rawdup seen attrs = true ->
  existsb is_unbound (map (fun a => attr_ns rows (ra_pfx a)) attrs) = true \/
  dup_lr (map (akey rows) seen) (map (akey rows) attrs) = true.
Proof.
  intros rows attrs. induction attrs as [|a r IH]; intros seen Hs Ha H; cbn [rawdup] in H; [discriminate|].
  inversion Ha as [|x l (Na1 & Na2 & _) Hr]; subst x l. cbn [map existsb dup_lr].
  destruct (is_unbound (attr_ns rows (ra_pfx a))) eqn:Eu; [left; reflexivity|]. cbn [orb].
  apply orb_true_iff in H. destruct H as [H|H].
  - right. apply existsb_exists in H. destruct H as (x & Hx & Ex). apply name_eqb_eq in Ex. unfold rqn in Ex.
    rewrite Forall_forall in Hs. destruct (Hs x Hx) as (X1 & X2 & _).
    destruct (qname_of_inj _ _ _ _ X1 Na1 X2 Na2 Ex) as [P1 P2].
    assert (Hex : existsb (key_eqb (akey rows a)) (map (akey rows) seen) = true).
    { apply existsb_exists. exists (akey rows x). split; [apply in_map; exact Hx|]. unfold akey. rewrite P1, P2.
      apply key_eqb_refl. exact Eu. }
    rewrite Hex. reflexivity.
  - destruct (IH (a :: seen) (Forall_cons _ (conj Na1 (conj Na2 (proj2 (proj2 (Forall_inv Ha))))) Hs) Hr H) as [K|K].
    + left. exact K.
    + right. cbn [map] in K. rewrite K. apply orb_true_r.
Qed.

(** ** the start tag as a whole *)
Lemma rev_row_eqv : forall ds : list decl, NoDup (map fst ds) -> row_eqv (rev ds) ds.
Proof. intros ds H p. apply find_decl_rev_nodup. exact H. Qed.
Lemma rows_eqv_refl : forall R, rows_eqv R R.
Proof. induction R; constructor; [apply row_eqv_refl|assumption]. Qed.
Lemma and4_false : forall a b c d, a = false \/ b = true \/ c = true \/ d = true -> (a && negb b && negb c && negb d) = false.
Proof. intros [] [] [] [] [H|[H|[H|H]]]; try discriminate; reflexivity. Qed.

Lemma built_rel_ext : forall uris L S xs attrs, (forall a, attr_ns L (ra_pfx a) = attr_ns S (ra_pfx a)) ->
  Forall2 (built_rel uris L) xs attrs -> Forall2 (built_rel uris S) xs attrs.
Proof.
  intros uris L S xs attrs Ha F. induction F as [|x a xs0 as0 (A & B & C & D) _ IH]; constructor; [|exact IH].
  split; [exact A|]. split; [exact B|]. split; [exact C|]. rewrite <- Ha. exact D.
Qed.

Lemma wf_startTag_spec0 : forall c s R pfx loc attrs, iswf c -> SInvW0 (c_v11 c) s R -> Forall wf_attr attrs ->
  match wf_startTag c s pfx loc attrs with
  | Ok (s', uri, xs) =>
    NoDup (map fst (sp_decls (map sp_of attrs))) /\
    exists e ans, sp_tag (c_v11 c) R pfx (map sp_of attrs) = Some (e, ans) /\
                  res_ok (sc_uris s') uri e /\ Forall2 (fun x r => res_ok (sc_uris s') (xa_uri x) r) xs ans /\
                  map triple_x xs = map triple_a attrs /\
                  SInvW0 (c_v11 c) s' (rev (sp_decls (map sp_of attrs)) :: R) /\ exists q, sc_uris s' = sc_uris s ++ q
  | Err e => ns_error e = true /\ (Forall ncname_attr attrs -> sp_tag (c_v11 c) R pfx (map sp_of attrs) = None)
  end.
Proof.
  intros c s R pfx loc attrs Hc HS Hwf. unfold wf_startTag, bind.
  destruct (st_addLevel_wf c s R Hc HS) as (s1 & E1 & I1 & U1). rewrite E1.
  set (ds := sp_decls (map sp_of attrs)). set (S := ds :: R). set (L := rev ds :: R).
  assert (Hsp : sp_tag (c_v11 c) R pfx (map sp_of attrs) =
     if forallb (decl_legal (c_v11 c)) ds && negb (is_unbound (elem_ns S pfx)) &&
        negb (existsb is_unbound (map (fun a => attr_ns S (ra_pfx a)) attrs)) && negb (has_dup (map (akey S) attrs))
     then Some (elem_ns S pfx, map (fun a => attr_ns S (ra_pfx a)) attrs) else None).
  { unfold sp_tag. fold ds. fold S. rewrite !map_map. cbn [sp_of spa_pfx spa_loc].
    change (map (fun x : rattr => ra_loc x) attrs) with (map ra_loc attrs).
    rewrite (combine_map _ _ _ (fun a => attr_ns S (ra_pfx a)) ra_loc attrs). reflexivity. }
  (* a tag without two attributes of one expanded name (in whatever scope) declares no prefix twice: lookup order and
     declaration order of its row agree *)
  assert (Hdich : forall A, has_dup (map (akey A) attrs) = false -> forall q, inscope L q = inscope S q).
  { intros A HA q. apply inscope_eqv. constructor; [|apply rows_eqv_refl].
    apply rev_row_eqv. apply (decls_nodup A attrs Hwf HA). }
  pose proof (wf_scan_spec c R attrs s1 [] [] Hc I1 Hwf) as W. unfold scan_post in W.
  destruct (wf_scanAttrs c s1 attrs []) as [[s2 l]|e].
  2:{ destruct W as [W1 W2]. split; [exact W1|]. intros Hnc. rewrite Hsp, and4_false; [reflexivity|]. destruct W2 as [W2|W2].
      - destruct (rawdup_dup S attrs [] (Forall_nil _) Hnc W2) as [K|K].
        + right. right. left. exact K.
        + right. right. right. cbn [map] in K. rewrite dup_lr_nil in K. exact K.
      - left. exact W2. }
  destruct W as (new & El & F & Lg & I2 & Q2). cbn [rev app] in El, I2. subst new. fold ds in Lg, I2. fold L in I2.
  rewrite U1 in Q2.
  pose proof (wf_deferred_spec c s2 L l attrs Hc I2 F) as Df.
  destruct (wf_resolveDeferred c s2 l) as [xs|e].
  2:{ destruct Df as [D1 D2]. split; [exact D1|]. intros _. rewrite Hsp, and4_false; [reflexivity|].
      destruct (has_dup (map (akey S) attrs)) eqn:Hd; [right; right; right; reflexivity|].
      right. right. left. rewrite <- (map_ext _ _ (fun a => attr_ns_ext L S (ra_pfx a) (Hdich S Hd))). exact D2. }
  assert (Hok : pool_ok (sc_uris s2)) by (destruct I2 as (? & _ & H & _); exact H).
  pose proof (built_keys _ _ _ _ Df) as Kx.
  assert (Hdupeq : (if attr_hash_threshold <? length xs then wf_dup_hashed xs [] else wf_dup_pairs xs) = has_dup (map (akey L) attrs)).
  { destruct (attr_hash_threshold <? length xs).
    - rewrite (wf_dup_hashed_spec _ xs _ [] [] Hok Kx (Forall2_nil _)). apply dup_lr_nil.
    - apply (wf_dup_pairs_spec _ xs _ Hok Kx). }
  rewrite Hdupeq.
  destruct (has_dup (map (akey L) attrs)) eqn:HdL.
  { split; [reflexivity|]. intros _. rewrite Hsp, and4_false; [reflexivity|]. right. right. right.
    destruct (has_dup (map (akey S) attrs)) eqn:Hd; [reflexivity|]. exfalso.
    assert (Hk : forall a, akey L a = akey S a)
      by (intros a; unfold akey; rewrite (attr_ns_ext L S _ (Hdich S Hd)); reflexivity).
    rewrite (map_ext _ _ Hk) in HdL. congruence. }
  pose proof (Hdich L HdL) as Heq.
  assert (Hk : forall a, akey L a = akey S a) by (intros a; unfold akey; rewrite (attr_ns_ext L S _ Heq); reflexivity).
  assert (Ha : forall a, attr_ns L (ra_pfx a) = attr_ns S (ra_pfx a)) by (intros a; apply attr_ns_ext; exact Heq).
  pose proof (resolvePrefix_wf0 c s2 L pfx false Hc I2) as P. cbn [ns_of] in P. rewrite (elem_ns_ext L S pfx Heq) in P.
  destruct (resolvePrefix c s2 pfx false) as [uri|e].
  2:{ destruct P as [-> P]. split; [reflexivity|]. intros _. rewrite Hsp, and4_false; [reflexivity|]. right. left. rewrite P. reflexivity. }
  destruct (st_setTop_wf c s2 L uri pfx loc Hc I2) as [I3 U3].
  assert (Hnd : NoDup (map fst ds)) by (apply (decls_nodup L attrs Hwf HdL)).
  split; [exact Hnd|].
  exists (elem_ns S pfx), (map (fun a => attr_ns S (ra_pfx a)) attrs).
  rewrite U3.
  assert (Hbuilt : Forall2 (built_rel (sc_uris s2) S) xs attrs).
  { apply (built_rel_ext _ L S xs attrs Ha Df). }
  split.
  { rewrite Hsp. rewrite Lg, (res_ok_not_unbound _ _ _ P), (built_unbound _ _ _ _ Hbuilt).
    rewrite <- (map_ext _ _ Hk), HdL. reflexivity. }
  split; [exact P|]. split; [exact (built_resok _ _ _ _ Hbuilt)|]. split; [exact (built_triples _ _ _ _ Hbuilt)|].
  split; [exact I3|exact Q2].
Qed.

Lemma startTag_iswf : forall c s pfx loc attrs, iswf c -> startTag c s pfx loc attrs = wf_startTag c s pfx loc attrs.
Proof. intros c s pfx loc attrs H. unfold startTag. rewrite H. reflexivity. Qed.

Lemma wf_startTag_spec : forall c s rows pfx loc attrs, iswf c -> SInvW (c_v11 c) s rows -> Forall wf_attr attrs ->
  match startTag c s pfx loc attrs with
  | Ok (s', uri, xs) =>
    exists e ans, sp_tag (c_v11 c) rows pfx (map sp_of attrs) = Some (e, ans) /\
                  res_ok (sc_uris s') uri e /\ Forall2 (fun x r => res_ok (sc_uris s') (xa_uri x) r) xs ans /\
                  map triple_x xs = map triple_a attrs /\
                  SInvW (c_v11 c) s' (sp_decls (map sp_of attrs) :: rows) /\ exists q, sc_uris s' = sc_uris s ++ q
  | Err e => ns_error e = true /\ (Forall ncname_attr attrs -> sp_tag (c_v11 c) rows pfx (map sp_of attrs) = None)
  end.
Proof.
  intros c s rows pfx loc attrs Hc (R & H0 & Heq) Hwf. rewrite (startTag_iswf _ _ _ _ _ Hc).
  pose proof (wf_startTag_spec0 c s R pfx loc attrs Hc H0 Hwf) as K.
  destruct (wf_startTag c s pfx loc attrs) as [[[s' uri] xs]|e].
  - destruct K as (Hnd & e & ans & K1 & K2 & K3 & K4 & K5 & K6). exists e, ans.
    rewrite <- (sp_tag_eqv _ R rows _ _ Heq). split; [exact K1|]. split; [exact K2|]. split; [exact K3|]. split; [exact K4|].
    split; [|exact K6]. exists (rev (sp_decls (map sp_of attrs)) :: R). split; [exact K5|].
    constructor; [apply rev_row_eqv; exact Hnd|exact Heq].
  - destruct K as [K1 K2]. split; [exact K1|]. intros Hnc. rewrite <- (sp_tag_eqv _ R rows _ _ Heq). apply K2. exact Hnc.
Qed.

Lemma startTag_sound_wf : forall c s rows pfx loc attrs s' uri xs,
  iswf c -> SInvW (c_v11 c) s rows -> Forall wf_attr attrs -> startTag c s pfx loc attrs = Ok (s', uri, xs) ->
  exists e ans, sp_tag (c_v11 c) rows pfx (map sp_of attrs) = Some (e, ans) /\
                res_ok (sc_uris s') uri e /\ Forall2 (fun x r => res_ok (sc_uris s') (xa_uri x) r) xs ans /\
                map triple_x xs = map triple_a attrs /\
                SInvW (c_v11 c) s' (sp_decls (map sp_of attrs) :: rows).
Proof.
  intros c s rows pfx loc attrs s' uri xs Hc HS Hwf H.
  pose proof (wf_startTag_spec c s rows pfx loc attrs Hc HS Hwf) as K. rewrite H in K.
  destruct K as (e & ans & K1 & K2 & K3 & K4 & K5 & _). exists e, ans.
  split; [exact K1|]. split; [exact K2|]. split; [exact K3|]. split; [exact K4|exact K5].
Qed.
Lemma startTag_uris_ext_wf : forall c s rows pfx loc attrs s' uri xs,
  iswf c -> SInvW (c_v11 c) s rows -> Forall wf_attr attrs -> startTag c s pfx loc attrs = Ok (s', uri, xs) ->
  exists q, sc_uris s' = sc_uris s ++ q.
Proof.
  intros c s rows pfx loc attrs s' uri xs Hc HS Hwf H.
  pose proof (wf_startTag_spec c s rows pfx loc attrs Hc HS Hwf) as K. rewrite H in K.
  destruct K as (e & ans & _ & _ & _ & _ & _ & K). exact K.
Qed.
Lemma startTag_rejects_wf : forall c s rows pfx loc attrs,
  iswf c -> SInvW (c_v11 c) s rows -> Forall wf_attr attrs -> sp_tag (c_v11 c) rows pfx (map sp_of attrs) = None ->
  exists e, startTag c s pfx loc attrs = Err e /\ ns_error e = true.
Proof.
  intros c s rows pfx loc attrs Hc HS Hwf H.
  pose proof (wf_startTag_spec c s rows pfx loc attrs Hc HS Hwf) as K.
  destruct (startTag c s pfx loc attrs) as [[[s' uri] xs]|e].
  - destruct K as (e & ans & K & _). congruence.
  - exists e. split; [reflexivity|exact (proj1 K)].
Qed.
Lemma startTag_complete_wf : forall c s rows pfx loc attrs e ans,
  iswf c -> SInvW (c_v11 c) s rows -> Forall ncname_attr attrs ->
  sp_tag (c_v11 c) rows pfx (map sp_of attrs) = Some (e, ans) ->
  exists s' uri xs, startTag c s pfx loc attrs = Ok (s', uri, xs).
Proof.
  intros c s rows pfx loc attrs e ans Hc HS Hnc Hsp.
  pose proof (wf_startTag_spec c s rows pfx loc attrs Hc HS (ncname_wf _ Hnc)) as K.
  destruct (startTag c s pfx loc attrs) as [[[s' uri] xs]|e0].
  - eexists _, _, _. reflexivity.
  - exfalso. destruct K as [_ K]. rewrite (K Hnc) in Hsp. discriminate.
Qed.
Lemma st_pop_wf : forall c s ds rows, iswf c -> SInvW (c_v11 c) s (ds :: rows) ->
  exists uri pfx loc s', st_pop c s = Ok (uri, pfx, loc, s') /\ SInvW (c_v11 c) s' rows /\ sc_uris s' = sc_uris s.
Proof.
  intros c s ds rows Hc (R & H0 & Heq). inversion Heq as [|dR ds' R' rows' Hd Hr]; subst.
  destruct (st_pop_wf0 c s dR R' Hc H0) as (uri & pfx & loc & s' & E & I' & U).
  exists uri, pfx, loc, s'. split; [exact E|]. split; [|exact U]. exists R'. split; [exact I'|exact Hr].
Qed.
Lemma sinvw_init : forall v11, SInvW v11 scan_init [].
Proof. intros v11. exists []. split; [apply sinvw0_init|constructor]. Qed.

(** ** whole documents (the proof of Proofs06f.doc_resolve over the WF invariant) *)
Lemma doc_resolve_wf : forall c ts s rows, iswf c -> SInvW (c_v11 c) s rows -> toks_nc ts ->
  toks_nested ts (length rows) = true ->
  forall s' devs err, scan_toks c s ts = (s', devs, err) ->
  (exists q, sc_uris s' = sc_uris s ++ q) /\
  Forall2 (start_ok (sc_uris s')) (dev_starts devs) (fst (sp_doc (c_v11 c) (map sp_tok_of ts) rows)) /\
  (snd (sp_doc (c_v11 c) (map sp_tok_of ts) rows) = true <-> err <> None) /\
  (forall e, err = Some e -> ns_error e = true).
Proof.
  intros c ts. induction ts as [|t r IH]; intros s rows Hc HS Hnc Hnest s' devs err H.
  - cbn in H. injection H as <- <- <-. cbn. split; [exists []; symmetry; apply app_nil_r|]. split; [constructor|].
    split; [split; [discriminate|congruence]|discriminate].
  - inversion Hnc as [|x l Ht Hr]; subst x l. cbn [scan_toks] in H. cbn [map].
    destruct t as [pfx loc attrs empty| | | |p0 l0 a0 d0 e0]; [| | | |contradiction].
    + (* start tag *)
      cbn [sp_tok_of sp_doc]. cbn [scan_tok] in H. unfold bind in H.
      pose proof (ncname_wf _ Ht) as Hwf.
      destruct (startTag c s pfx loc attrs) as [[[s1 uri] xs]|e0] eqn:Est.
      * destruct (startTag_sound_wf c s rows pfx loc attrs s1 uri xs Hc HS Hwf Est) as (en & ans & Hsp & Re & Ra & _ & I1).
        destruct (startTag_uris_ext_wf c s rows pfx loc attrs s1 uri xs Hc HS Hwf Est) as [q1 Q1].
        rewrite Hsp.
        destruct empty.
        -- destruct (st_pop_wf c s1 _ rows Hc I1) as (u0 & p0 & l0 & s2 & Ep & I2 & U2). rewrite Ep in H.
           destruct (scan_toks c s2 r) as [[s3 evs3] e3] eqn:Er. injection H as <- <- <-.
           cbn [toks_nested] in Hnest.
           destruct (IH s2 rows Hc I2 Hr Hnest s3 evs3 e3 Er) as ([q3 Q3] & F & B & E).
           destruct (sp_doc (c_v11 c) (map sp_tok_of r) rows) as [l bad] eqn:Ed. cbn [fst snd] in *.
           split; [exists (q1 ++ q3); rewrite Q3, U2, Q1, app_assoc; reflexivity|].
           split; [|split; [exact B|exact E]].
           cbn [app dev_starts]. constructor; [|exact F].
           rewrite Q3, U2. apply start_ok_ext. split; [exact Re|exact Ra].
        -- destruct (scan_toks c s1 r) as [[s3 evs3] e3] eqn:Er. injection H as <- <- <-.
           cbn [toks_nested] in Hnest.
           destruct (IH s1 (sp_decls (map sp_of attrs) :: rows) Hc I1 Hr Hnest s3 evs3 e3 Er) as ([q3 Q3] & F & B & E).
           destruct (sp_doc (c_v11 c) (map sp_tok_of r) (sp_decls (map sp_of attrs) :: rows)) as [l bad] eqn:Ed. cbn [fst snd] in *.
           split; [exists (q1 ++ q3); rewrite Q3, Q1, app_assoc; reflexivity|].
           split; [|split; [exact B|exact E]].
           cbn [app dev_starts]. constructor; [|exact F].
           rewrite Q3. apply start_ok_ext. split; [exact Re|exact Ra].
      * injection H as <- <- <-.
        destruct (sp_tag (c_v11 c) rows pfx (map sp_of attrs)) as [[en ans]|] eqn:Hsp.
        -- exfalso. destruct (startTag_complete_wf c s rows pfx loc attrs en ans Hc HS Ht Hsp) as (a & b & d & K). congruence.
        -- destruct (startTag_rejects_wf c s rows pfx loc attrs Hc HS Hwf Hsp) as (e1 & K1 & K2). rewrite Est in K1. injection K1 as <-.
           cbn [fst snd dev_starts]. split; [exists []; symmetry; apply app_nil_r|]. split; [constructor|].
           split; [split; [discriminate|reflexivity]|]. intros e Ee. injection Ee as <-. exact K2.
    + (* end tag *)
      cbn [sp_tok_of sp_doc]. cbn [scan_tok] in H. unfold bind in H. cbn [toks_nested] in Hnest.
      destruct rows as [|ds rows]; [discriminate|]. cbn [length tl] in *.
      destruct (st_pop_wf c s ds rows Hc HS) as (u0 & p0 & l0 & s1 & Ep & I1 & U1). rewrite Ep in H.
      destruct (scan_toks c s1 r) as [[s3 evs3] e3] eqn:Er. injection H as <- <- <-.
      destruct (IH s1 rows Hc I1 Hr Hnest s3 evs3 e3 Er) as ([q3 Q3] & F & B & E).
      split; [exists q3; rewrite Q3, U1; reflexivity|]. split; [exact F|]. split; [exact B|exact E].
    + cbn [sp_tok_of sp_doc]. cbn [scan_tok] in H. cbn [toks_nested] in Hnest.
      destruct (scan_toks c s r) as [[s3 evs3] e3] eqn:Er. injection H as <- <- <-.
      destruct (IH s rows Hc HS Hr Hnest s3 evs3 e3 Er) as (Q & F & B & E).
      split; [exact Q|]. split; [exact F|]. split; [exact B|exact E].
    + cbn [sp_tok_of sp_doc]. cbn [scan_tok] in H. cbn [toks_nested] in Hnest.
      destruct (scan_toks c s r) as [[s3 evs3] e3] eqn:Er. injection H as <- <- <-.
      destruct (IH s rows Hc HS Hr Hnest s3 evs3 e3 Er) as (Q & F & B & E).
      split; [exact Q|]. split; [exact F|]. split; [exact B|exact E].
Qed.

Lemma doc_resolve_wf_init : forall c ts s' devs err, iswf c -> toks_nc ts -> toks_nested ts 0 = true ->
  scan_toks c scan_init ts = (s', devs, err) ->
  Forall2 (start_ok (sc_uris s')) (dev_starts devs) (fst (sp_doc (c_v11 c) (map sp_tok_of ts) [])) /\
  (snd (sp_doc (c_v11 c) (map sp_tok_of ts) []) = true <-> err <> None) /\
  (forall e, err = Some e -> ns_error e = true).
Proof.
  intros c ts s' devs err Hc Hnc Hn H.
  destruct (doc_resolve_wf c ts scan_init [] Hc (sinvw_init (c_v11 c)) Hnc Hn s' devs err H) as (_ & A & B & C).
  split; [exact A|]. split; [exact B|exact C].
Qed.
