(** Property C10 -- identity constraints (unique, key, keyref) are enforced in the value space.
    Only property theorems (closed by [exact] of lemmas from Proofs10*.v, or by [vm_compute] on a witness),
    [Print Assumptions], and non-vacuity examples.
    Spec10.v: XSD Structures 3.11.4 / 3.11.5 over element trees with an abstract value type.
    Model10.v: XPathMatcher, SelectorMatcher, FieldMatcher, ValueStore, ValueStoreCache, IdentityConstraintHandler.
    The matcher theorems T10_xpath_child_only, T10_xpath_sound and T10_fixed_matcher (".//" paths) are proved for all
    trees and paths (Proofs10d-g); the [_bounded] theorems are kept (they additionally cover the fixed matcher on
    paths without ".//" and exactness of ".//" + one step, which are not proved unboundedly).  No theorem relates the
    whole-document run_doc to doc_viols (T10_scope): see checks/meta/C10.json. *)
From Coq Require Import NArith List Bool Arith.
From XV Require Import C10.Spec10 C10.Model10 C10.Values10 C10.Proofs10a C10.Proofs10b C10.Proofs10c C10.Proofs10d C10.Proofs10e C10.Proofs10f C10.Proofs10g C10.Proofs10h C10.Parse10 C10.Proofs10i.
Import ListNotations.

(** *** T10_store: duplicate detection of the value store = clause 4.1 / 4.2.2, for any value type whose equality
    is an equivalence relation, any number of tuples in any order *)

(** the i-th completed tuple is reported as a duplicate iff an earlier completed tuple is equal to it *)
Theorem T10_store_reports_exact : forall (V : Type) (veq : V -> V -> bool),
  (forall x y, veq x y = veq y x) ->
  (forall x y z, veq x y = true -> veq y z = true -> veq x z = true) ->
  forall l : list (otuple V), store_dups V veq l [] = dups_spec V veq l [].
Proof. exact store_reports_exact. Qed.
Print Assumptions T10_store_reports_exact.

(** no duplicate is reported iff the specification's [no_dup_eq] (unique_ok / key_ok) holds of the key-sequences *)
Theorem T10_store : forall (V : Type) (veq : V -> V -> bool),
  (forall x y, veq x y = veq y x) ->
  (forall x y z, veq x y = true -> veq y z = true -> veq x z = true) ->
  forall l : list (list V), forallb negb (store_dups V veq (map (map Some) l) []) = no_dup_eq V veq l.
Proof. exact store_reports_unique_ok. Qed.
Print Assumptions T10_store.

(** the table is a set modulo value equality: lookup after any sequence of puts *)
Theorem T10_store_table : forall (V : Type) (veq : V -> V -> bool),
  (forall x y, veq x y = veq y x) ->
  (forall x y z, veq x y = true -> veq y z = true -> veq x z = true) ->
  forall l acc x, contains V veq (table V veq l acc) x = contains V veq acc x || existsb (otuple_eq V veq x) l.
Proof. exact table_contains. Qed.
Print Assumptions T10_store_table.

(** ValueStore::addValue step: the field completing a tuple triggers exactly one lookup + put; earlier fields nothing *)
Theorem T10_store_add_completes : forall (V : Type) (veq : V -> V -> bool) (vhash : V -> list N) f v (vs : vstore V),
  nth_error (vs_vals V vs) f = Some None -> S (vs_count V vs) = length (vs_vals V vs) ->
  vs_add V veq vhash f v vs =
  Some (mkVS V (vs_ic V vs) (upd_nth f (Some v) (vs_vals V vs)) (length (vs_vals V vs))
             (put_tupleH V veq vhash (upd_nth f (Some v) (vs_vals V vs)) (vs_tuples V vs)),
        containsH V veq vhash (vs_tuples V vs) (upd_nth f (Some v) (vs_vals V vs))).
Proof. exact vs_add_completes. Qed.
Print Assumptions T10_store_add_completes.

Theorem T10_store_add_partial : forall (V : Type) (veq : V -> V -> bool) (vhash : V -> list N) f v (vs : vstore V),
  nth_error (vs_vals V vs) f = Some None -> S (vs_count V vs) < length (vs_vals V vs) ->
  vs_add V veq vhash f v vs =
  Some (mkVS V (vs_ic V vs) (upd_nth f (Some v) (vs_vals V vs)) (S (vs_count V vs)) (vs_tuples V vs), false).
Proof. exact vs_add_partial. Qed.
Print Assumptions T10_store_add_partial.

(** *** hash buckets (RefHashTableOf<FieldValueMap, ICValueHasher>): when equal values have equal hash keys the bucketed
    lookup / insertion of the model is the plain search the theorems above talk about ... *)
Theorem T10_hash_transparent : forall (V : Type) (veq : V -> V -> bool),
  (forall x y, veq x y = veq y x) ->
  (forall x y z, veq x y = true -> veq y z = true -> veq x z = true) ->
  forall vhash : V -> list N, (forall x y, veq x y = true -> vhash x = vhash y) ->
  (forall tuples t, containsH V veq vhash tuples t = contains V veq tuples t) /\
  (forall t tuples, put_tupleH V veq vhash t tuples = put_tuple V veq t tuples).
Proof. intros V veq S T vhash H. split; [exact (containsH_is_contains V veq vhash H)|exact (put_tupleH_is_put_tuple V veq vhash H)]. Qed.
Print Assumptions T10_hash_transparent.

(** ... and hash_respects_eq holds for the modelled types: values identified by ICValueHasher::isDuplicateOf, and
    values equal in the value space, have the same hash key (canonical form w.r.t. the most generic base type),
    whatever their derivation depth (integer vs int vs a user restriction, decimal vs long, token vs NCName ...) *)
Theorem T10_hash_respects_eq : forall a b, kind_of (cv_ty a) <> TNone -> kind_of (cv_ty b) <> TNone ->
  ceq a b = true -> chash a = chash b.
Proof. exact chash_respects_ceq. Qed.
Print Assumptions T10_hash_respects_eq.
Theorem T10_hash_respects_value_space : forall a b, kind_of (cv_ty a) <> TNone -> kind_of (cv_ty b) <> TNone ->
  cv_raw a <> [] -> cv_raw b <> [] -> spec_veq a b = true -> chash a = chash b.
Proof. exact chash_respects_spec_veq. Qed.
Print Assumptions T10_hash_respects_value_space.
Example hash_examples :
  let v := value_of [] in
  chash (v TInt [43;49]%N) = chash (v (TDer TInt 2) [48;49]%N) /\            (* integer +1, int 01 *)
  chash (v TDec [49;46;48]%N) = chash (v (TDer TInt 1) [49]%N) /\            (* decimal 1.0, long 1 *)
  chash (v (TDer TTok 10) [32;97]%N) = chash (v TTok [97;32]%N) /\           (* NCName " a", token "a " *)
  chash (v TInt [49]%N) <> chash (v TStr [49]%N).
Proof. vm_compute. repeat split; try reflexivity. discriminate. Qed.

(** *** T10_keyref_order: the keyref verdict is the set-level statement of clause 4.3, hence independent of the
    document order of keys and references and of the number of (equal) tuples *)
Theorem T10_keyref_sets : forall (V : Type) (veq : V -> V -> bool),
  (forall x, veq x x = true) -> (forall x y, veq x y = veq y x) ->
  (forall x y z, veq x y = true -> veq y z = true -> veq x z = true) ->
  forall keys refs, keyref_missing V veq keys refs = [] <->
                    (forall r, In r refs -> exists k, In k keys /\ otuple_eq V veq r k = true).
Proof. exact keyref_verdict_sets. Qed.
Print Assumptions T10_keyref_sets.

Theorem T10_keyref_order : forall (V : Type) (veq : V -> V -> bool),
  (forall x, veq x x = true) -> (forall x y, veq x y = veq y x) ->
  (forall x y z, veq x y = true -> veq y z = true -> veq x z = true) ->
  forall keys keys' refs refs',
  (forall x, In x keys <-> In x keys') -> (forall x, In x refs <-> In x refs') ->
  (keyref_missing V veq keys refs = [] <-> keyref_missing V veq keys' refs' = []).
Proof. exact keyref_order_independent. Qed.
Print Assumptions T10_keyref_order.

(** non-vacuity: a key after its references, duplicates among the references, permuted *)
Example keyref_order_example :
  keyref_missing nat Nat.eqb [[Some 1]; [Some 2]] [[Some 2]; [Some 2]; [Some 1]] = [] /\
  keyref_missing nat Nat.eqb [[Some 2]; [Some 1]; [Some 2]] [[Some 1]; [Some 2]] = [] /\
  keyref_missing nat Nat.eqb [[Some 1]] [[Some 2]; [Some 1]; [Some 2]] = [[Some 2]].
Proof. vm_compute. auto. Qed.

(** *** the XPath matcher *)

(** F14: the streaming matcher keeps one position per location path.  Selector .//a/a/b (a = 1, b = 100) on the
    context element c(0) with the chain a/a/a/b: the specification selects the b, the matcher does not. *)
Definition f14_path : spath := mkSpath true [NTName 1; NTName 1; NTName 100] None.
Definition f14_leaf : tree nat := Node 100%N [] true false 0 [].
Definition f14_tree : tree nat := Node 0%N [] false false 0 [Node 1%N [] false false 0 [Node 1%N [] false false 0
                                  [Node 1%N [] false false 0 [f14_leaf]]]].
Theorem T10_xpath_refuted :
  exists (p : spath) (t : tree nat), sel_eval nat [p] t <> matcher_selects nat false false (compile_path p) t.
Proof. exists f14_path, f14_tree. vm_compute. discriminate. Qed.
Print Assumptions T10_xpath_refuted.

(** the same witness is handled by the repaired (set-of-positions) matcher: the defect switch of F14 *)
Example f14_fixed : matcher_selects nat true false (compile_path f14_path) f14_tree = sel_eval nat [f14_path] f14_tree.
Proof. vm_compute. reflexivity. Qed.

(** F26: the step after ".//" is tested against the context element itself *)
Theorem T10_xpath_context_refuted :
  exists (p : spath) (t : tree nat), sel_eval nat [p] t = [] /\ matcher_selects nat false false (compile_path p) t = [[]].
Proof. exists (mkSpath true [NTName 0] None), (Node 0%N [] false false 0 [Node 1%N [] false false 0 []]). vm_compute. auto. Qed.
Print Assumptions T10_xpath_context_refuted.

(** T10_xpath_child_only (unbounded): for every tree and every list of child steps (no ".//"), the streaming matcher
    as written (startElement/endElement driven over the tree, SelectorMatcher's value-scope trigger) selects exactly
    the specification's node set, in the same order *)
Theorem T10_xpath_child_only : forall (V : Type) (steps : list ntest) (t : tree V),
  matcher_selects V false false (compile_path (mkSpath false steps None)) t = sel_path V (mkSpath false steps None) t.
Proof. exact matcher_child_only_exact. Qed.
Print Assumptions T10_xpath_child_only.
Example child_only_nontrivial :
  sel_path nat (mkSpath false [NTName 1; NTAny] None)
           (Node 0%N [] false false 0 [Node 1%N [] false false 0 [Node 2%N [] false false 0 []; Node 3%N [] false false 0 []];
                                       Node 2%N [] false false 0 [Node 2%N [] false false 0 []]]) = [[0; 0]; [0; 1]].
Proof. vm_compute. reflexivity. Qed.

(** T10_fixed_matcher (unbounded, ".//" paths): the repaired set-of-positions matcher (fixed = true) -- the defect switch
    that attributes failing inputs to F14/F26 -- selects exactly the specification's node set for every tree and every
    path  .//s1/.../sn  (n >= 1).  (For paths without ".//" the faithful matcher is already exact, T10_xpath_child_only;
    the fixed matcher on those paths is covered by T10_fixed_matcher_bounded only.) *)
Theorem T10_fixed_matcher : forall (V : Type) (s1 : ntest) (r0 : list ntest) (t : tree V) (x : addr),
  In x (matcher_selects V true false (compile_path (mkSpath true (s1 :: r0) None)) t) <->
  In x (sel_path V (mkSpath true (s1 :: r0) None) t).
Proof. exact fixed_matcher_desc. Qed.
Print Assumptions T10_fixed_matcher.

(** T10_xpath_sound (unbounded): the streaming matcher as written never starts a value scope at an element outside the
    specification's node set, for every tree and every path .//s1/.../sn -- provided the context element is not itself
    matched by s1 (exactly the class of finding F26, see T10_xpath_context_refuted).  Together with T10_xpath_refuted
    (F14: it can miss nodes) this pins the matcher's behaviour on ".//" paths: a subset, not always the whole set. *)
Theorem T10_xpath_sound : forall (V : Type) (s1 : ntest) (r0 : list ntest) (t : tree V) (x : addr),
  ntest_ok s1 (t_name t) = false ->
  In x (matcher_selects V false false (compile_path (mkSpath true (s1 :: r0) None)) t) ->
  In x (sel_path V (mkSpath true (s1 :: r0) None) t).
Proof. exact matcher_sound_desc. Qed.
Print Assumptions T10_xpath_sound.
Example sound_nontrivial :
  let t := Node 0%N [] false false 0 [Node 1%N [] false false 0 [Node 100%N [] true false 0 []; Node 1%N [] false false 0 [Node 100%N [] true false 0 []]]] in
  ntest_ok (NTName 1) (t_name t) = false /\
  matcher_selects nat false false (compile_path (mkSpath true [NTName 1; NTName 100] None)) t = [[0; 0]] /\
  sel_path nat (mkSpath true [NTName 1; NTName 100] None) t = [[0; 0]; [0; 1; 0]].     (* sound, a strict subset here *)
Proof. vm_compute. auto. Qed.

(** PARTIAL (bounded-exhaustive, not the unbounded claim): over all 484 trees of [universe] and all 39 step lists
    of 1..3 steps over {name 1, name 2, *}: *)
(** without ".//" the streaming matcher selects exactly the specification's node set *)
Theorem T10_xpath_child_only_bounded : check_child_only = true.
Proof. exact check_child_only_ok. Qed.
Print Assumptions T10_xpath_child_only_bounded.
(** ".//" followed by one step is exact when the context element is not itself matched by the step *)
Theorem T10_xpath_desc_simple_bounded : check_desc_one_step = true.
Proof. exact check_desc_one_step_ok. Qed.
Print Assumptions T10_xpath_desc_simple_bounded.
(** in general (".//" + up to three steps, same guard) the matcher never selects a node outside the node set *)
Theorem T10_xpath_sound_bounded : check_sound = true.
Proof. exact check_sound_ok. Qed.
Print Assumptions T10_xpath_sound_bounded.
(** the repaired matcher (fixed = true) selects exactly the specification's node set, with and without ".//" *)
Theorem T10_fixed_matcher_bounded : check_fixed = true.
Proof. exact check_fixed_ok. Qed.
Print Assumptions T10_fixed_matcher_bounded.
Example universe_nontrivial : length universe = 484 /\ length step_lists = 39.
Proof. exact universe_size. Qed.

(** *** value space: lexically different forms of equal values are equal, different values are not *)
Definition lex (s : list N) := s.
Example value_space_examples :
  let v := value_of [] in
  ceq (v TDec [49;46;48]%N) (v TDec [49;46;48;48]%N) = true /\            (* 1.0 = 1.00 *)
  ceq (v TInt [43;49]%N) (v TInt [49]%N) = true /\                         (* +1 = 1 *)
  ceq (v TInt [49]%N) (v TDec [48;49;46;48]%N) = true /\                   (* integer 1 = decimal 01.0 *)
  ceq (v TStr [49]%N) (v TInt [49]%N) = false /\                           (* string "1" <> integer 1 *)
  ceq (v TTok [32;97;32;32;98]%N) (v TTok [97;32;98]%N) = true /\          (* token " a  b" = "a b" *)
  ceq (v TStr [32;97]%N) (v TStr [97]%N) = false /\                        (* string " a" <> "a" *)
  ceq (v TDec [45;48;46;48]%N) (v TDec [48]%N) = true.                     (* -0.0 = 0 *)
Proof. vm_compute. repeat split; reflexivity. Qed.

(** on non-empty values ICValueHasher::isDuplicateOf (ceq) is the value-space equality of the specification *)
Theorem T10_ceq_value_space : forall a b, kind_of (cv_ty a) <> TNone -> kind_of (cv_ty b) <> TNone -> cv_raw a <> [] -> cv_raw b <> [] ->
  ceq a b = spec_veq a b.
Proof.
  intros a b Ha Hb Ra Rb. unfold ceq, spec_veq.
  destruct (kind_of (cv_ty a)) eqn:Ea; try (exfalso; apply Ha; reflexivity);
  destruct (kind_of (cv_ty b)) eqn:Eb; try (exfalso; apply Hb; reflexivity);
  destruct (cv_raw a); try (exfalso; apply Ra; reflexivity); destruct (cv_raw b); try (exfalso; apply Rb; reflexivity);
  reflexivity.
Qed.
Print Assumptions T10_ceq_value_space.

(** *** reporting gate (F13, repaired by 55dbcfa): with the gate off nothing is ever reported *)
Example gate_off_reports_nothing :
  let dup := Node 0%N [] false false (value_of [] TNone []) [Node 1%N [(0%N, value_of [] TStr [97%N])] false false (value_of [] TNone []) [];
                                                              Node 1%N [(0%N, value_of [] TStr [97%N])] false false (value_of [] TNone []) []] in
  let sch := [(0%N, mkIC KKey 0 9999 [mkSpath false [NTName 1] None] [[mkSpath false [] (Some (NTName 0))]])] in
  model_doc false false false sch dup = [] /\ model_doc false false true sch dup = [E_DuplicateKey] /\ spec_doc sch dup = [V_DupKey].
Proof. vm_compute. auto. Qed.

(** *** multi-field key-sequences: one value scope of ValueStore (startValueScope, addValue per field in ANY document order
    of the field nodes, endValueScope).  [fv] gives per field the value of its single node or None (absent);
    [ord] is the order in which the present fields are handed over. *)

(** general form: fValues ends up as [fv]; the table is consulted and extended exactly once, by the completing field, and
    only when every field is present; all other addValue calls report nothing *)
Theorem T10_scope_tuple : forall (V : Type) (veq : V -> V -> bool) (vhash : V -> list N) (fv : otuple V) ord T ic,
  NoDup ord -> (forall f, In f ord <-> exists v, nth_error fv f = Some (Some v)) ->
  let complete := (0 <? length ord) && (length ord =? length fv) in
  adds_run V veq vhash ord fv (mkVS V ic (repeat None (length fv)) 0 T) =
  Some (mkVS V ic fv (length ord) (if complete then put_tupleH V veq vhash fv T else T),
        expected_flags (length ord) (if complete then containsH V veq vhash T fv else false)).
Proof. exact scope_run_spec. Qed.
Print Assumptions T10_scope_tuple.

(** every field present (any number of fields, any order): one lookup of the whole tuple, then it is stored *)
Theorem T10_scope_complete : forall (V : Type) (veq : V -> V -> bool) (vhash : V -> list N) (tu : list V) ord T ic,
  tu <> [] -> NoDup ord -> (forall f, In f ord <-> f < length tu) ->
  adds_run V veq vhash ord (map Some tu) (mkVS V ic (repeat None (length tu)) 0 T) =
  Some (mkVS V ic (map Some tu) (length tu) (put_tupleH V veq vhash (map Some tu) T),
        repeat false (length tu - 1) ++ [containsH V veq vhash T (map Some tu)]).
Proof. exact scope_complete. Qed.
Print Assumptions T10_scope_complete.

(** some field absent: nothing is looked up or stored (a unique with an absent field is not in the qualified node set) and
    fewer values than fields are counted -- which is what endValueScope turns into IC_AbsentKeyValue /
    IC_KeyNotEnoughValues for a key (T10_scope_end) *)
Theorem T10_scope_incomplete : forall (V : Type) (veq : V -> V -> bool) (vhash : V -> list N) (fv : otuple V) ord T ic a,
  nth_error fv a = Some None ->
  NoDup ord -> (forall f, In f ord <-> exists v, nth_error fv f = Some (Some v)) ->
  adds_run V veq vhash ord fv (mkVS V ic (repeat None (length fv)) 0 T) =
  Some (mkVS V ic fv (length ord) T, expected_flags (length ord) false) /\ length ord < length fv.
Proof. exact scope_incomplete. Qed.
Print Assumptions T10_scope_incomplete.

Theorem T10_scope_end : forall (V : Type) (report : bool) (ics : list mic) icx depth sid (s : st V),
  lookup2 icx depth (s_ic2vs V s) = Some sid ->
  s_errs V (end_value_scope V report ics icx depth s) =
  (if report then rev (end_scope_codes (m_k (ic_at ics icx)) (vs_count V (store_at V s sid))
                                       (length (m_flds (ic_at ics icx)))) else []) ++ s_errs V s.
Proof. exact end_value_scope_spec. Qed.
Print Assumptions T10_scope_end.
Theorem T10_scope_end_codes :
  (forall n, 0 < n -> end_scope_codes KKey n n = []) /\
  (forall c n, c < n -> exists e, end_scope_codes KKey c n = [e]) /\
  (forall c n, end_scope_codes KUnique c n = [] /\ end_scope_codes KKeyRef c n = []).
Proof. split; [exact end_scope_key_complete|split; [exact end_scope_key_incomplete|exact end_scope_unique]]. Qed.
Example scope_examples :
  (* two fields handed over in reverse order; second node repeats the tuple: reported by the completing field only *)
  adds_run nat Nat.eqb (fun _ => []) [1; 0] [Some 7; Some 8] (mkVS nat 0 [None; None] 0 [[Some 7; Some 8]])
  = Some (mkVS nat 0 [Some 7; Some 8] 2 [[Some 7; Some 8]], [false; true]) /\
  adds_run nat Nat.eqb (fun _ => []) [1] [None; Some 8] (mkVS nat 0 [None; None] 0 [[Some 7; Some 8]])
  = Some (mkVS nat 0 [None; Some 8] 1 [[Some 7; Some 8]], [false]) /\
  end_scope_codes KKey 1 2 = [E_KeyNotEnoughValues] /\ end_scope_codes KKey 0 2 = [E_AbsentKeyValue].
Proof. vm_compute. auto. Qed.

(** *** key tables handed upwards (ValueStore::append in ValueStoreCache::transplant / ::endElement): the merged table
    is the union of both tables modulo value equality -- nothing lost, nothing invented.  (Structures 3.11.5 additionally
    DROPS key-sequences that occur in two child scopes: the union keeps them, which is finding F29, T10_cache_merge_refuted.) *)
Theorem T10_cache_merge_union : forall (V : Type) (veq : V -> V -> bool),
  (forall x y, veq x y = veq y x) -> (forall x y z, veq x y = true -> veq y z = true -> veq x z = true) ->
  forall vhash : V -> list N, (forall x y, veq x y = true -> vhash x = vhash y) ->
  forall src dst x,
  containsH V veq vhash (append_tuples V veq vhash dst src) x = true <->
  containsH V veq vhash dst x = true \/ containsH V veq vhash src x = true.
Proof. exact append_union. Qed.
Print Assumptions T10_cache_merge_union.
(** F29 on the model of the whole document: key 'a' in two child scopes, keyref on the ancestor accepted; the specification
    demands the violation *)
Definition f29_leaf (nm : N) : tree cval := Node nm [] true false (value_of [] TStr [97%N]) [].
Definition f29_tree : tree cval :=
  let e := value_of [] TNone [] in
  Node 0%N [] false false e [Node 1%N [] false false e [f29_leaf 100]; Node 1%N [] false false e [f29_leaf 100]; f29_leaf 101].
Definition f29_schema : schema :=
  [(1%N, mkIC KKey 0 9999 [mkSpath false [NTName 100] None] [[mkSpath false [] None]]);
   (0%N, mkIC KKeyRef 1 0 [mkSpath false [NTName 101] None] [[mkSpath false [] None]])].
Theorem T10_cache_merge_refuted :
  model_doc false false true f29_schema f29_tree = [] /\ spec_doc f29_schema f29_tree = [V_KeyRefNotFound].
Proof. vm_compute. auto. Qed.
Print Assumptions T10_cache_merge_refuted.

(** *** the XPath reader (XPathScanner::scanExpression + XercesXPath::parseExpression, Parse10.v) *)
(** what the model needs of the tables regenerated from XercesXPath.cpp / XMLChar.cpp on every run *)
Theorem T10_xpath_tables : tables_ok = true.
Proof. exact xp_tables_ok. Qed.
Print Assumptions T10_xpath_tables.

(** token level, all expressions of the grammar (any number of union members, steps, '.', '*', NCName:*, QNames, child:: /
    attribute:: / '@', leading './/'): parseExpression raises no error and yields exactly the location paths denoted, given
    that the prefixes are declared -- for the repaired reader (fxns = true) unconditionally, for the code as written outside
    the class of F35 (first step NCName:* followed by a further step).  PARTIAL: the character level (scanExpression produces
    xpath_toks from xpath_text for every placement of white space) is covered by the correspondence, not by a theorem. *)
Theorem T10_xpath_parse_partial : forall (bound : list N -> bool) (fxns : bool) (l : list apath) paths0 i0,
  l <> [] -> forallb (apath_wf bound) l = true -> (fxns = false -> forallb (fun p => negb (ns_first p)) l = true) ->
  parse bound fxns (xpath_toks l) i0 true [] paths0 = POk (fold_left add_path (map expect_path l) paths0).
Proof. exact parse_grammar. Qed.
Print Assumptions T10_xpath_parse_partial.
Example xpath_parse_nontrivial :
  let b := f35_bound in
  let l := [mkAP true [AChild true (ANName (Some [116%N]) [97%N]); ASelf; AAttr false ANAny];
            mkAP false [ASelf; AChild false ANAny]; mkAP false [AChild false ANAny]] in
  forallb (apath_wf b) l = true /\ forallb (fun p => negb (ns_first p)) l = true /\
  xpath_of_string b false false (xpath_text [32%N; 9%N] l) = POk (expect_xpath l) /\ length (expect_xpath l) = 2.
Proof. vm_compute. auto. Qed.

(** F35: the code as written rejects the grammatical selector  t:*/a  (XPath_NoSelectionOfRoot); the repaired reader reads it *)
Theorem T10_xpath_parse_refuted :
  forallb (apath_wf f35_bound) f35_xpath = true /\
  parse f35_bound false (xpath_toks f35_xpath) true true [] [] = PErr X_NoSelectionOfRoot /\
  xpath_of_string f35_bound false true (xpath_text [] f35_xpath) = PErr X_NoSelectionOfRoot /\
  xpath_of_string f35_bound true true (xpath_text [32%N] f35_xpath) = POk (expect_xpath f35_xpath).
Proof. exact f35_refuted. Qed.
Print Assumptions T10_xpath_parse_refuted.
(** the reader is lenient outside the grammar: a period followed by white space and a name is silently dropped (". a" is read
    as "a"), and an attribute step may be followed by further steps ("@a/b") *)
Example xpath_reader_lenient :
  xpath_of_string f35_bound false false [46; 32; 97]%N = POk [[XSelf; XChild (XNName None [97%N])]] /\
  xpath_of_string f35_bound false false [64; 97; 47; 98]%N = POk [[XSelf; XAttr (XNName None [97%N]); XChild (XNName None [98%N])]].
Proof. vm_compute. auto. Qed.
