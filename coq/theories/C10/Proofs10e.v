(** Unbounded theorem for the streaming matcher without ".//": for every tree and every list of child steps,
    XPathMatcher/SelectorMatcher (as written, fixed = false) selects exactly the specification's node set. *)
From Coq Require Import NArith List Bool Arith Lia.
From XV Require Import C10.Spec10 C10.Model10 C10.Proofs10d.
Import ListNotations.

Section CHILD.
Variable V : Type.

Lemma skip_stop : forall f p c fuel, f (step_at p c) = false -> skip f p c fuel = c.
Proof. intros f p c [|fuel] H; cbn [skip]; [reflexivity|]. rewrite H, andb_false_r. reflexivity. Qed.

Lemma fst_p_start_false : forall p s nm (ats : list (N * V)),
  fst (p_start V false false p s nm ats) = fst (p_start_faithful V p s nm ats).
Proof. intros. unfold p_start. destruct (p_start_faithful V p s nm ats). reflexivity. Qed.

(** startElement in the middle of a child-only match: the element is tested against step [k] *)
Lemma pstart_live : forall p k stk0 nm (ats : list (N * V)) sk,
  k < length p -> step_at p k = SChild sk ->
  (S k < length p -> exists s2, step_at p (S k) = SChild s2) ->
  p_start_faithful V p (mkPst k stk0 0 0) nm ats =
  if ntest_ok sk nm
  then (if S k =? length p then (mkPst (S k) (k :: stk0) 0 1, None) else (mkPst (S k) (k :: stk0) 0 0, None))
  else (mkPst k (k :: stk0) 1 0, None).
Proof.
  intros p k stk0 nm ats sk Hk Hs Hn. unfold p_start_faithful, mkPst. cbn [cur stk nom mat].
  change ((N.land 0 5 =? 1)%N || (0 <? 0)) with false. cbn iota.
  change (N.land 0 5 =? 5)%N with false. cbn iota.
  rewrite (skip_stop is_self) by (rewrite Hs; reflexivity).
  rewrite (skip_stop is_desc) by (rewrite Hs; reflexivity).
  assert (E1 : (k =? length p) = false) by (apply Nat.eqb_neq; lia). rewrite E1.
  rewrite Nat.eqb_refl, Nat.ltb_irrefl. cbn [orb]. rewrite Hs.
  destruct (ntest_ok sk nm); [|reflexivity].
  destruct (Nat.eqb_spec (S k) (length p)) as [E|E]; [reflexivity|].
  destruct Hn as [s2 H2]; [lia|]. rewrite H2. reflexivity.
Qed.

(** startElement on the context element *)
Lemma pstart_ctx : forall q stk0 nm (ats : list (N * V)),
  (forall i, i < length q -> exists s, nth i q SSelf = SChild s) ->
  p_start_faithful V (SSelf :: q) (mkPst 0 stk0 0 0) nm ats =
  match q with [] => (mkPst 1 (0 :: stk0) 0 1, None) | _ => (mkPst 1 (0 :: stk0) 0 0, None) end.
Proof.
  intros q stk0 nm ats Hq. unfold p_start_faithful, mkPst. cbn [cur stk nom mat].
  change ((N.land 0 5 =? 1)%N || (0 <? 0)) with false. cbn iota.
  change (N.land 0 5 =? 5)%N with false. cbn iota.
  destruct q as [|s0 q]; [reflexivity|].
  destruct (Hq 0) as [s Hs]; [cbn; lia|]. cbn in Hs. subst s0.
  set (p := SSelf :: SChild s :: q).
  assert (L : length p = S (S (length q))) by reflexivity.
  assert (S1 : skip is_self p 0 (length p) = 1).
  { rewrite L. cbn [skip]. rewrite L. change (step_at p 0) with SSelf. cbn [Nat.ltb Nat.leb is_self andb].
    reflexivity. }
  rewrite S1.
  assert (S2 : skip is_desc p 1 (length p) = 1) by (apply skip_stop; reflexivity).
  rewrite S2, L. cbn [Nat.eqb Nat.ltb Nat.leb orb].
  destruct q as [|s1 q]; [reflexivity|].
  destruct (Hq 1) as [s' Hs']; [cbn; lia|]. cbn in Hs'. subst s1. reflexivity.
Qed.

(** *** a subtree in which nothing can match any more (below a failed step, or below a matched element) is
    traversed without any selection and leaves the matcher state as it was *)
Lemma pstart_dead : forall p s nm (ats : list (N * V)),
  (N.land (mat s) 5 =? 1)%N || (0 <? nom s) = true ->
  p_start_faithful V p s nm ats = (mkPst (cur s) (cur s :: stk s) (S (nom s)) (mat s), None).
Proof. intros p s nm ats H. unfold p_start_faithful. rewrite H. reflexivity. Qed.

Definition dead_state (s : pst) (ed : nat) (md : option nat) : Prop :=
  alt s = [] /\ (N.land (mat s) 5 =? 1)%N || (0 <? nom s) = true /\ sel_trigger (mat s) md = false /\
  (forall x, md = Some x -> x <= ed).

Lemma dead_run : forall p (t : tree V) a s ed md,
  dead_state s ed md -> sel_run V false false p t a (s, ed, md) = ((s, ed, md), []).
Proof.
  intros p t. induction t as [nm ats sm nl v ks IH] using tree_ind2. intros a s ed md [Ha [Hd [Ht Hm]]].
  rewrite sel_run_unfold. unfold sel_node. rewrite fst_p_start_false, (pstart_dead p s nm ats Hd). cbn [fst mat mkPst].
  rewrite Ht.
  assert (K : forall l i, Forall (fun t => forall a s ed md, dead_state s ed md ->
                                    sel_run V false false p t a (s, ed, md) = ((s, ed, md), [])) l ->
              forall s' ed' md', dead_state s' ed' md' ->
              sel_kids V false p i l a (s', ed', md') = ((s', ed', md'), [])).
  { induction l as [|k rest IHl]; intros i F s' ed' md' D; cbn [sel_kids]; [reflexivity|].
    inversion F as [|? ? F1 F2]; subst. rewrite (F1 _ _ _ _ D). rewrite (IHl _ F2 _ _ _ D). reflexivity. }
  rewrite (K ks 0 IH).
  - cbn [fst snd app]. unfold p_end, p_end_faithful, mkPst. cbn [nom stk cur mat hd tl Nat.ltb Nat.leb pred].
    destruct s as [c st n m al]. cbn in Ha. subst al. cbn [cur stk nom mat].
    assert (E : match md with Some x => if x =? S ed then None else md | None => None end = md).
    { destruct md as [x|]; [|reflexivity]. specialize (Hm x eq_refl).
      destruct (Nat.eqb_spec x (S ed)); [lia|reflexivity]. }
    rewrite E. reflexivity.
  - unfold dead_state, mkPst. cbn [alt mat nom]. repeat split.
    + rewrite orb_true_r. reflexivity.
    + exact Ht.
    + intros x E. specialize (Hm x E). lia.
Qed.

Lemma dead_kids : forall p (l : list (tree V)) i a s ed md,
  dead_state s ed md -> sel_kids V false p i l a (s, ed, md) = ((s, ed, md), []).
Proof.
  induction l as [|k rest IHl]; intros i a s ed md D; cbn [sel_kids]; [reflexivity|].
  rewrite (dead_run p k (i :: a) s ed md D), (IHl _ _ _ _ _ D). reflexivity.
Qed.

Lemma step_at_child : forall done s r,
  step_at (SSelf :: map SChild (done ++ s :: r)) (S (length done)) = SChild s.
Proof.
  intros. unfold step_at. cbn [nth]. rewrite map_app, app_nth2; rewrite map_length; [|lia].
  rewrite Nat.sub_diag. reflexivity.
Qed.

Lemma imap_ext : forall (A B : Type) (f g : nat -> A -> list B) l i,
  (forall j x, f j x = g j x) -> imap f i l = imap g i l.
Proof. induction l as [|x l IH]; intros i H; cbn; [reflexivity|]. rewrite H, (IH _ H). reflexivity. Qed.

(** the children of an element whose matcher state expects the steps [s2 :: r2] next *)
Lemma live_kids : forall p (f : tree V -> list addr) (l : list (tree V)) i a st,
  Forall (fun k => forall a, sel_run V false false p k a st = (st, map (app (rev a)) (f k))) l ->
  sel_kids V false p i l a st = (st, map (app (rev a)) (imap (fun j k => map (cons j) (f k)) i l)).
Proof.
  induction l as [|k rest IHl]; intros i a st F; cbn [sel_kids imap map]; [reflexivity|].
  inversion F as [|? ? F1 F2]; subst. rewrite F1, (IHl _ _ _ F2). f_equal.
  rewrite map_app. f_equal. rewrite map_map. apply map_ext. intros x. cbn [rev]. rewrite <- app_assoc. reflexivity.
Qed.

(** the matcher in the middle of a child-only path: [done] steps are matched by the ancestors, [s :: r] remain *)
Lemma live_run : forall steps (t : tree V) done s r a stk0 ed,
  steps = done ++ s :: r ->
  sel_run V false false (SSelf :: map SChild steps) t a (mkPst (S (length done)) stk0 0 0, ed, None) =
  ((mkPst (S (length done)) stk0 0 0, ed, None), map (app (rev a)) (mf V (s :: r) t)).
Proof.
  intros steps t. induction t as [nm ats sm nl v ks IH] using tree_ind2. intros done s r a stk0 ed E.
  set (p := SSelf :: map SChild steps). set (k := S (length done)).
  assert (Lp : length p = S (length done + S (length r))).
  { unfold p. cbn [length]. rewrite map_length, E, app_length. reflexivity. }
  rewrite sel_run_unfold. unfold sel_node. rewrite fst_p_start_false.
  rewrite (pstart_live p k stk0 nm ats s).
  - unfold mf. cbn [t_name]. destruct (ntest_ok s nm) eqn:Ok.
    + destruct r as [|s2 r2].
      * (* last step: the element is selected, everything below is dead *)
        cbn [length] in Lp.
        assert (Ek : (S k =? length p) = true) by (apply Nat.eqb_eq; unfold k; lia). rewrite Ek. cbn [fst mat mkPst].
        change (sel_trigger 1 None) with true. cbn iota.
        rewrite dead_kids.
        2:{ unfold dead_state, mkPst. cbn [alt mat nom]. repeat split. intros x Hx. inversion Hx. lia. }
        cbn [fst snd]. unfold p_end, p_end_faithful, mkPst. cbn [nom stk cur mat hd tl Nat.ltb Nat.leb pred].
        change (1 =? 0)%N with false. change (N.land 1 3 =? 3)%N with false. cbn iota. cbn [fst].
        rewrite Nat.eqb_refl. cbn [eval_steps map app]. rewrite app_nil_r. reflexivity.
      * assert (Ek : (S k =? length p) = false) by (apply Nat.eqb_neq; unfold k; cbn [length] in Lp; lia). rewrite Ek.
        cbn [fst mat mkPst]. change (sel_trigger 0 None) with false. cbn iota.
        rewrite (live_kids p (mf V (s2 :: r2))).
        2:{ apply Forall_forall. intros kid Hin a'. rewrite Forall_forall in IH.
            assert (E2 : steps = (done ++ [s]) ++ s2 :: r2) by (rewrite <- app_assoc; exact E).
            replace (S k) with (S (length (done ++ [s]))) by (rewrite app_length; cbn; unfold k; lia).
            apply (IH kid Hin (done ++ [s]) s2 r2 a' (k :: stk0) (S ed) E2). }
        cbn [fst snd app]. unfold p_end, p_end_faithful, mkPst. cbn [nom stk cur mat hd tl Nat.ltb Nat.leb pred].
        change (0 =? 0)%N with true. cbn iota. cbn [fst]. f_equal. f_equal.
        cbn [eval_steps t_kids]. apply imap_ext. intros j x. unfold mf. destruct (ntest_ok s2 (t_name x)); reflexivity.
    + (* the step fails: nothing below can match *)
      cbn [fst mat mkPst]. change (sel_trigger 0 None) with false. cbn iota.
      rewrite dead_kids.
      2:{ unfold dead_state, mkPst. cbn [alt mat nom]. repeat split. intros x Hx. discriminate. }
      cbn [fst snd app map]. unfold p_end, p_end_faithful, mkPst. cbn [nom stk cur mat hd tl Nat.ltb Nat.leb pred]. reflexivity.
  - unfold k. lia.
  - unfold p, k. rewrite E. apply step_at_child.
  - intros Hlt. destruct r as [|s2 r2]; [unfold k in Hlt; cbn [length] in Lp; lia|]. exists s2.
    unfold p, k. rewrite E. replace (done ++ s :: s2 :: r2) with ((done ++ [s]) ++ s2 :: r2) by (rewrite <- app_assoc; reflexivity).
    replace (S (S (length done))) with (S (length (done ++ [s]))) by (rewrite app_length; cbn; lia). apply step_at_child.
Qed.

Lemma map_app_nil : forall l : list addr, map (app []) l = l.
Proof. intros l. rewrite <- (map_id l) at 2. apply map_ext. reflexivity. Qed.

Lemma compile_child_only : forall steps, compile_path (mkSpath false steps None) = SSelf :: map SChild steps.
Proof. intros. unfold compile_path. cbn. rewrite app_nil_r. reflexivity. Qed.

Lemma nth_map_child : forall steps i, i < length (map SChild steps) -> exists s, nth i (map SChild steps) SSelf = SChild s.
Proof.
  intros steps i H. rewrite map_length in H. exists (nth i steps NTAny).
  rewrite (nth_indep _ SSelf (SChild NTAny)) by (rewrite map_length; exact H). apply map_nth.
Qed.

(** T10_xpath_child_only: without ".//" the streaming matcher selects exactly (same nodes, same order) the
    specification's node set, for every tree and every list of steps *)
Theorem matcher_child_only_exact : forall steps (t : tree V),
  matcher_selects V false false (compile_path (mkSpath false steps None)) t = sel_path V (mkSpath false steps None) t.
Proof.
  intros steps [nm ats sm nl v ks]. unfold matcher_selects. rewrite compile_child_only, sel_run_unfold.
  unfold sel_node, pst0. rewrite fst_p_start_false, (pstart_ctx (map SChild steps) [] nm ats (nth_map_child steps)).
  unfold sel_path, ctx_addrs. cbn [sp_desc sp_steps flat_map subtree]. rewrite app_nil_r, map_app_nil.
  destruct steps as [|s r].
  - cbn [map fst mat mkPst]. change (sel_trigger 1 None) with true. cbn iota.
    rewrite dead_kids.
    2:{ unfold dead_state, mkPst. cbn [alt mat nom]. repeat split. intros x Hx. inversion Hx. lia. }
    reflexivity.
  - cbn [map fst mat mkPst]. change (sel_trigger 0 None) with false. cbn iota.
    rewrite (live_kids (SSelf :: SChild s :: map SChild r) (mf V (s :: r))).
    2:{ apply Forall_forall. intros kid _ a'. exact (live_run (s :: r) kid [] s r a' [0] 1 eq_refl). }
    cbn [fst snd app rev]. rewrite map_app_nil. cbn [eval_steps t_kids]. apply imap_ext.
    intros j x. unfold mf. destruct (ntest_ok s (t_name x)); reflexivity.
Qed.

End CHILD.
