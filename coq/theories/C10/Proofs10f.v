(** The repaired (set-of-positions) matcher -- the defect switch of findings F14/F26 -- selects exactly the
    specification's node set for every ".//" path and every tree. *)
From Coq Require Import NArith List Bool Arith Lia.
From XV Require Import C10.Spec10 C10.Model10 C10.Proofs10d.
Import ListNotations.

Section FIXED.
Variable V : Type.
Variable s1 : ntest.
Variable r0 : list ntest.
Let steps := s1 :: r0.
Let p : path := SSelf :: SDesc :: map SChild steps.
Let size := length p.

Definition advf (pos : list nat) (nm : N) : list nat :=
  flat_map (fun c => match step_at p c with SChild nt => if ntest_ok nt nm then [S c] else [] | _ => [] end) pos.
Definition heref (pos : list nat) (nm : N) : list nat := nodup Nat.eq_dec (advf pos nm ++ [2]).
Definition matf (pos : list nat) (nm : N) : N := if existsb (fun c => c =? size) (advf pos nm) then 5%N else 0%N.

Lemma step_not_attr : forall c nt, step_at p c <> SAttr nt.
Proof.
  intros c nt. unfold step_at, p. destruct c as [|[|c]]; cbn [nth]; try discriminate.
  destruct (le_lt_dec (length (map SChild steps)) c) as [H|H].
  - rewrite nth_overflow by exact H. discriminate.
  - rewrite (nth_indep _ SSelf (SChild NTAny)) by exact H. rewrite map_nth. discriminate.
Qed.

Lemma no_vals : forall (ats : list (N * V)) (l : list nat),
  flat_map (fun c => match step_at p c with
                     | SAttr nt => if S c =? length p then attr_values V nt ats else []
                     | _ => [] end) l = [].
Proof.
  intros ats l. induction l as [|c l IH]; cbn [flat_map]; [reflexivity|]. rewrite IH, app_nil_r.
  destruct (step_at p c) eqn:E; try reflexivity. exfalso. exact (step_not_attr c t E).
Qed.

Lemma pf_start_child : forall s nm (ats : list (N * V)) pos m0 rest,
  alt s = (pos, m0) :: rest ->
  pf_start V p s nm ats =
  (mkPstA (cur s) (stk s) (nom s) (matf pos nm) ((heref pos nm, matf pos nm) :: alt s), []).
Proof.
  intros s nm ats pos m0 rest H. unfold pf_start. rewrite H. change (is_desc (step_at p 1)) with true. cbn iota.
  fold (advf pos nm). fold (heref pos nm). rewrite no_vals. unfold matf, size.
  destruct (existsb (fun c => c =? length p) (advf pos nm)); reflexivity.
Qed.

Lemma pf_start_ctx : forall s nm (ats : list (N * V)),
  alt s = [] -> pf_start V p s nm ats = (mkPstA (cur s) (stk s) (nom s) 0 [([2], 0%N)], []).
Proof.
  intros s nm ats H. unfold pf_start. rewrite H. change (is_desc (step_at p 1)) with true. cbn iota.
  rewrite no_vals. cbn [existsb]. replace (2 =? length p) with false; [reflexivity|].
  symmetry. apply Nat.eqb_neq. unfold p, steps. cbn [length map]. lia.
Qed.

Lemma skipn_cons : forall (A : Type) (l : list A) j x, nth_error l j = Some x -> skipn j l = x :: skipn (S j) l.
Proof.
  induction l as [|y l IH]; intros [|j] x H; cbn in H; try discriminate.
  - inversion H. reflexivity.
  - cbn [skipn]. rewrite (IH j x H). reflexivity.
Qed.
Lemma skipn_head : forall (A : Type) (l : list A) j x r, skipn j l = x :: r -> nth_error l j = Some x /\ r = skipn (S j) l.
Proof.
  induction l as [|y l IH]; intros [|j] x r H; cbn in H; try discriminate.
  - inversion H. split; reflexivity.
  - apply IH in H. exact H.
Qed.

Lemma skipn_nil_len : forall (A : Type) (l : list A) j, skipn j l = [] -> length l <= j.
Proof. induction l as [|y l IH]; intros [|j] H; cbn in *; try discriminate; try lia. apply IH in H. lia. Qed.

Lemma step_child_iff : forall c nt, step_at p c = SChild nt <-> 2 <= c /\ nth_error steps (c - 2) = Some nt.
Proof.
  intros c nt. destruct c as [|[|j]].
  - split; [discriminate|intros [H _]; lia].
  - split; [discriminate|intros [H _]; lia].
  - replace (S (S j) - 2) with j by lia. unfold step_at, p. cbn [nth]. split.
    + intros H. split; [lia|]. destruct (nth_error steps j) as [x|] eqn:E.
      * assert (E2 : nth_error (map SChild steps) j = Some (SChild x)) by (rewrite nth_error_map, E; reflexivity).
        rewrite (nth_error_nth _ _ SSelf E2) in H. inversion H. reflexivity.
      * apply nth_error_None in E. rewrite nth_overflow in H by (rewrite map_length; exact E). discriminate.
    + intros [_ E]. apply nth_error_nth. rewrite nth_error_map, E. reflexivity.
Qed.

Definition suffix (c : nat) : list ntest := skipn (c - 2) steps.

(** what is selected at or below a child candidate [t] whose parent's position set is [pos] *)
Definition Sel (pos : list nat) (t : tree V) (a' : addr) : Prop :=
  (exists c, In c pos /\ 2 <= c /\ In a' (mf V (suffix c) t)) \/ In a' (sel_path V (pd steps) t).

Lemma in_advf : forall pos nm c', In c' (advf pos nm) <->
  exists c nt, In c pos /\ step_at p c = SChild nt /\ ntest_ok nt nm = true /\ c' = S c.
Proof.
  intros pos nm c'. unfold advf. rewrite in_flat_map. split.
  - intros [c [Hc H]]. destruct (step_at p c) as [| |nt|nt] eqn:E; try destruct H.
    destruct (ntest_ok nt nm) eqn:Ok; [|destruct H]. destruct H as [H|[]]. exists c, nt. auto.
  - intros [c [nt [Hc [E [Ok Ec]]]]]. exists c. split; [exact Hc|]. rewrite E, Ok. left. auto.
Qed.

Lemma in_heref : forall pos nm c', In c' (heref pos nm) <-> In c' (advf pos nm) \/ c' = 2.
Proof.
  intros. unfold heref. rewrite nodup_In, in_app_iff. cbn [In]. split; intros [H|H]; auto.
  - destruct H as [H|[]]; auto.
Qed.

Lemma steps_len : size = S (S (length steps)).
Proof. unfold size, p. cbn [length]. rewrite map_length. reflexivity. Qed.

(** the element itself is selected iff some position completes the path *)
Lemma matched_iff : forall pos (t : tree V),
  In size (advf pos (t_name t)) <-> exists c, In c pos /\ 2 <= c /\ In [] (mf V (suffix c) t).
Proof.
  intros pos t. rewrite in_advf. split.
  - intros [c [nt [Hc [E [Ok Es]]]]]. apply step_child_iff in E as [H2 E]. exists c. split; [exact Hc|]. split; [exact H2|].
    unfold suffix. rewrite (skipn_cons _ _ _ _ E). unfold mf. rewrite Ok.
    rewrite steps_len in Es. rewrite skipn_all2 by lia. cbn. auto.
  - intros [c [Hc [H2 H]]]. unfold suffix, mf in H. destruct (skipn (c - 2) steps) as [|nt r'] eqn:E; [destruct H|].
    destruct (ntest_ok nt (t_name t)) eqn:Ok; [|destruct H].
    apply skipn_head in E as [E Er]. exists c, nt. split; [exact Hc|]. split; [apply step_child_iff; auto|]. split; [exact Ok|].
    destruct r' as [|s2 r2].
    + assert (L : length steps <= S (c - 2)) by (apply skipn_nil_len; symmetry; exact Er).
      assert (L2 : c - 2 < length steps) by (apply nth_error_Some; rewrite E; discriminate).
      rewrite steps_len. lia.
    + exfalso. cbn [eval_steps] in H. apply in_imap in H as [j [k [_ H]]].
      destruct (ntest_ok s2 (t_name k)); [|destruct H]. apply in_map_iff in H as [x [Hx _]]. discriminate.
Qed.

(** one level down: what [t]'s position set selects below child [j] is what the child's position set selects *)
Lemma sel_down : forall pos (t : tree V) j kid a'',
  nth_error (t_kids t) j = Some kid ->
  (Sel pos t (j :: a'') <-> Sel (heref pos (t_name t)) kid a'').
Proof.
  intros pos t j kid a'' Hk. unfold Sel. split.
  - intros [[c [Hc [H2 H]]]|H].
    + unfold suffix, mf in H. destruct (skipn (c - 2) steps) as [|nt r'] eqn:E; [destruct H|].
      destruct (ntest_ok nt (t_name t)) eqn:Ok; [|destruct H].
      apply skipn_head in E as [E Er].
      destruct r' as [|s2 r2]; [cbn in H; destruct H as [H|[]]; discriminate|].
      apply in_eval_steps in H as [j' [k' [a3 [H1 [H3 H4]]]]]. inversion H3; subst j' a3.
      rewrite Hk in H1. inversion H1; subst k'.
      left. exists (S c). split.
      * apply in_heref. left. apply in_advf. exists c, nt. split; [exact Hc|]. split; [apply step_child_iff; auto|]. auto.
      * split; [lia|]. unfold suffix. replace (S c - 2) with (S (c - 2)) by lia. rewrite <- Er. exact H4.
    + apply sel_desc_char in H as [j' [k' [a3 [H1 [H3 H4]]]]]. inversion H3; subst j' a3.
      rewrite Hk in H1. inversion H1; subst k'. destruct H4 as [H4|H4]; [|right; exact H4].
      left. exists 2. split; [apply in_heref; right; reflexivity|]. split; [lia|]. exact H4.
  - intros [[c' [Hc' [H2 H]]]|H].
    + apply in_heref in Hc' as [Hc'|Hc'].
      * apply in_advf in Hc' as [c [nt [Hc [E [Ok Ec]]]]]. subst c'. apply step_child_iff in E as [H2c E].
        left. exists c. split; [exact Hc|]. split; [exact H2c|]. unfold suffix. rewrite (skipn_cons _ _ _ _ E).
        unfold mf at 1. rewrite Ok. unfold suffix in H. replace (S c - 2) with (S (c - 2)) in H by lia.
        destruct (skipn (S (c - 2)) steps) as [|s2 r2] eqn:E2; [destruct H|].
        apply in_eval_steps. exists j, kid, a''. auto.
      * subst c'. right. apply sel_desc_char. exists j, kid, a''. split; [exact Hk|]. split; [reflexivity|]. left. exact H.
    + right. apply sel_desc_char. exists j, kid, a''. auto.
Qed.

Lemma sel_has_kid : forall pos (t : tree V) j a'', Sel pos t (j :: a'') -> exists kid, nth_error (t_kids t) j = Some kid.
Proof.
  intros pos t j a'' [[c [Hc [H2 H]]]|H].
  - unfold mf in H. destruct (suffix c) as [|nt r']; [destruct H|]. destruct (ntest_ok nt (t_name t)); [|destruct H].
    destruct r' as [|s2 r2]; [cbn in H; destruct H as [H|[]]; discriminate|].
    apply in_eval_steps in H as [j' [k' [a3 [H1 [H3 _]]]]]. inversion H3; subst. eauto.
  - apply sel_desc_char in H as [j' [k' [a3 [H1 [H3 _]]]]]. inversion H3; subst. eauto.
Qed.

Lemma sel_nil_not_desc : forall (t : tree V), ~ In [] (sel_path V (pd steps) t).
Proof. intros t H. apply sel_desc_char in H as [j [k [a' [_ [H _]]]]]. discriminate. Qed.

Lemma trig_matf : forall pos nm md, sel_trigger (matf pos nm) md = existsb (fun c => c =? size) (advf pos nm).
Proof. intros. unfold matf. destruct (existsb _ _); destruct md; reflexivity. Qed.

Definition run_spec (t : tree V) : Prop :=
  forall a s ed md pos m0 rest, alt s = (pos, m0) :: rest ->
  exists s' md' out, sel_run V true false p t a (s, ed, md) = ((s', ed, md'), out) /\ alt s' = alt s /\
    (forall x, In x out <-> exists a', x = rev a ++ a' /\ Sel pos t a').

Lemma fixed_kids : forall (l : list (tree V)) i a s ed md pos m0 rest,
  Forall run_spec l -> alt s = (pos, m0) :: rest ->
  exists s' md' out, sel_kids V true p i l a (s, ed, md) = ((s', ed, md'), out) /\ alt s' = alt s /\
    (forall x, In x out <-> exists j kid a'', nth_error l j = Some kid /\ x = rev a ++ (i + j) :: a'' /\ Sel pos kid a'').
Proof.
  induction l as [|k l IHl]; intros i a s ed md pos m0 rest F Ha.
  - exists s, md, []. cbn [sel_kids]. split; [reflexivity|]. split; [reflexivity|]. intros x. split; [intros []|].
    intros [j [kid [a'' [H _]]]]. destruct j; discriminate.
  - inversion F as [|? ? F1 F2]; subst.
    destruct (F1 (i :: a) s ed md pos m0 rest Ha) as [s' [md' [out1 [E1 [A1 O1]]]]].
    assert (Ha' : alt s' = (pos, m0) :: rest) by (rewrite A1; exact Ha).
    destruct (IHl (S i) a s' ed md' pos m0 rest F2 Ha') as [s'' [md'' [out2 [E2 [A2 O2]]]]].
    exists s'', md'', (out1 ++ out2). cbn [sel_kids]. rewrite E1, E2. split; [reflexivity|]. split; [rewrite A2; exact A1|].
    intros x. rewrite in_app_iff, O1, O2. split.
    + intros [[a' [Ex H]]|[j [kid [a'' [H1 [Ex H]]]]]].
      * exists 0, k, a'. split; [reflexivity|]. split; [|exact H]. rewrite Ex. cbn [rev]. rewrite <- app_assoc, Nat.add_0_r. reflexivity.
      * exists (S j), kid, a''. split; [exact H1|]. split; [|exact H]. rewrite Ex. rewrite Nat.add_succ_r. reflexivity.
    + intros [[|j] [kid [a'' [H1 [Ex H]]]]].
      * left. cbn in H1. inversion H1; subst kid. exists a''. split; [|exact H]. rewrite Ex. cbn [rev]. rewrite <- app_assoc, Nat.add_0_r. reflexivity.
      * right. exists j, kid, a''. split; [exact H1|]. split; [|exact H]. rewrite Ex, Nat.add_succ_r. reflexivity.
Qed.

Lemma fixed_run : forall t : tree V, run_spec t.
Proof.
  intros t. induction t as [nm ats sm nl v ks IH] using tree_ind2. intros a s ed md pos m0 rest Ha.
  rewrite sel_run_unfold. unfold sel_node, p_start. cbn iota. rewrite (pf_start_child s nm ats pos m0 rest Ha). cbn [fst mat].
  rewrite trig_matf.
  set (q1 := mkPstA (cur s) (stk s) (nom s) (matf pos nm) ((heref pos nm, matf pos nm) :: alt s)).
  set (md1 := if existsb (fun c => c =? size) (advf pos nm) then Some (S ed) else md).
  destruct (fixed_kids ks 0 a q1 (S ed) md1 (heref pos nm) (matf pos nm) (alt s) IH eq_refl) as [s2 [md2 [kout [E [A O]]]]].
  rewrite E. cbn [fst snd]. unfold p_end, pf_end. rewrite A. unfold q1. cbn [alt fst pred].
  eexists _, _, _. split; [reflexivity|]. split; [reflexivity|].
  intros x. rewrite in_app_iff, O. split.
  - intros [H|[j [kid [a'' [H1 [Ex H]]]]]].
    + destruct (existsb (fun c => c =? size) (advf pos nm)) eqn:M; [|destruct H]. destruct H as [H|[]].
      apply existsb_exists in M as [c [Hc Ec]]. apply Nat.eqb_eq in Ec. subst c.
      exists []. split; [rewrite app_nil_r; symmetry; exact H|]. left.
      apply (matched_iff pos (Node nm ats sm nl v ks)). exact Hc.
    + exists (j :: a''). split; [exact Ex|]. apply (sel_down pos (Node nm ats sm nl v ks) j kid a'' H1). exact H.
  - intros [[|j a''] [Ex H]].
    + left. assert (M : In size (advf pos nm)).
      { apply (matched_iff pos (Node nm ats sm nl v ks)). destruct H as [H|H]; [exact H|]. exfalso. exact (sel_nil_not_desc _ H). }
      assert (M2 : existsb (fun c => c =? size) (advf pos nm) = true).
      { apply existsb_exists. exists size. split; [exact M|apply Nat.eqb_refl]. }
      rewrite M2. left. rewrite Ex, app_nil_r. reflexivity.
    + right. destruct (sel_has_kid pos _ j a'' H) as [kid Hk]. exists j, kid, a''. split; [exact Hk|]. split; [exact Ex|].
      apply (sel_down pos (Node nm ats sm nl v ks) j kid a'' Hk). exact H.
Qed.

(** T10_fixed_matcher for ".//" paths: the repaired matcher selects exactly the specification's node set *)
Theorem fixed_desc_exact : forall (t : tree V) x,
  In x (matcher_selects V true false p t) <-> In x (sel_path V (pd steps) t).
Proof.
  intros [nm ats sm nl v ks] x. unfold matcher_selects. rewrite sel_run_unfold. unfold sel_node, p_start, pst0. cbn iota.
  rewrite (pf_start_ctx (mkPst 0 [] 0 0) nm ats eq_refl). cbn [fst mat]. change (sel_trigger 0 None) with false. cbn iota.
  set (q1 := mkPstA (cur (mkPst 0 [] 0 0)) (stk (mkPst 0 [] 0 0)) (nom (mkPst 0 [] 0 0)) 0 [([2], 0%N)]).
  assert (F : Forall run_spec ks) by (apply Forall_forall; intros k _; apply fixed_run).
  destruct (fixed_kids ks 0 [] q1 1 None [2] 0%N [] F eq_refl) as [s2 [md2 [kout [E [A O]]]]].
  rewrite E. cbn [fst snd app]. rewrite O. cbn [rev app Nat.add]. split.
  - intros [j [kid [a'' [H1 [Ex H]]]]]. apply (sel_desc_char V s1 r0). exists j, kid, a''. split; [exact H1|]. split; [exact Ex|].
    destruct H as [[c [Hc [_ H]]]|H]; [|right; exact H]. destruct Hc as [Hc|[]]. subst c. left. exact H.
  - intros H. apply (sel_desc_char V s1 r0) in H as [j [kid [a'' [H1 [Ex H]]]]]. exists j, kid, a''.
    split; [exact H1|]. split; [exact Ex|].
    destruct H as [H|H]; [|right; exact H]. left. exists 2. split; [left; reflexivity|]. split; [lia|]. exact H.
Qed.

End FIXED.

Lemma compile_desc : forall s1 r0, compile_path (mkSpath true (s1 :: r0) None) = SSelf :: SDesc :: map SChild (s1 :: r0).
Proof. intros. unfold compile_path. cbn [sp_desc sp_steps sp_attr app]. rewrite app_nil_r. reflexivity. Qed.

Theorem fixed_matcher_desc : forall (V : Type) s1 r0 (t : tree V) x,
  In x (matcher_selects V true false (compile_path (mkSpath true (s1 :: r0) None)) t) <->
  In x (sel_path V (mkSpath true (s1 :: r0) None) t).
Proof. intros. rewrite compile_desc. apply fixed_desc_exact. Qed.
