(** hash_respects_eq for the modelled field types: values that ICValueHasher::isDuplicateOf identifies have the same
    hash key (so the bucket lookup of RefHashTableOf never hides an equal tuple). *)
From Coq Require Import NArith List Bool Arith.
From XV Require Import C10.Spec10 C10.Model10 C10.Values10.
Import ListNotations.
Local Open Scope N_scope.

Lemma leqb_eq : forall a b, leqb a b = true -> a = b.
Proof.
  induction a as [|x a IH]; destruct b as [|y b]; cbn; try discriminate; [reflexivity|].
  intros H. apply andb_true_iff in H as [H1 H2]. apply N.eqb_eq in H1. rewrite H1, (IH _ H2). reflexivity.
Qed.

Lemma chash_typed : forall a, kind_of (cv_ty a) <> TNone ->
  chash a = if is_nil_list (cv_raw a) then [0; type_code (cv_ty a)] else fam (cv_ty a) :: cv_canon a.
Proof. intros a H. unfold chash. destruct (kind_of (cv_ty a)); try reflexivity. exfalso; apply H; reflexivity. Qed.

Lemma ceq_typed : forall a b, kind_of (cv_ty a) <> TNone -> kind_of (cv_ty b) <> TNone ->
  ceq a b = if is_nil_list (cv_raw a) && is_nil_list (cv_raw b) then vtype_eqb (cv_ty a) (cv_ty b)
            else if is_nil_list (cv_raw a) || is_nil_list (cv_raw b) then false
            else (fam (cv_ty a) =? fam (cv_ty b)) && leqb (cv_canon a) (cv_canon b).
Proof.
  intros a b Ha Hb. unfold ceq.
  destruct (kind_of (cv_ty a)); try (exfalso; apply Ha; reflexivity);
  destruct (kind_of (cv_ty b)); try (exfalso; apply Hb; reflexivity); reflexivity.
Qed.

Theorem chash_respects_ceq : forall a b, kind_of (cv_ty a) <> TNone -> kind_of (cv_ty b) <> TNone ->
  ceq a b = true -> chash a = chash b.
Proof.
  intros a b Ha Hb H. rewrite (ceq_typed a b Ha Hb) in H. rewrite (chash_typed a Ha), (chash_typed b Hb).
  destruct (is_nil_list (cv_raw a)), (is_nil_list (cv_raw b)); cbn in H; try discriminate.
  - unfold vtype_eqb in H. apply N.eqb_eq in H. rewrite H. reflexivity.
  - apply andb_true_iff in H as [H1 H2]. apply N.eqb_eq in H1. apply leqb_eq in H2. rewrite H1, H2. reflexivity.
Qed.

(** and value-space equality of the specification implies the same hash key on non-empty typed values *)
Theorem chash_respects_spec_veq : forall a b, kind_of (cv_ty a) <> TNone -> kind_of (cv_ty b) <> TNone ->
  cv_raw a <> [] -> cv_raw b <> [] -> spec_veq a b = true -> chash a = chash b.
Proof.
  intros a b Ha Hb Ra Rb H. apply chash_respects_ceq; try assumption. rewrite (ceq_typed a b Ha Hb).
  destruct (cv_raw a); [exfalso; apply Ra; reflexivity|]. destruct (cv_raw b); [exfalso; apply Rb; reflexivity|].
  exact H.
Qed.
