(** Executable model of the selector/field XPath reader of xerces-c (no proofs here), following
    src/xercesc/validators/schema/identity/XercesXPath.cpp:
      XPathScanner::scanExpression + XPathScannerForSchema::addToken      -> [scan]
      XPathScanner::scanNCName                                            -> [scan_ncname]
      XercesXPath::parseExpression (+ checkForSelectedAttributes)         -> [parse], [xpath_of_string]
    Characters are UTF-16 units ([N]).  The character tables come from Gen/GenC10XPath.v, regenerated from the source on
    every check (fASCIICharMap, CHARTYPE_*, the tokens the schema scanner lets pass, isFirstNCNameChar / isNCNameChar).
    Also here (independent of the C++): the abstract syntax of the selector/field grammar of XML Schema Structures 3.11.6
    with the unabbreviated axes xerces-c accepts ([apath]), its token form [toks_of_xpath] / text form [print_xpath] and
    the location paths it denotes ([expect_xpath]). *)
From Coq Require Import NArith List Bool Arith String.
From XV Require Import Gen.GenC10XPath.
Import ListNotations.
Local Open Scope N_scope.

Definition in_ranges (c : N) (l : list (N * N)) : bool := existsb (fun r => (fst r <=? c) && (c <=? snd r)) l.
Definition nc_first (c : N) : bool := in_ranges c xp_nc_first.
Definition nc_char (c : N) : bool := in_ranges c xp_nc_char.
Definition chartype (c : N) : N := if c <? 128 then nth (N.to_nat c) xp_ascii_char_map 0 else xp_ct_nonascii.
(** XMLChar1_0::isWhitespace *)
Definition is_ws (c : N) : bool := (c =? 32) || (c =? 9) || (c =? 10) || (c =? 13).
Definition is_digit (c : N) : bool := (48 <=? c) && (c <=? 57).

Fixpoint nl_eq (a b : list N) : bool :=
  match a, b with [], [] => true | x :: r, y :: s => (x =? y) && nl_eq r s | _, _ => false end.

(** the tokens XPathScannerForSchema::addToken lets pass (QName / NCName:* carry their string-pool handles) *)
Inductive tok := KAt | KAxisAttr | KAxisChild | KDColon | KQName (pre : option (list N)) (loc : list N)
               | KNsAny (pre : list N) | KSlash | KDSlash | KPeriod | KAny | KUnion.

Inductive xerr := X_TokenNotSupported | X_InvalidChar | X_NoUnionAtStart | X_NoMultipleUnion | X_MissingAttr
                | X_ExpectedToken1 | X_PrefixNoURI | X_NoDoubleColon | X_ExpectedStep1 | X_ExpectedStep2
                | X_NoForwardSlash | X_NoDoubleForwardSlash | X_NoForwardSlashAtStart | X_NoSelectionOfRoot
                | X_ExpectedStep3 | X_EmptyExpr | X_NoUnionAtEnd | X_NoAttrSelector | X_Internal.

Definition supported (name : string) : bool := existsb (String.eqb name) xp_schema_tokens.

Fixpoint skip_ws (l : list N) : list N :=
  match l with c :: r => if is_ws c then skip_ws r else l | [] => [] end.
Fixpoint span_nc (l : list N) : list N * list N :=
  match l with
  | c :: r => if nc_char c then let '(a, b) := span_nc r in (c :: a, b) else ([], l)
  | [] => ([], [])
  end.
(** XPathScanner::scanNCName: the name read (empty = offset unchanged) and what follows *)
Definition scan_ncname (l : list N) : list N * list N :=
  match l with
  | c :: r => if nc_first c then let '(a, b) := span_nc r in (c :: a, b) else ([], l)
  | [] => ([], [])
  end.

Definition s_attribute : list N := [97; 116; 116; 114; 105; 98; 117; 116; 101].
Definition s_child : list N := [99; 104; 105; 108; 100].

Inductive sres := SOk (l : list tok) | SErr (e : xerr).

(** addToken: the token passes only when the schema scanner supports it *)
Definition emit_tok (name : string) (t : list tok) (acc : list tok) (k : list tok -> sres) : sres :=
  if supported name then k (t ++ acc) else SErr X_TokenNotSupported.

(** XPathScanner::scanExpression; [star] = starIsMultiplyOperator; [acc] = the tokens so far, reversed *)
Fixpoint scan (fuel : nat) (l : list N) (star : bool) (acc : list tok) : sres :=
  match fuel with
  | O => SErr X_Internal
  | S k =>
    match skip_ws l with
    | [] => SOk (rev acc)
    | c :: r =>
      let ct := chartype c in
      if ct =? xp_ct_period then
        match r with
        | [] => emit_tok "PERIOD" [KPeriod] acc (scan k [] true)
        | d :: _ =>
          if d =? 46 then SErr X_TokenNotSupported                       (* '..' *)
          else if is_digit d then SErr X_TokenNotSupported               (* a number *)
          else if (d =? 47) || (d =? 124) then emit_tok "PERIOD" [KPeriod] acc (scan k r true)
          else if is_ws d then
            match skip_ws r with
            | [] => emit_tok "PERIOD" [KPeriod] acc (scan k [] true)
            | e :: r2 => if (e =? 124) || (e =? 47) then emit_tok "PERIOD" [KPeriod] acc (scan k (e :: r2) true)
                         else scan k (e :: r2) star acc                  (* the period is dropped *)
            end
          else SErr X_InvalidChar
        end
      else if ct =? xp_ct_atsign then emit_tok "ATSIGN" [KAt] acc (scan k r false)
      else if ct =? xp_ct_colon then
        match r with
        | d :: r2 => if d =? 58 then emit_tok "DOUBLE_COLON" [KDColon] acc (scan k r2 false) else SErr X_TokenNotSupported
        | [] => SErr X_TokenNotSupported
        end
      else if ct =? xp_ct_slash then
        match r with
        | d :: r2 => if d =? 47 then emit_tok "OPERATOR_DOUBLE_SLASH" [KDSlash] acc (scan k r2 false)
                     else emit_tok "OPERATOR_SLASH" [KSlash] acc (scan k r false)
        | [] => emit_tok "OPERATOR_SLASH" [KSlash] acc (scan k [] false)
        end
      else if ct =? xp_ct_union then emit_tok "OPERATOR_UNION" [KUnion] acc (scan k r false)
      else if ct =? xp_ct_star then
        if star then SErr X_TokenNotSupported else emit_tok "NAMETEST_ANY" [KAny] acc (scan k r true)
      else if (ct =? xp_ct_letter) || (ct =? xp_ct_underscore) || (ct =? xp_ct_nonascii) then
        let '(nm, r1) := scan_ncname (c :: r) in
        match nm with
        | [] => SErr X_TokenNotSupported
        | _ =>
          (* kind: 0 = (Q)Name, 1 = NCName:*, 2 = NCName:: ; None = scan error *)
          let q : option (nat * option (list N) * list N * list N) :=
              match r1 with
              | 58 :: [] => None
              | 58 :: 42 :: r3 => Some (1%nat, None, nm, r3)
              | 58 :: 58 :: r3 => Some (2%nat, None, nm, r3)
              | 58 :: r3 => let '(loc, r4) := scan_ncname r3 in
                            match loc with [] => None | _ => Some (0%nat, Some nm, loc, r4) end
              | _ => Some (0%nat, None, nm, r1)
              end in
          match q with
          | None => SErr X_TokenNotSupported
          | Some (kind, pre, loc, r2) =>
            let r5 := skip_ws r2 in
            if star then SErr X_TokenNotSupported                        (* an OperatorName is required here *)
            else if (match r5 with 40 :: _ => true | _ => false end) && (kind =? 0)%nat
                 then SErr X_TokenNotSupported                           (* NodeType / FunctionName *)
            else if (kind =? 2)%nat || (match r5 with 58 :: 58 :: _ => true | _ => false end) then
              let rest := if (kind =? 2)%nat then r5 else tl (tl r5) in
              if (kind =? 1)%nat then SErr X_TokenNotSupported
              else if nl_eq loc s_attribute
                   then emit_tok "AXISNAME_ATTRIBUTE" [KAxisAttr] acc (fun a => emit_tok "DOUBLE_COLON" [KDColon] a (scan k rest false))
              else if nl_eq loc s_child
                   then emit_tok "AXISNAME_CHILD" [KAxisChild] acc (fun a => emit_tok "DOUBLE_COLON" [KDColon] a (scan k rest false))
              else SErr X_TokenNotSupported
            else if (kind =? 1)%nat then emit_tok "NAMETEST_NAMESPACE" [KNsAny loc] acc (scan k r5 true)
            else emit_tok "NAMETEST_QNAME" [KQName pre loc] acc (scan k r5 true)
          end
        end
      else if (ct =? xp_ct_invalid) || (ct =? xp_ct_other) || (ct =? xp_ct_whitespace) then SErr X_InvalidChar
      else SErr X_TokenNotSupported
    end
  end.

(** *** XercesXPath::parseExpression *)
Inductive xnt := XNAny | XNNs (pre : list N) | XNName (pre : option (list N)) (loc : list N).
Inductive xstep := XSelf | XDesc | XChild (t : xnt) | XAttr (t : xnt).

Definition opt_eq (a b : option (list N)) : bool :=
  match a, b with Some x, Some y => nl_eq x y | None, None => true | _, _ => false end.
(** XercesNodeTest::operator== : same type and same QName (prefix text and local part) *)
Definition xnt_eq (a b : xnt) : bool :=
  match a, b with
  | XNAny, XNAny => true | XNNs p, XNNs q => nl_eq p q
  | XNName p l, XNName q m => opt_eq p q && nl_eq l m | _, _ => false end.
Definition xstep_eq (a b : xstep) : bool :=
  match a, b with
  | XSelf, XSelf => true | XDesc, XDesc => true
  | XChild x, XChild y => xnt_eq x y | XAttr x, XAttr y => xnt_eq x y | _, _ => false end.
Fixpoint xpath_eq (a b : list xstep) : bool :=
  match a, b with [] , [] => true | x :: r, y :: s => xstep_eq x y && xpath_eq r s | _, _ => false end.

(** "./" is put in front of a path that does not start with a self step; a path equal to an earlier one is dropped *)
Definition close_path (steps : list xstep) : list xstep :=
  match steps with XSelf :: _ => steps | _ => XSelf :: steps end.
Definition add_path (paths : list (list xstep)) (p : list xstep) : list (list xstep) :=
  if existsb (xpath_eq p) paths then paths else paths ++ [p].

Inductive pres := POk (paths : list (list xstep)) | PErr (e : xerr).

Section PARSE.
Variable bound : list N -> bool.       (* XercesNamespaceResolver::getNamespaceForPrefix(prefix) != fEmptyNamespaceId *)
Variable fxns : bool.                  (* repaired: a leading NCName:* step clears firstTokenOfLocationPath (F35) *)

Definition nametest (t : tok) : option (xerr + xnt) :=
  match t with
  | KAny => Some (inr XNAny)
  | KNsAny p => Some (if bound p then inr (XNNs p) else inl X_PrefixNoURI)
  | KQName None l => Some (inr (XNName None l))
  | KQName (Some p) l => Some (if bound p then inr (XNName (Some p) l) else inl X_PrefixNoURI)
  | _ => None
  end.

Definition finish (steps : list xstep) (paths : list (list xstep)) : pres :=
  match steps with
  | [] => match paths with [] => PErr X_EmptyExpr | _ => PErr X_NoUnionAtEnd end
  | _ => POk (add_path paths (close_path steps))
  end.

(** [i0]: this is token 0; [first] = firstTokenOfLocationPath; [steps] = stepsVector *)
Fixpoint parse (l : list tok) (i0 first : bool) (steps : list xstep) (paths : list (list xstep)) : pres :=
  let attr (r : list tok) : pres :=
      match r with
      | [] => PErr X_MissingAttr
      | t :: r2 => match nametest t with
                   | None => PErr X_ExpectedToken1
                   | Some (inl e) => PErr e
                   | Some (inr nt) => parse r2 false false (steps ++ [XAttr nt]) paths
                   end
      end in
  match l with
  | [] => finish steps paths
  | KUnion :: r =>
    if i0 then PErr X_NoUnionAtStart
    else match steps with
         | [] => PErr X_NoMultipleUnion
         | _ => parse r false true [] (add_path paths (close_path steps))
         end
  | KAxisAttr :: r => match r with _ :: r2 => attr r2 | [] => PErr X_Internal end
  | KAt :: r => attr r
  | KDColon :: _ => PErr X_NoDoubleColon
  | KAxisChild :: r => match r with
                       | _ :: [] => PErr X_ExpectedStep1
                       | _ :: r2 => parse r2 false false steps paths
                       | [] => PErr X_Internal
                       end
  | KAny :: r => parse r false false (steps ++ [XChild XNAny]) paths
  | KNsAny p :: r => if bound p then parse r false (if fxns then false else first) (steps ++ [XChild (XNNs p)]) paths
                     else PErr X_PrefixNoURI
  | KQName pre loc :: r =>
    match nametest (KQName pre loc) with
    | Some (inr nt) => parse r false false (steps ++ [XChild nt]) paths
    | Some (inl e) => PErr e
    | None => PErr X_Internal
    end
  | KPeriod :: r =>
    match first, r with
    | true, KDSlash :: r2 =>
      match r2 with
      | [] => PErr X_ExpectedStep2
      | KSlash :: _ => PErr X_NoForwardSlash
      | _ => parse r2 false false (steps ++ [XSelf; XDesc]) paths
      end
    | _, _ => parse r false false (steps ++ [XSelf]) paths
    end
  | KDSlash :: _ => PErr X_NoDoubleForwardSlash
  | KSlash :: r =>
    if i0 then PErr X_NoForwardSlashAtStart
    else if first then PErr X_NoSelectionOfRoot
    else match r with
         | [] => PErr X_ExpectedStep3
         | KSlash :: _ | KDSlash :: _ | KUnion :: _ => PErr X_ExpectedStep3
         | _ => parse r false false steps paths
         end
  end.

(** XercesXPath::XercesXPath: empty expression = no location path at all; a selector must not select attributes *)
Definition selects_attr (p : list xstep) : bool := match last p XSelf with XAttr _ => true | _ => false end.
Definition xpath_of_string (is_selector : bool) (s : list N) : pres :=
  match s with
  | [] => POk []
  | _ => match scan (S (List.length s)) s false [] with
         | SErr e => PErr e
         | SOk toks => match parse toks true true [] [] with
                       | PErr e => PErr e
                       | POk ps => if is_selector && existsb selects_attr ps then PErr X_NoAttrSelector else POk ps
                       end
         end
  end.
End PARSE.

(** *** the grammar (Structures 3.11.6, plus the unabbreviated child:: / attribute:: forms), independent of the C++ *)
Inductive anm := ANAny | ANNs (p : list N) | ANName (pre : option (list N)) (loc : list N).
Inductive aseg := ASelf | AChild (axis : bool) (n : anm) | AAttr (axis : bool) (n : anm).
Record apath := mkAP { ap_desc : bool; ap_segs : list aseg }.

Definition nm_tok (n : anm) : tok :=
  match n with ANAny => KAny | ANNs p => KNsAny p | ANName pre l => KQName pre l end.
Definition seg_toks (s : aseg) : list tok :=
  match s with
  | ASelf => [KPeriod]
  | AChild ax n => (if ax then [KAxisChild; KDColon] else []) ++ [nm_tok n]
  | AAttr ax n => (if ax then [KAxisAttr; KDColon] else [KAt]) ++ [nm_tok n]
  end.
Fixpoint segs_toks (l : list aseg) : list tok :=
  match l with [] => [] | [s] => seg_toks s | s :: r => seg_toks s ++ KSlash :: segs_toks r end.
Definition path_toks (p : apath) : list tok := (if ap_desc p then [KPeriod; KDSlash] else []) ++ segs_toks (ap_segs p).
Fixpoint xpath_toks (l : list apath) : list tok :=
  match l with [] => [] | [p] => path_toks p | p :: r => path_toks p ++ KUnion :: xpath_toks r end.

(** the location path denoted: self, descendant-or-self after ".//", the steps *)
Definition nm_xnt (n : anm) : xnt := match n with ANAny => XNAny | ANNs p => XNNs p | ANName pre l => XNName pre l end.
Definition seg_step (s : aseg) : xstep :=
  match s with ASelf => XSelf | AChild _ n => XChild (nm_xnt n) | AAttr _ n => XAttr (nm_xnt n) end.
Definition expect_path (p : apath) : list xstep :=
  close_path ((if ap_desc p then [XSelf; XDesc] else []) ++ map seg_step (ap_segs p)).
Definition expect_xpath (l : list apath) : list (list xstep) := fold_left add_path (map expect_path l) [].

(** well-formed w.r.t. the grammar: at least one step; an attribute step only at the end; prefixes declared *)
Definition nm_bound (bound : list N -> bool) (n : anm) : bool :=
  match n with ANAny => true | ANNs p => bound p | ANName (Some p) _ => bound p | ANName None _ => true end.
Definition seg_bound (bound : list N -> bool) (s : aseg) : bool :=
  match s with ASelf => true | AChild _ n => nm_bound bound n | AAttr _ n => nm_bound bound n end.
Fixpoint attr_last (l : list aseg) : bool :=
  match l with [] => true | [_] => true | AAttr _ _ :: _ => false | _ :: r => attr_last r end.
Definition apath_wf (bound : list N -> bool) (p : apath) : bool :=
  negb (match ap_segs p with [] => true | _ => false end) && attr_last (ap_segs p) && forallb (seg_bound bound) (ap_segs p).
(** the class of finding F35: a path whose first step is NCName:* (abbreviated: no child::) and that has further steps *)
Definition ns_first (p : apath) : bool :=
  negb (ap_desc p) && match ap_segs p with AChild false (ANNs _) :: _ :: _ => true | _ => false end.

(** text form: [w] chooses the white space (a list of blanks) put around token number i *)
Definition nm_text (n : anm) : list N :=
  match n with
  | ANAny => [42] | ANNs p => p ++ [58; 42]
  | ANName (Some p) l => p ++ 58 :: l | ANName None l => l end.
Definition seg_text (w : list N) (s : aseg) : list N :=
  match s with
  | ASelf => [46]
  | AChild ax n => (if ax then s_child ++ w ++ [58; 58] ++ w else []) ++ nm_text n
  | AAttr ax n => (if ax then s_attribute ++ w ++ [58; 58] ++ w else 64 :: w) ++ nm_text n
  end.
Fixpoint segs_text (w : list N) (l : list aseg) : list N :=
  match l with [] => [] | [s] => seg_text w s | s :: r => seg_text w s ++ w ++ 47 :: w ++ segs_text w r end.
Definition path_text (w : list N) (p : apath) : list N := (if ap_desc p then [46; 47; 47] ++ w else []) ++ segs_text w (ap_segs p).
Fixpoint xpath_text (w : list N) (l : list apath) : list N :=
  match l with [] => [] | [p] => w ++ path_text w p ++ w | p :: r => w ++ path_text w p ++ w ++ 124 :: xpath_text w r end.
