(** XercesXPath::parseExpression reads every expression of the selector/field grammar as the location paths it denotes
    (token level), and what the model needs of the generated tables. *)
From Coq Require Import NArith List Bool Arith String.
From XV Require Import Gen.GenC10XPath C10.Parse10.
Import ListNotations.

(** *** obligations on the tables regenerated from the source (XercesXPath.cpp / XMLChar.cpp) *)
(** the classification of the 128 ASCII characters the XPath 1.0 lexical structure (3.7) needs *)
Definition expected_chartype (c : N) : N :=
  (if (c =? 9) || (c =? 10) || (c =? 13) || (c =? 32) then 2
   else if c <? 32 then 0
   else if c =? 33 then 3 else if (c =? 34) || (c =? 39) then 4 else if c =? 36 then 5
   else if c =? 40 then 6 else if c =? 41 then 7 else if c =? 42 then 8 else if c =? 43 then 9
   else if c =? 44 then 10 else if c =? 45 then 11 else if c =? 46 then 12 else if c =? 47 then 13
   else if (48 <=? c) && (c <=? 57) then 14 else if c =? 58 then 15 else if c =? 60 then 16
   else if c =? 61 then 17 else if c =? 62 then 18 else if c =? 64 then 19
   else if ((65 <=? c) && (c <=? 90)) || ((97 <=? c) && (c <=? 122)) then 20
   else if c =? 91 then 21 else if c =? 93 then 22 else if c =? 95 then 23 else if c =? 124 then 24 else 1)%N.

Definition tables_ok : bool :=
  forallb (fun i => (chartype (N.of_nat i) =? expected_chartype (N.of_nat i))%N) (seq 0 128) &&
  (chartype 128 =? 25)%N && (chartype 65535 =? 25)%N &&
  forallb supported ["ATSIGN"; "AXISNAME_ATTRIBUTE"; "AXISNAME_CHILD"; "DOUBLE_COLON"; "NAMETEST_ANY"; "NAMETEST_NAMESPACE";
                     "NAMETEST_QNAME"; "OPERATOR_DOUBLE_SLASH"; "OPERATOR_SLASH"; "OPERATOR_UNION"; "PERIOD"]%string &&
  (List.length xp_schema_tokens =? 11)%nat &&
  (* NCName characters, ASCII part: Letter | '_' first; then also Digit | '.' | '-'; never ':' *)
  forallb (fun i => let c := N.of_nat i in
                    Bool.eqb (nc_first c) ((((65 <=? c) && (c <=? 90)) || ((97 <=? c) && (c <=? 122)) || (c =? 95))%N) &&
                    Bool.eqb (nc_char c) ((nc_first c || ((48 <=? c) && (c <=? 57)) || (c =? 45) || (c =? 46))%N))
          (seq 0 128).
Lemma xp_tables_ok : tables_ok = true.
Proof. vm_compute. reflexivity. Qed.

Section PARSE.
Variable bound : list N -> bool.
Variable fxns : bool.
Notation parse := (parse bound fxns).

Definition start_tok (t : tok) : bool := match t with KSlash | KDSlash | KUnion | KDColon => false | _ => true end.
(** what may follow a step: the end, '/' or '|' *)
Definition cont_ok (k : list tok) : Prop := match k with KDSlash :: _ => False | _ => True end.
Definition rest_ok (k : list tok) : Prop := match k with [] => True | KUnion :: _ => True | _ => False end.

Definition first_after (s : aseg) (first : bool) : bool :=
  match s with AChild false (ANNs _) => if fxns then false else first | _ => false end.

Lemma parse_seg : forall s k i0 first steps paths,
  seg_bound bound s = true -> cont_ok k ->
  parse (seg_toks s ++ k) i0 first steps paths = parse k false (first_after s first) (steps ++ [seg_step s]) paths.
Proof.
  intros s k i0 first steps paths B C. destruct s as [|ax n|ax n].
  - cbn [seg_toks app first_after seg_step]. destruct first; cbn [Parse10.parse]; [|reflexivity].
    destruct k as [|t k']; [reflexivity|]. destruct t; try reflexivity. contradiction.
  - destruct ax; destruct n as [|p|[p|] l]; cbn in B; cbn; rewrite ?B; try reflexivity; destruct fxns; reflexivity.
  - destruct ax; destruct n as [|p|[p|] l]; cbn in B; cbn; rewrite ?B; reflexivity.
Qed.

Lemma parse_rest_first : forall k f f' steps paths, rest_ok k ->
  parse k false f steps paths = parse k false f' steps paths.
Proof. intros k f f' steps paths R. destruct k as [|t k']; [reflexivity|]. destruct t; try contradiction. reflexivity. Qed.

Lemma seg_toks_head : forall s k, exists t r, seg_toks s ++ k = t :: r /\ start_tok t = true.
Proof.
  intros s k. destruct s as [|ax n|ax n]; [eexists; eexists; split; [reflexivity|reflexivity]| |];
    destruct ax; destruct n as [|p|pre l]; cbn; eexists; eexists; split; reflexivity.
Qed.

Lemma segs_toks_cons : forall s r, r <> [] -> segs_toks (s :: r) = seg_toks s ++ KSlash :: segs_toks r.
Proof. intros s [|x r] H; [contradiction|reflexivity]. Qed.

Lemma segs_toks_head : forall segs k, segs <> [] -> exists t r, segs_toks segs ++ k = t :: r /\ start_tok t = true.
Proof.
  intros [|s r] k H; [contradiction|]. destruct r as [|x r].
  - cbn [segs_toks]. apply seg_toks_head.
  - rewrite segs_toks_cons by discriminate. rewrite <- app_assoc. apply seg_toks_head.
Qed.

Definition ns_first_segs (segs : list aseg) : bool :=
  match segs with AChild false (ANNs _) :: _ :: _ => true | _ => false end.

Lemma parse_segs : forall segs rest i0 first steps paths,
  segs <> [] -> forallb (seg_bound bound) segs = true -> rest_ok rest ->
  (first = true -> fxns = false -> ns_first_segs segs = false) ->
  parse (segs_toks segs ++ rest) i0 first steps paths = parse rest false false (steps ++ map seg_step segs) paths.
Proof.
  induction segs as [|s r IH]; intros rest i0 first steps paths NE B R G; [contradiction|].
  cbn [forallb] in B. apply andb_true_iff in B as [Bs Br].
  destruct r as [|x r].
  - cbn [segs_toks map]. rewrite parse_seg; [|exact Bs|destruct rest as [|t ?]; [exact I|destruct t; try contradiction; exact I]].
    apply parse_rest_first. exact R.
  - rewrite segs_toks_cons by discriminate. rewrite <- app_assoc. rewrite parse_seg; [|exact Bs|exact I].
    assert (F : first_after s first = false).
    { unfold first_after. destruct s as [|[|] [|p|pre l]|]; try reflexivity. destruct fxns eqn:Ef; [reflexivity|].
      destruct first; [|reflexivity]. specialize (G eq_refl eq_refl). cbn in G. discriminate. }
    rewrite F. cbn [app].
    destruct (segs_toks_head (x :: r) rest) as [t [q [E S]]]; [discriminate|].
    rewrite E.
    assert (X : parse (KSlash :: t :: q) false false (steps ++ [seg_step s]) paths
                = parse (t :: q) false false (steps ++ [seg_step s]) paths).
    { destruct t; try discriminate; reflexivity. }
    rewrite X, <- E. rewrite IH; [|discriminate|exact Br|exact R|intros H; discriminate].
    cbn [map]. rewrite <- app_assoc. reflexivity.
Qed.

Lemma parse_path : forall p rest i0 (steps0 : list xstep) paths,
  apath_wf bound p = true -> rest_ok rest -> (fxns = false -> ns_first p = false) ->
  parse (path_toks p ++ rest) i0 true [] paths =
  parse rest false false ((if ap_desc p then [XSelf; XDesc] else []) ++ map seg_step (ap_segs p)) paths.
Proof.
  intros [d segs] rest i0 steps0 paths W R G. unfold apath_wf in W. cbn [ap_desc ap_segs] in *.
  apply andb_true_iff in W as [W B]. apply andb_true_iff in W as [NE _].
  assert (NE' : segs <> []) by (destruct segs; [discriminate|discriminate]).
  unfold path_toks. cbn [ap_desc ap_segs]. destruct d.
  - cbn [app]. destruct (segs_toks_head segs rest NE') as [t [q [E S]]].
    assert (X : parse (KPeriod :: KDSlash :: segs_toks segs ++ rest) i0 true [] paths
                = parse (segs_toks segs ++ rest) false false [XSelf; XDesc] paths).
    { rewrite E. destruct t; try discriminate; reflexivity. }
    rewrite X. apply parse_segs; [exact NE'|exact B|exact R|intros H; discriminate].
  - cbn [app]. apply parse_segs; [exact NE'|exact B|exact R|].
    intros _ F. specialize (G F). unfold ns_first in G. cbn [ap_desc ap_segs negb andb] in G. exact G.
Qed.

Lemma raw_nonempty : forall p, apath_wf bound p = true ->
  (if ap_desc p then [XSelf; XDesc] else []) ++ map seg_step (ap_segs p) <> [].
Proof.
  intros [d segs] W. unfold apath_wf in W. cbn [ap_desc ap_segs] in *. destruct d; [discriminate|].
  destruct segs; [discriminate|discriminate].
Qed.

Theorem parse_grammar : forall l paths0 i0,
  l <> [] -> forallb (apath_wf bound) l = true -> (fxns = false -> forallb (fun p => negb (ns_first p)) l = true) ->
  parse (xpath_toks l) i0 true [] paths0 = POk (fold_left add_path (map expect_path l) paths0).
Proof.
  induction l as [|p r IH]; intros paths0 i0 NE W G; [contradiction|].
  cbn [forallb] in W. apply andb_true_iff in W as [Wp Wr].
  assert (Gp : fxns = false -> ns_first p = false).
  { intros F. specialize (G F). cbn [forallb] in G. apply andb_true_iff in G as [G _]. apply negb_true_iff in G. exact G. }
  assert (Gr : fxns = false -> forallb (fun p => negb (ns_first p)) r = true).
  { intros F. specialize (G F). cbn [forallb] in G. apply andb_true_iff in G as [_ G]. exact G. }
  pose proof (raw_nonempty p Wp) as RN.
  destruct r as [|p2 r].
  - cbn [xpath_toks map fold_left]. rewrite <- (app_nil_r (path_toks p)).
    rewrite (parse_path p [] i0 [] paths0 Wp I Gp). cbn [Parse10.parse]. unfold finish, expect_path.
    destruct ((if ap_desc p then [XSelf; XDesc] else []) ++ map seg_step (ap_segs p)); [contradiction|reflexivity].
  - change (xpath_toks (p :: p2 :: r)) with (path_toks p ++ KUnion :: xpath_toks (p2 :: r)).
    rewrite (parse_path p (KUnion :: xpath_toks (p2 :: r)) i0 [] paths0 Wp I Gp).
    cbn [Parse10.parse]. unfold expect_path at 1.
    destruct ((if ap_desc p then [XSelf; XDesc] else []) ++ map seg_step (ap_segs p)) as [|s0 raw] eqn:ER; [contradiction|].
    change (Parse10.parse bound fxns (xpath_toks (p2 :: r)) false true [] (add_path paths0 (close_path (s0 :: raw))))
      with (parse (xpath_toks (p2 :: r)) false true [] (add_path paths0 (close_path (s0 :: raw)))).
    rewrite IH; [|discriminate|exact Wr|exact Gr].
    cbn [map fold_left]. f_equal. f_equal. f_equal. unfold expect_path. rewrite ER. reflexivity.
Qed.

End PARSE.

(** the faithful reader rejects a grammatical expression: first step NCName:* followed by another step (F35) *)
Definition f35_bound (p : list N) : bool := nl_eq p [116%N].
Definition f35_xpath : list apath := [mkAP false [AChild false (ANNs [116%N]); AChild false (ANName None [97%N])]].
Lemma f35_refuted :
  forallb (apath_wf f35_bound) f35_xpath = true /\
  parse f35_bound false (xpath_toks f35_xpath) true true [] [] = PErr X_NoSelectionOfRoot /\
  xpath_of_string f35_bound false true (xpath_text [] f35_xpath) = PErr X_NoSelectionOfRoot /\
  xpath_of_string f35_bound true true (xpath_text [32%N] f35_xpath) = POk (expect_xpath f35_xpath).
Proof. vm_compute. repeat split; reflexivity. Qed.
