(** Concrete values for the correspondence: lexical forms of the field types string, token, integer, decimal,
    date, QName are mapped to (type, canonical form in the value space, whitespace-normalised lexical form).
    [spec_veq] is equality in the value space (Spec side); [ceq] follows ICValueHasher::isDuplicateOf. *)
From Coq Require Import NArith List Bool Arith.
From XV Require Import C10.Spec10 C10.Model10.
Import ListNotations.
Local Open Scope N_scope.

(** [TDer b id]: a type derived (in any number of steps, built-in or user-defined restriction) from a type whose
    lexical/whitespace treatment is that of [b]; [id] is the identity of the type (DatatypeValidator object) *)
(** [TAny] = xs:anySimpleType (untyped lexical values: a family of its own, whitespace preserved) *)
Inductive vtype := TStr | TTok | TInt | TDec | TDate | TQName | TNone | TAny | TDer (b : vtype) (id : N).
(** the built-in type that fixes whitespace handling and value space *)
Fixpoint kind_of (t : vtype) : vtype := match t with TDer b _ => kind_of b | _ => t end.
Definition type_code (t : vtype) : N :=
  match t with TStr => 1 | TTok => 2 | TInt => 3 | TDec => 4 | TDate => 5 | TQName => 6 | TNone => 7 | TAny => 8 | TDer _ id => 100 + id end.
Definition vtype_eqb (a b : vtype) : bool := type_code a =? type_code b.
(** primitive type family (string <- token, decimal <- integer) *)
Definition fam (t : vtype) : N :=
  match kind_of t with TStr | TTok => 0 | TInt | TDec => 1 | TDate => 2 | TQName => 3 | TAny => 5 | _ => 4 end.

Record cval := mkCV { cv_ty : vtype; cv_canon : list N; cv_raw : list N }.

Fixpoint leqb (a b : list N) : bool :=
  match a, b with [], [] => true | x :: r, y :: s => (x =? y) && leqb r s | _, _ => false end.

Definition is_ws (c : N) : bool := (c =? 32) || (c =? 9) || (c =? 10) || (c =? 13).
(** whiteSpace = collapse *)
Fixpoint collapse_aux (l : list N) (pending started : bool) : list N :=
  match l with
  | [] => []
  | c :: r => if is_ws c then collapse_aux r started started
              else (if pending then [32] else []) ++ c :: collapse_aux r false true
  end.
Definition collapse (l : list N) : list N := collapse_aux l false false.

Fixpoint strip0 (l : list N) : list N := match l with 48 :: r => strip0 r | _ => l end.
Fixpoint before_dot (l : list N) : list N := match l with [] => [] | 46 :: _ => [] | c :: r => c :: before_dot r end.
Fixpoint after_dot (l : list N) : list N := match l with [] => [] | 46 :: r => r | _ :: r => after_dot r end.
(** canonical form of a decimal in the value space: sign (only for non-zero negatives), integer digits without
    leading zeros, '.', fraction digits without trailing zeros *)
Definition dec_canon (l : list N) : list N :=
  let '(neg, r) := match l with 45 :: r => (true, r) | 43 :: r => (false, r) | _ => (false, l) end in
  let ip := strip0 (before_dot r) in
  let fp := rev (strip0 (rev (after_dot r))) in
  let zero := match ip, fp with [], [] => true | _, _ => false end in
  (if neg && negb zero then [45] else []) ++ ip ++ [46] ++ fp.

(** dates: only the time-zone spellings Z, +00:00, -00:00 are identified (the generators use no other offsets) *)
Definition date_canon (l : list N) : list N :=
  match rev l with
  | 48 :: 48 :: 58 :: 48 :: 48 :: s :: r => if (s =? 43) || (s =? 45) then rev r ++ [90] else l
  | _ => l
  end.

Fixpoint before_colon (l : list N) : option (list N) :=
  match l with [] => None | 58 :: _ => Some [] | c :: r => match before_colon r with Some p => Some (c :: p) | None => None end end.
Fixpoint after_colon (l : list N) : list N := match l with [] => [] | 58 :: r => r | _ :: r => after_colon r end.
(** XPathMatcher stores QNames by their Clark name {uri}local; an unprefixed QName is stored as written *)
Definition qname_canon (ns : list (list N * list N)) (l : list N) : list N :=
  match before_colon l with
  | None => l
  | Some p => let uri := match find (fun e => leqb (fst e) p) ns with Some e => snd e | None => [] end in
              [123] ++ uri ++ [125] ++ after_colon l
  end.

Definition value_of (ns : list (list N * list N)) (t : vtype) (lex : list N) : cval :=
  match kind_of t with
  | TTok => let c := collapse lex in mkCV t c c
  | TInt | TDec => let c := collapse lex in mkCV t (dec_canon c) c
  | TDate => let c := collapse lex in mkCV t (date_canon c) c
  | TQName => let c := qname_canon ns (collapse lex) in mkCV t c c
  | _ => mkCV t lex lex
  end.

(** the "value" of a nilled element of type [t] (empty content): equal only to a nilled element of the same type *)
Definition nil_value (t : vtype) : cval := mkCV t [0; type_code t] [].

(** equality in the value space of the field types *)
Definition spec_veq (a b : cval) : bool := (fam (cv_ty a) =? fam (cv_ty b)) && leqb (cv_canon a) (cv_canon b).

(** ICValueHasher::isDuplicateOf *)
Definition is_nil_list (l : list N) : bool := match l with [] => true | _ => false end.
Definition ceq (a b : cval) : bool :=
  match kind_of (cv_ty a), kind_of (cv_ty b) with
  | TNone, _ | _, TNone => leqb (cv_raw a) (cv_raw b)
  | _, _ =>
    if is_nil_list (cv_raw a) && is_nil_list (cv_raw b) then vtype_eqb (cv_ty a) (cv_ty b)
    else if is_nil_list (cv_raw a) || is_nil_list (cv_raw b) then false
    else (fam (cv_ty a) =? fam (cv_ty b)) && leqb (cv_canon a) (cv_canon b)
  end.

(** the hash key of one field value, as ICValueHasher::getHashVal sees it: the canonical representation w.r.t. the most
    generic base validator of the value's type (= the family's canonical form), the value itself when there is no
    validator, and nothing but the type for an empty value *)
Definition chash (a : cval) : list N :=
  match kind_of (cv_ty a) with
  | TNone => cv_raw a
  | _ => if is_nil_list (cv_raw a) then [0; type_code (cv_ty a)] else fam (cv_ty a) :: cv_canon a
  end.

(** *** from the specification-level schema to what the matchers see *)
Fixpoint index_of_id (id : N) (sch : schema) (i : nat) : nat :=
  match sch with [] => i | d :: r => if ic_id (snd d) =? id then i else index_of_id id r (S i) end.
Definition mk_mics (sch : schema) : list mic :=
  map (fun d => let c := snd d in
                mkMic (ic_kind c) (index_of_id (ic_refer c) sch 0) (compile_xpath (ic_sel c)) (map compile_xpath (ic_fields c)))
      sch.
Fixpoint mk_decl_aux (sch : schema) (nm : N) (i : nat) : list nat :=
  match sch with [] => [] | d :: r => (if fst d =? nm then [i] else []) ++ mk_decl_aux r nm (S i) end.
Definition mk_decl (sch : schema) (nm : N) : list nat := mk_decl_aux sch nm 0.

(** the model of a validating parse: identity-constraint error codes in emission order *)
Definition model_doc (fixed fx report : bool) (sch : schema) (t : tree cval) : list ecode :=
  run_doc cval ceq fixed fx report (mk_mics sch) (mk_decl sch) chash t.
(** the specification's verdict *)
Definition spec_doc (sch : schema) (t : tree cval) : list viol := doc_viols cval spec_veq sch t.
