(** Multi-field key-sequences and the merge of key tables.
    (1) One value scope of ValueStore (startValueScope; addValue for the fields of the selected node in ANY order;
        endValueScope): the tuple is looked up and stored exactly once, and only when every field has a value;
        a key reports IC_AbsentKeyValue / IC_KeyNotEnoughValues exactly when some field is absent, a unique never.
    (2) ValueStore::append (used by ValueStoreCache::transplant and ::endElement to hand key tables upwards):
        the merged table is the union of the two tables modulo value equality. *)
From Coq Require Import NArith List Bool Arith Lia Permutation.
From XV Require Import C10.Spec10 C10.Model10 C10.Proofs10a C10.Proofs10b.
Import ListNotations.

Lemma nth_error_ext : forall (A : Type) (l l' : list A), (forall i, nth_error l i = nth_error l' i) -> l = l'.
Proof.
  induction l as [|x l IH]; destruct l' as [|y l']; intros H; try reflexivity.
  - specialize (H 0). discriminate.
  - specialize (H 0). discriminate.
  - pose proof (H 0) as H0. cbn in H0. injection H0 as ->. f_equal. apply IH. intros i. exact (H (S i)).
Qed.

Lemma nth_error_upd : forall (A : Type) (l : list A) f x g,
  nth_error (upd_nth f x l) g =
  if g =? f then match nth_error l f with Some _ => Some x | None => None end else nth_error l g.
Proof.
  induction l as [|y l IH]; intros f x g.
  - destruct f, g; cbn; try reflexivity. destruct (g =? f); reflexivity.
  - destruct f as [|f], g as [|g]; cbn; try reflexivity. apply IH.
Qed.

Section SCOPE.
Variable V : Type.
Variable veq : V -> V -> bool.
Variable vhash : V -> list N.

Notation vs_add := (vs_add V veq vhash).
Notation otuple := (otuple V).
Notation containsH := (containsH V veq vhash).
Notation put_tupleH := (put_tupleH V veq vhash).

(** [fv]: the values of the fields of one selected node: [Some v] = the field selects one node with value v,
    [None] = the field selects nothing.  [restrict done fv]: the fields in [done] have been handed over *)
Fixpoint restrict_from (i : nat) (done : list nat) (fv : otuple) : otuple :=
  match fv with
  | [] => []
  | x :: r => (if existsb (Nat.eqb i) done then x else None) :: restrict_from (S i) done r
  end.
Definition restrict := restrict_from 0.

(** addValue for the fields [ord] one after the other (the document order of the field nodes, whatever it is) *)
Fixpoint adds_run (ord : list nat) (fv : otuple) (vs : vstore V) : option (vstore V * list bool) :=
  match ord with
  | [] => Some (vs, [])
  | f :: r =>
    match nth f fv None with
    | None => None
    | Some v => match vs_add f v vs with
                | None => None
                | Some (vs', d) => match adds_run r fv vs' with
                                   | None => None
                                   | Some (vs'', ds) => Some (vs'', d :: ds)
                                   end
                end
    end
  end.

Lemma restrict_from_length : forall fv i done, length (restrict_from i done fv) = length fv.
Proof. induction fv as [|x r IH]; intros i done; cbn; auto. Qed.

Lemma restrict_nil : forall fv i, restrict_from i [] fv = repeat None (length fv).
Proof. induction fv as [|x r IH]; intros i; cbn; [reflexivity|]. rewrite IH. reflexivity. Qed.

Lemma restrict_from_nth_error : forall fv i done f,
  nth_error (restrict_from i done fv) f =
  match nth_error fv f with
  | Some x => Some (if existsb (Nat.eqb (i + f)) done then x else None)
  | None => None end.
Proof.
  induction fv as [|x r IH]; intros i done f; destruct f as [|f]; cbn; try reflexivity.
  - rewrite Nat.add_0_r. reflexivity.
  - rewrite IH. replace (S i + f) with (i + S f) by lia. reflexivity.
Qed.

Lemma restrict_nth_error : forall fv done f,
  nth_error (restrict done fv) f =
  match nth_error fv f with Some x => Some (if existsb (Nat.eqb f) done then x else None) | None => None end.
Proof. intros. unfold restrict. rewrite restrict_from_nth_error. reflexivity. Qed.

Lemma mem_spec : forall f l, existsb (Nat.eqb f) l = true <-> In f l.
Proof.
  intros f l. rewrite existsb_exists. split.
  - intros [x [H E]]. apply Nat.eqb_eq in E. subst. exact H.
  - intros H. exists f. split; [exact H|apply Nat.eqb_refl].
Qed.

Lemma restrict_upd : forall fv done f v,
  nth_error fv f = Some (Some v) -> upd_nth f (Some v) (restrict done fv) = restrict (f :: done) fv.
Proof.
  intros fv done f v H. apply nth_error_ext. intros g.
  rewrite nth_error_upd, !restrict_nth_error. cbn [existsb].
  destruct (Nat.eqb_spec g f) as [->|E].
  - rewrite H. cbn. reflexivity.
  - cbn. reflexivity.
Qed.

Lemma restrict_all : forall fv done,
  (forall f v, nth_error fv f = Some (Some v) -> In f done) -> restrict done fv = fv.
Proof.
  intros fv done H. apply nth_error_ext. intros g. rewrite restrict_nth_error.
  destruct (nth_error fv g) as [[v|]|] eqn:E; try reflexivity.
  - apply H in E. apply mem_spec in E. rewrite E. reflexivity.
  - destruct (existsb _ _); reflexivity.
Qed.

(** what is reported while the fields are handed over: nothing, except the lookup made by the completing field *)
Definition expected_flags (k : nat) (last : bool) : list bool :=
  match k with O => [] | S j => repeat false j ++ [last] end.

Lemma expected_flags_cons : forall k last, 0 < k -> expected_flags (S k) last = false :: expected_flags k last.
Proof. intros [|k] last H; [lia|reflexivity]. Qed.

Lemma present_lt : forall (fv : otuple) f x, nth_error fv f = Some x -> f < length fv.
Proof. intros fv f x H. apply nth_error_Some. rewrite H. discriminate. Qed.

Lemma adds_run_inv : forall fv ord done T ic,
  NoDup (done ++ ord) ->
  (forall f, In f (done ++ ord) -> exists v, nth_error fv f = Some (Some v)) ->
  let n := length fv in
  let complete := (0 <? length ord) && (length done + length ord =? n) in
  adds_run ord fv (mkVS V ic (restrict done fv) (length done) T) =
  Some (mkVS V ic (restrict (rev ord ++ done) fv) (length done + length ord)
             (if complete then put_tupleH (restrict (rev ord ++ done) fv) T else T),
        expected_flags (length ord) (if complete then containsH T (restrict (rev ord ++ done) fv) else false)).
Proof.
  intros fv ord. induction ord as [|f r IH]; intros done T ic ND PR n complete.
  - cbn. rewrite Nat.add_0_r. reflexivity.
  - assert (Pf : exists v, nth_error fv f = Some (Some v)) by (apply PR; apply in_or_app; right; left; reflexivity).
    destruct Pf as [v Hv].
    assert (Nf : ~ In f done).
    { intros I. apply NoDup_remove_2 in ND. apply ND. apply in_or_app. left. exact I. }
    assert (PM : Permutation (done ++ f :: r) ((f :: done) ++ r)) by (symmetry; apply Permutation_middle).
    assert (ND' : NoDup ((f :: done) ++ r)) by (eapply Permutation_NoDup; eauto).
    assert (PR' : forall g, In g ((f :: done) ++ r) -> exists v, nth_error fv g = Some (Some v)).
    { intros g I. apply PR. eapply Permutation_in; [symmetry; exact PM|exact I]. }
    assert (LE : length (done ++ f :: r) <= n).
    { rewrite <- (seq_length n 0). apply NoDup_incl_length; [exact ND|].
      intros g I. apply in_seq. destruct (PR g I) as [w Hw]. apply present_lt in Hw. fold n in Hw. lia. }
    rewrite app_length in LE. cbn [length] in LE.
    cbn [adds_run]. rewrite (nth_error_nth fv f None Hv).
    unfold Model10.vs_add. cbn [vs_vals vs_count vs_ic vs_tuples].
    rewrite restrict_nth_error, Hv.
    assert (M : existsb (Nat.eqb f) done = false).
    { destruct (existsb (Nat.eqb f) done) eqn:E; [|reflexivity]. apply mem_spec in E. contradiction. }
    rewrite M. rewrite (restrict_upd fv done f v Hv).
    unfold restrict at 1. rewrite restrict_from_length. fold n. fold (restrict (f :: done) fv).
    assert (RV : rev (f :: r) ++ done = rev r ++ f :: done).
    { cbn [rev]. rewrite <- app_assoc. reflexivity. }
    destruct r as [|g r'].
    + (* the last field *)
      cbn [adds_run length rev app]. unfold complete. cbn [length Nat.ltb Nat.leb andb].
      replace (length done + 1) with (S (length done)) by lia.
      destruct (S (length done) =? n); reflexivity.
    + assert (LT : S (length done) <> n) by (cbn [length] in LE; lia).
      apply Nat.eqb_neq in LT. rewrite LT.
      specialize (IH (f :: done) T ic ND' PR'). cbn zeta in IH. cbn [length] in IH. cbn [length].
      rewrite IH. rewrite RV.
      replace (S (length done) + S (length r')) with (length done + S (S (length r'))) by lia.
      unfold complete. cbn [length]. cbn [Nat.ltb Nat.leb andb].
      rewrite (expected_flags_cons (S (length r'))) by lia. reflexivity.
Qed.

(** the whole scope, started by startValueScope (all fields unset, count 0) *)
Theorem scope_run_spec : forall fv ord T ic,
  NoDup ord -> (forall f, In f ord <-> exists v, nth_error fv f = Some (Some v)) ->
  let complete := (0 <? length ord) && (length ord =? length fv) in
  adds_run ord fv (mkVS V ic (repeat None (length fv)) 0 T) =
  Some (mkVS V ic fv (length ord) (if complete then put_tupleH fv T else T),
        expected_flags (length ord) (if complete then containsH T fv else false)).
Proof.
  intros fv ord T ic ND PR complete.
  pose proof (adds_run_inv fv ord [] T ic) as H. cbn [app length] in H.
  unfold restrict at 1 in H. rewrite restrict_nil in H. cbn zeta in H. cbn [Nat.add] in H.
  rewrite H; [|exact ND|intros f I; apply PR; exact I].
  rewrite restrict_all; [reflexivity|].
  intros f v Hf. apply in_or_app. left. apply in_rev. rewrite rev_involutive. apply PR. exists v. exact Hf.
Qed.

(** every field present: the tuple is looked up once and stored *)
Theorem scope_complete : forall (tu : list V) ord T ic,
  tu <> [] -> NoDup ord -> (forall f, In f ord <-> f < length tu) ->
  adds_run ord (map Some tu) (mkVS V ic (repeat None (length tu)) 0 T) =
  Some (mkVS V ic (map Some tu) (length tu) (put_tupleH (map Some tu) T),
        repeat false (length tu - 1) ++ [containsH T (map Some tu)]).
Proof.
  intros tu ord T ic NE ND PR.
  assert (L : length ord = length tu).
  { rewrite <- (seq_length (length tu) 0). apply Permutation_length. apply NoDup_Permutation; [exact ND|apply seq_NoDup|].
    intros f. rewrite PR, in_seq. lia. }
  pose proof (scope_run_spec (map Some tu) ord T ic ND) as H. rewrite map_length in H. cbn zeta in H.
  rewrite H.
  - rewrite L, Nat.eqb_refl. destruct tu as [|x tu]; [contradiction|]. cbn [length Nat.ltb Nat.leb andb expected_flags].
    cbn [Nat.sub]. rewrite ?Nat.sub_0_r. reflexivity.
  - intros f. rewrite PR. split.
    + intros Hf. destruct (nth_error tu f) as [v|] eqn:E.
      * exists v. rewrite nth_error_map, E. reflexivity.
      * apply nth_error_None in E. lia.
    + intros [v Hv]. apply present_lt in Hv. rewrite map_length in Hv. exact Hv.
Qed.

(** some field absent: nothing is looked up, nothing stored, fewer values than fields are counted *)
Theorem scope_incomplete : forall fv ord T ic a,
  nth_error fv a = Some None ->
  NoDup ord -> (forall f, In f ord <-> exists v, nth_error fv f = Some (Some v)) ->
  adds_run ord fv (mkVS V ic (repeat None (length fv)) 0 T) =
  Some (mkVS V ic fv (length ord) T, expected_flags (length ord) false) /\ length ord < length fv.
Proof.
  intros fv ord T ic a Ha ND PR.
  assert (L : length ord < length fv).
  { assert (Na : ~ In a ord). { intros I. apply PR in I as [v Hv]. rewrite Ha in Hv. discriminate. }
    assert (X : length (a :: ord) <= length (seq 0 (length fv))).
    { apply NoDup_incl_length; [constructor; assumption|].
      intros g [<-|I]; apply in_seq.
      - apply present_lt in Ha. lia.
      - apply PR in I as [v Hv]. apply present_lt in Hv. lia. }
    rewrite seq_length in X. cbn in X. lia. }
  split; [|exact L].
  rewrite (scope_run_spec fv ord T ic ND PR).
  assert (E : (length ord =? length fv) = false) by (apply Nat.eqb_neq; lia).
  rewrite E, andb_false_r. reflexivity.
Qed.

(** *** endValueScope: which code a scope with [c] collected values out of [n] fields reports *)
Variable report : bool.
Variable ics : list mic.

Definition end_scope_codes (k : ickind) (c n : nat) : list ecode :=
  match k with
  | KKey => if c =? 0 then [E_AbsentKeyValue] else if c =? n then [] else [E_KeyNotEnoughValues]
  | _ => []
  end.

Theorem end_value_scope_spec : forall icx depth sid (s : st V),
  lookup2 icx depth (s_ic2vs V s) = Some sid ->
  s_errs V (end_value_scope V report ics icx depth s) =
  (if report then rev (end_scope_codes (m_k (ic_at ics icx)) (vs_count V (store_at V s sid))
                                       (length (m_flds (ic_at ics icx)))) else []) ++ s_errs V s.
Proof.
  intros icx depth sid s H. unfold end_value_scope. rewrite H. unfold end_scope_codes, emit.
  destruct (m_k (ic_at ics icx)); destruct (vs_count V (store_at V s sid) =? 0);
    destruct (vs_count V (store_at V s sid) =? length (m_flds (ic_at ics icx))); destruct report; reflexivity.
Qed.

(** a key whose fields are all present reports nothing at the end of the scope; with an absent field exactly one code;
    a unique (or keyref) never reports anything there: absent fields are allowed *)
Corollary end_scope_key_complete : forall n, 0 < n -> end_scope_codes KKey n n = [].
Proof. intros n H. unfold end_scope_codes. destruct (Nat.eqb_spec n 0); [lia|]. rewrite Nat.eqb_refl. reflexivity. Qed.
Corollary end_scope_key_incomplete : forall c n, c < n -> exists e, end_scope_codes KKey c n = [e].
Proof.
  intros c n H. unfold end_scope_codes. destruct (c =? 0); [eauto|]. destruct (Nat.eqb_spec c n); [lia|eauto].
Qed.
Corollary end_scope_unique : forall c n, end_scope_codes KUnique c n = [] /\ end_scope_codes KKeyRef c n = [].
Proof. split; reflexivity. Qed.

End SCOPE.

(** *** ValueStore::append: key tables handed upwards are merged as sets modulo value equality *)
Section MERGE.
Variable V : Type.
Variable veq : V -> V -> bool.
Hypothesis veq_refl : forall x, veq x x = true.
Hypothesis veq_sym : forall x y, veq x y = veq y x.
Hypothesis veq_trans : forall x y z, veq x y = true -> veq y z = true -> veq x z = true.
Variable vhash : V -> list N.
Hypothesis hash_respects_eq : forall x y, veq x y = true -> vhash x = vhash y.

Notation teq := (otuple_eq V veq).

Lemma contains_congr : forall d t x, contains V veq d t = true -> teq x t = true -> contains V veq d x = true.
Proof.
  intros d t x C E. unfold contains in *. apply existsb_exists in C as [y [I Ey]]. apply existsb_exists.
  exists y. split; [exact I|]. eapply teq_trans; eauto.
Qed.

Theorem append_contains : forall src dst x,
  containsH V veq vhash (append_tuples V veq vhash dst src) x =
  containsH V veq vhash dst x || existsb (teq x) src.
Proof.
  unfold append_tuples. induction src as [|t r IH]; intros dst x; cbn [fold_left existsb].
  - rewrite orb_false_r. reflexivity.
  - rewrite IH. rewrite !(containsH_is_contains V veq vhash hash_respects_eq).
    destruct (contains V veq dst t) eqn:C.
    + destruct (teq x t) eqn:E; cbn [orb]; [|reflexivity].
      rewrite (contains_congr dst t x C E). reflexivity.
    + rewrite (put_tupleH_is_put_tuple V veq vhash hash_respects_eq).
      rewrite (contains_put V veq veq_sym veq_trans). rewrite orb_assoc. reflexivity.
Qed.

(** nothing is lost and nothing invented by the merge *)
Corollary append_union : forall src dst x,
  containsH V veq vhash (append_tuples V veq vhash dst src) x = true <->
  containsH V veq vhash dst x = true \/ containsH V veq vhash src x = true.
Proof.
  intros src dst x. rewrite append_contains, orb_true_iff.
  rewrite (containsH_is_contains V veq vhash hash_respects_eq src x). unfold contains. reflexivity.
Qed.

End MERGE.
