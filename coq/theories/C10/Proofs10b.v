(** Value-store step lemmas (tie between ValueStore::addValue and the table-level theorems of Proofs10a) and
    bounded-exhaustive checks of the streaming matchers against the specification. *)
From Coq Require Import NArith List Bool Arith Lia.
From XV Require Import C10.Spec10 C10.Model10.
Import ListNotations.

Section STEP.
Variable V : Type.
Variable veq : V -> V -> bool.
Variable vhash : V -> list N.

Lemma upd_nth_length : forall (A : Type) (l : list A) i x, length (upd_nth i x l) = length l.
Proof. induction l as [|y l IH]; intros [|i] x; cbn; auto. Qed.

(** the field that completes the tuple: duplicate check against the stored tuples, then the tuple is stored *)
Lemma vs_add_completes : forall f v (vs : vstore V),
  nth_error (vs_vals V vs) f = Some None -> S (vs_count V vs) = length (vs_vals V vs) ->
  vs_add V veq vhash f v vs =
  Some (mkVS V (vs_ic V vs) (upd_nth f (Some v) (vs_vals V vs)) (length (vs_vals V vs))
             (put_tupleH V veq vhash (upd_nth f (Some v) (vs_vals V vs)) (vs_tuples V vs)),
        containsH V veq vhash (vs_tuples V vs) (upd_nth f (Some v) (vs_vals V vs))).
Proof.
  intros f v vs H1 H2. unfold vs_add. rewrite H1. rewrite upd_nth_length, H2, Nat.eqb_refl. reflexivity.
Qed.

(** any earlier field: only fValues / fValuesCount change, nothing is reported *)
Lemma vs_add_partial : forall f v (vs : vstore V),
  nth_error (vs_vals V vs) f = Some None -> S (vs_count V vs) < length (vs_vals V vs) ->
  vs_add V veq vhash f v vs =
  Some (mkVS V (vs_ic V vs) (upd_nth f (Some v) (vs_vals V vs)) (S (vs_count V vs)) (vs_tuples V vs), false).
Proof.
  intros f v vs H1 H2. unfold vs_add. rewrite H1. rewrite upd_nth_length.
  destruct (Nat.eqb_spec (S (vs_count V vs)) (length (vs_vals V vs))) as [E|E]; [lia|reflexivity].
Qed.
End STEP.

(** *** bounded-exhaustive universe: all trees over the names 1, 2 of depth <= 2 with at most two children per
    node, and all trees of depth <= 4 with at most one child per node; all paths of 1..3 steps over {1, 2, *} *)
Definition leafn (n : N) : tree nat := Node n [] false false 0 [].
Fixpoint trees (d : nat) (wide : bool) : list (tree nat) :=
  match d with
  | O => [leafn 1; leafn 2]
  | S k =>
    let sub := trees k wide in
    flat_map (fun nm => Node nm [] false false 0 [] :: map (fun a => Node nm [] false false 0 [a]) sub ++
                        (if wide then flat_map (fun a => map (fun b => Node nm [] false false 0 [a; b]) sub) sub else []))
             [1%N; 2%N]
  end.
Definition universe : list (tree nat) := trees 2 true ++ trees 4 false.
Definition tests : list ntest := [NTName 1; NTName 2; NTAny].   (* names 1, 2 are in no namespace; NTNs is covered by the unbounded theorems *)
Definition step_lists : list (list ntest) :=
  map (fun a => [a]) tests ++ flat_map (fun a => map (fun b => [a; b]) tests) tests ++
  flat_map (fun a => flat_map (fun b => map (fun c => [a; b; c]) tests) tests) tests.

Definition subset (a b : list addr) : bool := forallb (fun x => existsb (addr_eqb x) b) a.
Definition same_set (a b : list addr) : bool := subset a b && subset b a.

(** the context element is not matched by the step after ".//" (the class of finding F26) *)
Definition ctx_guard (desc : bool) (steps : list ntest) (t : tree nat) : bool :=
  negb desc || match steps with s :: _ => negb (ntest_ok s (t_name t)) | [] => true end.

Definition check_child_only : bool :=
  forallb (fun t => forallb (fun st => let p := mkSpath false st None in
                                       same_set (matcher_selects nat false false (compile_path p) t) (sel_path nat p t))
                            step_lists) universe.
Definition check_fixed : bool :=
  forallb (fun t => forallb (fun st => forallb (fun d => let p := mkSpath d st None in
                                       same_set (matcher_selects nat true false (compile_path p) t) (sel_path nat p t))
                                               [false; true]) step_lists) universe.
Definition check_sound : bool :=
  forallb (fun t => forallb (fun st => let p := mkSpath true st None in
                                       negb (ctx_guard true st t) ||
                                       subset (matcher_selects nat false false (compile_path p) t) (sel_path nat p t))
                            step_lists) universe.
Definition check_desc_one_step : bool :=
  forallb (fun t => forallb (fun s => let p := mkSpath true [s] None in
                                      negb (ctx_guard true [s] t) ||
                                      same_set (matcher_selects nat false false (compile_path p) t) (sel_path nat p t))
                            tests) universe.

Lemma check_child_only_ok : check_child_only = true. Proof. vm_compute. reflexivity. Qed.
Lemma check_fixed_ok : check_fixed = true. Proof. vm_compute. reflexivity. Qed.
Lemma check_sound_ok : check_sound = true. Proof. vm_compute. reflexivity. Qed.
Lemma check_desc_one_step_ok : check_desc_one_step = true. Proof. vm_compute. reflexivity. Qed.
Lemma universe_size : length universe = 484 /\ length step_lists = 39. Proof. vm_compute. auto. Qed.
