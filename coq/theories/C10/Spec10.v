(** Specification for C10 -- identity constraints (XML Schema Structures 3.11.4 / 3.11.5).
    Nothing here mentions the C++: element trees with typed values, the XPath subset of selectors and fields,
    key-sequences (tuples), and the three constraint kinds.  Values are an abstract type [V] with an equality
    [veq] (the value space of the field types); everything is parametric in them. *)
From Coq Require Import NArith List Bool Arith.
Import ListNotations.

(** ** the XPath subset:  (.//)? step (/ step)* ( / @attr )?   joined by | *)
(** name tests: a qualified name, the wildcard [*], and the namespace wildcard [p:*].  Expanded names are numbers
    coded as 1000 * namespace + local name (namespace 0 = no namespace), so that the namespace of a name is [n / 1000]. *)
Inductive ntest := NTName (n : N) | NTAny | NTNs (ns : N).
Definition ns_of (n : N) : N := N.div n 1000.
Definition ntest_ok (t : ntest) (n : N) : bool :=
  match t with NTName m => N.eqb m n | NTAny => true | NTNs u => N.eqb (ns_of n) u end.
Record spath := mkSpath { sp_desc : bool; sp_steps : list ntest; sp_attr : option ntest }.
Definition sxpath := list spath.

Definition addr := list nat.          (* a node is named by the child indexes leading to it from the context node *)
Definition addr_eqb (a b : addr) : bool := if list_eq_dec Nat.eq_dec a b then true else false.

Fixpoint imap {A B : Type} (f : nat -> A -> list B) (i : nat) (l : list A) : list B :=
  match l with [] => [] | x :: r => f i x ++ imap f (S i) r end.

Inductive ickind := KUnique | KKey | KKeyRef.
Record ic := mkIC { ic_kind : ickind; ic_id : N; ic_refer : N; ic_sel : sxpath; ic_fields : list sxpath }.
(** a schema (as far as identity constraints go): which constraints are declared on which element name *)
Definition schema := list (N * ic).

Inductive viol := V_DupUnique | V_DupKey | V_KeyAbsent | V_KeyNillable | V_KeyRefNotFound | V_FieldMulti | V_FieldNotSimple.

Section SPEC.
Variable V : Type.
Variable veq : V -> V -> bool.

(** element node: name, attributes with their values, whether its type is simple (so that it has a value),
    whether its declaration is nillable, its value, its element children *)
Inductive tree := Node (nm : N) (ats : list (N * V)) (simple nillable : bool) (val : V) (kids : list tree).
Definition t_name (t : tree) := match t with Node n _ _ _ _ _ => n end.
Definition t_ats (t : tree) := match t with Node _ a _ _ _ _ => a end.
Definition t_simple (t : tree) := match t with Node _ _ s _ _ _ => s end.
Definition t_nillable (t : tree) := match t with Node _ _ _ n _ _ => n end.
Definition t_val (t : tree) := match t with Node _ _ _ _ v _ => v end.
Definition t_kids (t : tree) := match t with Node _ _ _ _ _ k => k end.

Fixpoint subtree (t : tree) (a : addr) : option tree :=
  match a with [] => Some t | i :: r => match nth_error (t_kids t) i with Some k => subtree k r | None => None end end.

(** child steps from a context node *)
Fixpoint eval_steps (steps : list ntest) (t : tree) : list addr :=
  match steps with
  | [] => [[]]
  | s :: r => imap (fun i k => if ntest_ok s (t_name k) then map (cons i) (eval_steps r k) else []) 0 (t_kids t)
  end.

(** the node itself and all its descendants, document order *)
Fixpoint desc_self (t : tree) : list addr :=
  match t with
  | Node _ _ _ _ _ ks =>
    [] :: (fix go (i : nat) (l : list tree) : list addr :=
             match l with [] => [] | k :: r => map (cons i) (desc_self k) ++ go (S i) r end) 0 ks
  end.

Definition ctx_addrs (d : bool) (t : tree) : list addr := if d then desc_self t else [[]].

(** elements selected by one location path (its attribute step, if any, is ignored here) *)
Definition sel_path (p : spath) (t : tree) : list addr :=
  flat_map (fun a => match subtree t a with Some n => map (app a) (eval_steps (sp_steps p) n) | None => [] end)
           (ctx_addrs (sp_desc p) t).

(** node-set of a union of paths *)
Definition sel_eval (xp : sxpath) (t : tree) : list addr :=
  nodup (list_eq_dec Nat.eq_dec) (flat_map (fun p => sel_path p t) xp).

(** field nodes: elements or attributes *)
Inductive fnode := FElem (a : addr) | FAttr (a : addr) (n : N).
Definition fnode_eq_dec : forall x y : fnode, {x = y} + {x <> y}.
Proof. decide equality; try apply N.eq_dec; apply (list_eq_dec Nat.eq_dec). Defined.

Definition field_path (p : spath) (t : tree) : list fnode :=
  match sp_attr p with
  | None => map FElem (sel_path p t)
  | Some nt => flat_map (fun a => match subtree t a with
                                  | Some n => map (fun av => FAttr a (fst av)) (filter (fun av => ntest_ok nt (fst av)) (t_ats n))
                                  | None => [] end) (sel_path p t)
  end.
Definition field_eval (xp : sxpath) (t : tree) : list fnode := nodup fnode_eq_dec (flat_map (fun p => field_path p t) xp).

Fixpoint assoc_first (n : N) (l : list (N * V)) : option V :=
  match l with [] => None | (m, v) :: r => if N.eqb m n then Some v else assoc_first n r end.

(** (has a simple type, declared nillable, value) of a field node *)
Definition fnode_info (t : tree) (f : fnode) : option (bool * bool * V) :=
  match f with
  | FElem a => match subtree t a with Some n => Some (t_simple n, t_nillable n, t_val n) | None => None end
  | FAttr a an => match subtree t a with
                  | Some n => match assoc_first an (t_ats n) with Some v => Some (true, false, v) | None => None end
                  | None => None end
  end.

(** ** key-sequences *)
Definition tuple := list V.
Fixpoint tuple_eq (a b : tuple) : bool :=
  match a, b with [], [] => true | x :: r, y :: s => veq x y && tuple_eq r s | _, _ => false end.

(** the field node-sets of a selected node [n] *)
Definition field_sets (c : ic) (n : tree) : list (list fnode) := map (fun f => field_eval f n) (ic_fields c).

(** [n] belongs to the qualified node set when every field selects exactly one node; its key-sequence *)
Definition qualified_tuple (c : ic) (n : tree) : option tuple :=
  let fs := field_sets c n in
  if forallb (fun l => Nat.eqb (length l) 1) fs
  then Some (flat_map (fun l => match l with f :: _ => match fnode_info n f with Some (_, _, v) => [v] | None => [] end
                                           | [] => [] end) fs)
  else None.

Definition targets (c : ic) (t : tree) : list (addr * tree) :=
  flat_map (fun a => match subtree t a with Some n => [(a, n)] | None => [] end) (sel_eval (ic_sel c) t).

(** key-sequences of the qualified node set, with their nodes *)
Definition qualified (c : ic) (t : tree) : list (tuple * addr) :=
  flat_map (fun an => match qualified_tuple c (snd an) with Some tu => [(tu, fst an)] | None => [] end) (targets c t).

Fixpoint no_dup_eq (l : list tuple) : bool :=
  match l with [] => true | x :: r => negb (existsb (tuple_eq x) r) && no_dup_eq r end.

(** clause 4.1: no two members of the qualified node set have equal key-sequences *)
Definition unique_ok (c : ic) (t : tree) : bool := no_dup_eq (map fst (qualified c t)).
(** clause 4.2.1: the target node set is the qualified node set *)
Definition key_present_ok (c : ic) (t : tree) : bool :=
  forallb (fun an => match qualified_tuple c (snd an) with Some _ => true | None => false end) (targets c t).
(** clause 4.2.3: no field of a key is an element whose declaration is nillable *)
Definition key_nillable_ok (c : ic) (t : tree) : bool :=
  forallb (fun an => forallb (fun l => forallb (fun f => match fnode_info (snd an) f with
                                                         | Some (_, nl, _) => negb nl | None => true end) l)
                             (field_sets c (snd an))) (targets c t).
Definition key_ok (c : ic) (t : tree) : bool := key_present_ok c t && unique_ok c t && key_nillable_ok c t.
(** clause 3: every field evaluates to at most one node, which has a simple type *)
Definition field_card_ok (c : ic) (t : tree) : bool :=
  forallb (fun an => forallb (fun l => Nat.leb (length l) 1) (field_sets c (snd an))) (targets c t).
Definition field_simple_ok (c : ic) (t : tree) : bool :=
  forallb (fun an => forallb (fun l => forallb (fun f => match fnode_info (snd an) f with
                                                         | Some (s, _, _) => s | None => true end) l)
                             (field_sets c (snd an))) (targets c t).

(** ** node tables (3.11.5): the entries of key [k] visible at element [t] *)
Definition decls (sch : schema) (nm : N) : list ic :=
  flat_map (fun d => if N.eqb (fst d) nm then [snd d] else []) sch.
Definition find_ic (sch : schema) (id : N) : option ic :=
  match filter (fun d => N.eqb (ic_id (snd d)) id) sch with d :: _ => Some (snd d) | [] => None end.

Definition conflicts (e : tuple * addr) (l : list (tuple * addr)) : bool :=
  existsb (fun e' => tuple_eq (fst e) (fst e') && negb (addr_eqb (snd e) (snd e'))) l.

Fixpoint node_table (sch : schema) (kid : N) (t : tree) : list (tuple * addr) :=
  match t with
  | Node nm _ _ _ _ ks =>
    let own := flat_map (fun c => if N.eqb (ic_id c) kid then qualified c t else []) (decls sch nm) in
    let fromkids := (fix go (i : nat) (l : list tree) : list (tuple * addr) :=
                       match l with [] => []
                       | k :: r => map (fun e => (fst e, i :: snd e)) (node_table sch kid k) ++ go (S i) r end) 0 ks in
    own ++ filter (fun e => negb (conflicts e (own ++ fromkids))) fromkids
  end.

(** clause 4.3: every key-sequence of the keyref's qualified node set is the key-sequence of an entry of the
    referenced key's node table at this element *)
Definition keyref_ok (sch : schema) (c : ic) (t : tree) : bool :=
  forallb (fun e => existsb (fun e' => tuple_eq (fst e) (fst e')) (node_table sch (ic_refer c) t)) (qualified c t).

(** ** the verdict for a whole instance: the kinds of violation that occur anywhere *)
Definition ic_viols (sch : schema) (c : ic) (t : tree) : list viol :=
  (if field_card_ok c t then [] else [V_FieldMulti]) ++
  (if field_simple_ok c t then [] else [V_FieldNotSimple]) ++
  match ic_kind c with
  | KUnique => if unique_ok c t then [] else [V_DupUnique]
  | KKey => (if unique_ok c t then [] else [V_DupKey]) ++ (if key_present_ok c t then [] else [V_KeyAbsent]) ++
            (if key_nillable_ok c t then [] else [V_KeyNillable])
  | KKeyRef => if keyref_ok sch c t then [] else [V_KeyRefNotFound]
  end.

Fixpoint doc_viols (sch : schema) (t : tree) : list viol :=
  match t with
  | Node nm _ _ _ _ ks => flat_map (fun c => ic_viols sch c t) (decls sch nm) ++ flat_map (doc_viols sch) ks
  end.

(** class predicate used to attribute finding F27: some constraint has a target node inside another target node *)
Fixpoint is_prefix (a b : addr) : bool :=
  match a, b with [], _ => true | x :: r, y :: s => Nat.eqb x y && is_prefix r s | _ :: _, [] => false end.
Definition nested_targets (c : ic) (t : tree) : bool :=
  let ts := sel_eval (ic_sel c) t in
  existsb (fun a => existsb (fun b => negb (addr_eqb a b) && is_prefix a b) ts) ts.
Fixpoint doc_nested (sch : schema) (t : tree) : bool :=
  match t with
  | Node nm _ _ _ _ ks => existsb (fun c => nested_targets c t) (decls sch nm) || existsb (doc_nested sch) ks
  end.

Definition doc_valid (sch : schema) (t : tree) : bool := match doc_viols sch t with [] => true | _ => false end.

End SPEC.

Arguments Node {V}.
Arguments t_name {V}. Arguments t_ats {V}. Arguments t_simple {V}. Arguments t_nillable {V}.
Arguments t_val {V}. Arguments t_kids {V}.
