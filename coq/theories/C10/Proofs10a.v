(** Lemmas about the value store (fValueTuples with ICValueHasher) and keyref resolution. *)
From Coq Require Import NArith List Bool Arith Permutation Lia.
From XV Require Import C10.Spec10 C10.Model10.
Import ListNotations.

Section STORE.
Variable V : Type.
Variable veq : V -> V -> bool.
Hypothesis veq_refl : forall x, veq x x = true.
Hypothesis veq_sym : forall x y, veq x y = veq y x.
Hypothesis veq_trans : forall x y z, veq x y = true -> veq y z = true -> veq x z = true.

Notation teq := (otuple_eq V veq).
Notation contains := (contains V veq).
Notation put_tuple := (put_tuple V veq).

Lemma oveq_refl : forall a, oveq V veq a a = true.
Proof. destruct a; cbn; auto. Qed.
Lemma oveq_sym : forall a b, oveq V veq a b = oveq V veq b a.
Proof. destruct a, b; cbn; auto. Qed.
Lemma oveq_trans : forall a b c, oveq V veq a b = true -> oveq V veq b c = true -> oveq V veq a c = true.
Proof. destruct a, b, c; cbn; try discriminate; auto. apply veq_trans. Qed.

Lemma teq_refl : forall a, teq a a = true.
Proof. induction a as [|x a IH]; cbn; [reflexivity|]. rewrite oveq_refl, IH. reflexivity. Qed.
Lemma teq_sym : forall a b, teq a b = teq b a.
Proof. induction a as [|x a IH]; destruct b as [|y b]; cbn; try reflexivity. rewrite oveq_sym, IH. reflexivity. Qed.
Lemma teq_trans : forall a b c, teq a b = true -> teq b c = true -> teq a c = true.
Proof.
  induction a as [|x a IH]; destruct b as [|y b]; destruct c as [|z c]; cbn; try discriminate; auto.
  intros H1 H2. apply andb_true_iff in H1 as [A1 A2]. apply andb_true_iff in H2 as [B1 B2].
  rewrite (oveq_trans _ _ _ A1 B1), (IH _ _ A2 B2). reflexivity.
Qed.

(** equal tuples are interchangeable as arguments of the equality *)
Lemma teq_congr : forall t a x, teq t a = true -> teq x t = teq x a.
Proof.
  intros t a x H. destruct (teq x t) eqn:E1.
  - symmetry. eapply teq_trans; eauto.
  - destruct (teq x a) eqn:E2; [|reflexivity].
    rewrite teq_sym in H. rewrite (teq_trans _ _ _ E2 H) in E1. discriminate.
Qed.

(** RefHashTableOf::put followed by a lookup: the table behaves as a set modulo value equality *)
Lemma contains_put : forall acc t x, contains (put_tuple t acc) x = contains acc x || teq x t.
Proof.
  unfold Model10.contains. induction acc as [|a acc IH]; intros t x; cbn.
  - rewrite orb_false_r. reflexivity.
  - destruct (teq t a) eqn:E; cbn.
    + rewrite (teq_congr t a x E). destruct (teq x a); cbn; [reflexivity|]. rewrite orb_false_r. reflexivity.
    + rewrite IH. rewrite orb_assoc. reflexivity.
Qed.

(** what ValueStore::addValue does with the completed tuples of successive value scopes: one duplicate report
    per tuple that is already contained, then the tuple is put into the table *)
Fixpoint store_dups (l : list (otuple V)) (acc : list (otuple V)) : list bool :=
  match l with [] => [] | t :: r => contains acc t :: store_dups r (put_tuple t acc) end.
Definition table (l acc : list (otuple V)) : list (otuple V) := fold_left (fun a t => put_tuple t a) l acc.

(** specification of the reports: the i-th tuple is reported iff an earlier tuple is equal to it *)
Fixpoint dups_spec (l seen : list (otuple V)) : list bool :=
  match l with [] => [] | t :: r => existsb (teq t) seen :: dups_spec r (seen ++ [t]) end.

Lemma store_dups_spec : forall l acc seen,
  (forall x, contains acc x = existsb (teq x) seen) -> store_dups l acc = dups_spec l seen.
Proof.
  induction l as [|t r IH]; intros acc seen H; cbn; [reflexivity|].
  rewrite H. f_equal. apply IH. intros x. rewrite contains_put, H, existsb_app. cbn. rewrite orb_false_r. reflexivity.
Qed.

Lemma table_contains : forall l acc x, contains (table l acc) x = contains acc x || existsb (teq x) l.
Proof.
  unfold table. induction l as [|t r IH]; intros acc x; cbn [fold_left existsb]; [rewrite orb_false_r; reflexivity|].
  rewrite IH, contains_put. rewrite <- orb_assoc. reflexivity.
Qed.

(** no report at all iff the tuples are pairwise different: clause 4.1 / 4.2.2 of the specification *)
Fixpoint no_dup_o (l : list (otuple V)) : bool :=
  match l with [] => true | x :: r => negb (existsb (teq x) r) && no_dup_o r end.

Lemma store_dups_none : forall l acc,
  forallb negb (store_dups l acc) = forallb (fun t => negb (contains acc t)) l && no_dup_o l.
Proof.
  induction l as [|t r IH]; intros acc; cbn; [reflexivity|].
  rewrite IH.
  assert (E : forallb (fun x => negb (contains (put_tuple t acc) x)) r
              = forallb (fun x => negb (contains acc x)) r && negb (existsb (teq t) r)).
  { clear IH. induction r as [|y r IHr]; cbn; [reflexivity|].
    rewrite IHr, contains_put, (teq_sym y t). destruct (contains acc y), (teq t y); cbn; try reflexivity;
      try (rewrite ?andb_false_r; reflexivity).
    all: try (destruct (forallb (fun x => negb (contains acc x)) r), (existsb (teq t) r); reflexivity). }
  rewrite E.
  destruct (contains acc t), (forallb (fun x => negb (contains acc x)) r), (existsb (teq t) r), (no_dup_o r); reflexivity.
Qed.

Lemma teq_map_some : forall a b : list V, teq (map Some a) (map Some b) = tuple_eq V veq a b.
Proof. induction a as [|x a IH]; destruct b as [|y b]; cbn; try reflexivity. rewrite IH. reflexivity. Qed.

Lemma no_dup_o_map : forall l : list (list V), no_dup_o (map (map Some) l) = no_dup_eq V veq l.
Proof.
  induction l as [|x r IH]; cbn; [reflexivity|]. rewrite IH.
  assert (E : existsb (teq (map Some x)) (map (map Some) r) = existsb (tuple_eq V veq x) r).
  { clear IH. induction r as [|y r IHr]; cbn; [reflexivity|]. rewrite teq_map_some, IHr. reflexivity. }
  rewrite E. reflexivity.
Qed.

Theorem store_reports_unique_ok : forall l : list (list V),
  forallb negb (store_dups (map (map Some) l) []) = no_dup_eq V veq l.
Proof.
  intros l. rewrite store_dups_none, no_dup_o_map.
  assert (E : forallb (fun t => negb (contains [] t)) (map (map Some) l) = true).
  { apply forallb_forall. intros. reflexivity. }
  rewrite E. reflexivity.
Qed.

Theorem store_reports_exact : forall l, store_dups l [] = dups_spec l [].
Proof. intros l. apply store_dups_spec. intros x. reflexivity. Qed.

(** *** keyref resolution (ValueStore::endDocumentFragment): the verdict only depends on the *sets* of
    key-sequences, so it is independent of the document order of keys and references and of how often a tuple occurs *)
Definition keyref_missing (keys refs : list (otuple V)) : list (otuple V) :=
  filter (fun t => negb (contains (table keys []) t)) (table refs []).

Lemma in_table : forall l acc x, In x (table l acc) -> In x acc \/ In x l.
Proof.
  unfold table. induction l as [|t r IH]; intros acc x H; cbn [fold_left] in H; [auto|].
  apply IH in H as [H|H]; [|right; right; exact H].
  assert (G : forall a, In x (put_tuple t a) -> In x a \/ x = t).
  { clear. induction a as [|y a IHa]; cbn; intros H.
    - destruct H as [H|[]]; auto.
    - destruct (teq t y); cbn in H; destruct H as [H|H]; auto. apply IHa in H as [H|H]; auto. }
  apply G in H as [H|H]; [left; exact H|right; left; symmetry; exact H].
Qed.

Lemma table_covers : forall l acc x, In x l -> contains (table l acc) x = true.
Proof.
  intros l acc x H. rewrite table_contains. apply orb_true_iff. right. apply existsb_exists. exists x.
  split; [exact H|apply teq_refl].
Qed.

Theorem keyref_verdict_sets : forall keys refs,
  keyref_missing keys refs = [] <-> (forall r, In r refs -> exists k, In k keys /\ teq r k = true).
Proof.
  intros keys refs. unfold keyref_missing. split.
  - intros H r Hr.
    assert (C : contains (table refs []) r = true) by (apply table_covers; exact Hr).
    unfold Model10.contains in C. apply existsb_exists in C as [r' [In' E]].
    assert (F : negb (contains (table keys []) r') = false).
    { destruct (negb (contains (table keys []) r')) eqn:N; [|reflexivity].
      assert (X : In r' (filter (fun t => negb (contains (table keys []) t)) (table refs []))).
      { apply filter_In. split; assumption. }
      rewrite H in X. destruct X. }
    apply negb_false_iff in F. rewrite table_contains in F. cbn in F.
    apply existsb_exists in F as [k [Ink Ek]]. exists k. split; [exact Ink|]. eapply teq_trans; eauto.
  - intros H. destruct (filter _ _) as [|x l] eqn:E; [reflexivity|]. exfalso.
    assert (X : In x (filter (fun t => negb (contains (table keys []) t)) (table refs []))) by (rewrite E; left; reflexivity).
    apply filter_In in X as [X1 X2]. apply in_table in X1 as [[]|X1].
    destruct (H x X1) as [k [Ink Ek]]. apply negb_true_iff in X2. rewrite table_contains in X2. cbn in X2.
    assert (Y : existsb (teq x) keys = true) by (apply existsb_exists; exists k; auto). rewrite Y in X2. discriminate.
Qed.

Theorem keyref_order_independent : forall keys keys' refs refs',
  (forall x, In x keys <-> In x keys') -> (forall x, In x refs <-> In x refs') ->
  (keyref_missing keys refs = [] <-> keyref_missing keys' refs' = []).
Proof.
  intros keys keys' refs refs' HK HR. rewrite !keyref_verdict_sets. split; intros H r Hr.
  - apply HR in Hr. destruct (H r Hr) as [k [A B]]. exists k. split; [apply HK; exact A|exact B].
  - apply HR in Hr. destruct (H r Hr) as [k [A B]]. exists k. split; [apply HK; exact A|exact B].
Qed.

(** *** hash buckets are transparent when equal values have equal hash keys (hash_respects_eq) *)
Variable vhash : V -> list N.
Hypothesis hash_respects_eq : forall x y, veq x y = true -> vhash x = vhash y.

Lemma nl_eqb_refl : forall a, nl_eqb a a = true.
Proof. induction a as [|x a IH]; cbn; [reflexivity|]. rewrite N.eqb_refl, IH. reflexivity. Qed.
Lemma nll_eqb_refl : forall a, nll_eqb a a = true.
Proof. induction a as [|x a IH]; cbn; [reflexivity|]. rewrite nl_eqb_refl, IH. reflexivity. Qed.

Lemma thash_eq : forall a b, teq a b = true -> thash V vhash a = thash V vhash b.
Proof.
  unfold thash. induction a as [|x a IH]; destruct b as [|y b]; cbn; try discriminate; [reflexivity|].
  intros H. apply andb_true_iff in H as [H1 H2]. rewrite (IH _ H2). f_equal.
  destruct x, y; cbn in *; try discriminate; [apply hash_respects_eq; exact H1|reflexivity].
Qed.

Lemma same_bucket_of_eq : forall a b, teq a b = true -> same_bucket V vhash a b = true.
Proof. intros a b H. unfold same_bucket. rewrite (thash_eq a b H). apply nll_eqb_refl. Qed.

Lemma bucket_test : forall t x, same_bucket V vhash t x && teq t x = teq t x.
Proof. intros t x. destruct (teq t x) eqn:E; [rewrite (same_bucket_of_eq t x E); reflexivity|apply andb_false_r]. Qed.

Theorem containsH_is_contains : forall tuples t, containsH V veq vhash tuples t = contains tuples t.
Proof.
  unfold containsH, Model10.contains. induction tuples as [|x r IH]; intros t; cbn; [reflexivity|].
  rewrite bucket_test, IH. reflexivity.
Qed.

Theorem put_tupleH_is_put_tuple : forall t tuples, put_tupleH V veq vhash t tuples = put_tuple t tuples.
Proof.
  induction tuples as [|x r IH]; cbn; [reflexivity|]. rewrite bucket_test, IH. reflexivity.
Qed.

End STORE.
