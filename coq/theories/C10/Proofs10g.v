(** Soundness of the streaming matcher as written (fixed = false) for ".//" paths: every element at which it
    starts a value scope belongs to the specification's node set, provided the context element itself is not
    matched by the first step (the class of finding F26). *)
From Coq Require Import NArith List Bool Arith Lia.
From XV Require Import C10.Spec10 C10.Model10 C10.Proofs10d C10.Proofs10e.
Import ListNotations.

Lemma list_cases : forall (A : Type) (l : list A), l = [] \/ exists x r, l = x :: r.
Proof. intros A [|x r]; eauto. Qed.

Section SOUND.
Variable V : Type.
Variable s1 : ntest.
Variable r0 : list ntest.
Let steps := s1 :: r0.
Let p : path := SSelf :: SDesc :: map SChild steps.

Lemma len_p : length p = S (S (S (length r0))).
Proof. unfold p, steps. cbn [length map]. rewrite map_length. reflexivity. Qed.

(** startElement while a partial match is in progress (any flag value carried along) *)
Lemma pstart_mid : forall k stk0 m0 nm (ats : list (N * V)) sk,
  (m0 = 0 \/ m0 = 13)%N -> k < length p -> step_at p k = SChild sk ->
  (S k < length p -> exists s2, step_at p (S k) = SChild s2) ->
  p_start_faithful V p (mkPst k stk0 0 m0) nm ats =
  if ntest_ok sk nm
  then (if S k =? length p then (mkPst (S k) (k :: stk0) 0 1, None) else (mkPst (S k) (k :: stk0) 0 m0, None))
  else (mkPst k (k :: stk0) 1 m0, None).
Proof.
  intros k stk0 m0 nm ats sk Hm Hk Hs Hn. unfold p_start_faithful, mkPst. cbn [cur stk nom mat].
  assert (C1 : (N.land m0 5 =? 1)%N || (0 <? 0) = false) by (destruct Hm; subst; reflexivity). rewrite C1. cbn iota.
  assert (C2 : (if (N.land m0 5 =? 5)%N then XP_MATCHED_DP else m0) = m0) by (destruct Hm; subst; reflexivity). rewrite C2.
  rewrite (skip_stop is_self) by (rewrite Hs; reflexivity).
  rewrite (skip_stop is_desc) by (rewrite Hs; reflexivity).
  assert (E1 : (k =? length p) = false) by (apply Nat.eqb_neq; lia). rewrite E1.
  rewrite Nat.eqb_refl, Nat.ltb_irrefl. cbn [orb]. rewrite Hs.
  destruct (ntest_ok sk nm); [|reflexivity].
  destruct (Nat.eqb_spec (S k) (length p)) as [E|E]; [reflexivity|].
  destruct Hn as [s2 H2]; [lia|]. rewrite H2. reflexivity.
Qed.

Definition carry (m0 : N) : N := if (N.land m0 5 =? 5)%N then 13%N else m0.

(** startElement while searching (fCurrentStep at the descendant step), from the context element (c0 = 0) or below (c0 = 1) *)
Lemma pstart_fresh : forall c0 stk0 m0 nm (ats : list (N * V)),
  (c0 = 0 /\ m0 = 0%N) \/ (c0 = 1 /\ (m0 = 0 \/ m0 = 5 \/ m0 = 13)%N) ->
  p_start_faithful V p (mkPst c0 stk0 0 m0) nm ats =
  if ntest_ok s1 nm
  then (match r0 with [] => (mkPst 1 (c0 :: stk0) 0 5, None) | _ => (mkPst 3 (c0 :: stk0) 0 (carry m0), None) end)
  else (mkPst 1 (c0 :: stk0) 0 (carry m0), None).
Proof.
  intros c0 stk0 m0 nm ats H. unfold p_start_faithful, mkPst. cbn [cur stk nom mat].
  assert (C1 : (N.land m0 5 =? 1)%N || (0 <? 0) = false) by (destruct H as [[_ H]|[_ [H|[H|H]]]]; subst; reflexivity).
  rewrite C1. cbn iota. fold (carry m0).
  assert (S1 : skip is_self p c0 (length p) = 1).
  { destruct H as [[H _]|[H _]]; subst c0.
    - rewrite len_p. cbn [skip]. rewrite len_p. reflexivity.
    - apply skip_stop. reflexivity. }
  rewrite S1.
  assert (S2 : skip is_desc p 1 (length p) = 2).
  { rewrite len_p. cbn [skip]. rewrite len_p. reflexivity. }
  rewrite S2, len_p. cbn [Nat.eqb Nat.ltb Nat.leb orb].
  rewrite orb_true_r. change (step_at p 2) with (SChild s1). cbn iota beta.
  destruct (ntest_ok s1 nm); [|reflexivity].
  destruct r0 as [|s2 r2] eqn:Er.
  - cbn [length Nat.eqb]. reflexivity.
  - cbn [length Nat.eqb]. reflexivity.
Qed.

Lemma pend_live : forall s, nom s = 0 -> fst (p_end_faithful s) = mkPst (hd 0 (stk s)) (tl (stk s)) 0 0.
Proof.
  intros s H. unfold p_end_faithful. rewrite H. cbn [Nat.ltb Nat.leb].
  destruct (mat s =? 0)%N; [reflexivity|]. destruct (N.land (mat s) 3 =? 3)%N; reflexivity.
Qed.

Definition md_ok (ed : nat) (md : option nat) : Prop := forall x, md = Some x -> x <= ed.
Definition st_post (s s' : pst) : Prop :=
  alt s' = [] /\ nom s' = 0 /\ cur s' = cur s /\ stk s' = stk s /\ (mat s' = 0 \/ mat s' = mat s)%N.
Definition fresh (s : pst) : Prop := alt s = [] /\ nom s = 0 /\ cur s = 1 /\ (mat s = 0 \/ mat s = 5 \/ mat s = 13)%N.
Definition mid (k : nat) (s : pst) : Prop := alt s = [] /\ nom s = 0 /\ cur s = k /\ (mat s = 0 \/ mat s = 13)%N.

Definition sound_res (Q : addr -> Prop) (t : tree V) (a : addr) (s : pst) (ed : nat) (md : option nat) : Prop :=
  exists s' md' out, sel_run V false false p t a (s, ed, md) = ((s', ed, md'), out) /\ st_post s s' /\ md_ok ed md' /\
    forall x, In x out -> exists a', x = rev a ++ a' /\ Q a'.

Lemma st_post_trans : forall s s' s'', st_post s s' -> st_post s' s'' -> st_post s s''.
Proof.
  intros s s' s'' [A1 [B1 [C1 [D1 E1]]]] [A2 [B2 [C2 [D2 E2]]]]. repeat split; try congruence.
  destruct E2 as [E2|E2]; [left; exact E2|]. rewrite E2. exact E1.
Qed.
Lemma fresh_post : forall s s', fresh s -> st_post s s' -> fresh s'.
Proof.
  intros s s' [A [B [C D]]] [A2 [B2 [C2 [_ E2]]]]. repeat split; try congruence.
  destruct E2 as [E2|E2]; [left; exact E2|]. rewrite E2. exact D.
Qed.
Lemma mid_post : forall k s s', mid k s -> st_post s s' -> mid k s'.
Proof.
  intros k s s' [A [B [C D]]] [A2 [B2 [C2 [_ E2]]]]. repeat split; try congruence.
  destruct E2 as [E2|E2]; [left; exact E2|]. rewrite E2. exact D.
Qed.

Lemma sound_kids : forall (Pre : pst -> Prop) (Q : tree V -> addr -> Prop),
  (forall s s', Pre s -> st_post s s' -> Pre s') ->
  forall l, Forall (fun k => forall a s ed md, md_ok ed md -> Pre s -> sound_res (Q k) k a s ed md) l ->
  forall i a s ed md, md_ok ed md -> Pre s -> alt s = [] -> nom s = 0 ->
  exists s' md' out, sel_kids V false p i l a (s, ed, md) = ((s', ed, md'), out) /\ st_post s s' /\ md_ok ed md' /\
    forall x, In x out -> exists j kid a'', nth_error l j = Some kid /\ x = rev a ++ (i + j) :: a'' /\ Q kid a''.
Proof.
  intros Pre Q Hpre. induction l as [|k l IHl]; intros F i a s ed md Hm Hp Ha Hn.
  - exists s, md, []. cbn [sel_kids]. split; [reflexivity|]. split; [repeat split; auto|]. split; [exact Hm|]. intros x [].
  - inversion F as [|? ? F1 F2]; subst.
    destruct (F1 (i :: a) s ed md Hm Hp) as [s' [md' [o1 [E1 [P1 [M1 O1]]]]]].
    assert (Hp' : Pre s') by (apply (Hpre s s' Hp P1)).
    destruct P1 as [A1 [B1 R1]].
    destruct (IHl F2 (S i) a s' ed md' M1 Hp' A1 B1) as [s'' [md'' [o2 [E2 [P2 [M2 O2]]]]]].
    exists s'', md'', (o1 ++ o2). cbn [sel_kids]. rewrite E1, E2. split; [reflexivity|].
    split; [apply (st_post_trans s s' s''); [repeat split; tauto|exact P2]|]. split; [exact M2|].
    intros x Hx. apply in_app_iff in Hx as [Hx|Hx].
    + destruct (O1 x Hx) as [a' [Ex H]]. exists 0, k, a'. split; [reflexivity|]. split; [|exact H].
      rewrite Ex. cbn [rev]. rewrite <- app_assoc, Nat.add_0_r. reflexivity.
    + destruct (O2 x Hx) as [j [kid [a'' [H1 [Ex H]]]]]. exists (S j), kid, a''. split; [exact H1|]. split; [|exact H].
      rewrite Ex, Nat.add_succ_r. reflexivity.
Qed.

Lemma md3_ok : forall ed md2, md_ok (S ed) md2 ->
  md_ok ed (match md2 with Some x => if x =? S ed then None else md2 | None => None end).
Proof.
  intros ed [x|] H y E; [|discriminate]. destruct (Nat.eqb_spec x (S ed)); [discriminate|]. inversion E; subst.
  specialize (H y eq_refl). lia.
Qed.

Lemma step_at_mid : forall done sk r, steps = done ++ sk :: r -> step_at p (2 + length done) = SChild sk.
Proof.
  intros done sk r E. unfold step_at, p. cbn [Nat.add nth]. rewrite E, map_app, app_nth2; rewrite map_length; [|lia].
  rewrite Nat.sub_diag. reflexivity.
Qed.

Definition QF (t : tree V) (a' : addr) : Prop := In a' (mf V steps t) \/ In a' (sel_path V (pd steps) t).
Definition QM (r : list ntest) (t : tree V) (a' : addr) : Prop := In a' (mf V r t).

Definition run_sound (t : tree V) : Prop :=
  forall a s ed md, md_ok ed md ->
  (fresh s -> sound_res (QF t) t a s ed md) /\
  (forall done sk r, steps = done ++ sk :: r -> done <> [] -> mid (2 + length done) s -> sound_res (QM (sk :: r) t) t a s ed md).

(** closing an element whose children were traversed from the live state [q1] *)
Lemma close_live : forall (Q : addr -> Prop) nm ats sm nl v ks a s ed md q1 c stk0 (trig : bool) Qk,
  fst (p_start V false false p s nm ats) = q1 -> alt q1 = [] -> nom q1 = 0 -> stk q1 = c :: stk0 ->
  sel_trigger (mat q1) md = trig -> md_ok ed md ->
  cur s = c -> stk s = stk0 ->
  (exists s' md' out,
      sel_kids V false p 0 ks a (q1, S ed, if trig then Some (S ed) else md) = ((s', S ed, md'), out) /\ st_post q1 s' /\
      md_ok (S ed) md' /\ forall x, In x out -> exists j kid a'', nth_error ks j = Some kid /\ x = rev a ++ (0 + j) :: a'' /\ Qk kid a'') ->
  (trig = true -> Q []) ->
  (forall j kid a'', nth_error ks j = Some kid -> Qk kid a'' -> Q (j :: a'')) ->
  sound_res Q (Node nm ats sm nl v ks) a s ed md.
Proof.
  intros Q nm ats sm nl v ks a s ed md q1 c stk0 trig Qk Es Ha Hn Hs Ht Hm Hc Hk K Q0 Q1.
  unfold sound_res. rewrite sel_run_unfold. unfold sel_node. rewrite Es, Ht.
  destruct K as [s2 [md2 [kout [E [[A2 [B2 [C2 [D2 _]]]] [M2 O]]]]]].
  rewrite E. cbn [fst snd]. unfold p_end. rewrite (pend_live s2 B2), D2, Hs. cbn [hd tl pred].
  eexists _, _, _. split; [reflexivity|]. split.
  - unfold st_post, mkPst. cbn [alt nom cur stk mat]. repeat split; auto.
  - split; [apply md3_ok; exact M2|]. intros x Hx. apply in_app_iff in Hx as [Hx|Hx].
    + destruct trig; [|destruct Hx]. destruct Hx as [Hx|[]]. exists []. split; [rewrite app_nil_r; auto|]. apply Q0. reflexivity.
    + destruct (O x Hx) as [j [kid [a'' [H1 [Ex H]]]]]. exists (j :: a''). split; [exact Ex|]. apply (Q1 j kid a'' H1 H).
Qed.

Lemma md1_ok : forall ed md (trig : bool), md_ok ed md -> md_ok (S ed) (if trig then Some (S ed) else md).
Proof. intros ed md [|] H x E; [inversion E; lia|specialize (H x E); lia]. Qed.

Lemma carry_cases : forall m0, (m0 = 0 \/ m0 = 5 \/ m0 = 13)%N -> (carry m0 = 0 \/ carry m0 = 13)%N.
Proof. intros m0 [H|[H|H]]; subst; cbn; auto. Qed.
Lemma trig_carry : forall m md, (m = 0 \/ m = 13)%N -> sel_trigger m md = false.
Proof. intros m md [H|H]; subst; destruct md; reflexivity. Qed.

Lemma run_sound_all : forall t : tree V, run_sound t.
Proof.
  intros t. induction t as [nm ats sm nl v ks IH] using tree_ind2. intros a s ed md Hm.
  assert (IHF : Forall (fun k => forall a s ed md, md_ok ed md -> fresh s -> sound_res (QF k) k a s ed md) ks).
  { eapply Forall_impl; [|exact IH]. intros k H a0 s0 ed0 md0 M F. exact (proj1 (H a0 s0 ed0 md0 M) F). }
  split.
  - (* searching *)
    intros [Ha [Hn [Hc Hmat]]]. destruct s as [c st n m al]. cbn in Ha, Hn, Hc, Hmat. subst al n c.
    change (mkPstA 1 st 0 m []) with (mkPst 1 st 0 m).
    assert (PS := pstart_fresh 1 st m nm ats (or_intror (conj eq_refl Hmat))).
    destruct (ntest_ok s1 nm) eqn:Ok.
    + destruct (list_cases _ r0) as [Er|[s2 [r2 Er]]]; rewrite Er in PS.
      * (* the path is complete here: selected, keep searching below *)
        eapply (close_live (QF (Node nm ats sm nl v ks)) nm ats sm nl v ks a _ ed md (mkPst 1 (1 :: st) 0 5) 1 st true QF).
        -- rewrite fst_p_start_false, PS. reflexivity.
        -- reflexivity.
        -- reflexivity.
        -- reflexivity.
        -- destruct md; reflexivity.
        -- exact Hm.
        -- reflexivity.
        -- reflexivity.
        -- apply (sound_kids fresh QF fresh_post ks IHF 0 a (mkPst 1 (1 :: st) 0 5) (S ed) (Some (S ed))).
           ++ apply (md1_ok ed md true Hm).
           ++ unfold fresh, mkPst. cbn. repeat split; auto.
           ++ reflexivity.
           ++ reflexivity.
        -- intros _. left. unfold mf, steps. cbn [t_name]. rewrite Ok, Er. cbn. auto.
        -- intros j kid a'' H1 H. right. apply (sel_desc_char V s1 r0). exists j, kid, a''. auto.
      * (* first step matched, more steps follow *)
        assert (IHM : Forall (fun k => forall a s ed md, md_ok ed md -> mid 3 s -> sound_res (QM (s2 :: r2) k) k a s ed md) ks).
        { eapply Forall_impl; [|exact IH]. intros k H a0 s0 ed0 md0 M F.
          assert (E0 : steps = [s1] ++ s2 :: r2) by (unfold steps; rewrite Er; reflexivity).
          exact (proj2 (H a0 s0 ed0 md0 M) [s1] s2 r2 E0 ltac:(discriminate) F). }
        eapply (close_live (QF (Node nm ats sm nl v ks)) nm ats sm nl v ks a _ ed md (mkPst 3 (1 :: st) 0 (carry m)) 1 st false (QM (s2 :: r2))).
        -- rewrite fst_p_start_false, PS. reflexivity.
        -- reflexivity.
        -- reflexivity.
        -- reflexivity.
        -- apply trig_carry, carry_cases, Hmat.
        -- exact Hm.
        -- reflexivity.
        -- reflexivity.
        -- apply (sound_kids (mid 3) (QM (s2 :: r2)) (mid_post 3) ks IHM 0 a (mkPst 3 (1 :: st) 0 (carry m)) (S ed) md).
           ++ apply (md1_ok ed md false Hm).
           ++ unfold mid, mkPst. cbn. repeat split; auto. apply carry_cases, Hmat.
           ++ reflexivity.
           ++ reflexivity.
        -- discriminate.
        -- intros j kid a'' H1 H. left. unfold mf, steps. cbn [t_name]. rewrite Ok, Er.
           apply in_eval_steps. exists j, kid, a''. auto.
    + (* no match: keep searching *)
      eapply (close_live (QF (Node nm ats sm nl v ks)) nm ats sm nl v ks a _ ed md (mkPst 1 (1 :: st) 0 (carry m)) 1 st false QF).
      * rewrite fst_p_start_false, PS. reflexivity.
      * reflexivity.
      * reflexivity.
      * reflexivity.
      * apply trig_carry, carry_cases, Hmat.
      * exact Hm.
      * reflexivity.
      * reflexivity.
      * apply (sound_kids fresh QF fresh_post ks IHF 0 a (mkPst 1 (1 :: st) 0 (carry m)) (S ed) md).
        -- apply (md1_ok ed md false Hm).
        -- unfold fresh, mkPst. cbn. repeat split; auto. destruct (carry_cases m Hmat) as [H|H]; rewrite H; auto.
        -- reflexivity.
        -- reflexivity.
      * discriminate.
      * intros j kid a'' H1 H. right. apply (sel_desc_char V s1 r0). exists j, kid, a''. auto.
  - (* a partial match is in progress *)
    intros done sk r E Hd [Ha [Hn [Hc Hmat]]]. destruct s as [c st n m al]. cbn [alt nom cur mat] in Ha, Hn, Hc, Hmat. subst al n c.
    set (k := 2 + length done). change (mkPstA k st 0 m []) with (mkPst k st 0 m).
    assert (Lk : length p = S (S (length done + S (length r)))).
    { unfold p. cbn [length]. rewrite map_length. fold steps. rewrite E, app_length. reflexivity. }
    assert (PS := pstart_mid k st m nm ats sk Hmat).
    assert (PS' : p_start_faithful V p (mkPst k st 0 m) nm ats =
                  (if ntest_ok sk nm
                   then if S k =? length p then (mkPst (S k) (k :: st) 0 1, None) else (mkPst (S k) (k :: st) 0 m, None)
                   else (mkPst k (k :: st) 1 m, None))).
    { apply PS.
      - unfold k. lia.
      - apply (step_at_mid done sk r E).
      - intros Hlt. destruct r as [|s2 r2]; [unfold k in Hlt; cbn [length] in Lk; lia|]. exists s2.
        replace (S k) with (2 + length (done ++ [sk])) by (rewrite app_length; cbn; unfold k; lia).
        apply (step_at_mid (done ++ [sk]) s2 r2). rewrite <- app_assoc. exact E. }
    clear PS. destruct (ntest_ok sk nm) eqn:Ok.
    + destruct r as [|s2 r2].
      * (* last step: matched without the descendant flag; everything below is dead *)
        cbn [length] in Lk. assert (Ek : (S k =? length p) = true) by (apply Nat.eqb_eq; unfold k; lia). rewrite Ek in PS'.
        unfold sound_res. rewrite sel_run_unfold. unfold sel_node. rewrite fst_p_start_false, PS'. cbn [fst mat mkPst].
        rewrite dead_kids.
        2:{ unfold dead_state, mkPst. cbn [alt mat nom]. repeat split.
            - destruct md; reflexivity.
            - intros x Hx. destruct md as [y|]; cbn in Hx; inversion Hx; subst; [specialize (Hm x eq_refl); lia|lia]. }
        cbn [fst snd]. unfold p_end, p_end_faithful, mkPst. cbn [nom stk cur mat hd tl Nat.ltb Nat.leb pred].
        change (1 =? 0)%N with false. change (N.land 1 3 =? 3)%N with false. cbn iota. cbn [fst].
        eexists _, _, _. split; [reflexivity|]. split; [unfold st_post; cbn; repeat split; auto|].
        split; [apply md3_ok, md1_ok, Hm|].
        intros x Hx. rewrite app_nil_r in Hx. destruct (sel_trigger 1 md); [|destruct Hx]. destruct Hx as [Hx|[]].
        exists []. split; [rewrite app_nil_r; auto|]. unfold QM, mf. cbn [t_name]. rewrite Ok. cbn. auto.
      * cbn [length] in Lk. assert (Ek : (S k =? length p) = false) by (apply Nat.eqb_neq; unfold k; lia). rewrite Ek in PS'.
        assert (E2 : steps = (done ++ [sk]) ++ s2 :: r2) by (rewrite <- app_assoc; exact E).
        assert (K2 : S k = 2 + length (done ++ [sk])) by (rewrite app_length; cbn; unfold k; lia).
        assert (IHM : Forall (fun kid => forall a s ed md, md_ok ed md -> mid (S k) s -> sound_res (QM (s2 :: r2) kid) kid a s ed md) ks).
        { eapply Forall_impl; [|exact IH]. intros kid H a0 s0 ed0 md0 M F. rewrite K2 in F.
          apply (proj2 (H a0 s0 ed0 md0 M) (done ++ [sk]) s2 r2 E2); [destruct done; discriminate|exact F]. }
        eapply (close_live (QM (sk :: s2 :: r2) (Node nm ats sm nl v ks)) nm ats sm nl v ks a _ ed md (mkPst (S k) (k :: st) 0 m) k st false (QM (s2 :: r2))).
        -- rewrite fst_p_start_false, PS'. reflexivity.
        -- reflexivity.
        -- reflexivity.
        -- reflexivity.
        -- apply trig_carry, Hmat.
        -- exact Hm.
        -- reflexivity.
        -- reflexivity.
        -- apply (sound_kids (mid (S k)) (QM (s2 :: r2)) (mid_post (S k)) ks IHM 0 a (mkPst (S k) (k :: st) 0 m) (S ed) md).
           ++ apply (md1_ok ed md false Hm).
           ++ unfold mid, mkPst. cbn. repeat split; auto.
           ++ reflexivity.
           ++ reflexivity.
        -- discriminate.
        -- intros j kid a'' H1 H. unfold QM, mf. cbn [t_name]. rewrite Ok. apply in_eval_steps. exists j, kid, a''. auto.
    + (* the step fails: the subtree is dead *)
      unfold sound_res. rewrite sel_run_unfold. unfold sel_node. rewrite fst_p_start_false, PS'. cbn [fst mat mkPst].
      rewrite (trig_carry m md Hmat).
      rewrite dead_kids.
      2:{ unfold dead_state, mkPst. cbn [alt mat nom]. repeat split.
          - rewrite orb_true_r. reflexivity.
          - apply trig_carry, Hmat.
          - intros x Hx. specialize (Hm x Hx). lia. }
      cbn [fst snd app]. unfold p_end, p_end_faithful, mkPst. cbn [nom stk cur mat hd tl Nat.ltb Nat.leb pred fst].
      eexists _, _, _. split; [reflexivity|]. split; [unfold st_post; cbn; repeat split; auto|].
      split; [apply md3_ok; intros x Hx; specialize (Hm x Hx); lia|]. intros x [].
Qed.

(** T10_xpath_sound *)
Theorem sound_desc : forall (t : tree V) x,
  ntest_ok s1 (t_name t) = false ->
  In x (matcher_selects V false false p t) -> In x (sel_path V (pd steps) t).
Proof.
  intros [nm ats sm nl v ks] x G Hx. cbn [t_name] in G.
  assert (PS := pstart_fresh 0 [] 0%N nm ats (or_introl (conj eq_refl eq_refl))). rewrite G in PS.
  assert (IHF : Forall (fun k => forall a s ed md, md_ok ed md -> fresh s -> sound_res (QF k) k a s ed md) ks).
  { apply Forall_forall. intros k _ a0 s0 ed0 md0 M F. exact (proj1 (run_sound_all k a0 s0 ed0 md0 M) F). }
  assert (R : sound_res (fun a' => In a' (sel_path V (pd steps) (Node nm ats sm nl v ks))) (Node nm ats sm nl v ks) [] pst0 0 None).
  { eapply (close_live _ nm ats sm nl v ks [] pst0 0 None (mkPst 1 [0] 0 (carry 0)) 0 [] false QF).
    - rewrite fst_p_start_false. unfold pst0. rewrite PS. reflexivity.
    - reflexivity.
    - reflexivity.
    - reflexivity.
    - reflexivity.
    - intros y Hy. discriminate.
    - reflexivity.
    - reflexivity.
    - apply (sound_kids fresh QF fresh_post ks IHF 0 [] (mkPst 1 [0] 0 (carry 0)) 1 None).
      + intros y Hy. discriminate.
      + unfold fresh, mkPst. cbn. repeat split; auto.
      + reflexivity.
      + reflexivity.
    - discriminate.
    - intros j kid a'' H1 H. apply (sel_desc_char V s1 r0). exists j, kid, a''. auto. }
  destruct R as [s' [md' [out [E [_ [_ O]]]]]]. unfold matcher_selects in Hx. rewrite E in Hx. cbn [snd] in Hx.
  destruct (O x Hx) as [a' [Ex H]]. cbn [rev app] in Ex. subst x. exact H.
Qed.

End SOUND.

Theorem matcher_sound_desc : forall (V : Type) s1 r0 (t : tree V) x,
  ntest_ok s1 (t_name t) = false ->
  In x (matcher_selects V false false (compile_path (mkSpath true (s1 :: r0) None)) t) ->
  In x (sel_path V (mkSpath true (s1 :: r0) None) t).
Proof.
  intros V s1 r0 t x G H. unfold compile_path in H. cbn [sp_desc sp_steps sp_attr app] in H. rewrite app_nil_r in H.
  exact (sound_desc V s1 r0 t x G H).
Qed.
