(** Executable model of xerces-c's identity-constraint machinery, following the C++ in
    src/xercesc/validators/schema/identity/ function by function (no proofs here):
      XercesXPath::parseExpression (subset)            -> [compile_path], [compile_xpath]
      XPathMatcher::startElement / endElement          -> [p_start], [p_end]      (one location path)
      SelectorMatcher / FieldMatcher                   -> [matcher_start_at], [matcher_end_at]
      ValueStore (startValueScope/addValue/endValueScope/contains/append/endDocumentFragment)
      ValueStoreCache (startElement/endElement/initValueStoresFor/transplant) with ValueStore objects in a heap
        (the C++ shares ValueStore pointers between fIC2ValueStoreMap and the global maps)
      IdentityConstraintHandler::activateIdentityConstraint / deactivateContext -> [activate], [deactivate]
    Values are abstract ([V] with [veq] = ICValueHasher::equals on one field); errors are emitted only when
    [report] holds (ValueStore::fDoReportError). *)
From Coq Require Import NArith List Bool Arith.
From XV Require Import C10.Spec10.
Import ListNotations.

Inductive step := SSelf | SDesc | SChild (t : ntest) | SAttr (t : ntest).
Definition path := list step.
Definition xpath := list path.

Definition ntest_eqb (a b : ntest) : bool :=
  match a, b with NTName x, NTName y => N.eqb x y | NTAny, NTAny => true | NTNs x, NTNs y => N.eqb x y | _, _ => false end.
Definition step_eqb (a b : step) : bool :=
  match a, b with
  | SSelf, SSelf => true | SDesc, SDesc => true
  | SChild x, SChild y => ntest_eqb x y | SAttr x, SAttr y => ntest_eqb x y | _, _ => false end.
Fixpoint path_eqb (a b : path) : bool :=
  match a, b with [], [] => true | x :: r, y :: s => step_eqb x y && path_eqb r s | _, _ => false end.

(** XercesXPath::parseExpression: "./" is prepended, ".//" gives a DESCENDANT step, a path equal to an earlier
    member of the union is dropped *)
Definition compile_path (p : spath) : path :=
  SSelf :: (if sp_desc p then [SDesc] else []) ++ map SChild (sp_steps p) ++
  match sp_attr p with Some t => [SAttr t] | None => [] end.
Fixpoint add_paths (acc : xpath) (l : list path) : xpath :=
  match l with [] => acc | p :: r => add_paths (if existsb (path_eqb p) acc then acc else acc ++ [p]) r end.
Definition compile_xpath (xp : sxpath) : xpath := add_paths [] (map compile_path xp).

Inductive ecode := E_FieldMultipleMatch | E_UnknownField | E_AbsentKeyValue | E_KeyNotEnoughValues
                 | E_KeyMatchesNillable | E_DuplicateUnique | E_DuplicateKey | E_KeyRefOutOfScope | E_KeyNotFound.

(** an identity constraint as the matcher sees it; [m_refer] = index of the referenced key (IC_KeyRef::getKey) *)
Record mic := mkMic { m_k : ickind; m_refer : nat; m_sel : xpath; m_flds : list xpath }.

(** per location path: fCurrentStep[i], fStepIndexes[i], fNoMatchDepth[i], fMatched[i] *)
(** [alt] is used only by the repaired (set-of-positions) matcher [pf_start]/[pf_end] below: a stack with, for every
    open element, the set of steps its children may match next and that element's own match flag *)
Record pst := mkPstA { cur : nat; stk : list nat; nom : nat; mat : N; alt : list (list nat * N) }.
Definition mkPst (c : nat) (k : list nat) (n : nat) (m : N) : pst := mkPstA c k n m [].
Definition pst0 := mkPst 0 [] 0 0.

Definition step_at (p : path) (i : nat) : step := nth i p SSelf.
Definition is_self (s : step) := match s with SSelf => true | _ => false end.
Definition is_desc (s : step) := match s with SDesc => true | _ => false end.
Fixpoint skip (f : step -> bool) (p : path) (c fuel : nat) : nat :=
  match fuel with
  | O => c
  | S k => if (c <? length p) && f (step_at p c) then skip f p (S c) k else c
  end.

Definition XP_MATCHED := 1%N.
Definition XP_MATCHED_A := 3%N.
Definition XP_MATCHED_D := 5%N.
Definition XP_MATCHED_DP := 13%N.

(** isMatched for one member of the union (SelectorMatcher::startElement) *)
Definition is_matched (m : N) : bool := (N.land m 1 =? 1)%N && negb (N.land m 13 =? 13)%N.

Section MODEL.
Variable V : Type.
Variable veq : V -> V -> bool.

(** XPathMatcher::startElement, body of the loop for one location path; the result also carries the value of
    the attribute handed to matched(), if any *)
Definition p_start_faithful (p : path) (s : pst) (nm : N) (ats : list (N * V)) : pst * option V :=
  let size := length p in
  let startStep := cur s in
  let stk' := startStep :: stk s in
  if (N.land (mat s) 5 =? 1)%N || (0 <? nom s) then (mkPst (cur s) stk' (S (nom s)) (mat s), None) else
  let m := if (N.land (mat s) 5 =? 5)%N then XP_MATCHED_DP else mat s in
  let c1 := skip is_self p startStep size in
  if c1 =? size then (mkPst c1 stk' (nom s) XP_MATCHED, None) else
  let dstep := c1 in
  let c2 := skip is_desc p c1 size in
  let sawd := dstep <? c2 in
  if c2 =? size then (mkPst c2 stk' (S (nom s)) m, None) else
  let fail (c : nat) : pst * option V :=
      if (N.land m 1 =? 1)%N then (mkPst c stk' (nom s) m, None)
      else if dstep <? c then (mkPst dstep stk' (nom s) m, None) else (mkPst c stk' (S (nom s)) m, None) in
  let after_child (c3 : nat) : pst * option V :=
      if c3 =? size then ((if sawd then mkPst dstep stk' (nom s) XP_MATCHED_D else mkPst c3 stk' (nom s) XP_MATCHED), None)
      else match step_at p c3 with
           | SAttr nt =>
             match find (fun av => ntest_ok nt (fst av)) ats with
             | Some av => if S c3 =? size then (mkPst (S c3) stk' (nom s) XP_MATCHED_A, Some (snd av)) else fail (S c3)
             | None => fail c3
             end
           | _ => (mkPst c3 stk' (nom s) m, None)
           end in
  match (if (c2 =? startStep) || (dstep <? c2) then match step_at p c2 with SChild nt => Some nt | _ => None end
         else None) with
  | Some nt =>
    if ntest_ok nt nm then after_child (S c2)
    else if dstep <? c2 then (mkPst dstep stk' (nom s) m, None) else (mkPst c2 stk' (S (nom s)) m, None)
  | None => after_child c2
  end.

(** XPathMatcher::endElement for one path; the boolean says that matched(elemContent, ...) is called *)
Definition p_end_faithful (s : pst) : pst * bool :=
  let c := hd 0 (stk s) in
  let stk' := tl (stk s) in
  if 0 <? nom s then (mkPst c stk' (pred (nom s)) (mat s), false)
  else if (mat s =? 0)%N then (mkPst c stk' 0 0, false)
  else if (N.land (mat s) 3 =? 3)%N then (mkPst c stk' 0 0, false)
  else (mkPst c stk' 0 0, true).

(** *** defect switch of F14/F26: a matcher that keeps the *set* of steps that may be matched next (an NFA
    simulation of the location path), does not test the context element against the step after ".//", and hands
    every matching attribute to matched().  [fixed = false] is the code as written. *)
Variable fixed : bool.

Definition attr_values (nt : ntest) (ats : list (N * V)) : list V :=
  map snd (filter (fun av => ntest_ok nt (fst av)) ats).

Definition pf_start (p : path) (s : pst) (nm : N) (ats : list (N * V)) : pst * list V :=
  let size := length p in
  let desc := is_desc (step_at p 1) in
  let first := if desc then 2 else 1 in
  let '(adv, here) :=
      match alt s with
      | [] => ([], [first])                          (* the context element *)
      | (pos, _) :: _ =>
        let adv := flat_map (fun c => match step_at p c with
                                      | SChild nt => if ntest_ok nt nm then [S c] else []
                                      | _ => [] end) pos in
        (adv, nodup Nat.eq_dec (adv ++ (if desc then [first] else [])))
      end in
  let elem_matched := existsb (fun c => c =? size) (match alt s with [] => here | _ => adv end) in
  let vals := flat_map (fun c => match step_at p c with
                                 | SAttr nt => if S c =? size then attr_values nt ats else []
                                 | _ => [] end) here in
  let m := if elem_matched then (if desc then XP_MATCHED_D else XP_MATCHED)
           else match vals with [] => 0%N | _ => XP_MATCHED_A end in
  (mkPstA (cur s) (stk s) (nom s) m ((here, m) :: alt s), vals).

Definition pf_end (s : pst) : pst * bool :=
  match alt s with
  | [] => (s, false)
  | (_, m) :: r => (mkPstA (cur s) (stk s) (nom s) 0 r, (m =? XP_MATCHED)%N || (m =? XP_MATCHED_D)%N)
  end.

(** [fx]: the two small repairs of XPathMatcher::startElement proposed in fixes/C10-xpath-context-and-attr-wildcard.patch
    are applied (findings F26 and F30): the context element is not tested against the child step that follows ".//",
    and every attribute matching the name test of an attribute step is handed to matched() (the driver then also leaves
    the namespace declarations out of the attribute list).  [fx = false] is the code as written. *)
Variable fx : bool.
Definition is_child (s : step) := match s with SChild _ => true | _ => false end.
Definition p_start (p : path) (s : pst) (nm : N) (ats : list (N * V)) : pst * list V :=
  if fixed then pf_start p s nm ats
  else if fx && (cur s =? 0) && (nom s =? 0) && (mat s =? 0)%N && is_desc (step_at p 1) && is_child (step_at p 2)
       then (mkPst 1 (0 :: stk s) 0 0, [])
  else let '(s', ov) := p_start_faithful p s nm ats in
       (s', match ov with
            | Some v => if fx then match last p SSelf with SAttr nt => attr_values nt ats | _ => [v] end else [v]
            | None => [] end).
Definition p_end (s : pst) : pst * bool := if fixed then pf_end s else p_end_faithful s.

(** *** the selector matcher alone: which elements below (and including) the context element does a single
    location path select?  [sel_run] drives p_start/p_end over the tree exactly as the scanner does. *)
(** state of a one-path SelectorMatcher: path state, fElementDepth, fMatchedDepth[0] *)
Definition selst := (pst * nat * option nat)%type.
Definition sel_trigger (m : N) (md : option nat) : bool :=
  let matched := if is_matched m then m else 0%N in
  (match md with None => true | Some _ => false end && (N.land matched 1 =? 1)%N) || (N.land matched 5 =? 5)%N.

Fixpoint sel_run (p : path) (t : tree V) (a : addr) (st : selst) : selst * list addr :=
  match t with
  | Node nm ats _ _ _ ks =>
    let '(s, ed, md) := st in
    let s1 := fst (p_start p s nm ats) in
    let ed1 := S ed in
    let trig := sel_trigger (mat s1) md in
    let md1 := if trig then Some ed1 else md in
    let here := if trig then [rev a] else [] in
    let r := (fix go (i : nat) (l : list (tree V)) (st : selst) : selst * list addr :=
                match l with
                | [] => (st, [])
                | k :: rest => let '(st', out) := sel_run p k (i :: a) st in
                               let '(st'', out') := go (S i) rest st' in (st'', out ++ out')
                end) 0 ks (s1, ed1, md1) in
    let '(s2, ed2, md2) := fst r in
    let md3 := match md2 with Some x => if x =? ed2 then None else md2 | None => None end in
    ((fst (p_end s2), pred ed2, md3), here ++ snd r)
  end.
(** the elements at which the selector starts a value scope (SelectorMatcher::startElement) *)
Definition matcher_selects (p : path) (t : tree V) : list addr := snd (sel_run p t [] (pst0, 0, None)).

(** *** matchers, value stores, cache *)
Inductive mkind := MSel (icx depth : nat) | MField (icx fld depth : nat).
Record matcher := mkM { mk_kind : mkind; mk_paths : xpath; mk_ps : list pst; mk_edepth : nat; mk_mdepth : list (option nat) }.

Definition otuple := list (option V).
Definition oveq (a b : option V) : bool :=
  match a, b with Some x, Some y => veq x y | None, None => true | _, _ => false end.
Fixpoint otuple_eq (a b : otuple) : bool :=
  match a, b with [], [] => true | x :: r, y :: s => oveq x y && otuple_eq r s | _, _ => false end.

(** fValues (per field: unset or a value), fValuesCount, fValueTuples (a hash table keyed by tuple equality) *)
Record vstore := mkVS { vs_ic : nat; vs_vals : otuple; vs_count : nat; vs_tuples : list otuple }.

Record st := mkSt {
  s_ms : list matcher;                 (* XPathMatcherStack::fMatchers[0 .. fMatchersCount) *)
  s_ctx : list nat;                    (* XPathMatcherStack::fContextStack *)
  s_stores : list vstore;              (* heap of ValueStore objects *)
  s_ic2vs : list (nat * nat * nat);    (* fIC2ValueStoreMap: (ic, initialDepth) -> store *)
  s_gmap : list (nat * nat);           (* fGlobalICMap: ic -> store *)
  s_gstack : list (list (nat * nat));  (* fGlobalMapStack *)
  s_may : list (nat * nat * bool);     (* FieldActivator::fMayMatch, keyed by field *)
  s_errs : list ecode }.
Definition st0 := mkSt [] [] [] [] [] [] [] [].

Definition set_ms (s : st) x := mkSt x (s_ctx s) (s_stores s) (s_ic2vs s) (s_gmap s) (s_gstack s) (s_may s) (s_errs s).
Definition set_ctx (s : st) x := mkSt (s_ms s) x (s_stores s) (s_ic2vs s) (s_gmap s) (s_gstack s) (s_may s) (s_errs s).
Definition set_stores (s : st) x := mkSt (s_ms s) (s_ctx s) x (s_ic2vs s) (s_gmap s) (s_gstack s) (s_may s) (s_errs s).
Definition set_ic2vs (s : st) x := mkSt (s_ms s) (s_ctx s) (s_stores s) x (s_gmap s) (s_gstack s) (s_may s) (s_errs s).
Definition set_gmap (s : st) x := mkSt (s_ms s) (s_ctx s) (s_stores s) (s_ic2vs s) x (s_gstack s) (s_may s) (s_errs s).
Definition set_gstack (s : st) x := mkSt (s_ms s) (s_ctx s) (s_stores s) (s_ic2vs s) (s_gmap s) x (s_may s) (s_errs s).
Definition set_may (s : st) x := mkSt (s_ms s) (s_ctx s) (s_stores s) (s_ic2vs s) (s_gmap s) (s_gstack s) x (s_errs s).
Definition set_errs (s : st) x := mkSt (s_ms s) (s_ctx s) (s_stores s) (s_ic2vs s) (s_gmap s) (s_gstack s) (s_may s) x.

Fixpoint upd_nth {A : Type} (i : nat) (x : A) (l : list A) : list A :=
  match l, i with [], _ => [] | _ :: r, O => x :: r | y :: r, S k => y :: upd_nth k x r end.

Variable report : bool.               (* ValueStore::fDoReportError *)
Variable ics : list mic.              (* all identity constraints of the schema *)
Variable decl : N -> list nat.        (* SchemaElementDecl::getIdentityConstraintAt, by element name *)

Definition mic0 := mkMic KUnique 0 [] [].
Definition ic_at (i : nat) : mic := nth i ics mic0.
Definition emit (e : ecode) (s : st) : st := if report then set_errs s (e :: s_errs s) else s.

Definition lookup2 (a b : nat) (l : list (nat * nat * nat)) : option nat :=
  match find (fun e => (fst (fst e) =? a) && (snd (fst e) =? b)) l with Some e => Some (snd e) | None => None end.
Definition lookup1 (a : nat) (l : list (nat * nat)) : option nat :=
  match find (fun e => fst e =? a) l with Some e => Some (snd e) | None => None end.
Definition vs0 := mkVS 0 [] 0 [].
Definition store_at (s : st) (sid : nat) : vstore := nth sid (s_stores s) vs0.
Definition set_store (s : st) (sid : nat) (v : vstore) : st := set_stores s (upd_nth sid v (s_stores s)).

(** ValueStore::contains *)
Definition contains (tuples : list otuple) (t : otuple) : bool := existsb (otuple_eq t) tuples.
(** RefHashTableOf::put with ICValueHasher: an equal key is replaced, otherwise the tuple is added *)
Fixpoint put_tuple (t : otuple) (tuples : list otuple) : list otuple :=
  match tuples with
  | [] => [t]
  | x :: r => if otuple_eq t x then t :: r else x :: put_tuple t r
  end.
(** *** the hashed table.  RefHashTableOf<FieldValueMap, ICValueHasher>::get/put only look into the bucket selected by
    ICValueHasher::getHashVal, which is computed from the canonical representation of each field value w.r.t. the
    most generic base validator ([vhash], a parameter like [veq]).  The model keeps, per tuple, the list of the
    per-field hash keys as its bucket (finer than the C++ sum modulo the table size: a collision only merges
    buckets, and equals() is still applied inside a bucket).  [contains]/[put_tuple] above are the plain list
    search; Proofs10a shows that they coincide with the hashed versions when equal values have equal hash keys. *)
Variable vhash : V -> list N.
Fixpoint nl_eqb (a b : list N) : bool :=
  match a, b with [], [] => true | x :: r, y :: s => N.eqb x y && nl_eqb r s | _, _ => false end.
Fixpoint nll_eqb (a b : list (list N)) : bool :=
  match a, b with [], [] => true | x :: r, y :: s => nl_eqb x y && nll_eqb r s | _, _ => false end.
Definition ohash (o : option V) : list N := match o with Some v => vhash v | None => [] end.
Definition thash (t : otuple) : list (list N) := map ohash t.
Definition same_bucket (a b : otuple) : bool := nll_eqb (thash a) (thash b).
Definition containsH (tuples : list otuple) (t : otuple) : bool :=
  existsb (fun x => same_bucket t x && otuple_eq t x) tuples.
Fixpoint put_tupleH (t : otuple) (tuples : list otuple) : list otuple :=
  match tuples with
  | [] => [t]
  | x :: r => if same_bucket t x && otuple_eq t x then t :: r else x :: put_tupleH t r
  end.

(** ValueStore::append *)
Definition append_tuples (dst src : list otuple) : list otuple :=
  fold_left (fun d t => if containsH d t then d else put_tupleH t d) src dst.

Definition get_may (s : st) (icx f : nat) : bool :=
  match find (fun e => (fst (fst e) =? icx) && (snd (fst e) =? f)) (s_may s) with Some e => snd e | None => true end.
Definition set_may_match (s : st) (icx f : nat) (b : bool) : st :=
  set_may s ((icx, f, b) :: filter (fun e => negb ((fst (fst e) =? icx) && (snd (fst e) =? f))) (s_may s)).

(** ValueStore::duplicateValue *)
Definition duplicate_value (icx : nat) (s : st) : st :=
  match m_k (ic_at icx) with KUnique => emit E_DuplicateUnique s | KKey => emit E_DuplicateKey s | KKeyRef => s end.

(** ValueStore::addValue on the store alone: new store and whether duplicateValue() is called; None = unknown field *)
Definition vs_add (f : nat) (v : V) (vs : vstore) : option (vstore * bool) :=
  match nth_error (vs_vals vs) f with
  | None => None
  | Some old =>
    let count := match old with None => S (vs_count vs) | Some _ => vs_count vs end in
    let vals := upd_nth f (Some v) (vs_vals vs) in
    if count =? length vals
    then Some (mkVS (vs_ic vs) vals count (put_tupleH vals (vs_tuples vs)), containsH (vs_tuples vs) vals)
    else Some (mkVS (vs_ic vs) vals count (vs_tuples vs), false)
  end.

(** ValueStore::addValue *)
Definition add_value (sid icx f : nat) (v : V) (s : st) : st :=
  let s := if negb (get_may s icx f) then emit E_FieldMultipleMatch s else s in
  match vs_add f v (store_at s sid) with
  | None => emit E_UnknownField s
  | Some (vs', dup) => let s := if dup then duplicate_value icx s else s in set_store s sid vs'
  end.

(** FieldMatcher::matched *)
Definition field_matched (icx f depth : nat) (v : V) (is_nil : bool) (s : st) : st :=
  match lookup2 icx depth (s_ic2vs s) with
  | None => s
  | Some sid =>
    let s := if is_nil then match m_k (ic_at icx) with KKey => emit E_KeyMatchesNillable s | _ => s end else s in
    let s := add_value sid icx f v s in
    set_may_match s icx f false
  end.

(** ValueStore::startValueScope / endValueScope (through FieldActivator::start/endValueScopeFor) *)
Definition start_value_scope (icx depth : nat) (s : st) : st :=
  match lookup2 icx depth (s_ic2vs s) with
  | None => s
  | Some sid => let vs := store_at s sid in
                set_store s sid (mkVS (vs_ic vs) (repeat None (length (m_flds (ic_at icx)))) 0 (vs_tuples vs))
  end.
Definition end_value_scope (icx depth : nat) (s : st) : st :=
  match lookup2 icx depth (s_ic2vs s) with
  | None => s
  | Some sid =>
    let vs := store_at s sid in
    let key := match m_k (ic_at icx) with KKey => true | _ => false end in
    if vs_count vs =? 0 then (if key then emit E_AbsentKeyValue s else s)
    else if negb (vs_count vs =? length (m_flds (ic_at icx))) && key then emit E_KeyNotEnoughValues s else s
  end.

(** base XPathMatcher::startElement over all paths: new path states, values handed to matched() *)
Fixpoint paths_start (ps : xpath) (sts : list pst) (nm : N) (ats : list (N * V)) : list pst * list V :=
  match ps, sts with
  | p :: pr, s :: sr => let '(s', ov) := p_start p s nm ats in
                        let '(rest, vs) := paths_start pr sr nm ats in
                        (s' :: rest, ov ++ vs)
  | _, _ => ([], [])
  end.
Fixpoint paths_end (sts : list pst) : list pst * nat :=
  match sts with
  | [] => ([], 0)
  | s :: sr => let '(s', b) := p_end s in let '(rest, n) := paths_end sr in (s' :: rest, if b then S n else n)
  end.

Definition m0 := mkM (MSel 0 0) [] [] 0 [].
Definition matcher_at (s : st) (j : nat) : matcher := nth j (s_ms s) m0.
Definition set_matcher (s : st) (j : nat) (m : matcher) : st := set_ms s (upd_nth j m (s_ms s)).

(** a field matcher's startElement (FieldMatcher has no override: base class + matched()) *)
Definition field_start_at (j : nat) (nm : N) (ats : list (N * V)) (s : st) : st :=
  let m := matcher_at s j in
  let '(ps', fired) := paths_start (mk_paths m) (mk_ps m) nm ats in
  let s := set_matcher s j (mkM (mk_kind m) (mk_paths m) ps' (mk_edepth m) (mk_mdepth m)) in
  match mk_kind m with
  | MField icx f depth => fold_left (fun s v => field_matched icx f depth v false s) fired s
  | MSel _ _ => s
  end.

(** index of the first member k of the union that triggers a value scope (SelectorMatcher::startElement) *)
Fixpoint first_trigger (sts : list pst) (md : list (option nat)) (k : nat) : option nat :=
  match sts, md with
  | s :: sr, d :: dr =>
    let matched := if is_matched (mat s) then mat s else 0%N in
    if (match d with None => true | Some _ => false end && (N.land matched 1 =? 1)%N) || (N.land matched 5 =? 5)%N
    then Some k else first_trigger sr dr (S k)
  | _, _ => None
  end.

(** FieldActivator::activateField followed by matcher->startElement *)
Definition activate_field (icx depth : nat) (nm : N) (ats : list (N * V)) (s : st) (f : nat) : st :=
  let xp := nth f (m_flds (ic_at icx)) [] in
  let m := mkM (MField icx f depth) xp (map (fun _ => pst0) xp) 0 [] in
  let s := set_may_match s icx f true in
  let j := length (s_ms s) in
  let s := set_ms s (s_ms s ++ [m]) in
  field_start_at j nm ats s.

Definition matcher_start_at (nm : N) (ats : list (N * V)) (s : st) (j : nat) : st :=
  let m := matcher_at s j in
  match mk_kind m with
  | MField _ _ _ => field_start_at j nm ats s
  | MSel icx depth =>
    let '(ps', _) := paths_start (mk_paths m) (mk_ps m) nm ats in
    let ed := S (mk_edepth m) in
    match first_trigger ps' (mk_mdepth m) 0 with
    | Some k =>
      let s := set_matcher s j (mkM (mk_kind m) (mk_paths m) ps' ed (upd_nth k (Some ed) (mk_mdepth m))) in
      let s := start_value_scope icx depth s in
      fold_left (activate_field icx depth nm ats) (seq 0 (length (m_flds (ic_at icx)))) s
    | None => set_matcher s j (mkM (mk_kind m) (mk_paths m) ps' ed (mk_mdepth m))
    end
  end.

Fixpoint first_depth (md : list (option nat)) (ed : nat) (k : nat) : option nat :=
  match md with
  | [] => None
  | d :: dr => if match d with Some x => x =? ed | None => false end then Some k else first_depth dr ed (S k)
  end.

Definition matcher_end_at (val : V) (nillable : bool) (s : st) (j : nat) : st :=
  let m := matcher_at s j in
  let '(ps', nfired) := paths_end (mk_ps m) in
  match mk_kind m with
  | MField icx f depth =>
    let s := set_matcher s j (mkM (mk_kind m) (mk_paths m) ps' (mk_edepth m) (mk_mdepth m)) in
    fold_left (fun s _ => field_matched icx f depth val nillable s) (seq 0 nfired) s
  | MSel icx depth =>
    match first_depth (mk_mdepth m) (mk_edepth m) 0 with
    | Some k =>
      let s := set_matcher s j (mkM (mk_kind m) (mk_paths m) ps' (pred (mk_edepth m)) (upd_nth k None (mk_mdepth m))) in
      end_value_scope icx depth s
    | None => set_matcher s j (mkM (mk_kind m) (mk_paths m) ps' (pred (mk_edepth m)) (mk_mdepth m))
    end
  end.

(** ValueStoreCache::initValueStoresFor *)
Definition init_store (depth : nat) (s : st) (icx : nat) : st :=
  match lookup2 icx depth (s_ic2vs s) with
  | None => let sid := length (s_stores s) in
            set_ic2vs (set_stores s (s_stores s ++ [mkVS icx [] 0 []])) ((icx, depth, sid) :: s_ic2vs s)
  | Some sid => set_store s sid (mkVS icx [] 0 [])       (* ValueStore::clear *)
  end.

(** IdentityConstraintHandler::activateSelectorFor *)
Definition add_selector (depth : nat) (s : st) (icx : nat) : st :=
  let xp := m_sel (ic_at icx) in
  set_ms s (s_ms s ++ [mkM (MSel icx depth) xp (map (fun _ => pst0) xp) 0 (map (fun _ => None) xp)]).

(** IdentityConstraintHandler::activateIdentityConstraint *)
Definition activate (s : st) (nm : N) (ats : list (N * V)) (depth : nat) : st :=
  let icxs := decl nm in
  match icxs, s_ms s with
  | [], [] => s
  | _, _ =>
    let s := set_gmap (set_gstack s (s_gmap s :: s_gstack s)) [] in         (* ValueStoreCache::startElement *)
    let s := set_ctx s (length (s_ms s) :: s_ctx s) in                      (* pushContext *)
    let s := fold_left (init_store depth) icxs s in
    let s := fold_left (add_selector depth) icxs s in
    fold_left (matcher_start_at nm ats) (seq 0 (length (s_ms s))) s
  end.

(** ValueStoreCache::transplant *)
Definition transplant (icx depth : nat) (s : st) : st :=
  match m_k (ic_at icx) with
  | KKeyRef => s
  | _ =>
    match lookup2 icx depth (s_ic2vs s) with
    | None => s
    | Some nid =>
      match lookup1 icx (s_gmap s) with
      | Some cid => let c := store_at s cid in
                    set_store s cid (mkVS (vs_ic c) (vs_vals c) (vs_count c)
                                          (append_tuples (vs_tuples c) (vs_tuples (store_at s nid))))
      | None => set_gmap s (s_gmap s ++ [(icx, nid)])
      end
    end
  end.

(** ValueStore::endDocumentFragment for a keyref store *)
Definition end_document_fragment (icx sid : nat) (s : st) : st :=
  match lookup1 (m_refer (ic_at icx)) (s_gmap s) with
  | None => match vs_tuples (store_at s sid) with [] => s | _ => emit E_KeyRefOutOfScope s end   (* repaired: F31 *)
  | Some kid => let keys := vs_tuples (store_at s kid) in
                fold_left (fun s t => if containsH keys t then s else emit E_KeyNotFound s) (vs_tuples (store_at s sid)) s
  end.

(** ValueStoreCache::endElement *)
Definition cache_end (s : st) : st :=
  match s_gstack s with
  | [] => s
  | old :: rest =>
    let s := set_gstack s rest in
    fold_left (fun s e =>
                 match lookup1 (fst e) (s_gmap s) with
                 | None => set_gmap s (s_gmap s ++ [e])
                 | Some cid => let c := store_at s cid in
                               set_store s cid (mkVS (vs_ic c) (vs_vals c) (vs_count c)
                                                     (append_tuples (vs_tuples c) (vs_tuples (store_at s (snd e)))))
                 end) old s
  end.

(** IdentityConstraintHandler::deactivateContext *)
Definition deactivate (s : st) (nm : N) (val : V) (nillable : bool) : st :=
  let old := s_ms s in
  match decl nm, old with
  | [], [] => s
  | _, _ =>
    let s := fold_left (matcher_end_at val nillable) (rev (seq 0 (length old))) s in
    let oldms := s_ms s in
    let s := match s_ctx s with [] => s | n :: r => set_ctx (set_ms s (firstn n (s_ms s))) r end in
    let gone := rev (skipn (length (s_ms s)) oldms) in
    let s := fold_left (fun s m => match mk_kind m with MSel icx depth => transplant icx depth s | _ => s end) gone s in
    let s := fold_left (fun s m => match mk_kind m with
                                   | MSel icx depth =>
                                     match m_k (ic_at icx) with
                                     | KKeyRef => match lookup2 icx depth (s_ic2vs s) with
                                                  | Some sid => end_document_fragment icx sid s | None => s end
                                     | _ => s end
                                   | _ => s end) gone s in
    cache_end s
  end.

(** the scanner: start tag -> activateIdentityConstraint, children, end tag -> deactivateContext *)
Fixpoint run (t : tree V) (depth : nat) (s : st) : st :=
  match t with
  | Node nm ats _ nillable val ks =>
    let s := activate s nm ats depth in
    let s := fold_left (fun s k => run k (S depth) s) ks s in
    deactivate s nm val nillable
  end.

Definition run_doc (t : tree V) : list ecode := rev (s_errs (run t 0 st0)).

End MODEL.
