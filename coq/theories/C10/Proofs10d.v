(** Infrastructure for the unbounded matcher theorems: a usable induction principle for element trees, an
    unfolding of [sel_run] in terms of a named function over the list of children, and membership
    characterisations of the specification's [eval_steps] / [sel_path]. *)
From Coq Require Import NArith List Bool Arith Lia.
From XV Require Import C10.Spec10 C10.Model10.
Import ListNotations.

Section INFRA.
Variable V : Type.

(** induction over rose trees with the hypothesis for all children *)
Section TREE_IND.
Variable P : tree V -> Prop.
Hypothesis Hnode : forall nm ats sm nl v ks, Forall P ks -> P (Node nm ats sm nl v ks).
Fixpoint tree_ind2 (t : tree V) : P t :=
  match t with
  | Node nm ats sm nl v ks =>
    Hnode nm ats sm nl v ks
          ((fix go (l : list (tree V)) : Forall P l :=
              match l with [] => Forall_nil P | k :: r => Forall_cons k (tree_ind2 k) (go r) end) ks)
  end.
End TREE_IND.

Variable fixed : bool.

(** the loop over the children inside [sel_run], as a named function *)
Fixpoint sel_kids (p : path) (i : nat) (l : list (tree V)) (a : addr) (st : selst) : selst * list addr :=
  match l with
  | [] => (st, [])
  | k :: rest => let '(st', out) := sel_run V fixed false p k (i :: a) st in
                 let '(st'', out') := sel_kids p (S i) rest a st' in (st'', out ++ out')
  end.

Definition sel_node (p : path) (nm : N) (ats : list (N * V)) (ks : list (tree V)) (a : addr) (st : selst)
  : selst * list addr :=
  let '(s, ed, md) := st in
  let s1 := fst (p_start V fixed false p s nm ats) in
  let ed1 := S ed in
  let trig := sel_trigger (mat s1) md in
  let md1 := if trig then Some ed1 else md in
  let here := if trig then [rev a] else [] in
  let r := sel_kids p 0 ks a (s1, ed1, md1) in
  let '(s2, ed2, md2) := fst r in
  let md3 := match md2 with Some x => if x =? ed2 then None else md2 | None => None end in
  ((fst (p_end fixed s2), pred ed2, md3), here ++ snd r).

Lemma sel_run_unfold : forall p nm ats sm nl v ks a st,
  sel_run V fixed false p (Node nm ats sm nl v ks) a st = sel_node p nm ats ks a st.
Proof.
  intros p nm ats sm nl v ks a [[s ed] md]. unfold sel_node. cbn [sel_run].
  set (s1 := fst (p_start V fixed false p s nm ats)).
  set (st1 := (s1, S ed, if sel_trigger (mat s1) md then Some (S ed) else md)).
  assert (E : forall l i st,
             (fix go (i : nat) (l : list (tree V)) (st : selst) {struct l} : selst * list addr :=
                match l with
                | [] => (st, [])
                | k :: rest => let '(st', out) := sel_run V fixed false p k (i :: a) st in
                               let '(st'', out') := go (S i) rest st' in (st'', out ++ out')
                end) i l st = sel_kids p i l a st).
  { induction l as [|k rest IH]; intros i st; [reflexivity|].
    cbn [sel_kids]. destruct (sel_run V fixed false p k (i :: a) st) as [st' out]. rewrite IH. reflexivity. }
  rewrite E. reflexivity.
Qed.

(** *** membership in the specification's node sets *)
Lemma in_imap : forall (A B : Type) (f : nat -> A -> list B) (l : list A) (i0 : nat) (x : B),
  In x (imap f i0 l) <-> exists j k, nth_error l j = Some k /\ In x (f (i0 + j) k).
Proof.
  induction l as [|y l IH]; intros i0 x; cbn [imap].
  - split; [intros []|intros [j [k [H _]]]; destruct j; discriminate].
  - rewrite in_app_iff, IH. split.
    + intros [H|[j [k [H1 H2]]]].
      * exists 0, y. rewrite Nat.add_0_r. auto.
      * exists (S j), k. rewrite Nat.add_succ_r. auto.
    + intros [[|j] [k [H1 H2]]]; cbn in H1.
      * inversion H1; subst. rewrite Nat.add_0_r in H2. auto.
      * right. exists j, k. rewrite Nat.add_succ_r in H2. auto.
Qed.

(** a child candidate [t] and the remaining steps [r]: the addresses (relative to [t]) selected through [t] *)
Definition mf (r : list ntest) (t : tree V) : list addr :=
  match r with [] => [] | s :: r' => if ntest_ok s (t_name t) then eval_steps V r' t else [] end.

Lemma in_eval_steps : forall s r (t : tree V) a,
  In a (eval_steps V (s :: r) t) <->
  exists j k a', nth_error (t_kids t) j = Some k /\ a = j :: a' /\ In a' (mf (s :: r) k).
Proof.
  intros s r t a. cbn [eval_steps]. rewrite in_imap. split.
  - intros [j [k [H1 H2]]]. cbn [Nat.add] in H2. unfold mf. destruct (ntest_ok s (t_name k)) eqn:Ok.
    + apply in_map_iff in H2 as [a' [E H2]]. exists j, k, a'. split; [exact H1|]. split; [symmetry; exact E|rewrite Ok; exact H2].
    + destruct H2.
  - intros [j [k [a' [H1 [E H2]]]]]. exists j, k. split; [exact H1|]. cbn [Nat.add]. unfold mf in H2.
    destruct (ntest_ok s (t_name k)); [|destruct H2]. subst a. apply in_map. exact H2.
Qed.

(** *** the descendant axis: ".//steps" from [t] selects what [steps] selects from [t] or from any descendant *)
Definition pd (steps : list ntest) : spath := mkSpath true steps None.

Lemma desc_self_unfold : forall (t : tree V),
  desc_self V t = [] :: imap (fun j k => map (cons j) (desc_self V k)) 0 (t_kids t).
Proof.
  intros [nm ats sm nl v ks]. cbn [desc_self t_kids]. f_equal. generalize 0.
  induction ks as [|k rest IH]; intros i; [reflexivity|]. cbn [imap]. rewrite <- IH. reflexivity.
Qed.

Lemma in_sel_desc : forall steps (t : tree V) a,
  In a (sel_path V (pd steps) t) <->
  exists d n e, In d (desc_self V t) /\ subtree V t d = Some n /\ In e (eval_steps V steps n) /\ a = d ++ e.
Proof.
  intros steps t a. unfold sel_path, pd, ctx_addrs. cbn [sp_desc sp_steps]. rewrite in_flat_map. split.
  - intros [d [Hd H]]. destruct (subtree V t d) as [n|] eqn:E; [|destruct H].
    apply in_map_iff in H as [e [Ea He]]. exists d, n, e. auto.
  - intros [d [n [e [Hd [Hs [He Ea]]]]]]. exists d. split; [exact Hd|]. rewrite Hs. subst a. apply in_map. exact He.
Qed.

Lemma sel_desc_char : forall s r (t : tree V) a,
  In a (sel_path V (pd (s :: r)) t) <->
  exists j k a', nth_error (t_kids t) j = Some k /\ a = j :: a' /\
                 (In a' (mf (s :: r) k) \/ In a' (sel_path V (pd (s :: r)) k)).
Proof.
  intros s r t a. rewrite in_sel_desc. split.
  - intros [d [n [e [Hd [Hs [He Ea]]]]]]. rewrite desc_self_unfold in Hd. destruct Hd as [Hd|Hd].
    + subst d. cbn in Hs. inversion Hs; subst n. cbn [app] in Ea. subst a.
      apply in_eval_steps in He as [j [k [a' [H1 [H2 H3]]]]]. exists j, k, a'. auto.
    + apply in_imap in Hd as [j [k [H1 H2]]]. cbn [Nat.add] in H2. apply in_map_iff in H2 as [d' [Ed Hd']]. subst d.
      cbn [subtree] in Hs. rewrite H1 in Hs. exists j, k, (d' ++ e). split; [exact H1|]. split; [subst a; reflexivity|].
      right. apply in_sel_desc. exists d', n, e. auto.
  - intros [j [k [a' [H1 [Ea [H|H]]]]]].
    + exists [], t, a. split; [rewrite desc_self_unfold; left; reflexivity|]. split; [reflexivity|]. split; [|reflexivity].
      apply in_eval_steps. exists j, k, a'. auto.
    + apply in_sel_desc in H as [d' [n [e [Hd [Hs [He Ea']]]]]]. exists (j :: d'), n, e. split.
      * rewrite desc_self_unfold. right. apply in_imap. exists j, k. split; [exact H1|]. cbn [Nat.add]. apply in_map. exact Hd.
      * split; [cbn [subtree]; rewrite H1; exact Hs|]. split; [exact He|]. subst a a'. reflexivity.
Qed.

End INFRA.
