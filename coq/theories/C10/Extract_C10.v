(** Extraction of the executable C10 model and of the specification functions used as oracle.
    Only ExtrOcamlBasic is used: N/positive/nat stay the extracted inductive types. *)
From Coq Require Import Extraction ExtrOcamlBasic.
From XV Require Import C10.Spec10 C10.Model10 C10.Values10 C10.Parse10.
Extraction Language OCaml.
Extraction "../ocaml/C10/gen_c10.ml" value_of nil_value model_doc spec_doc doc_nested compile_xpath matcher_selects sel_eval
  xpath_of_string expect_xpath xpath_text selects_attr apath_wf ns_first.
