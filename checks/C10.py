"""C10 -- Identity constraints (unique, key, keyref) are enforced in the value space.
Theorems: coq/theories/C10/Properties_C10.v (Spec10.v = XSD Structures 3.11.4/3.11.5 on element trees with abstract
values; Model10.v = XPathMatcher / SelectorMatcher / FieldMatcher / ValueStore / ValueStoreCache /
IdentityConstraintHandler transcribed).
Correspondence: bin/xh_C10 (real parser: SAXParser with IGXMLScanner / SGXMLScanner, Val_Always / Val_Auto, grammar from
loadGrammar or xsi:noNamespaceSchemaLocation / external location) vs bin/xm_C10 (extracted model) on generated
(schema, instance) pairs; compared: the multiset of identity-constraint validity codes.  Oracle: extracted Spec10
(`spec` request): set of violation kinds."""
import json
import os
import re
import subprocess
import sys
import time

import vcommon as V

sys.path.insert(0, os.path.join(V.VERIF, "gen"))
sys.path.insert(0, os.path.join(V.VERIF, "translator"))
import C10gen as G  # noqa
import c10_xpath as TXP  # noqa

WORK = os.path.join(V.VERIF, "work", "C10")

KIND_OF_CODE = {"IC_DuplicateUnique": "DupUnique", "IC_DuplicateKey": "DupKey", "IC_AbsentKeyValue": "KeyAbsent",
                "IC_KeyNotEnoughValues": "KeyAbsent", "IC_KeyMatchesNillable": "KeyNillable",
                "IC_KeyNotFound": "KeyRefNotFound", "IC_KeyRefOutOfScope": "KeyRefNotFound",
                "IC_FieldMultipleMatch": "FieldMulti", "IC_UnknownField": "UnknownField"}


def run_bin(binpath, lines, env=None):
    e = dict(os.environ)
    e["XH_WORK"] = WORK
    p = subprocess.run([binpath], input=("\n".join(lines) + "\n").encode(), stdout=subprocess.PIPE,
                       stderr=subprocess.PIPE, timeout=3000, env=e)
    return p.returncode, p.stdout.decode("ascii", "replace").splitlines(), p.stderr.decode("utf-8", "replace")


def run_parallel(binpath, lines, nproc=8):
    """split the request list over several processes (each request is independent)"""
    import concurrent.futures
    if len(lines) < 64:
        return run_bin(binpath, lines)
    n = min(nproc, max(1, len(lines) // 32))
    chunks = [lines[i::n] for i in range(n)]
    with concurrent.futures.ThreadPoolExecutor(n) as ex:
        res = list(ex.map(lambda c: run_bin(binpath, c), chunks))
    out = [None] * len(lines)
    rc, err = 0, ""
    for i, (r, o, e) in enumerate(res):
        rc = rc or r
        err += e
        if len(o) != len(chunks[i]):
            return r or 1, [x for c in res for x in c[1]], err + "\nlost lines in chunk %d" % i
        out[i::n] = o
    return rc, out, err


def kinds_of_answer(ans):
    """'r IC_X*2 IC_Y*1 [x ...]' -> (set of violation kinds, has non-IC errors)"""
    toks = ans.split()
    if not toks or toks[0] != "r":
        return None, True
    kinds = set()
    other = False
    for t in toks[1:]:
        if t == "-":
            continue
        if t == "x":
            other = True
            break
        kinds.add(KIND_OF_CODE.get(t.split("*")[0], t))
    return kinds, other


def spec_kinds(ans):
    toks = ans.split()
    return set(t for t in toks[1:] if t != "-")


# ---- structural predicates on abstract cases (classes of the known findings) -------------------------------------
def walk(node, depth=0, path=()):
    yield node, depth, path
    if node[0] == "c":
        for i, k in enumerate(node[3]):
            yield from walk(k, depth + 1, path + (i,))


def name_of(node):
    return "%s%d" % (node[0], node[1])


def paths_of(xp):
    return G.canon_xpath(xp).split("|")


def first_step_after_desc(p):
    if not p.startswith(".//"):
        return None
    s = p[3:].split("/")[0]
    return None if s.startswith("@") else s


def step_matches(step, name):
    return step == "*" or step == name


def cls_desc_self(case):
    """F26 class: a `.//x` selector on an element named x (or matched by the wildcard x = *), or a `.//x` field
    whose selected node may be named x: the matcher tests the context element itself against the first step"""
    for ic in case["ics"]:
        ctx = "c%d" % ic["elem"]
        for p in paths_of(ic["sel"]):
            s = first_step_after_desc(p)
            if s is not None and step_matches(s, ctx):
                return True
        for f in ic["fields"]:
            for p in paths_of(f):
                s = first_step_after_desc(p)
                if s is not None:
                    return True    # the selected node's name is only known dynamically: treat every .//step field as in class
    return False


def has_desc(case):
    return any(".//" in ic["sel"] or any(".//" in f for f in ic["fields"]) for ic in case["ics"])


def cls_multi_key_scope(case, same_depth=False):
    """F28/F29 class: some keyref's scope element contains (descendant-or-self) two elements on which the referenced key
    is declared and NEITHER OF WHICH CONTAINS THE OTHER (two different child scopes: F29); with same_depth they also sit
    at the same depth (the ValueStore of (constraint, depth) is reused: F28).  Nested scopes of a recursive element on one
    chain are NOT in the class: there the tables are handed up level by level and the implementation must be exact."""
    byid = {ic["id"]: ic for ic in case["ics"]}
    for ic in case["ics"]:
        if ic["kind"] != "r":
            continue
        key = byid.get(ic["refer"])
        if key is None:
            continue
        for node, d, _ in walk(case["tree"]):
            if node[0] == "c" and node[1] == ic["elem"]:
                ks = [(dd, pp) for k, dd, pp in walk(node) if k[0] == "c" and k[1] == key["elem"]]
                for a in range(len(ks)):
                    for b in range(a + 1, len(ks)):
                        pa, pb = ks[a][1], ks[b][1]
                        comparable = pa == pb[:len(pa)] or pb == pa[:len(pb)]
                        if not comparable and (not same_depth or ks[a][0] == ks[b][0]):
                            return True
    return False


# ---------------------------------------------------------------------------------------------------------------
def C(n, attrs=None, kids=None):
    return ["c", n, attrs or {}, kids or []]


def L(n, text, attrs=None):
    return ["l", n, attrs or {}, text]


def mk(ics, tree, lt="sid", at="sid", lnil=(0, 0, 0)):
    return {"ltypes": list(lt), "lnil": [bool(x) for x in lnil], "atypes": list(at), "nc": 3, "ics": ics, "tree": tree}


def ic(elem, kind, id_, sel, fields, refer=None):
    return {"elem": elem, "kind": kind, "id": id_, "refer": refer, "sel": sel, "fields": fields}


def witnesses():
    w = []
    dup = mk([ic(0, "k", 0, "c1", ["@t0"])], C(0, {}, [C(1, {0: "a"}), C(1, {0: "a"}), C(1, {0: "b"})]))
    w.append(("known-F13", dup, "auto", "ig", "ext"))
    w.append(("known-F13", dup, "auto", "sg", "loc"))
    w.append(("known-F14", mk([ic(0, "k", 0, ".//c1/c1/l0", ["."])],
                              C(0, {}, [C(1, {}, [C(1, {}, [C(1, {}, [L(0, "a"), L(0, "a")])])])])), "always", "ig", "pool"))
    w.append(("known-F26", mk([ic(0, "k", 0, ".//c0", ["@t0"])], C(0, {}, [C(1)])), "always", "ig", "pool"))
    w.append(("known-F27", mk([ic(0, "k", 0, ".//c1", ["l0"])],
                              C(0, {}, [C(1, {}, [C(1, {}, [L(0, "x")]), L(0, "y")])])), "always", "ig", "pool"))
    w.append(("known-F28", mk([ic(1, "k", 0, "l0", ["."]), ic(0, "r", 1, "l1", ["."], 0)],
                              C(0, {}, [C(1, {}, [L(0, "a")]), C(1, {}, [L(0, "b")]), L(1, "a"), L(1, "b")]), lt="ssd"),
              "always", "ig", "pool"))
    w.append(("known-F29", mk([ic(1, "k", 0, "l0", ["."]), ic(0, "r", 1, "l1", ["."], 0)],
                              C(0, {}, [C(2, {}, [C(1, {}, [L(0, "a")])]), C(2, {}, [C(1, {}, [L(0, "a")])]), L(1, "a")]),
                              lt="ssd"), "always", "ig", "pool"))
    # regression cases (no finding: implementation, model and Spec must agree)
    w.append(("reg-sibling-keyref", mk([ic(1, "k", 0, "l0", ["."]), ic(1, "r", 1, "l1", ["."], 0)],
                                       C(0, {}, [C(1, {}, [L(0, "a")]), C(1, {}, [L(0, "b"), L(1, "a")])]), lt="sss"),
              "always", "ig", "pool"))
    w.append(("reg-sibling-keyref-depth", mk([ic(1, "k", 0, "l0", ["."]), ic(1, "r", 1, "l1", ["."], 0)],
                                             C(0, {}, [C(2, {}, [C(1, {}, [L(0, "a")])]), C(1, {}, [L(0, "b"), L(1, "a")])]),
                                             lt="sss"), "always", "ig", "pool"))
    # namespace-qualified attribute fields (global attribute declarations of an imported namespace, ref=)
    qd = mk([ic(0, "k", 0, "c1", ["@t:g0"])], C(0, {}, [C(1, {3: "1"}), C(1, {3: "01"}), C(1, {3: "2"})]), at="sidiss")
    w.append(("reg-qattr-key-dup", qd, "always", "ig", "pool"))
    w.append(("reg-qattr-key-dup", qd, "always", "sg", "loc"))
    w.append(("reg-qattr-keyref", mk([ic(0, "u", 0, "c1", ["@t:g0"]), ic(0, "r", 1, "c2", ["@t:g1"], 0)],
                                     C(0, {}, [C(1, {3: "1"}), C(2, {4: "+1"}), C(2, {4: "01"})]), at="sidids"),
              "always", "ig", "pool"))
    # declared xs:anySimpleType, the instance says xsi:type: the ACTUAL type decides (with and without a PSVIHandler)
    ax = mk([ic(0, "u", 0, "c1", ["l0"])], C(0, {}, [C(1, {}, [["l", 0, {}, "1", "i"]]), C(1, {}, [["l", 0, {}, "+1", "i"]])]), lt="yss")
    ax["lplain"] = [True, False, False]
    ak = mk([ic(0, "k", 0, "c1", ["l0"]), ic(0, "r", 1, "c2", ["l1"], 0)],
            C(0, {}, [C(1, {}, [["l", 0, {}, "007", "i"]]), C(2, {}, [L(1, "7")])]), lt="yis")
    ak["lplain"] = [True, False, False]
    for sc, ld in (("ig", "pool"), ("ig+p", "pool"), ("sg", "loc"), ("sg+p", "ext")):
        w.append(("reg-anytype-xsitype-dup", ax, "always", sc, ld))
        w.append(("reg-anytype-key-int-ref", ak, "always", sc, ld))
    # the same value in different spellings (CDATA, character references, comments, PIs), preserve / replace / collapse
    # types, through both schema-capable scanners
    def LS(i, text, frag):
        return ["l", i, {}, text, None, frag]
    sp1 = mk([ic(0, "k", 0, "c1/l0", ["."]), ic(0, "r", 1, "c2/l1", ["."], 0)],
             C(0, {}, [C(1, {}, [L(0, "A 1"), LS(0, "x<y", "<![CDATA[x<y]]>")]),
                       C(2, {}, [LS(1, "A 1", "<![CDATA[A 1]]>"), L(1, "x<y"), LS(1, "A 1", "A<![CDATA[ ]]><!--c-->&#x31;")])]), lt="sss")
    sp2 = mk([ic(0, "u", 0, "c1/*", ["."])],
             C(0, {}, [C(1, {}, [LS(0, "ab", "a<![CDATA[b]]>"), L(0, "ab"), LS(1, "a b", "a <![CDATA[ b]]>"), L(1, "a b"),
                                 LS(2, "a b", "a<![CDATA[ ]]>b"), LS(2, "a b", "a&#x20;b")])]), lt="stN")
    for sc, ld in (("ig", "pool"), ("sg", "loc"), ("sg+p", "ext")):
        w.append(("reg-spelling-keyref", sp1, "always", sc, ld))
        w.append(("reg-spelling-unique", sp2, "always", sc, ld))
    # namespace wildcards on the attribute and child axes, abbreviated and unabbreviated, with white space
    def nsm(ics, tree):
        c = mk(ics, tree, lt="sssis", at="sssiisis")
        c["lnil"] = [False] * 5
        c["lplain"] = [False, False, False, True, True]
        return c
    t1 = C(0, {}, [C(1, {3: "1"}), C(1, {3: "01"}), C(1, {6: "1"}), C(1, {0: "1"}), C(2, {6: "+1"}), C(2, {6: "2"}), C(2, {3: "9"})])
    w.append(("reg-nswild-attr", nsm([ic(0, "u", 0, "c1", ["@t:*"]), ic(0, "k", 1, "c1", ["attribute::t:*"]),
                                      ic(0, "r", 2, "c2", ["attribute~::~o:*"], 0)], t1), "always", "ig", "pool"))
    w.append(("reg-nswild-attr", nsm([ic(0, "u", 0, "c1", ["@t:*"]), ic(0, "r", 2, "c2", ["@~o:*"], 0)], t1), "always", "sg", "loc"))
    t2 = C(0, {}, [C(1, {}, [L(3, "1")]), C(1, {}, [L(3, "+1")]), C(1, {}, [L(4, "a")]), C(1, {}, [L(0, "1")])])
    w.append(("reg-nswild-child", nsm([ic(0, "u", 0, "c1", ["child::t:*"]), ic(0, "k", 1, "./c1/~t:*|c1/o:m1", ["."])], t2),
              "always", "ig", "pool"))
    w.append(("reg-integer-key-int-ref", mk([ic(0, "k", 0, "c1/l0", ["."]), ic(0, "r", 1, "c2/l1", ["."], 0)],
                                            C(0, {}, [C(1, {}, [L(0, "1"), L(0, "2")]), C(2, {}, [L(1, "+1"), L(1, "02")])]),
                                            lt="ins"), "always", "ig", "pool"))
    w.append(("reg-unique-mixed-depth", mk([ic(0, "u", 0, "c1", ["*"])],
                                           C(0, {}, [C(1, {}, [L(0, "1")]), C(1, {}, [L(1, "+1")]), C(1, {}, [L(2, "01")])]),
                                           lt="iJb"), "always", "sg", "loc"))
    w.append(("known-F32", mk([ic(0, "u", 0, ".//l0", ["."])], C(0, {}, [C(0, {}, [L(0, "a")]), L(0, "b")])),
              "always", "ig", "pool"))
    f33 = mk([ic(0, "u", 0, "c1", ["l0|*"])], C(0, {}, [C(1, {}, [L(0, "a")]), C(1, {}, [L(0, "b")])]))
    w.append(("known-F33", f33, "always", "ig", "pool"))
    w.append(("known-F30", mk([ic(0, "u", 0, "c1", ["@*"])], C(0, {}, [C(1, {0: "a", 1: "1"})])), "always", "ig", "pool"))
    return w


def gen_cases(ctx):
    rng = ctx.rng
    n = 520 if ctx.tier == "quick" else 26000
    out = []
    for i in range(n):
        r = rng.random()
        size = rng.choice([6, 10, 14, 20, 30])
        desc = rng.random() < 0.5
        if r < 0.12:
            case = G.gen_case_siblings(rng)
            kind = "sib"
        elif r < 0.22:
            case = G.gen_case_recursive(rng)
            kind = "recur"
        elif r < 0.32:
            case = G.gen_case_fieldcard(rng)
            kind = "fcard"
        elif r < 0.82:
            case = G.gen_case2(rng, size=size, allow_desc=desc)
            kind = "rec"
        else:
            case = G.gen_case(rng, size=size, allow_desc=desc)
            kind = "wild"
        kind += "-desc" if has_desc(case) else "-child"
        tys = set(case["ltypes"]) | set(case["atypes"])
        if len(tys & set("EIlnJhbuNCTA")) > 0:
            kind += "+derived"
        if any(len(n) > 4 and n[4] for n, _, _ in walk(case["tree"])):
            kind += "+xsitype"
        if "y" in case["ltypes"]:
            kind += "+anytype"
        flds = [G.canon_xpath(f) for c in case["ics"] for f in c["fields"]]
        if any("@t:g" in f or "@o:h" in f for f in flds):
            kind += "+qattr"
        if any(":*" in f for f in flds) or any(":*" in c["sel"] for c in case["ics"]):
            kind += "+nswild"
        if any("::" in f or "~" in f for c in case["ics"] for f in c["fields"] + [c["sel"]]):
            kind += "+xpspell"
        spelled = any(len(n) > 5 and n[5] is not None for n, _, _ in walk(case["tree"]))
        if spelled:
            kind += "+spelled"
        out.append((kind, case, "always", "ig", "pool"))
        # the same pair under another configuration (SGXMLScanner is only driven through schema locations)
        scheme = rng.choice(["always", "auto", "auto"])
        scanner = rng.choice(["ig", "sg", "ig+p", "sg+p"])      # +p: a no-op PSVIHandler is installed
        if case.get("entities"):
            # internal entities need a DOCTYPE: SGXMLScanner does not process one, and under Val_Auto a DOCTYPE switches
            # DTD validation on; such instances go through IGXMLScanner with Val_Always only
            scheme, scanner = "always", rng.choice(["ig+p", "ig"])
        elif spelled:
            scanner = rng.choice(["sg", "sg+p", "sg", "ig+p"])   # both schema-capable scanners see every spelling
        # Val_Auto only switches validation on when the instance points to its schema: no Val_Auto + loadGrammar pairs
        load = rng.choice(["loc", "ext"]) if (scanner.startswith("sg") or scheme == "auto") else rng.choice(["pool", "loc", "ext"])
        if (scheme, scanner, load) != ("always", "ig", "pool"):
            out.append((kind + "/cfg", case, scheme, scanner, load))
    return out


XP_NAMES = ["a", "b", "c1", "l0", "child", "attribute", "and", "or", "div", "mod", "x-y", "x.y", "_u", "\u00e9t", "node", "text", "A1"]
XP_PREFIXES = ["t", "o", "p", "q", "r"]


def h4(sx):
    return "".join("%04X" % ord(c) for c in sx) or "-"


def gen_axp(rng):
    """abstract syntax of a grammatical selector / field expression (driver.ml.in: xptext / xpexp)"""
    def nm():
        r = rng.random()
        pre = rng.choice(XP_PREFIXES) if rng.random() < 0.93 else "z"
        if r < 0.2:
            return "*"
        if r < 0.38:
            return h4(pre) + ":*"
        if r < 0.6:
            return h4(pre) + ":" + h4(rng.choice(XP_NAMES))
        return h4(rng.choice(XP_NAMES))
    paths = []
    for _ in range(rng.choice([1, 1, 2, 3])):
        toks = ["D"] if rng.random() < 0.3 else []
        n = rng.choice([1, 1, 2, 2, 3, 4])
        for j in range(n):
            r = rng.random()
            if j == n - 1 and r < 0.3:
                toks.append("a%d=%s" % (rng.random() < 0.3, nm()))
            elif r < 0.45 and j == 0 and rng.random() < 0.5:
                toks.append("c0=" + h4(rng.choice(XP_PREFIXES)) + ":*")      # aimed at the F35 class
            elif r < 0.15:
                toks.append(".")
            else:
                toks.append("c%d=%s" % (rng.random() < 0.25, nm()))
        paths.append(" ".join(toks))
    return " | ".join(paths)


def xp_correspondence(ctx, xh, xm):
    rng = ctx.rng
    if ctx.replay:
        reqs = [json.load(open(ctx.replay))["request"]]
        absr = [None]
    else:
        n = 260 if ctx.tier == "quick" else 6000
        absr = []
        texts = []
        for _ in range(n):
            a = gen_axp(rng)
            ws = rng.choice(["-", "-", "0020", "00200009", "000A", "000D0020"])
            absr.append((rng.choice("sf"), a))
            texts.append("xptext %s %s" % (ws, a))
        _, to, _ = run_bin(xm, texts)
        reqs = ["xp %s %s" % (k, t.split()[1] if t.startswith("t ") and len(t.split()) > 1 else "-") for (k, _), t in zip(absr, to)]
        # malformed / arbitrary short strings
        alpha = [".", "/", "|", "@", "*", ":", "a", "b", "t", "(", ")", "[", "1", "$", "'", "<", "!", ",", "+", "-", "=", " ", "\t",
                 "\u00e9", "::", "//", "child", "attribute", "t:", ". ", "and", "_", "#", "\u0001", "..", ".5"]
        for _ in range(n):
            sx = "".join(rng.choice(alpha) for _ in range(rng.randrange(0, 7)))
            absr.append(None)
            reqs.append("xp %s %s" % (rng.choice("sf"), h4(sx)))
        # literal witness of F35 (first step NCName:* followed by a step) in front
        reqs.insert(0, "xp s " + h4("t:*/a"))
        absr.insert(0, ("s", "c0=%s:* c0=%s" % (h4("t"), h4("a"))))
    os.environ["C10_FXNS"] = os.environ.get("C10_FXNS_REPLAY", "0") if ctx.replay else "0"
    _, impl, err = run_bin(xh, reqs)
    if len(impl) != len(reqs):
        ctx.violation("harness-crash", {"what": "xp requests: harness crashed or lost lines", "stderr": err[-1500:], "request": reqs[0]})
        return
    exp = [None] * len(reqs)
    if not ctx.replay:
        _, eo, _ = run_bin(xm, ["xpexp %s %s" % a if a else "xpexp s ." for a in absr])
        exp = [e if a else None for e, a in zip(eo, absr)]
        # which reader does /repo have?  decided by the literal witness of F35
        w_ok = exp[0] is not None and impl[0] == exp[0].split(" ", 1)[1]
        if w_ok:
            os.environ["C10_FXNS"] = "1"
            ctx.note("XercesXPath::parseExpression carries the repair of F35: model switch fxns = true")
    _, model, err2 = run_bin(xm, reqs)
    if len(model) != len(reqs):
        ctx.violation("model-crash", {"what": "xp requests: model driver crashed", "stderr": err2[-1500:]}, no_input=True)
        return
    nf35 = 0
    nbad = 0
    st = {"xp-grammar": 0, "xp-malformed": 0, "xp-accepted": 0, "xp-rejected": 0, "xp-F35": 0}
    for r, i, m, e in zip(reqs, impl, model, exp):
        ctx.count()
        st["xp-grammar" if e else "xp-malformed"] += 1
        st["xp-accepted" if i.startswith("p") else "xp-rejected"] += 1
        if i.startswith("p ") or i.startswith("e "):
            ctx.distinct(r)
        want = None
        if e:
            cls, want = e.split(" ", 1)
            if cls == "nwf":
                want = None                     # an undeclared prefix: outside the oracle, implementation = model only
        if want is not None and i != want:
            if cls == "nsfirst" and i == m == "e NoSelectionOfRoot" and ctx.find_known("F35"):
                nf35 += 1
                st["xp-F35"] += 1
                continue
            nbad += 1
            if nbad <= 3:
                ctx.violation("xpath-reader", {"request": r, "impl": i, "model": m, "expected": want, "fxns": os.environ["C10_FXNS"],
                                               "what": "XercesXPath does not read a grammatical selector/field expression as the "
                                                       "location paths it denotes"})
            continue
        if i != m:
            nbad += 1
            if nbad <= 3:
                ctx.violation("xpath-correspondence", {"request": r, "impl": i, "model": m, "expected": want, "fxns": os.environ["C10_FXNS"],
                                                       "what": "XercesXPath and the extracted reader model (Parse10.v) differ on this expression"})
    if nf35:
        ctx.known_finding("F35", "a path whose first step is NCName:* followed by a further step (t:*/a) is rejected with "
                                 "XPath_NoSelectionOfRoot (%d generated expressions + literal witness)" % (nf35 - 1))
    ctx.coverage.setdefault("xpath_reader", {}).update(st)


MATCHER_FINDINGS = ("F14", "F26", "F30")
FX_ON = False


def same_verdict(x, sk):
    """kinds reported vs kinds demanded.  When a field has more than one node (clause 3) and that is reported, the
    node is not in the qualified node set and which further errors follow depends on error recovery: not compared"""
    return x == sk or ("FieldMulti" in x and "FieldMulti" in sk)


def cls_nested_scope(case):
    """F32 class: an element that declares a constraint occurs inside an element of the same name"""
    elems = set(c["elem"] for c in case["ics"])
    for node, d, _ in walk(case["tree"]):
        if node[0] == "c" and node[1] in elems:
            if any(k is not node and k[0] == "c" and k[1] == node[1] for k, _, _ in walk(node)):
                return True
    return False


def cls_field_union(case):
    """F33 class: a field whose XPath is a union of two or more (different) location paths"""
    return any(len(set(paths_of(f))) > 1 for c in case["ics"] for f in c["fields"])


def attribute(case, ik, sk, fk, nested):
    """impl == model but the kinds differ from the Spec: which known finding(s) explain it?  returns list of ids or None"""
    def matcher_label():
        if FX_ON:
            return "F14"
        if any(re.search(r"@(\w+:)?\*", G.canon_xpath(f)) for c in case["ics"] for f in c["fields"]):
            return "F30"
        return "F26" if cls_desc_self(case) else "F14"
    if same_verdict(fk, sk):
        return [matcher_label()]
    d = fk ^ sk
    if d <= {"KeyRefNotFound"} and (cls_multi_key_scope(case, same_depth=True) if "KeyRefNotFound" in fk
                                    else cls_multi_key_scope(case)):
        lab = ["F28" if "KeyRefNotFound" in fk else "F29"]
        if fk != ik:
            lab.append(matcher_label())
        return lab
    if cls_field_union(case) and "FieldMulti" in ik and "FieldMulti" not in sk:
        return ["F33"]
    if nested:
        return ["F27"]
    if cls_nested_scope(case):
        return ["F32"]
    return None


WHAT = {
    "F14": "single-position XPath matcher misses nodes of a './/a/b...' path that need a restart one level deeper",
    "F26": "the step after './/' is tested against the context element itself",
    "F27": "a selected node inside another selected node shares its value scope",
    "F28": "ValueStore of a repeated key scope is cleared while an ancestor's table still refers to it (spurious IC_KeyNotFound)",
    "F29": "key-sequences occurring in two child scopes are not dropped from the ancestor's node table (keyref accepted)",
    "F30": "attribute wildcard field @* uses the first attribute only",
    "F32": "nested scopes of one constraint share FieldActivator::fMayMatch (spurious / missed IC_FieldMultipleMatch)",
    "F33": "two members of a field's union that select the same node are reported as a multiple match",
}


def run(ctx):
    t0 = time.time()
    os.makedirs(WORK, exist_ok=True)
    ctx.coverage["trusted_base"] = list(V.GLOBAL_TRUSTED_BASE) + [
        "the python renderer gen/C10gen.py (abstract case -> XSD text, XML text and the token form read by the model)",
        "modelled rather than verified: schema traversal (TraverseSchema building IC_Selector/IC_Field from the xpath "
        "attributes), the hash buckets of RefHashTableOf<FieldValueMap, ICValueHasher> (modelled as a list searched with "
        "ICValueHasher::equals), DatatypeValidator::compare / getCanonicalRepresentation (C09) behind the abstract value "
        "equality (Values10.v gives the value-space normal forms used on both sides), namespace-qualified name tests"]
    ctx.assumptions = ["instances are schema-valid apart from identity constraints (any other error is a divergence)",
                       "fields select nodes of simple type only (cases where the extracted Spec reports FieldNotSimple are "
                       "dropped and counted under input_distribution.excluded-field-not-simple)"]
    ctx.build_lib()
    try:
        TXP.generate()          # Gen/GenC10XPath.v from XercesXPath.cpp / XMLChar.cpp (tables of the XPath reader model)
    except Exception as e:      # noqa
        ctx.note("translator c10_xpath failed: %s" % e)
    ok, out, failed = ctx.prove(["Base", "Gen", "C10"], ["theories/C10/Properties_C10.vo", "theories/C10/Extract_C10.vo"],
                                props_file="theories/C10/Properties_C10.v")
    proof_broken = not ok
    if proof_broken:
        ctx.note("proof obligations failed: %s" % failed)
        ctx.note(out[-1500:])
    have_model = os.path.exists(os.path.join(V.VERIF, "ocaml", "C10", "gen_c10.ml"))
    xm = ctx.ocaml("C10", ["gen_c10"]) if have_model else None
    xh = ctx.harness("C10")
    if ctx.replay:
        r = json.load(open(ctx.replay))
        reqs = [(r.get("kind", "replay"), r.get("case"), r["request"])]
    else:
        reqs = [(tag, case, G.request(case, scheme, scanner, load)) for tag, case, scheme, scanner, load in witnesses()]
        reqs += [(kind, case, G.request(case, scheme, scanner, load)) for kind, case, scheme, scanner, load in gen_cases(ctx)]
    lines = [r[2] for r in reqs]
    # Which XPathMatcher::startElement does /repo have?  The literal witnesses of F26 and F30 decide whether the model
    # with the repairs of fixes/C10-xpath-context-and-attr-wildcard.patch (switch fx of Model10.p_start) is the faithful one.
    os.environ["C10_FX"] = "0"
    global FX_ON
    FX_ON = False
    if not ctx.replay:
        probe = [G.request(case, sch, sc, ld) for tag, case, sch, sc, ld in witnesses() if tag in ("known-F26", "known-F30")]
        _, pi, _ = run_bin(xh, probe)
        _, ps, _ = run_bin(xm, ["spec" + l[2:] for l in probe])
        ok = [kinds_of_answer(i)[0] == spec_kinds(s_) for i, s_ in zip(pi, ps)]
        if all(ok):
            FX_ON = True
            os.environ["C10_FX"] = "1"
            ctx.note("XPathMatcher::startElement carries the repairs of F26/F30: model switch fx = true")
        elif any(ok):
            ctx.violation("fix-partial", {"what": "only one of the two repairs of fixes/C10-xpath-context-and-attr-wildcard.patch "
                                                  "is present (witness known-F26 / known-F30 conform: %s); the model has a single "
                                                  "switch for both" % ok, "request": probe[0]}, no_input=True)
    elif os.environ.get("C10_FX_REPLAY"):
        os.environ["C10_FX"] = os.environ["C10_FX_REPLAY"]
    # ---- the XPath reader: extracted Parse10 (scanner + parseExpression) vs XercesXPath on grammatical expressions in many
    # spellings (oracle: Parse10.expect_xpath of the abstract syntax, proved equal to the parser's answer at token level) and
    # on short malformed strings (same answer / same error code)
    if not (ctx.replay and not json.load(open(ctx.replay)).get("request", "").startswith("xp ")):
        xp_correspondence(ctx, xh, xm)
        if ctx.replay:
            return
    # F34: literal witness only (the model's path type has no self step inside a path): selector c1/./l0
    if not ctx.replay:
        f34 = mk([ic(0, "k", 0, "c1/./l0", ["."])], C(0, {}, [C(1, {}, [L(0, "a"), L(0, "a")])]))
        ref = mk([ic(0, "k", 0, "c1/l0", ["."])], C(0, {}, [C(1, {}, [L(0, "a"), L(0, "a")])]))
        _, o34, _ = run_bin(xh, [G.request(f34), G.request(ref)])
        ctx.count(2)
        if len(o34) == 2 and o34[1] == "r IC_DuplicateKey*1" and o34[0] == "r -":
            if ctx.find_known("F34"):
                ctx.known_finding("F34", "a '.' step inside a path (c1/./l0) makes the matcher skip the following child step: "
                                         "nothing is selected (witness: duplicate keys unreported)")
            else:
                ctx.violation("F34", {"request": G.request(f34), "impl": o34[0], "expected": o34[1],
                                      "what": "selector c1/./l0 selects nothing (c1/l0 reports the duplicate key)"})
        elif len(o34) == 2 and o34[0] != o34[1]:
            ctx.violation("F34", {"request": G.request(f34), "impl": o34[0], "expected": o34[1],
                                  "what": "selector c1/./l0 and c1/l0 give different verdicts"})
    tA = time.time()
    rc1, impl, err1 = run_parallel(xh, lines)
    tB = time.time()
    if rc1 != 0 or len(impl) != len(lines):
        ctx.violation("harness-crash", {"what": "implementation harness crashed or lost lines", "rc": rc1,
                                        "stderr": err1[-2000:], "answered": len(impl), "asked": len(lines)})
        return
    rc2, model, err2 = run_parallel(xm, lines)
    rc3, modold, _ = run_parallel(xm, ["icold" + l[2:] for l in lines])
    rc4, spec, err4 = run_parallel(xm, ["spec" + l[2:] for l in lines])
    rc5, mfix, _ = run_parallel(xm, ["icfix" + l[2:] for l in lines])
    rc6, classes, _ = run_parallel(xm, ["classes" + l[2:] for l in lines])
    tC = time.time()
    if rc2 != 0 or len(model) != len(lines) or len(spec) != len(lines) or len(mfix) != len(lines) \
            or any(x.startswith("model-error") for x in model):
        ctx.violation("model-crash", {"what": "model driver crashed", "stderr": (err2 + err4)[-2000:],
                                      "first": [x for x in model if x.startswith("model-error")][:3]}, no_input=True)
        return
    stats = {}
    found = {}          # finding id -> number of generated cases attributed to it
    witness_seen = {}
    divergences = []
    nviol = 0

    def bump(k):
        stats[k] = stats.get(k, 0) + 1

    # the Val_Auto reporting gate (F13, fixed by 55dbcfa) counts as regressed only when its literal witness fails
    f13_regressed = any(kind == "known-F13" and i != m and i == mo
                        for (kind, case, req), i, m, mo in zip(reqs, impl, model, modold))
    for (kind, case, req), i, m, mo, s, f, cl in zip(reqs, impl, model, modold, spec, mfix, classes):
        a = req.split()
        scheme = a[1]
        ik, iother = kinds_of_answer(i)
        sk = spec_kinds(s)
        fk, _ = kinds_of_answer(f)
        nested = cl.endswith("nested=1")
        is_wit = kind.startswith("known-")
        if "FieldNotSimple" in sk and not is_wit:
            bump("excluded-field-not-simple")
            continue
        ctx.count()
        bump("kind:" + kind.split("/")[0])
        bump("cfg:%s-%s-%s" % tuple(a[1:4]))
        if i != "r -" or sk:
            ctx.distinct(req)
        if i != m:
            if scheme == "auto" and i == mo and i != m and f13_regressed:
                nviol += 1
                if nviol <= 3:
                    ctx.violation("F13", {"request": req, "kind": kind, "impl": i, "model": m, "spec": s,
                                          "what": "identity-constraint errors are not reported under Val_Auto although "
                                                  "validation is on (fix 55dbcfa missing or regressed)"})
                bump("F13-unfixed")
                continue
            divergences.append((kind, req, i, m, s, ik, sk, iother))
            bump("DIVERGE")
            continue
        if ik is None or iother:
            divergences.append((kind, req, i, m, s, ik, sk, iother))
            bump("DIVERGE")
            continue
        if ik != sk and same_verdict(ik, sk):
            bump("agree+spec-ok(field-multi)")
            continue
        if ik == sk:
            bump("agree+spec-ok" + ("(valid)" if not sk else "(invalid)"))
            if is_wit and kind != "known-F13":
                ctx.note("witness %s no longer reproduces (implementation and model satisfy the Spec on it)" % kind)
            if kind == "known-F13":
                witness_seen["F13-fixed"] = True
            continue
        # impl == model != Spec: a defect the model mirrors; must be a listed finding
        labels = attribute(case, ik, sk, fk, nested) if case is not None else None
        if is_wit:
            fid = kind.split("-")[1]
            witness_seen[fid] = True
            labels = [fid]
        if labels and all(ctx.find_known(x) for x in labels):
            for x in labels:
                found[x] = found.get(x, 0) + 1
            bump("agree+spec-DIFF:" + "+".join(labels))
            ctx.sample({"kind": kind, "attributed_to": labels, "impl": i, "spec": s, "fixed_matcher_model": f,
                        "abstract": " ".join(a[6:])[:600]})
        else:
            nviol += 1
            bump("UNLISTED-DEFECT")
            if os.environ.get("C10_DEBUG"):
                print("UNLISTED", kind, a[1:4], "impl=", i, "spec=", s, "fixed=", f, "nested", nested, "\n     ", " ".join(a[6:])[:700])
            if nviol <= 5:
                ctx.violation("spec", {"request": req, "kind": kind, "impl": i, "model": m, "spec": s, "fixed_model": f,
                                       "candidate_findings": labels,
                                       "what": "implementation and model agree but violate the Spec, and no known finding "
                                               "explains the case"})
    # divergences: decide with the Spec
    unexplained = []
    for kind, req, i, m, s, ik, sk, iother in divergences:
        if ik is None or iother or not same_verdict(ik, sk):
            nviol += 1
            if nviol <= 5:
                ctx.violation("divergence", {"request": req, "kind": kind, "impl": i, "model": m, "spec": s,
                                             "what": "implementation differs from the model and from the Spec verdict"})
        else:
            unexplained.append((kind, req, i, m, s))
    if unexplained and not ctx.violations:
        kind, req, i, m, s = unexplained[0]
        ctx.violation("correspondence", {"what": "model and implementation differ (error counts) although both satisfy the "
                                                 "Spec at the level of violation kinds: correspondence xh_C10~xm_C10 no "
                                                 "longer holds", "request": req, "impl": i, "model": m, "spec": s,
                                         "count": len(unexplained)}, no_input=True)
    for fid in sorted(set(list(found) + [k for k in witness_seen if k != "F13-fixed"])):
        if witness_seen.get(fid):
            ctx.known_finding(fid, "%s (witness known-%s reproduces; %d generated cases attributed)"
                              % (WHAT.get(fid, ""), fid, found.get(fid, 0) - 1))
        elif found.get(fid):
            ctx.note("finding %s: witness did not reproduce but %d generated cases were attributed" % (fid, found[fid]))
            ctx.known_finding(fid, "%s (%d generated cases attributed; literal witness not reproduced)"
                              % (WHAT.get(fid, ""), found[fid]))
    ctx.coverage["traces_validated_against_impl"] = len(lines)
    ctx.coverage["input_distribution"] = stats
    ctx.coverage["spec_oracle_checked"] = ctx.coverage["evaluations"]
    ctx.coverage["findings_attributed"] = found
    ctx.coverage["rule"] = ("seeded (schema, instance) pairs: record-like instances with constraints aimed at them (80%) and "
                            "unconstrained random paths (20%), selectors/fields over child steps, '*', './/', unions, "
                            "attribute and element fields; field types string/token/integer/decimal/date/QName with lexically "
                            "different equal values; each pair under Val_Always+IGXMLScanner+loadGrammar and under a second "
                            "configuration (Val_Auto/Val_Always x IG/SG x loadGrammar/schemaLocation/external location); "
                            "compared: multiset of identity-constraint validity codes; every case is also judged by the "
                            "extracted Spec; non-trivial = some error reported or demanded; distinct by request text")
    if proof_broken and not ctx.violations:
        ctx.violation("obligation", {"what": "Coq obligation no longer checks and no failing input was found by the "
                                             "correspondence", "failed": failed, "output": out[-3000:]}, no_input=True)
    ctx.note("correspondence: %d requests, %d divergences, harness %.1fs, model %.1fs, total %.1fs; %s"
             % (len(lines), len(divergences), tB - tA, tC - tB, time.time() - t0, stats))
