"""C04 -- Parse result is independent of input chunking, buffer alignment and source type.

Theorems: coq/theories/C04/Properties_C04.v over the executable model of XMLReader.cpp (Model04.v); the buffer
constants and character classes are regenerated from /repo on every run (translator/c04_consts.py).
Correspondence (1): bin/xh_C04 drives the REAL xercesc::XMLReader over a chunked BinInputStream with sequences
of reader operations; bin/xm_C04 (extracted model, real buffer sizes) executes the same requests; the extracted
Spec (spec_chars = eol_norm . decode of the whole byte string) is the oracle.
Correspondence (2), needs no model: the same document parsed one-shot from memory and through chunked /
file / stdin sources must give the identical canonical SAX2 dump (events, errors, positions) -- literally the
property -- with constructs slid across the 16K-character / 48K-byte refill points."""
import json
import os
import subprocess
import sys
import time

import vcommon as V

sys.path.insert(0, os.path.join(V.VERIF, "translator"))
import c04_consts as TC  # noqa

ENC = {"utf8": "utf-8", "utf16le": "utf-16-le", "utf16be": "utf-16-be", "latin1": "latin-1"}


# ------------------------------------------------------------------------------------------------
# helpers
# ------------------------------------------------------------------------------------------------
def hx(b):
    return b.hex().upper() if b else "-"


def spec_of(parts):
    """parts: list of bytes or (bytes, count) -> doc spec 'HEX*N,HEX,...'"""
    out = []
    for p in parts:
        if isinstance(p, tuple):
            if p[1] > 0 and p[0]:
                out.append("%s*%d" % (p[0].hex().upper(), p[1]))
        elif p:
            out.append(p.hex().upper())
    return ",".join(out) if out else "-"


def bytes_of(parts):
    return b"".join(p[0] * p[1] if isinstance(p, tuple) else p for p in parts)


def run_bin(binpath, lines, timeout=900, env=None, args=()):
    e = dict(os.environ)
    # the extracted code recurses deeply (non tail-recursive list functions): a large minor heap keeps the number
    # of stack-scanning minor collections low
    e.setdefault("OCAMLRUNPARAM", "s=4M")
    if env:
        e.update(env)
    def big_stack():
        # the extracted list functions are not tail recursive: give the model driver the largest stack allowed
        import resource
        soft, hard = resource.getrlimit(resource.RLIMIT_STACK)
        try:
            resource.setrlimit(resource.RLIMIT_STACK, (hard, hard))
        except Exception:
            pass
    try:
        p = subprocess.run([binpath] + list(args), input=("\n".join(lines) + "\n").encode(), stdout=subprocess.PIPE,
                           stderr=subprocess.PIPE, timeout=timeout, env=e, preexec_fn=big_stack)
    except subprocess.TimeoutExpired as ex:
        return 124, (ex.stdout or b"").decode("ascii", "replace").splitlines(), "timeout"
    return p.returncode, p.stdout.decode("ascii", "replace").splitlines(), p.stderr.decode("utf-8", "replace")[-2000:]


def fixed_mode(ctx, fid):
    """a finding listed as status=known is modelled as written; otherwise the repaired behaviour is required"""
    forced = os.environ.get("C04_ASSUME_KNOWN", "")
    if fid in forced.split(","):
        return False
    return ctx.find_known(fid) is None


def model_lines(fill, safe, lines):
    return ["set fill %d" % (1 if fill else 0), "set safe %d" % (1 if safe else 0), "set sizes 0 0"] + lines


# ------------------------------------------------------------------------------------------------
# reader-level cases
# ------------------------------------------------------------------------------------------------
def u16(s, enc):
    return s.encode(ENC[enc], "surrogatepass")


def units_hex(s):
    b = s.encode("utf-16-be", "surrogatepass")
    return b.hex().upper()


def gen_reader_cases(ctx, consts):
    """(kind, request) list; documents are 'pad + construct + tail' with the construct sliding over the refill
    points of the character buffer (kCharBufSize) and the raw buffer (kRawBufSize, low-water mark)"""
    rng = ctx.rng
    CB, RB, LW = consts["kCharBufSize"], consts["kRawBufSize"], consts["lowWaterDefault"]
    thorough = ctx.tier == "thorough"
    cases = []
    constructs = [
        ("crlf", "\r\nq"), ("cr", "\rq"), ("crcr", "\r\r\nq"), ("lf", "\nq"), ("nel", "\u0085q"), ("crnel", "\r\u0085q"),
        ("lsep", " q"), ("e9", "éq"), ("euro", "€q"), ("supp", "\U00010348q"), ("supp2", "\U00020000\U0010FFFDq"),
        ("name", "namé-\U00010400x.y:z q"), ("name2", "a\U00020001\U00020002 b"), ("comment", "<!--c-->"),
        ("cdend", "]]>q"), ("charref", "&#x20AC;q"), ("endtag", "</elem>q"), ("spaces", " \t\r\n \n  x"),
        ("hs-lone", "ab\ud840 q"), ("ls-lone", "ab\udc00 q"), ("hs-hs", "a\ud840𠐀 q"),
    ]
    opsets = [
        ["G"],
        ["p", "g", "p", "g", "p", "g", "g", "g", "P", "G", "P"],
        ["N", "P", "g", "N", "P", "G"],
        ["T", "W", "T", "P", "g", "G"],
        ["s" + units_hex("<!--"), "k" + units_hex("]]>"), "s" + units_hex("]]>"), "s" + units_hex("&#x"), "s" + units_hex("</elem>"),
         "c000D", "c000A", "w", "W", "n0071", "P", "G"],
        ["k" + units_hex("namé"), "s" + units_hex("namé-"), "N", "w", "c0061", "N", "P", "G"],
        ["w", "c000D", "g", "W", "P", "N", "G"],
    ]
    encs = ["utf8", "utf16le", "utf16be", "latin1"]
    chunkings = ["0", "1", "2.3", "7.1.4096", "1:4096", "%d:1" % (RB - 1), "3:%d.1" % RB, "%d" % (CB - 1)]
    offsets = [-3, -2, -1, 0, 1, 2, 3]

    def add(kind, enc, ver, low, chunks, parts, ops):
        cases.append((kind, "rd %s %s %d %s %s %s" % (enc, ver, low, chunks, spec_of(parts), " ".join(ops))))

    n_target = 230 if not thorough else 6000
    combos = []
    for cname, ctext in constructs:
        for enc in encs:
            try:
                cb = u16(ctext, enc) if enc != "latin1" else ctext.encode("latin-1")
            except UnicodeEncodeError:
                continue
            padb = u16("x", enc) if enc != "latin1" else b"x"
            w = len(padb)
            # character-buffer boundary: pad characters so that the construct starts CB+d characters in;
            # raw-buffer boundary: RB+d bytes in (d rounded to the unit size); low-water region: RB-LW+d
            targets = [("cb", CB), ("cb2", 2 * CB), ("rb", RB // w), ("lw", (RB - LW) // w), ("start", 3)]
            for tname, base in targets:
                for d in offsets:
                    combos.append((cname, cb, enc, padb, tname, base + d))
    rng.shuffle(combos)
    if not thorough:
        # every run: each construct (one seeded encoding) with its first / second character in the LAST position of the
        # character buffer, of the doubled buffer, of the raw buffer and at the low-water mark; the rest is a seeded sample
        must = []
        seen = set()
        for t in combos:
            cname, cb, enc, padb, tname, npad = t
            base = {"cb": CB, "cb2": 2 * CB, "rb": RB // len(padb), "lw": (RB - LW) // len(padb), "start": 3}[tname]
            if tname != "start" and npad - base in (-1, 0) and (cname, tname, npad - base) not in seen:
                seen.add((cname, tname, npad - base))
                must.append(t)
        rest = [t for t in combos if t not in must]
        combos = must + rest[:max(0, n_target - len(must))]
    for k, (cname, cb, enc, padb, tname, npad) in enumerate(combos[:max(n_target, 0) if thorough else len(combos)]):
        if not thorough and k < len(must) and k % 3 != 2:
            # boundary cases keep the buffer alignment: deliver everything (compared with the Spec) or peek/get pairs
            ops = ["G"] if k % 3 == 0 else ["G%d" % max(0, npad - 2)] + opsets[1]
        else:
            ops = list(rng.choice(opsets))
            skip = max(0, npad - rng.choice([0, 0, 1, 2, 5]))
            ops = ["G%d" % skip] + ops
        ver = rng.choice(["10", "10", "11"])
        low = rng.choice([100, 100, 100, 0, 1, 4, 7, 1000])
        tail = u16("tail</r>\r\n", enc) if enc != "latin1" else b"tail</r>\r\n"
        parts = [(padb, npad), cb, tail]
        add("slide-%s-%s" % (tname, cname), enc, ver, low, rng.choice(chunkings), parts, ops)
    # names / NCNames / QNames with supplementary characters (first, middle, last) in UTF-16 LE/BE and UCS-4 LE/BE: every
    # UTF-16 unit of the name on the last / first position of the character buffer (a surrogate pair split by the refill)
    supp_names = [("mid", "attr\U00020000y"), ("first", "\U00020000ttr"), ("last", "att\U00020000"), ("two", "a\U00020000\U00020001b"),
                  ("qname", "p\U00020000x:l\U00020001z")]
    name_scripts = [["C", "P", "g", "C", "P", "G"], ["Q", "P", "g", "G"], ["N", "P", "g", "T", "P", "G"]]
    kk = 0
    for sname, stext in supp_names:
        nunits = len(stext.encode("utf-16-le")) // 2
        for ei, enc in enumerate(("utf16le", "utf16be", "ucs4le", "ucs4be")):
            if not thorough and (ei + len(sname)) % 2:
                continue
            codec = {"utf16le": "utf-16-le", "utf16be": "utf-16-be", "ucs4le": "utf-32-le", "ucs4be": "utf-32-be"}[enc]
            padb = "x".encode(codec)
            for T in ((CB,) if not thorough else (CB, 2 * CB)):
                for i in range(nunits):
                    for d in ((-1, 0) if not thorough else (-2, -1, 0, 1)):
                        kk += 1
                        npad = T + d - i
                        parts = [(padb, npad), (stext + "=q tail").encode(codec)]
                        add("suppname-%s" % sname, enc, "10", 100, rng.choice(["0", "4096", "1:16384"]), parts,
                            ["G%d" % npad] + name_scripts[kk % 3])
    # low-water mark 0 / 1: markup openers tested with skippedString / peekString near the raw-buffer boundary AFTER an earlier
    # opener straddled the 16K refill (so the character buffer is out of step with the raw buffer by S characters)
    openers = ["<!--", "<![CDATA[", "]]>", "<?", "\r\nq"]
    nlw = 0
    for S in (1, 2, 3, 5):
        for oi, op2 in enumerate(openers):
            for d in (range(-10, 7) if thorough else range(-10, 7, 2)):
                nlw += 1
                enc = "utf8" if nlw % 3 else "latin1"
                p1 = CB - S
                tok1 = "<!--c-->"
                pos2 = RB + d
                p2 = pos2 - p1 - len(tok1)
                parts = [(b"x", p1), tok1.encode(), (b"y", p2), op2.encode() + b"tail"]
                ops = ["G%d" % p1, "s" + units_hex("<!--"), "G%d" % (4 + p2), "k" + units_hex(op2[:3]), "s" + units_hex(op2.rstrip("q")), "P", "G"]
                add("lowwater-%d" % (nlw % 2), enc, "10", nlw % 2, rng.choice(["0", "4096", "1:49152"]), parts, ops)
    # random byte strings (ill-formed sequences included) on small documents, all encodings, many chunkings
    for _ in range(1200 if not thorough else 20000):
        enc = rng.choice(encs)
        n = rng.randrange(0, 24)
        pool = [0x41, 0x0D, 0x0A, 0x20, 0x3C, 0xC3, 0xA9, 0xE2, 0x82, 0xAC, 0xF0, 0x90, 0x8D, 0x88, 0xD8, 0xDC, 0x00, 0x85, 0xFF, 0x28]
        b = bytes(rng.choice(pool) for _ in range(n))
        ch = rng.choice(["0", "1", "2", "3", "1.2", "5", "2:1"])
        ops = rng.choice([["G"], ["p", "g"] * 6 + ["G"], ["T", "g", "N", "G"], ["w", "W", "P", "G"]])
        add("rand-small", enc, rng.choice(["10", "11"]), rng.choice([0, 1, 3, 100]), ch, [b], ops)
    # long runs of surrogate pairs / multi-byte characters crossing several refills, then name scanning
    for k in range(24 if not thorough else 200):
        enc = rng.choice(["utf16le", "utf16be", "utf8"])
        pair = "\U00020000"
        npairs = rng.choice([CB // 2 - 2, CB // 2 - 1, CB // 2, CB // 2 + 1, 9000, CB - 1, CB])
        head = rng.choice(["", "a", "ab", "abc"])
        tailc = rng.choice(["<\ud840", "\ud840", "<", "x𠀀", " q"])
        parts = [u16(head, enc), (u16(pair, enc), npairs), u16(tailc, enc)]
        ops = rng.choice([["T", "c003C", "N", "g", "g", "P"], ["N", "P", "g", "G"], ["G%d" % (2 * npairs + len(head) - 1), "T", "c003C", "N", "G"]])
        add("pairs", enc, "10", 100, rng.choice(["0", "4096", "1:4096", "3.5"]), parts, ops)
    return cases


F1_WITNESS = "rd utf16le 10 100 0 40D800DC3C0040D8 T c003C N g g g P"


# ------------------------------------------------------------------------------------------------
# document-level cases
# ------------------------------------------------------------------------------------------------
def doc_templates(consts, rng, thorough):
    """yield (kind, parts(list), prolog_len_bytes, has_decode_error)"""
    CB, RB, LW = consts["kCharBufSize"], consts["kRawBufSize"], consts["lowWaterDefault"]
    constructs = [
        ("text-e9", "é"), ("text-euro", "€€"), ("text-supp", "\U00010348\U0010FFFD"), ("crlf", "a\r\nb\rc\r\n"),
        ("elem", "<child-élément attr='vé' b=\"2\">t</child-élément>"),
        ("nsname", "<p:e xmlns:p='urn:x' p:a='1'/>"), ("comment", "<!-- comment é -->"),
        ("cdata", "<![CDATA[ c ]] > ]]>"), ("charref", "&#x20AC;&#65;&amp;&lt;"), ("pi", "<?target some data?>"),
        ("endtag", "<e>t</e>"), ("attr-ws", "<e a='x\r\ny\tz'/>"), ("empty", "<e/>"),
        ("bad-cdend", "]]>"), ("bad-ref", "&#x0;"), ("bad-attr", "<e a=>"), ("bad-end", "<e></f>"), ("bad-comment", "<!-- a -- b -->"),
        ("bad-name", "<×x/>"), ("bad-lt", "< e>"), ("bad-unterminated", "<e a='1"),
    ]
    supp_name = ("supp-name", "<\U00020000\U00020001 a='1'/>")
    encs = ["utf8", "utf16le", "utf16be", "latin1"]
    offs = [-3, -2, -1, 0, 1, 2, 3]
    combos = []
    for cname, ctext in constructs + [supp_name]:
        for enc in encs:
            try:
                (ctext.encode("latin-1") if enc == "latin1" else None)
            except UnicodeEncodeError:
                continue
            for tname in ("cb", "rb", "cb2"):
                for d in offs:
                    combos.append((cname, ctext, enc, tname, d))
    rng.shuffle(combos)
    limit = 130 if not thorough else len(combos)
    for (cname, ctext, enc, tname, d) in combos[:limit]:
        codec = ENC[enc]
        if enc == "utf8":
            prolog = rng.choice(["", "<?xml version='1.0'?>", "﻿"])
        elif enc == "latin1":
            prolog = "<?xml version='1.0' encoding='ISO-8859-1'?>"
        else:
            prolog = rng.choice(["﻿", "﻿<?xml version='1.0' encoding='UTF-16'?>"])
        head = prolog + "<r>"
        w = 2 if enc.startswith("utf16") else 1
        hb = head.encode(codec)
        if tname == "cb":
            decl_chars = len(prolog.replace("﻿", ""))     # characters pre-decoded by doInitDecode
            npad = (decl_chars if "<?xml" in prolog else 0) + CB - len("<r>") * (0 if "<?xml" in prolog else 1) + d
            if "<?xml" in prolog:
                npad = CB - len("<r>") + d
        elif tname == "cb2":
            npad = 2 * CB - len(head.replace("﻿", "")) + d
        else:
            npad = (RB - len(hb)) // w + d
        npad = max(0, npad)
        parts = [hb, ("x".encode(codec), npad), ctext.encode(codec, "surrogatepass"), "tail</r>".encode(codec)]
        plen = len(prolog.encode(codec))
        yield ("slide-%s-%s-%s" % (tname, cname, enc), parts, max(plen, 4), False)
    # encoding errors and truncations (FA / F2 classes): chunk independence must still hold
    for k in range(20 if not thorough else 300):
        body = "<r>" + "x" * rng.choice([5, 100, CB - 4, CB + 10]) + "é</r>"
        b = bytearray(body.encode("utf-8"))
        pos = rng.randrange(3, len(b))
        how = rng.choice(["ff", "trunc", "cont"])
        if how == "ff":
            b[pos] = 0xFF
        elif how == "cont":
            b[pos] = 0x80
        else:
            b = b[:len(b) - rng.choice([1, 7])]
        yield ("malformed-enc-" + how, [bytes(b)], 4, how != "trunc")
    for k in range(10):
        body = "﻿<r>" + "x" * rng.choice([5, 300]) + "\U00010348</r>"
        b = body.encode("utf-16-le")
        b = b[:len(b) - rng.choice([1, 3, 9])]
        yield ("malformed-utf16-trunc", [b], 4, False)


def ext_templates(consts, rng, thorough):
    """documents whose external DTD subset / external general entity carries the sliding construct:
    yield (kind, doc bytes, ext parts, prolog_len of ext)"""
    CB, RB = consts["kCharBufSize"], consts["kRawBufSize"]
    out = []
    for k in range(24 if not thorough else 300):
        enc = rng.choice(["utf8", "utf16le", "latin1"])
        codec = ENC[enc]
        w = 2 if enc.startswith("utf16") else 1
        decl = {"utf8": "<?xml version='1.0' encoding='UTF-8'?>", "utf16le": "﻿<?xml version='1.0' encoding='UTF-16'?>",
                "latin1": "<?xml version='1.0' encoding='ISO-8859-1'?>"}[enc]
        base = rng.choice([CB, RB // w, 2 * CB])
        d = rng.randrange(-3, 4)
        if rng.random() < 0.5:
            # external general entity with text content
            doc = b"<!DOCTYPE r [<!ENTITY x SYSTEM 'e.ent'>]><r>pre&x;post</r>"
            cons = rng.choice(["é\r\n", "<c a='é'>t</c>", "<!-- c -->", "&#x20AC;&amp;", "<![CDATA[x]]>", "]]>", "</c>", "a\rb"])
            npad = max(0, base - len(decl.replace("﻿", "")) + d)
            parts = [decl.encode(codec), ("x".encode(codec), npad), cons.encode(codec), "tail".encode(codec)]
            out.append(("ext-entity-" + enc, doc, parts, len(decl.encode(codec))))
        else:
            # external DTD subset: declarations after a long comment
            doc = b"<!DOCTYPE r SYSTEM 'x.dtd'><r a='1'>&ge;<b/></r>"
            cons = rng.choice(["<!ELEMENT r (#PCDATA|b)*>", "<!ATTLIST r a CDATA #IMPLIED é CDATA 'd'>", "<!ENTITY ge 'valé'>",
                               "<!ENTITY % p '<!ELEMENT b EMPTY>'>%p;", "<![INCLUDE[<!ELEMENT b EMPTY>]]>", "<!ELEMENT b EMPTY"])
            pre = decl + "<!--"
            npad = max(0, base - len(pre.replace("﻿", "")) - 3 + d)
            parts = [pre.encode(codec), ("x".encode(codec), npad), "-->".encode(codec), cons.encode(codec),
                     "<!ENTITY ge 'g'><!ELEMENT b EMPTY><!ELEMENT r ANY>".encode(codec)]
            out.append(("ext-dtd-" + enc, doc, parts, len(decl.encode(codec))))
    return out


# ---- entity / character / parameter-entity REFERENCES sliding across the refill points of the CONTAINING entity ----
REF_DOC_PRE = (b'<!DOCTYPE r [<!ENTITY ge "gval"><!ENTITY xe SYSTEM "xe.ent"><!ELEMENT r ANY><!ELEMENT e EMPTY><!ELEMENT c EMPTY>'
               b'<!ATTLIST e a CDATA #IMPLIED>]><r>')
REF_XE = b"EXT<c/>ent"
DTD_DOC = b'<!DOCTYPE r SYSTEM "x.dtd"><r><e/><f/>&v;</r>'
DTD_PRE = (b'<!ELEMENT r ANY><!ELEMENT e EMPTY><!ENTITY % c "a CDATA \'dflt\'"><!ENTITY % x "<!ELEMENT f EMPTY>">'
           b'<!ENTITY % m "(#PCDATA)"><!ENTITY % pv "pe"><!ENTITY v "v0">')
PE_HOST = DTD_PRE + b'<!ENTITY % ext2 SYSTEM "pe2.ent">%ext2;<!ELEMENT h EMPTY>'
REF_TEMPLATES = [
    # (name, container, lead, reference, tail)
    ("ge-content", "doc", b"<e/>a", b"&ge;", b"b</r>"),
    ("xe-content", "doc", b"<e/>a", b"&xe;", b"b</r>"),
    ("ge-attr", "doc", b'<e a="v', b"&ge;", b'w"/>t</r>'),
    ("ge-attr2", "doc", b'<e a="', b"&ge;&ge;", b'"/></r>'),
    ("charref-content", "doc", b"a", b"&#x20AC;", b"b<e/></r>"),
    ("charref-attr", "doc", b"<e a='v", b"&#65;", b"w'/></r>"),
    ("pe-attlist", "ext", b"<!ATTLIST e ", b"%c;", b"><!ELEMENT g %m;>%x;<!ELEMENT k EMPTY>"),
    ("pe-between", "ext", b"", b"%x;", b"<!ATTLIST e %c;>"),
    ("pe-model", "ext", b"<!ELEMENT g ", b"%m;", b">%x;<!ATTLIST e %c;>"),
    ("pe-entval", "ext", b'<!ENTITY w "a', b"%pv;", b'b">%x;<!ATTLIST e %c;>'),
    ("charref-default", "ext", b'<!ATTLIST e b CDATA "d', b"&#65;", b'">%x;<!ATTLIST e %c;>'),
    ("pe-attlist", "ext2", b"<!ATTLIST e ", b"%c;", b"><!ELEMENT g %m;>%x;"),
    ("pe-between", "ext2", b"", b"%x;", b"<!ATTLIST e %c;>"),
    ("pe-model", "ext2", b"<!ELEMENT g ", b"%m;", b">%x;<!ATTLIST e %c;>"),
]


def ref_variant(tpl, npad):
    """(docspec, extspec, ext2spec) of one template with npad padding characters in its containing entity; the padding is
    followed by a line feed so that every position reported after it is independent of npad"""
    name, cont, lead, ref, tail = tpl
    if cont == "doc":
        doc = [REF_DOC_PRE, (b"x", npad), b"\n" + lead + ref + tail]
        return spec_of(doc), hx(REF_XE), None
    body = [b"<!--", (b"x", npad), b"-->\n" + lead + ref + tail]
    if cont == "ext":
        return hx(DTD_DOC), spec_of([DTD_PRE] + body), None
    return hx(DTD_DOC), hx(PE_HOST), spec_of(body)


def ref_offsets(tpl, consts):
    """paddings that put every character of the reference ('&'/'%', name, ';') on offsets -3..+3 around kCharBufSize and
    2*kCharBufSize characters of the containing entity"""
    name, cont, lead, ref, tail = tpl
    CB = consts["kCharBufSize"]
    before = (len(REF_DOC_PRE) + 1 + len(lead)) if cont == "doc" else ((len(DTD_PRE) if cont == "ext" else 0) + 4 + 4 + len(lead))
    pads = set()
    for T in (CB, 2 * CB):
        for i in range(len(ref)):
            for d in range(-3, 4):
                n = T + d - before - i
                if n >= 0:
                    pads.add(n)
    return sorted(pads)


ICU_ENCODINGS = [("EUC-JP", "euc_jp", "\u65e5\u672c\u8a9e\u306e\u30c6\u30ad\u30b9\u30c8"), ("Shift_JIS", "shift_jis", "\u65e5\u672c\u8a9e\u306e\u30c6\u30ad\u30b9\u30c8"),
                 ("GB2312", "gb2312", "\u4e2d\u6587\u6587\u672c\u6d4b\u8bd5"), ("Big5", "big5", "\u4e2d\u6587\u6587\u672c\u6e2c\u8a66"),
                 ("EUC-KR", "euc_kr", "\ud55c\uad6d\uc5b4\ud14d\uc2a4\ud2b8")]

NAME_TEMPLATES = [
    # (name, lead, construct, tail, namespaces)
    ("attr-mid", "<e ", "attr\U00020000y", '="1"/>', "0"),
    ("attr-mid-ns", "<e ", "attr\U00020000y", '="1"/>', "1"),
    ("attr-first", "<e ", "\U00020000ttr", '="1"/>', "1"),
    ("attr-last", "<e ", "att\U00020000", '="1"/>', "0"),
    ("elem-mid", "<", "el\U00020000m", "/>", "1"),
    ("elem-two", "<", "e\U00020000\U00020001m", ">t</e\U00020000\U00020001m>", "0"),
    ("qname-elem", "<", "p\U00020000x:l\U00020001z", ' xmlns:p\U00020000x="u"/>', "1"),
    ("qname-attr", '<e xmlns:p="u" ', "p:at\U00020000r", '="v"/>', "1"),
    ("endtag", "<el\U00020000m>t</", "el\U00020000m", ">", "0"),
]


def name_variant(tpl, codec, npad):
    name, lead, cons, tail, ns = tpl
    prolog = "<?xml version='1.0' encoding='UCS-4'?>" if codec.startswith("utf-32") else "\ufeff"
    head = (prolog + "<r>").encode(codec)
    return spec_of([head, ("x".encode(codec), npad), ("\n" + lead + cons + tail + "</r>").encode(codec)])


def name_offsets(tpl, consts, thorough):
    name, lead, cons, tail, ns = tpl
    CB = consts["kCharBufSize"]
    u = lambda t: len(t.encode("utf-16-le")) // 2
    before = 3 + 1 + u(lead)
    pads = set()
    for T in (CB, 2 * CB):
        for i in range(u(cons)):
            for d in ((-1, 0) if not thorough else (-2, -1, 0, 1)):
                n = T + d - before - i
                if n >= 0:
                    pads.add(n)
    return sorted(pads)


def icu_variant(encname, codec, run, npad):
    decl = "<?xml version='1.0' encoding='%s'?><r>" % encname
    return spec_of([decl.encode("ascii"), (b"x", npad), b"\n" + (run * 6).encode(codec) + b"</r>"]), len(decl)


def esc_py(t):
    out = ""
    for ch in t:
        o = ord(ch)
        if 0x20 <= o < 0x7F and ch not in "\\|":
            out += ch
        elif o < 0x10000:
            out += "\\u%04X" % o
        else:
            o -= 0x10000
            out += "\\u%04X\\u%04X" % (0xD800 + (o >> 10), 0xDC00 + (o & 1023))
    return out


def norm_dump(line):
    """dump line without the hash and with every padding run collapsed"""
    import re
    f = line.split(" ", 2)
    return re.sub(r"x{3,}", "X", f[2]) if len(f) > 2 else line


def chunkings_for(rng, parts, prolog_len, consts, fill_fixed, n):
    """chunk specs for a document: 1 byte at a time, seeded random sizes, sizes straddling the construct"""
    CB, RB = consts["kCharBufSize"], consts["kRawBufSize"]
    total = len(bytes_of(parts))
    cands = ["1", "2", "3.1", "%d.%d.%d" % (rng.randrange(1, 50), rng.randrange(1, 5000), rng.randrange(1, 9)),
             "%d" % rng.randrange(1, 2 * RB), "%d:1" % max(1, total - rng.randrange(1, 40)), "%d:1.2" % max(1, total // 2),
             "4096", "%d" % (RB - 1), "%d" % (RB + 1), "%d" % (CB + 1), "1:%d" % RB]
    rng.shuffle(cands)
    out = []
    for c in cands:
        if not fill_fixed:
            # as-written refreshRawBuffer (finding FB listed as known): exclude exactly its class --
            # a first read shorter than BOM + XML declaration (or 4 bytes)
            first = int(c.split(":")[0].split(".")[0])
            if first < prolog_len:
                c = "%d:%s" % (prolog_len + 1, c.split(":")[-1])
        out.append(c)
        if len(out) >= n:
            break
    return out


# ------------------------------------------------------------------------------------------------
def run(ctx):
    t0 = time.time()
    ctx.coverage["trusted_base"] = list(V.GLOBAL_TRUSTED_BASE) + [
        "modelled rather than verified: the transcoders are a Section-style parameter of the reader model with a stated "
        "contract (Contract04.v) proved for the C05 models of ISO-8859-1 and UTF-16; UTF-8 and ICU converters are covered "
        "by the correspondence only; constructors' encoding auto-sensing / doInitDecode, PE readers and source offsets are "
        "not modelled (document-level oracle only)"]
    ctx.assumptions = ["BinInputStream::readBytes returns 0 only at the end of the input (its documented contract)",
                       "host is little endian", "exceptions are modelled as an error value; the XMLExcepts code is compared"]
    ctx.build_lib()
    try:
        data = TC.generate()
    except Exception as e:
        ctx.note("translator failed: %r" % (e,))
        ctx.violation("translator", {"what": "translator can no longer read the reader constants / character tables",
                                     "error": repr(e)}, no_input=True)
        return
    consts = data["consts"]
    ok, out, failed = ctx.prove(["Base", "Gen", "C05", "C04"],
                                ["theories/C04/Properties_C04.vo", "theories/C04/Extract_C04.vo"],
                                props_file="theories/C04/Properties_C04.v")
    proof_broken = not ok
    if proof_broken:
        ctx.note("proof obligations failed: %s" % failed)
        ctx.note(out[-1500:])
    if not os.path.exists(os.path.join(V.VERIF, "ocaml", "C04", "gen_c04.ml")):
        ctx.violation("extraction", {"what": "extracted model missing (Extract_C04.v did not build)", "output": out[-2000:]},
                      no_input=True)
        return
    xm = ctx.ocaml("C04", ["gen_c04"])
    xh = ctx.harness("C04")
    tmpdir = os.path.join(V.BUILD, "tmp-C04")
    os.makedirs(tmpdir, exist_ok=True)
    henv = {"XH_TMPDIR": tmpdir}
    f1_fixed = fixed_mode(ctx, "F1")
    fb_fixed = fixed_mode(ctx, "FB")
    ctx.note("modes: F1 %s, FB %s" % ("fixed" if f1_fixed else "known", "fixed" if fb_fixed else "known"))

    # ---- replay of one recorded case -----------------------------------------------------------
    if ctx.replay:
        r = json.load(open(ctx.replay))
        reqs = r.get("requests") or [r["request"]]
        rc, impl, err = run_bin(xh, reqs, env=henv, timeout=60)
        ctx.note("replay impl: %s" % [x[:300] for x in impl])
        if reqs[0].startswith("rd ") and len(reqs) > 1:
            if rc != 0 or len(set(impl)) != 1:
                ctx.violation("chunk-dependence", dict(r, impl=impl))
        elif reqs[0].startswith("rd "):
            rc2, model, _ = run_bin(xm, model_lines(fb_fixed, f1_fixed, reqs))
            model = model[3:]
            ctx.note("replay model: %s" % model)
            if rc != 0 or impl != model:
                ctx.violation("divergence", dict(r, impl=impl, model=model))
            elif reqs[0].split()[6:] == ["G"]:
                a = reqs[0].split()
                _, so, _ = run_bin(xm, ["spec %s %s %s" % (a[1], a[2], a[5])])
                if not so[0].split()[1].startswith("bad") and impl[0].split()[0] != so[0].split()[0]:
                    ctx.violation("divergence", dict(r, impl=impl, spec=so))
        else:
            if r.get("compare") == "long-name":
                import re as _re
                keys = [_re.sub(r"a{3,}", "A", x.split(" ", 2)[2]) for x in impl]
            else:
                keys = [norm_dump(x) for x in impl] if r.get("compare") == "normalised" else [" ".join(x.split()[:5]) for x in impl]
            if rc != 0 or len(set(keys)) != 1:
                ctx.violation("chunk-dependence", dict(r, impl=impl))
        return

    # ---- 0. witnesses first --------------------------------------------------------------------
    rc, w_impl, _ = run_bin(xh, [F1_WITNESS], env=henv, timeout=20)
    _, w_model, _ = run_bin(xm, model_lines(True, True, [F1_WITNESS]))
    w_model = w_model[3:]
    f1_reproduces = (rc != 0) or (w_impl != w_model)
    ctx.count()
    if f1_reproduces:
        if not f1_fixed:
            ctx.known_finding("F1", "getName look-ahead beyond fCharsAvail: witness `%s` -> %s (repaired behaviour: %s)"
                              % (F1_WITNESS, w_impl[:1] or "crash rc=%d" % rc, w_model[:1]))
        else:
            ctx.violation("F1", {"request": F1_WITNESS, "impl": w_impl, "rc": rc, "model_repaired": w_model,
                                 "what": "XMLReader::getName reads beyond fCharsAvail after the refresh at a trailing high "
                                         "surrogate (stale characters returned as a name / index overrun)"})
    # the same look-ahead exists in getNCName (not modelled): on this input it must answer like getName
    w_nc = F1_WITNESS.replace(" N ", " C ")
    rc, nc_impl, _ = run_bin(xh, [w_nc], env=henv, timeout=20)
    ctx.count()
    if rc != 0 or nc_impl != [x.replace("N:", "C:") for x in w_model]:
        if not f1_fixed:
            ctx.known_finding("F1", "getNCName look-ahead beyond fCharsAvail: witness `%s` -> %s" % (w_nc, nc_impl[:1] or rc))
        else:
            ctx.violation("F1", {"request": w_nc, "impl": nc_impl, "rc": rc, "expected": [x.replace("N:", "C:") for x in w_model],
                                 "what": "XMLReader::getNCName reads beyond fCharsAvail after the refresh at a trailing high surrogate"})
    fb_w = [("FFFE3C0061003E00E9003C002F0061003E00", "1"), ("EFBBBF3C613E783C2F613E", "2"),
            (hx(b"<?xml version='1.0' encoding='ISO-8859-1'?><a>\xe9\xe9</a>"), "7"),
            (hx(b"<a>" + b"x" * 100 + b"\xff" + b"yy</a>"), "50")]
    lines = []
    for d, ch in fb_w:
        lines += ["doc I1 mem 0 " + d, "doc I1 chunk %s %s" % (ch, d)]
    rc, o, _ = run_bin(xh, lines, env=henv, timeout=60)
    ctx.count(len(lines))
    fb_hits = [(lines[2 * i + 1], o[2 * i], o[2 * i + 1]) for i in range(len(fb_w))
               if rc == 0 and len(o) == len(lines) and o[2 * i] != o[2 * i + 1]]
    if rc != 0 or len(o) != len(lines):
        ctx.violation("harness-crash", {"what": "harness crashed on the FB witnesses", "requests": lines, "rc": rc})
    elif fb_hits:
        if not fb_fixed:
            ctx.known_finding("FB", "parse result depends on the stream's read sizes: %d/4 witnesses differ from the one-shot "
                              "parse, e.g. `%s` -> %s vs one-shot %s" % (len(fb_hits), fb_hits[0][0][:80], fb_hits[0][2][:90],
                                                                        fb_hits[0][1][:60]))
        else:
            for req, a, b in fb_hits[:3]:
                ctx.violation("chunk-dependence", {"requests": [req.replace(" chunk %s " % req.split()[3], " mem 0 "), req],
                                                   "one_shot": a, "chunked": b,
                                                   "what": "same bytes, different read sizes: different parse result (FB)"})
    # FA: known finding, alignment dependence of the error position for ill-formed input
    fa = ctx.find_known("FA")
    rc, o, _ = run_bin(xh, ["doc I1f mem 0 3C613E,78*100,FF,79793C2F613E"], env=henv, timeout=20)
    ctx.count()
    fa_doc = rc == 0 and o and ":1:1:" in o[0].split(" ", 4)[4][:12] and "SE(" not in o[0]
    if fa_doc:
        if fa:
            ctx.known_finding("FA", "ill-formed byte at column 104 is reported at line 1 column 1 and the start tag before it "
                              "is never delivered (witness `doc I1f mem 0 3C613E,78*100,FF,79793C2F613E`)")
        else:
            ctx.violation("FA", {"request": "doc I1f mem 0 3C613E,78*100,FF,79793C2F613E", "impl": o,
                                 "what": "error position of an ill-formed byte depends on the block structure"})

    # ---- 1. reader-level correspondence --------------------------------------------------------
    cases = gen_reader_cases(ctx, consts)
    reqs = [c[1] for c in cases]
    rc2, model, err2 = run_bin(xm, model_lines(fb_fixed, f1_fixed, reqs))
    model = model[3:]
    if rc2 != 0 or len(model) != len(reqs):
        ctx.violation("model-crash", {"what": "model driver crashed", "stderr": err2, "answered": len(model)}, no_input=True)
        return
    # requests on which the as-written model says Fault (F1 class while listed as known) are run one by one
    bulk = [i for i, m in enumerate(model) if "MODEL_FAULT" not in m]
    faulty = [i for i, m in enumerate(model) if "MODEL_FAULT" in m]
    rc1, impl_b, err1 = run_bin(xh, [reqs[i] for i in bulk], env=henv, timeout=1200)
    if rc1 != 0 or len(impl_b) != len(bulk):
        bad = reqs[bulk[len(impl_b)]] if len(impl_b) < len(bulk) else None
        ctx.violation("harness-crash", {"what": "implementation harness crashed, hung or lost lines", "rc": rc1,
                                        "stderr": err1, "request": bad})
        return
    impl = dict(zip(bulk, impl_b))
    kinds = {}
    divergences = []
    for i in bulk:
        kind = "-".join(cases[i][0].split("-")[:2])
        kinds[kind] = kinds.get(kind, 0) + 1
        ctx.count()
        if "!" in impl[i] or ":0" in impl[i] or "000A" in impl[i]:
            ctx.distinct(reqs[i])
        if impl[i] != model[i]:
            divergences.append(i)
    f1_class = 0
    for i in faulty[:6]:
        rcx, ox, _ = run_bin(xh, [reqs[i]], env=henv, timeout=15)
        _, mx, _ = run_bin(xm, model_lines(fb_fixed, True, [reqs[i]]))
        ctx.count()
        if rcx != 0 or ox != mx[3:]:
            f1_class += 1
    if faulty:
        if not f1_fixed and ctx.find_known("F1"):
            ctx.known_finding("F1", "%d generated operation sequences reach the stale look-ahead (as-written model = Fault); "
                              "%d of the %d replayed individually misbehave observably" % (len(faulty), f1_class, min(6, len(faulty))))
        else:
            ctx.violation("model-fault", {"request": reqs[faulty[0]], "model": model[faulty[0]],
                                          "what": "repaired model reports Fault: T01_reader_inv contradicted"}, no_input=False)
    # Spec oracle: requests that deliver everything ("... G" as only consuming op) against spec_chars
    spec_idx = [i for i in bulk if reqs[i].split()[6:] == ["G"]]
    extra = [i for i in bulk if reqs[i].split()[-1] == "G" and len(reqs[i].split()) > 7]
    sreq = []
    for i in spec_idx:
        a = reqs[i].split()
        sreq.append("spec %s %s %s" % (a[1], a[2], a[5]))
    _, sout, _ = run_bin(xm, sreq)
    spec_bad = 0
    fa_class = 0
    for i, so in zip(spec_idx, sout):
        g, status = so.split()
        if status.startswith("bad"):
            # ill-formed input: the error must be reported (same code); a shorter delivered prefix is finding FA
            want_err = status.split(":")[1]
            if "!" + want_err not in impl[i]:
                spec_bad += 1
                if spec_bad <= 3:
                    ctx.violation("spec", {"request": reqs[i], "impl": impl[i], "spec": so,
                                           "what": "ill-formed input: the specified decoding error is not reported"})
            else:
                n_impl = int(impl[i].split()[0].split(":")[1])
                n_spec = int(g.split(":")[1])
                if n_impl > n_spec:
                    spec_bad += 1
                    ctx.violation("spec", {"request": reqs[i], "impl": impl[i], "spec": so,
                                           "what": "more characters delivered than the input has before the ill-formed bytes"})
                elif n_impl < n_spec:
                    fa_class += 1
        elif status == "truncated":
            # the input ends inside a character: everything before it is delivered, then Trans_BadSrcSeq (repair of F2)
            if impl[i] != g + " !Trans_BadSrcSeq":
                spec_bad += 1
                if spec_bad <= 3:
                    ctx.violation("spec", {"request": reqs[i], "impl": impl[i], "spec": so,
                                           "what": "input ending inside a character: expected all complete characters, then Trans_BadSrcSeq"})
        else:
            if impl[i] != g:
                spec_bad += 1
                if spec_bad <= 3:
                    ctx.violation("spec", {"request": reqs[i], "impl": impl[i], "spec": so,
                                           "what": "delivered characters differ from eol_norm(decode(bytes))"})
    if fa_class:
        if fa:
            ctx.known_finding("FA", "%d generated ill-formed inputs: fewer characters are delivered before the decoding error "
                              "than precede the ill-formed bytes (block-structure dependent)" % fa_class)
        else:
            ctx.violation("FA", {"what": "ill-formed input loses decoded characters", "count": fa_class})
    ctx.coverage["spec_oracle_checked"] = len(spec_idx)
    # divergences impl != model
    viol = 0
    unexplained = []
    ctx.coverage["token_spec_oracle"] = ("on every impl/model divergence the extracted Spec04t functions (tk_*) decide; "
                                         "model == token spec and impl != token spec -> VIOLATION divergence with replay")
    for i in divergences[:50]:
        a = reqs[i].split()
        # Spec verdict for the token operations (T04_tokens): the functions of Spec04t.v evaluated on the remaining characters
        # of the spec decoding -- no reader, no buffers; an implementation answer that differs from it violates the Spec
        _, ts, _ = run_bin(xm, ["tspec %s %s %s %s" % (a[1], a[2], a[5], " ".join(a[6:]))])
        if ts and not ts[0].startswith("unsupported") and ts[0] != "bad-request" and ts[0] == model[i] and impl[i] != ts[0]:
            viol += 1
            if viol <= 5:
                ctx.violation("divergence", {"request": reqs[i], "impl": impl[i], "model": model[i], "token_spec": ts[0],
                                             "what": "a token operation's answer / position is not the specified function of the "
                                                     "remaining characters (Spec04t.v): the implementation violates the Spec"})
            continue
        _, so, _ = run_bin(xm, ["spec %s %s %s" % (a[1], a[2], a[5])])
        # Spec verdict on the implementation's answer: total characters delivered by all G/g ops must not exceed
        # the specified sequence and a final G must end where the spec ends
        verdict = "unknown"
        if a[6:] == ["G"] and not so[0].split()[1].startswith("bad"):
            verdict = "violates" if impl[i].split()[0] != so[0].split()[0] else "ok"
        if verdict == "violates":
            viol += 1
            if viol <= 5:
                ctx.violation("divergence", {"request": reqs[i], "impl": impl[i], "model": model[i], "spec": so[0],
                                             "what": "implementation differs from the model and violates the Spec"})
        else:
            unexplained.append(i)
    # neighbourhood search for a Spec-violating input: the same document and chunking with the single operation
    # "deliver everything" must give eol_norm(decode(bytes))
    if unexplained and not viol:
        for i in unexplained[:10]:
            a = reqs[i].split()
            greq = " ".join(a[:6] + ["G"])
            _, go, _ = run_bin(xh, [greq], env=henv, timeout=60)
            _, so, _ = run_bin(xm, ["spec %s %s %s" % (a[1], a[2], a[5])])
            if go and so and not so[0].split()[1].startswith("bad") and go[0].split()[0] != so[0].split()[0]:
                viol += 1
                ctx.violation("divergence", {"request": greq, "impl": go[0], "spec": so[0], "found_from": reqs[i],
                                             "impl_original": impl[i], "model_original": model[i],
                                             "what": "delivered characters differ from eol_norm(decode(bytes)): the "
                                                     "implementation violates the Spec on this input"})
                break
    if unexplained and not viol:
        i = unexplained[0]
        # same operations on the one-shot chunking: if the implementation's answers differ between chunkings the
        # property itself is violated on this input
        a = reqs[i].split()
        one = " ".join(a[:4] + ["0"] + a[5:])
        _, o1, _ = run_bin(xh, [one], env=henv, timeout=30)
        if o1 and o1[0] != impl[i]:
            ctx.violation("chunk-dependence", {"requests": [one, reqs[i]], "one_shot": o1[0], "chunked": impl[i],
                                               "model": model[i], "what": "reader operations give different results for "
                                               "different read sizes of the same bytes"})
        else:
            ctx.violation("correspondence", {"what": "model and implementation differ but no Spec-violating input was found: "
                                             "correspondence xh_C04~xm_C04 no longer checks", "request": reqs[i],
                                             "impl": impl[i], "model": model[i], "count": len(unexplained)}, no_input=True)
    ctx.coverage["traces_validated_against_impl"] = len(bulk)
    for i in (bulk[:1] + bulk[len(bulk) // 2:len(bulk) // 2 + 1] + bulk[-1:]):
        ctx.sample({"kind": cases[i][0], "request": reqs[i][:200], "impl": impl[i][:200], "model": model[i][:200]})
    ctx.note("reader-level: %d requests, %d divergences, %d spec-checked, %.1fs" % (len(bulk), len(divergences), len(spec_idx),
                                                                                   time.time() - t0))

    # ---- 1b. operations that are not modelled (getNCName, skippedStringLong, movePlainContentChars, skipIfQuote):
    #          metamorphic form of the property -- the answers must not depend on the chunking of the same bytes
    t1b = time.time()
    CBc, RBc = consts["kCharBufSize"], consts["kRawBufSize"]
    mm = []
    for _ in range(60 if ctx.tier == "quick" else 1500):
        enc = ctx.rng.choice(["utf8", "utf16le", "utf16be", "latin1"])
        w = 2 if enc.startswith("utf16") else 1
        base = ctx.rng.choice([CBc, 2 * CBc, RBc // w, 5])
        npad = max(0, base + ctx.rng.randrange(-3, 4))
        cons = ctx.rng.choice(["pfx:local-nam\u00e9 x", "a\U00020000\U00020001b:c ", "'quoted'", "plain text \u00e9 more<", "</elem-\u00e9nd>q", "\ud840 x", "nc\ud840"])
        try:
            cb = cons.encode(ENC[enc], "surrogatepass")
        except UnicodeEncodeError:
            continue
        parts = [("x".encode(ENC[enc]), npad), cb, "tail".encode(ENC[enc])]
        ops = ["G%d" % max(0, npad - ctx.rng.choice([0, 1, 2]))] + ctx.rng.choice([
            ["C", "P", "g", "C", "G"], ["m", "P", "q", "m", "g", "m", "G"], ["l" + units_hex("</elem-\u00e9nd>"), "P", "G"],
            ["q", "C", "q", "P", "G"], ["C", "c003A", "C", "P", "G"]])
        grp = []
        for ch in ["0"] + ctx.rng.sample(["1", "2.3", "7.1.4096", "1:4096", "%d:1" % (RBc - 1), "%d" % (CBc - 1), "4096"], 2):
            grp.append("rd %s 10 100 %s %s %s" % (enc, ch, spec_of(parts), " ".join(ops)))
        mm.append(grp)
    flat = [r_ for g in mm for r_ in g]
    rcm, mo, merr = run_bin(xh, flat, env=henv, timeout=600)
    if rcm != 0 or len(mo) != len(flat):
        ctx.violation("harness-crash", {"what": "harness crashed on unmodelled reader operations", "rc": rcm, "stderr": merr,
                                        "request": flat[len(mo)] if len(mo) < len(flat) else None})
    else:
        k = 0
        nbad = 0
        for g in mm:
            outs = mo[k:k + len(g)]
            k += len(g)
            ctx.count(len(g))
            if len(set(outs)) != 1:
                nbad += 1
                if nbad <= 3:
                    j = next(i for i in range(len(g)) if outs[i] != outs[0])
                    ctx.violation("chunk-dependence", {"requests": [g[0], g[j]], "one_shot": outs[0], "chunked": outs[j],
                                                       "what": "unmodelled reader operations answer differently for different "
                                                               "read sizes of the same bytes"})
        ctx.note("unmodelled operations, chunking metamorphic: %d groups, %d differing, %.1fs" % (len(mm), nbad, time.time() - t1b))

    # ---- 2. model-only sweep at small buffer sizes against the Spec (all chunkings of short strings) -----------
    t1 = time.time()
    small = ["set fill %d" % (1 if fb_fixed else 0), "set safe 1"]
    sm_reqs = []
    rng = ctx.rng
    for _ in range(300 if ctx.tier == "quick" else 5000):
        enc = rng.choice(["utf16le", "utf16be", "latin1", "utf8"])
        n = rng.randrange(0, 14)
        pool = [0x41, 0x0D, 0x0A, 0x85, 0x00, 0xD8, 0xDC, 0x28, 0x20, 0xC3, 0xA9, 0xE2, 0x82, 0xAC, 0xF0, 0x90, 0x8D, 0x88]
        b = bytes(rng.choice(pool) for _ in range(n))
        ver = rng.choice(["10", "11"])
        sizes = "set sizes %d %d" % (rng.choice([3, 4, 5, 8]), rng.choice([4, 6, 8, 16]))
        sm_reqs.append((sizes, "rd %s %s %d %s %s G" % (enc, ver, rng.choice([0, 1, 2, 100]), rng.choice(["0", "1", "2", "1.2", "3"]), hx(b)),
                        "spec %s %s %s" % (enc, ver, hx(b))))
    lines = small[:]
    for s, r_, sp in sm_reqs:
        lines += [s, r_, sp]
    _, so, _ = run_bin(xm, lines)
    so = so[2:]
    sm_bad = 0
    for k, (s, r_, sp) in enumerate(sm_reqs):
        got, want = so[3 * k + 1], so[3 * k + 2]
        ctx.count()
        if want.split()[1].startswith("bad"):
            continue
        if got.split()[0] != want.split()[0] or "MODEL" in got:
            sm_bad += 1
            if sm_bad <= 2:
                ctx.violation("model-vs-spec", {"what": "extracted model disagrees with the extracted Spec at small buffer sizes "
                                                "(T04_chars contradicted: extraction or driver defect)", "sizes": s, "request": r_,
                                                "model": got, "spec": want}, no_input=True)
    ctx.note("model-vs-spec sweep at small sizes: %d cases, %d bad, %.1fs" % (len(sm_reqs), sm_bad, time.time() - t1))

    # ---- 3. document-level oracle: one-shot vs chunked / file / stdin ------------------------------------------
    t2 = time.time()
    dlines = []
    groups = []           # (kind, [indices]) first index = one-shot memory parse
    for kind, parts, plen, has_err in doc_templates(consts, ctx.rng, ctx.tier == "thorough"):
        spec = spec_of(parts)
        cfg = ctx.rng.choice(["I1", "I1", "I0", "W1", "D1", "S1"])
        idx = [len(dlines)]
        dlines.append("doc %s mem 0 %s" % (cfg, spec))
        nch = 3 if ctx.tier == "quick" else 8
        for ch in chunkings_for(ctx.rng, parts, plen, consts, fb_fixed, nch):
            idx.append(len(dlines))
            dlines.append("doc %s chunk %s %s" % (cfg, ch, spec))
        if ctx.rng.random() < 0.25:
            idx.append(len(dlines))
            dlines.append("doc %s file 0 %s" % (cfg, spec))
        groups.append((kind, idx, parts, cfg))
    # external entities (external DTD subset, external general entity) delivered through the same chunkings
    for kind, doc, eparts, plen in ext_templates(consts, ctx.rng, ctx.tier == "thorough"):
        espec = spec_of(eparts)
        cfg = ctx.rng.choice(["I1", "I0", "D1"])
        idx = [len(dlines)]
        dlines.append("doc %s mem 0 %s %s" % (cfg, hx(doc), espec))
        for ch in chunkings_for(ctx.rng, eparts, plen, consts, fb_fixed, 3 if ctx.tier == "quick" else 6):
            idx.append(len(dlines))
            dlines.append("doc %s chunk %s %s %s" % (cfg, ch, hx(doc), espec))
        groups.append((kind, idx, [doc], cfg))
    rc, dout, derr = run_bin(xh, dlines, env=henv, timeout=1500)
    if rc != 0 or len(dout) != len(dlines):
        ctx.violation("harness-crash", {"what": "document-level harness crashed or lost lines", "rc": rc, "stderr": derr,
                                        "request": dlines[len(dout)] if len(dout) < len(dlines) else None})
        return
    dviol = 0
    dk = {}
    nerr = 0
    for kind, idx, parts, cfg in groups:
        base = dout[idx[0]]
        dk[kind.rsplit("-", 1)[0]] = dk.get(kind.rsplit("-", 1)[0], 0) + 1
        if base.split()[4] != "-":
            nerr += 1
        for j in idx[1:]:
            ctx.count()
            ctx.distinct(dlines[j][:64] + str(len(dlines[j])) + dlines[j][-40:])
            if dout[j] != base:
                dviol += 1
                if dviol <= 4:
                    ctx.violation("chunk-dependence", {"requests": [dlines[idx[0]], dlines[j]], "one_shot": base[:600],
                                                       "other": dout[j][:600], "kind": kind,
                                                       "what": "same document, different source/read sizes: different "
                                                               "canonical SAX2 dump (events, errors or positions)"})
    # stdin source (separate processes)
    nstdin = 0
    for kind, idx, parts, cfg in groups[:6 if ctx.tier == "quick" else 40]:
        b = bytes_of(parts)
        try:
            p = subprocess.run([xh, "stdin", cfg], input=b, stdout=subprocess.PIPE, stderr=subprocess.PIPE, timeout=30)
            o = p.stdout.decode("ascii", "replace").strip()
        except subprocess.TimeoutExpired:
            o = "timeout"
        nstdin += 1
        ctx.count()
        if o != dout[idx[0]]:
            dviol += 1
            ctx.violation("source-dependence", {"requests": [dlines[idx[0]]], "stdin": o[:600], "memory": dout[idx[0]][:600],
                                                "what": "StdInInputSource gives a different result than MemBufInputSource"})
    # ---- 3b. references whose '&'/'%', name and ';' slide across the refill points of the CONTAINING entity --------
    #          oracle (no model): the dump must not depend on the padding (padding runs collapsed; the padding ends with
    #          a line feed, so positions after it are equal) and not on the chunking
    t3 = time.time()
    rlines = []
    rgroups = []     # (template, container, [(npad, idx_mem, idx_chunk or None)])
    for tpl in REF_TEMPLATES:
        pads = [5] + ref_offsets(tpl, consts)
        cfgr = ctx.rng.choice(["I1f", "D1f", "I0f"])
        ents = []
        for k, n in enumerate(pads):
            d, e1, e2 = ref_variant(tpl, n)
            tailspec = " ".join(x for x in (e1, e2) if x is not None)
            im = len(rlines)
            rlines.append("doc %s mem 0 %s %s" % (cfgr, d, tailspec))
            ic = None
            if k % 3 == 1 or ctx.tier == "thorough":
                ic = len(rlines)
                rlines.append("doc %s chunk %s %s %s" % (cfgr, ctx.rng.choice(["1", "4096", "7.1.4096", "1:16384", "16383", "16385"]), d, tailspec))
            ents.append((n, im, ic))
        rgroups.append((tpl, ents))
    rc, rout, rerr = run_bin(xh, rlines, env=henv, timeout=900)
    nref_bad = 0
    if rc != 0 or len(rout) != len(rlines):
        ctx.violation("harness-crash", {"what": "document-level harness crashed on the reference-sliding documents", "rc": rc,
                                        "stderr": rerr, "request": rlines[len(rout)] if len(rout) < len(rlines) else None})
    else:
        for tpl, ents in rgroups:
            base = norm_dump(rout[ents[0][1]])
            for n, im, ic in ents:
                ctx.count()
                ctx.distinct((tpl[0], tpl[1], n))
                if norm_dump(rout[im]) != base:
                    nref_bad += 1
                    if nref_bad <= 4:
                        ctx.violation("alignment-dependence",
                                      {"requests": [rlines[ents[0][1]], rlines[im]], "template": "%s in %s" % (tpl[0], tpl[1]),
                                       "padding": n, "baseline": norm_dump(rout[ents[0][1]])[:700], "padded": norm_dump(rout[im])[:700],
                                       "compare": "normalised",
                                       "what": "the same document with a different amount of padding before a reference gives a "
                                               "different result: the reference's position relative to the reader's refill "
                                               "points changes the parse"})
                if ic is not None:
                    ctx.count()
                    if rout[ic] != rout[im]:
                        nref_bad += 1
                        if nref_bad <= 4:
                            ctx.violation("chunk-dependence", {"requests": [rlines[im], rlines[ic]], "one_shot": rout[im][:600],
                                                               "other": rout[ic][:600], "kind": "ref-" + tpl[0],
                                                               "what": "same document, different read sizes: different dump"})
        # the baseline itself must be a clean parse that shows the reference's expansion (non-vacuity)
        nclean = sum(1 for tpl, ents in rgroups if rout[ents[0][1]].split()[3] == "-" and rout[ents[0][1]].split()[4] == "-")
        ctx.coverage["reference_sliding"] = {"templates": len(rgroups), "parses": len(rlines), "differing": nref_bad,
                                             "baselines_without_errors": nclean}
    ctx.note("reference sliding: %d templates, %d parses, %d differing, %.1fs" % (len(rgroups), len(rlines), nref_bad, time.time() - t3))

    # ---- 3c. names with supplementary characters in UTF-16 LE/BE and UCS-4 (every UTF-16 unit of the name on the last /
    #          first slot of the character buffer), and multi-byte text in ICU-provided encodings straddling the raw-buffer
    #          block ends: padding-metamorphic (equal to the 5-padding variant) + chunked + expected text
    t3c = time.time()
    alines = []
    agroups = []      # (label, [(npad, idx_mem, idx_chunk)], expected substring or None)
    thorough_ = ctx.tier == "thorough"
    codecs = ["utf-16-le", "utf-16-be", "utf-32-be", "utf-32-le"]
    for ti, tpl in enumerate(NAME_TEMPLATES):
        for ci, codec in enumerate(codecs):
            if not thorough_ and (ti + ci) % 2:
                continue
            cfga = ctx.rng.choice(["I", "W", "D", "S"]) + tpl[4] + "f"
            ents = []
            for k, n in enumerate([5] + name_offsets(tpl, consts, thorough_)):
                im = len(alines)
                alines.append("doc %s mem 0 %s" % (cfga, name_variant(tpl, codec, n)))
                ic = None
                if k % 4 == 1:
                    ic = len(alines)
                    alines.append("doc %s chunk %s %s" % (cfga, ctx.rng.choice(["4096", "1:16384", "16383", "7.1.4096"]), name_variant(tpl, codec, n)))
                ents.append((n, im, ic))
            agroups.append(("name-%s-%s" % (tpl[0], codec), ents, esc_py(tpl[2])))
    RBc2, LWc2 = consts["kRawBufSize"], consts["lowWaterDefault"]
    # which ICU encodings exist in this build: a short document must parse cleanly
    probe = ["doc I1 mem 0 " + icu_variant(en, cd, run, 5)[0] for en, cd, run in ICU_ENCODINGS]
    _, pout, _ = run_bin(xh, probe, env=henv, timeout=120)
    icu_ok = [ICU_ENCODINGS[i] for i in range(len(ICU_ENCODINGS)) if i < len(pout) and pout[i].split()[3:5] == ["-", "-"]]
    for en, cd, run in icu_ok:
        _, dl = icu_variant(en, cd, run, 0)
        ents = []
        pads = [5]
        for T in (RBc2, 2 * RBc2, RBc2 - LWc2):
            for k in range(1, 5 if not thorough_ else 9):
                pads.append(T - dl - 1 - k)
        for k, n in enumerate(pads):
            im = len(alines)
            alines.append("doc I1f mem 0 " + icu_variant(en, cd, run, n)[0])
            ic = None
            if k % 4 == 1:
                ic = len(alines)
                alines.append("doc I1f chunk %s %s" % (ctx.rng.choice(["4096", "1:49152", "49151", "3.1.4096"]), icu_variant(en, cd, run, n)[0]))
            ents.append((n, im, ic))
        agroups.append(("icu-" + en, ents, esc_py(run * 6)))
    rc, aout, aerr = run_bin(xh, alines, env=henv, timeout=900)
    nal_bad = 0
    if rc != 0 or len(aout) != len(alines):
        ctx.violation("harness-crash", {"what": "document-level harness crashed on the name / ICU alignment documents", "rc": rc,
                                        "stderr": aerr, "request": alines[len(aout)] if len(aout) < len(alines) else None})
    else:
        for label, ents, expect in agroups:
            base = norm_dump(aout[ents[0][1]])
            if expect not in base or aout[ents[0][1]].split()[4] != "-":
                nal_bad += 1
                ctx.violation("alignment-baseline", {"requests": [alines[ents[0][1]]], "template": label, "dump": base[:600],
                                                     "expected_text": expect, "what": "the baseline document does not report the "
                                                     "expected name / text or reports errors"})
                continue
            for n, im, ic in ents:
                ctx.count()
                ctx.distinct((label, n))
                if norm_dump(aout[im]) != base:
                    nal_bad += 1
                    if nal_bad <= 4:
                        ctx.violation("alignment-dependence",
                                      {"requests": [alines[ents[0][1]], alines[im]], "template": label, "padding": n,
                                       "baseline": base[-500:], "padded": norm_dump(aout[im])[-500:], "compare": "normalised",
                                       "what": "the same document with a different amount of padding gives a different result: a "
                                               "name / multi-byte character falling on a refill point of the reader changes the parse"})
                if ic is not None:
                    ctx.count()
                    if aout[ic] != aout[im]:
                        nal_bad += 1
                        if nal_bad <= 4:
                            ctx.violation("chunk-dependence", {"requests": [alines[im], alines[ic]], "one_shot": aout[im][-500:],
                                                               "other": aout[ic][-500:], "kind": label,
                                                               "what": "same document, different read sizes: different dump"})
    # ICU transcoders (outside the proved contract: correspondence only): block-wise decoding = decoding at once, for every
    # split position of a byte string
    xl = []
    for en, cd, run in icu_ok:
        for t in (run * 3, "a" + run + "b\r\n" + run, run[:3] + "<x>" + run[3:]):
            xl.append("xcsplit %s %s" % (en, hx(t.encode(cd))))
    nx_bad = 0
    if xl:
        rcx, xo, _ = run_bin(xh, xl, env=henv, timeout=300)
        for rq, o in zip(xl, xo):
            ctx.count()
            if not o.startswith("ok"):
                nx_bad += 1
                if nx_bad <= 2:
                    ctx.violation("icu-prefix-stability", {"request": rq, "impl": o, "what": "ICU transcoder: decoding a byte string "
                                                           "in two blocks differs from decoding it at once"})
        if rcx != 0 or len(xo) != len(xl):
            ctx.violation("harness-crash", {"what": "harness crashed on xcsplit requests", "rc": rcx})
    ctx.coverage["alignment_names_icu"] = {"groups": len(agroups), "parses": len(alines), "differing": nal_bad,
                                           "icu_encodings": [e[0] for e in icu_ok], "icu_split_requests": len(xl), "icu_split_bad": nx_bad}
    ctx.note("names/ICU alignment: %d groups, %d parses, %d differing; ICU encodings %s, %d split requests (%d bad), %.1fs"
             % (len(agroups), len(alines), nal_bad, [e[0] for e in icu_ok], len(xl), nx_bad, time.time() - t3c))
    # ---- 3d. the same TEXT in every encoding variant (UTF-8, UTF-16 LE/BE, UCS-4 LE/BE, each with and without byte order
    #          mark, with and without XML declaration where auto-sensing allows it) must give the same dump: tiny documents
    #          (the last character matters), documents larger than the raw buffer, constructs at the raw-buffer boundary of
    #          each encoding
    t3d = time.time()
    RBd, CBd = consts["kRawBufSize"], consts["kCharBufSize"]
    texts = []
    for body in ("<r/>", "<r>t</r>", '<r a="1">\u00e9</r>', "<r><e/></r><!--c-->", "<r>t</r><?p d?>"):
        texts.append(("tiny", body))
        texts.append(("tiny-nl", body + "\n"))
    for cons in ("<e>t</e>", "\u00e9\U00010348", "<ee a='1'/>", "</r", "<!--c-->", "a\r\nb"):
        for unit in (4, 2):
            for d in ((-2, -1, 0, 1) if not thorough_ else range(-4, 5)):
                # the construct starts d characters around the raw-buffer boundary of an encoding with `unit` bytes per character
                # (declaration of 40..42 characters and a possible BOM shift it by a few more positions: both neighbours are swept)
                n = RBd // unit - 45 + d * 2
                texts.append(("raw-%d" % unit, "<r>" + "x" * n + cons + ("" if cons == "</r" else "tail") + ("></r>" if cons == "</r" else "</r>")))
    texts.append(("big", "<r>" + ("x" * 997 + "<e a='v'>\u00e9</e>\r\n") * 70 + "</r>"))
    variants = []
    for codec, encname in (("utf-8", "UTF-8"), ("utf-16-le", "UTF-16"), ("utf-16-be", "UTF-16"), ("utf-32-le", "UCS-4"), ("utf-32-be", "UCS-4")):
        for bom in (False, True):
            for decl in (True, False):
                if not decl and not (bom or codec == "utf-8"):
                    continue      # without declaration and byte order mark only UTF-8 can be recognised
                if not decl and codec.startswith("utf-32"):
                    continue
                variants.append((codec, encname, bom, decl))
    elines = []
    egroups = []
    for kind, text in texts:
        idx = []
        for codec, encname, bom, decl in variants:
            t = ('<?xml version="1.0" encoding="%s"?>\n' % encname if decl else "\n") + text
            b = (("\ufeff" if bom else "") + t).encode(codec)
            idx.append(len(elines))
            elines.append("doc I1 mem 0 " + hx(b))
        # one chunked parse of a seeded variant
        codec, encname, bom, decl = ctx.rng.choice(variants)
        t = ('<?xml version="1.0" encoding="%s"?>\n' % encname if decl else "\n") + text
        elines.append("doc I1 chunk %s %s" % (ctx.rng.choice(["1", "3", "4096", "49151"]), hx((("\ufeff" if bom else "") + t).encode(codec))))
        idx.append(len(elines) - 1)
        egroups.append((kind, text, idx))
    rc, eout, eerr = run_bin(xh, elines, env=henv, timeout=900)
    nenc_bad = 0
    if rc != 0 or len(eout) != len(elines):
        ctx.violation("harness-crash", {"what": "document-level harness crashed on the encoding-variant documents", "rc": rc,
                                        "stderr": eerr, "request": elines[len(eout)] if len(eout) < len(elines) else None})
    else:
        for kind, text, idx in egroups:
            ref = eout[idx[0]]
            for j in idx[1:]:
                ctx.count()
                ctx.distinct((kind, len(text), j - idx[0]))
                if eout[j] != ref:
                    nenc_bad += 1
                    if nenc_bad <= 4:
                        vj = variants[j - idx[0]] if j - idx[0] < len(variants) else "chunked"
                        ctx.violation("encoding-dependence", {"requests": [elines[idx[0]], elines[j]], "variant": str(vj), "kind": kind,
                                                              "utf8": ref[:400], "other": eout[j][:400],
                                                              "what": "the same text in another encoding / byte-order-mark variant (or read in "
                                                                      "chunks) gives a different result"})
    ctx.coverage["encoding_variants"] = {"texts": len(texts), "variants": len(variants), "parses": len(elines), "differing": nenc_bad}
    ctx.note("encoding variants: %d texts x %d variants, %d parses, %d differing, %.1fs" % (len(texts), len(variants), len(elines), nenc_bad,
                                                                                           time.time() - t3d))

    # ---- 3e. low-water mark 0 / 1 / default: markup openers and CR LF at every offset within +-6 of the character-buffer
    #          refills and -10..+6 of the raw-buffer boundary, also after an EARLIER opener straddled the 16K refill with S spare
    #          characters.  Padding is white space inside start tags (ends with a line feed): it is not part of the dump, so every
    #          variant must give exactly the answer of the 5-space variant
    t3e = time.time()
    toks = ["<!--c-->", "<![CDATA[c]]>", "a]]>b", "<?pi d?>", "\r\nq", "<![CDATA[]]]]>", "<!-- - -->"]
    llines = []
    lgroups = []

    def lw_doc(p1, tok1, p2, tok2):
        return spec_of([b"<r", (b" ", p1), b"\n>" + tok1.encode() + b"<e", (b" ", p2), b"\n/>" + tok2.encode() + b"t</r>"])
    combos = []
    for S in (1, 2, 3, 5):
        for ti, tok2 in enumerate(toks):
            tok1 = toks[(ti + S) % 2]
            start1 = CBd - S
            p1 = start1 - 4
            for d in range(-10, 7):
                start2 = RBd + d
                p2 = start2 - (start1 + len(tok1) + 2) - 3
                combos.append((tok1, tok2, p1, p2))
    for ti, tok2 in enumerate(toks):
        for T in (CBd, 2 * CBd):
            for d in range(-6, 7):
                p1 = 5
                tok1 = "<!--c-->"
                p2 = T + d - (2 + p1 + 2 + len(tok1) + 2) - 3
                combos.append((tok1, tok2, p1, p2))
    if not thorough_:
        ctx.rng.shuffle(combos)
        combos = combos[:330]
    base_cache = {}
    for k, (tok1, tok2, p1, p2) in enumerate(combos):
        lw = (0, 1, 1, 0, 100)[k % 5]
        cfgl = "%s1L%d" % ("IWDS"[k % 4], lw)
        key = (tok1, tok2, cfgl)
        if key not in base_cache:
            base_cache[key] = len(llines)
            llines.append("doc %s mem 0 %s" % (cfgl, lw_doc(5, tok1, 5, tok2)))
        im = len(llines)
        llines.append("doc %s mem 0 %s" % (cfgl, lw_doc(p1, tok1, p2, tok2)))
        ic = None
        if k % 5 == 2:
            ic = len(llines)
            llines.append("doc %s chunk %s %s" % (cfgl, ctx.rng.choice(["4096", "1:49152", "49151", "16385"]), lw_doc(p1, tok1, p2, tok2)))
        lgroups.append((key, base_cache[key], im, ic, (p1, p2)))
    rc, lout, lerr = run_bin(xh, llines, env=henv, timeout=900)
    nlw_bad = 0
    if rc != 0 or len(lout) != len(llines):
        ctx.violation("harness-crash", {"what": "document-level harness crashed on the low-water-mark documents", "rc": rc,
                                        "stderr": lerr, "request": llines[len(lout)] if len(lout) < len(llines) else None})
    else:
        for key, ib, im, ic, pads in lgroups:
            ctx.count()
            ctx.distinct((key, pads))
            if lout[im] != lout[ib]:
                nlw_bad += 1
                if nlw_bad <= 4:
                    ctx.violation("alignment-dependence", {"requests": [llines[ib], llines[im]], "template": "lowwater %s" % (key,),
                                                           "padding": pads, "baseline": lout[ib][:400], "padded": lout[im][:400],
                                                           "what": "with this low-water mark the result depends on where the markup falls "
                                                                   "relative to the reader's refill points (white-space padding inside tags)"})
            if ic is not None and lout[ic] != lout[im]:
                nlw_bad += 1
                if nlw_bad <= 4:
                    ctx.violation("chunk-dependence", {"requests": [llines[im], llines[ic]], "one_shot": lout[im][:400], "other": lout[ic][:400],
                                                       "kind": "lowwater", "what": "same document, different read sizes: different dump"})
    ctx.coverage["low_water_alignment"] = {"documents": len(lgroups), "parses": len(llines), "differing": nlw_bad}
    ctx.note("low-water alignment: %d documents, %d parses, %d differing, %.1fs" % (len(lgroups), len(llines), nlw_bad, time.time() - t3e))
    # ---- 3f. element names LONGER than the character buffer with a supplementary character at the buffer end: the end tag is
    #          matched by skippedStringLong, which works through a full buffer; a surrogate pair that does not fit the last
    #          free slot must not be mistaken for "no more input" (finding FC)
    t3f = time.time()
    nlines = []
    nmeta = []
    for codec in ("utf-8", "utf-16-le"):
        for k in [10] + list(range(CBd - 6, CBd + 7)) + list(range(2 * CBd - 3, 2 * CBd + 4)):
            name = "a" * k + "\U00020000" + "b" * 30
            docu = ("\ufeff" if codec != "utf-8" else "") + "<" + name + ' x="1">t<e/></' + name + ">"
            nmeta.append((codec, k))
            nlines.append("doc %s1f mem 0 %s" % ("IWDS"[k % 4], hx(docu.encode(codec))))
    rc, nout, nerr_ = run_bin(xh, nlines, env=henv, timeout=600)
    import re as _re
    fc = ctx.find_known("FC")
    fc_hits = []
    if rc != 0 or len(nout) != len(nlines):
        ctx.violation("harness-crash", {"what": "document-level harness crashed on the long-name documents", "rc": rc, "stderr": nerr_})
    else:
        nn = lambda l: _re.sub(r"a{3,}", "A", l.split(" ", 2)[2]) if len(l.split(" ", 2)) > 2 else l
        base = {}
        for (codec, k), l in zip(nmeta, nout):
            if k == 10:
                base[codec] = nn(l)
        for j, ((codec, k), l) in enumerate(zip(nmeta, nout)):
            ctx.count()
            if nn(l) != base[codec]:
                if fc and k + 2 >= CBd - 1:
                    fc_hits.append((codec, k, l.split()[4][:60]))
                else:
                    ctx.violation("alignment-dependence", {"requests": [nlines[nmeta.index((codec, 10))], nlines[j]], "template": "long-name",
                                                           "padding": k, "baseline": base[codec][:300], "padded": nn(l)[:300],
                                                           "compare": "long-name",
                                                           "what": "a well-formed document whose element name is longer than the character "
                                                                   "buffer is rejected / reported differently depending on where a "
                                                                   "supplementary character of the name falls"})
    if fc_hits:
        ctx.known_finding("FC", "element name of kCharBufSize-1 (or 2*kCharBufSize-1) characters followed by a supplementary character: the "
                          "well-formed document is rejected (%s); %d of %d long-name documents" % (fc_hits[0][2], len(fc_hits), len(nlines)))
    ctx.coverage["long_names"] = {"documents": len(nlines), "known_FC_hits": len(fc_hits)}
    ctx.note("long names: %d documents, %d in known class FC, %.1fs" % (len(nlines), len(fc_hits), time.time() - t3f))
    ctx.coverage["document_level"] = {"documents": len(groups), "parses": len(dlines) + nstdin, "documents_with_errors": nerr,
                                      "violations": dviol, "stdin_parses": nstdin, "kinds": dk}
    ctx.note("document-level: %d documents, %d parses, %d differing, %.1fs" % (len(groups), len(dlines) + nstdin, dviol,
                                                                              time.time() - t2))
    ctx.coverage["input_distribution"] = kinds
    ctx.coverage["answers"] = {"with_exception": sum(1 for i in bulk if "!" in impl[i]), "total": len(bulk)}
    if proof_broken and not ctx.violations:
        ctx.violation("obligation", {"what": "Coq obligation no longer checks and no failing input was found by the "
                                     "correspondence sweeps", "failed": failed, "output": out[-3000:]}, no_input=True)
    ctx.coverage["rule"] = (
        "reader level: 21 constructs (line ends, multi-byte and supplementary characters, names, markup openers, lone "
        "surrogates) x 4 encodings slid over offsets -3..+3 around kCharBufSize, 2*kCharBufSize, kRawBufSize, the low-water "
        "mark and the start (constants regenerated from XMLReader.hpp), x 8 chunkings x 7 operation scripts, plus random "
        "small byte strings incl. ill-formed ones and long surrogate-pair runs; document level: 22 constructs x 4 encodings "
        "x 3 boundaries x 7 offsets (seeded subset in quick), each parsed one-shot from memory and through 3-8 chunkings "
        "(1 byte at a time, random sizes, split just before the end), LocalFileInputSource and StdInInputSource, plus external "
        "DTD subsets / external general entities carrying the construct and served through the same chunkings; 14 reference templates (general entity references, internal "
        "and external, in content and in attribute values; character references; parameter-entity references inside "
        "<!ATTLIST, inside a content model, inside an entity value and between declarations) in the document entity, an "
        "external DTD subset and an external parameter entity, padded so that '&'/'%', the name and the ';' each fall on "
        "offsets -3..+3 around kCharBufSize and 2*kCharBufSize characters of the CONTAINING entity -- the dump must be equal "
        "to the 5-character-padding variant (padding runs collapsed; padding ends with a line feed) and to a chunked parse; "
        "a case is "
        "non-trivial when it raises an exception, returns a negative answer or normalises a line end; distinct by request")
    ctx.coverage["exhaustive"] = False
